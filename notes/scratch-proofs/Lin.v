From Coq Require Import ZArith List Lia.
Import ListNotations. Local Open Scope Z_scope.

Definition dim := (Z * Z)%type.
Definition size (d:dim) := snd d - fst d + 1.
Definition valid (i:Z) (d:dim) := fst d <= i <= snd d.

(* mirrors Array::getElement: realIndex += (index[i]-lb) * prevSize; prevSize *= size *)
Fixpoint linear (idxs : list Z) (dims : list dim) (prev acc : Z) : Z :=
  match idxs, dims with
  | i :: is, d :: ds => linear is ds (prev * size d) (acc + (i - fst d) * prev)
  | _, _ => acc
  end.

Fixpoint total (dims : list dim) : Z :=
  match dims with [] => 1 | d :: ds => size d * total ds end.

Fixpoint lin (idxs : list Z) (dims : list dim) : Z :=
  match idxs, dims with
  | i :: is, d :: ds => (i - fst d) + size d * lin is ds
  | _, _ => 0
  end.

Lemma linear_lin : forall idxs dims prev acc,
  linear idxs dims prev acc = acc + prev * lin idxs dims.
Proof.
  induction idxs as [|i is IH]; intros [|d ds] prev acc; cbn [linear lin]; try lia.
  rewrite IH. ring.
Qed.

Lemma total_pos : forall dims, Forall (fun d => fst d <= snd d) dims -> 0 < total dims.
Proof.
  induction 1 as [|d ds Hd _ IH]; cbn [total]; [lia|]. unfold size. nia.
Qed.

Lemma lin_range : forall idxs dims, Forall2 valid idxs dims -> 0 <= lin idxs dims < total dims.
Proof.
  induction 1 as [|i d is ds Hv _ IH]; cbn [lin total]; [lia|].
  unfold valid, size in *. nia.
Qed.

Lemma lin_inj : forall idxs dims idxs',
  Forall2 valid idxs dims -> Forall2 valid idxs' dims ->
  lin idxs dims = lin idxs' dims -> idxs = idxs'.
Proof.
  intros idxs dims idxs' H; revert idxs'.
  induction H as [|i d is ds Hv Hrest IH]; intros idxs' H' E; inversion H' as [|i' d' is' ds' Hv' Hrest']; subst; [reflexivity|].
  cbn [lin] in E.
  pose proof (lin_range _ _ Hrest) as R1. pose proof (lin_range _ _ Hrest') as R2.
  unfold valid, size in *.
  destruct (Z.div_mod_unique (snd d - fst d + 1) (lin is ds) (lin is' ds) (i - fst d) (i' - fst d)) as [E1 E2]; try lia.
  assert (i = i') by lia. subst. f_equal. apply IH; assumption.
Qed.

Theorem C06_linear_in_range : forall idxs dims, Forall2 valid idxs dims ->
  0 <= linear idxs dims 1 0 < total dims.
Proof. intros. rewrite linear_lin. pose proof (lin_range _ _ H). lia. Qed.

Theorem C06_linear_injective : forall idxs idxs' dims,
  Forall2 valid idxs dims -> Forall2 valid idxs' dims ->
  linear idxs dims 1 0 = linear idxs' dims 1 0 -> idxs = idxs'.
Proof. intros * H H' E. rewrite !linear_lin in E. eapply lin_inj; eauto. lia. Qed.
Print Assumptions C06_linear_injective.
