From Coq Require Import ZArith List Lia Bool.
Import ListNotations. Local Open Scope Z_scope.

(* ---- C18: date key strictly monotone w.r.t. lexicographic (y,m,d) ---- *)
Definition key (y m d : Z) := y * 372 + m * 31 + d.
Definition lex_lt (y1 m1 d1 y2 m2 d2 : Z) :=
  y1 < y2 \/ (y1 = y2 /\ (m1 < m2 \/ (m1 = m2 /\ d1 < d2))).
Theorem C18_key_monotone : forall y1 m1 d1 y2 m2 d2,
  1 <= m1 <= 12 -> 1 <= d1 <= 31 -> 1 <= m2 <= 12 -> 1 <= d2 <= 31 ->
  (key y1 m1 d1 < key y2 m2 d2 <-> lex_lt y1 m1 d1 y2 m2 d2).
Proof. unfold key, lex_lt; intros; lia. Qed.

(* ---- C19: enum arithmetic, code as it is vs. repaired ---- *)
Definition two64 := 2^64.
(* current code: res %= enumSize performed in unsigned long; `if (res < 0)` dead *)
Definition enum_add_cur (i k n : Z) : Z := ((i + k) mod two64) mod n.
Definition enum_add_fix (i k n : Z) : Z := (i + k) mod n.
Example C19_add_cyclic_refuted : exists i k n, 0 <= i < n /\ enum_add_cur i k n <> (i + k) mod n.
Proof. exists 0, (-1), 3. split; [lia|]. vm_compute. discriminate. Qed.
Theorem C19_add_cyclic : forall i k n, 0 < n -> 0 <= enum_add_fix i k n < n /\
  exists q, i + k = q * n + enum_add_fix i k n.
Proof. intros; unfold enum_add_fix; split; [apply Z.mod_pos_bound; lia|].
  exists ((i+k)/n). rewrite Z.mul_comm. apply Z.div_mod. lia. Qed.

(* ---- C03: FOR iteration sequence closed form ---- *)
Fixpoint for_run (fuel : nat) (it stop step : Z) : list Z * Z :=
  match fuel with
  | O => ([], it)
  | S f => if (if step <? 0 then it >=? stop else it <=? stop)
           then let '(l, fin) := for_run f (it + step) stop step in (it :: l, fin)
           else ([], it)
  end.
Definition for_count (start stop step : Z) : Z := Z.max 0 ((stop - start) / step + 1).
Fixpoint seq_from (n : nat) (a step : Z) : list Z :=
  match n with O => [] | S n' => a :: seq_from n' (a + step) step end.
Require Import ZifyBool.
Ltac Zify.zify_post_hook ::= Z.div_mod_to_equations.
Lemma count_zero_neg : forall start stop step, step < 0 -> (stop - start) / step + 1 <= 0 -> start < stop.
Proof. intros. nia. Qed.
Lemma count_zero_pos : forall start stop step, 0 < step -> (stop - start) / step + 1 <= 0 -> stop < start.
Proof. intros. nia. Qed.
Lemma count_pos_neg : forall start stop step, step < 0 -> 0 < (stop - start) / step + 1 -> stop <= start.
Proof. intros. nia. Qed.
Lemma count_pos_pos : forall start stop step, 0 < step -> 0 < (stop - start) / step + 1 -> start <= stop.
Proof. intros. nia. Qed.
Lemma for_run_spec : forall n fuel start stop step, step <> 0 ->
  Z.of_nat n = for_count start stop step -> (n < fuel)%nat ->
  for_run fuel start stop step = (seq_from n start step, start + Z.of_nat n * step).
Proof.
  induction n as [|n IH]; intros fuel start stop step Hs Hn Hf; destruct fuel as [|f]; try lia; cbn [for_run seq_from].
  - unfold for_count in Hn.
    assert (Hle : (stop - start) / step + 1 <= 0) by lia. clear Hn.
    destruct (step <? 0) eqn:E.
    + pose proof (count_zero_neg start stop step ltac:(lia) Hle).
      destruct (start >=? stop) eqn:G; [lia|]. f_equal; lia.
    + pose proof (count_zero_pos start stop step ltac:(lia) Hle).
      destruct (start <=? stop) eqn:G; [lia|]. f_equal; lia.
  - unfold for_count in Hn.
    assert (Hpos : 0 < (stop - start) / step + 1) by lia.
    assert (Hc : (if step <? 0 then start >=? stop else start <=? stop) = true).
    { destruct (step <? 0) eqn:E.
      - pose proof (count_pos_neg start stop step ltac:(lia) Hpos). lia.
      - pose proof (count_pos_pos start stop step ltac:(lia) Hpos). lia. }
    rewrite Hc. rewrite (IH f (start + step) stop step Hs); [f_equal; lia| |lia].
    unfold for_count.
    replace (stop - (start + step)) with ((stop - start) + (-1) * step) by ring.
    rewrite Z.div_add by lia. lia.
Qed.
Print Assumptions for_run_spec.
