From Coq Require Import ZArith List Lia Bool String.
Import ListNotations. Local Open Scope Z_scope.

(* result monad with state, mirroring the planned Base.v *)
Inductive diag := DRuntime (msg:string) | DPedantic (msg:string).
Inductive res (A:Type) := Ok (a:A) | Err (d:diag) | OutOfFuel.
Arguments Ok {A}. Arguments Err {A}. Arguments OutOfFuel {A}.
Definition st := (list Z * list (string * Z))%type.  (* output, store *)
Definition M A := st -> (res A * st).
Definition ret {A} (a:A) : M A := fun s => (Ok a, s).
Definition bind {A B} (m:M A) (f:A -> M B) : M B :=
  fun s => match m s with (Ok a, s') => f a s' | (Err d, s') => (Err d, s') | (OutOfFuel, s') => (OutOfFuel, s') end.
Definition fail {A} (d:diag) : M A := fun s => (Err d, s).
Definition nofuel {A} : M A := fun s => (OutOfFuel, s).
Notation "x <- m ;; f" := (bind m (fun x => f)) (at level 61, m at next level, right associativity).

Inductive expr := EInt (z:Z) | EVar (x:string) | EAdd (a b:expr) | ECast (e:expr).
Inductive stmt := SOut (e:expr) | SAssign (x:string) (e:expr) | SIf (c:expr) (t:list stmt) (elifs : list (expr * list stmt)) (e:list stmt)
                | SWhile (c:expr) (b:list stmt).

Section WithFlag.
Variable ped : bool.
Definition chk (msg:string) : M unit := if ped then fail (DPedantic msg) else ret tt.

Fixpoint lookup (x:string) (l:list (string*Z)) : option Z :=
  match l with [] => None | (y,v)::t => if String.eqb x y then Some v else lookup x t end.
Fixpoint eval (e:expr) : M Z :=
  match e with
  | EInt z => ret z
  | EVar x => fun s => match lookup x (snd s) with Some v => (Ok v, s) | None => (Err (DRuntime "undef"), s) end
  | EAdd a b => x <- eval a ;; y <- eval b ;; ret (x + y)
  | ECast e => _ <- chk "cast" ;; eval e
  end.
Definition output (z:Z) : M unit := fun s => (Ok tt, (fst s ++ [z], snd s)).
Definition assign (x:string) (z:Z) : M unit := fun s =>
  match lookup x (snd s) with
  | Some _ => (Ok tt, (fst s, (x,z)::snd s))
  | None => (_ <- chk "undeclared" ;; (fun s => (Ok tt, (fst s, (x,z)::snd s)))) s
  end.

Fixpoint exec (fuel:nat) (s:stmt) {struct fuel} : M unit :=
  match fuel with O => nofuel | S f =>
  match s with
  | SOut e => v <- eval e ;; output v
  | SAssign x e => v <- eval e ;; assign x v
  | SIf c t elifs e =>
      v <- eval c ;;
      if v =? 0 then
        (fix go (l:list (expr * list stmt)) : M unit :=
           match l with
           | [] => block f e
           | (c', b') :: l' => _ <- chk "elseif" ;; v' <- eval c' ;; if v' =? 0 then go l' else block f b'
           end) elifs
      else block f t
  | SWhile c b => v <- eval c ;; if v =? 0 then ret tt else (_ <- block f b ;; exec f (SWhile c b))
  end end
with block (fuel:nat) (b:list stmt) {struct fuel} : M unit :=
  match fuel with O => nofuel | S f =>
  match b with [] => ret tt | s :: b' => _ <- exec f s ;; block f b' end end.
End WithFlag.

(* the relation: strict run either equals the lax run, or stopped with a pedantic error *)
Definition is_ped {A} (r : res A) := match r with Err (DPedantic _) => True | _ => False end.
Definition R {A} (x y : res A * st) := x = y \/ is_ped (fst x).
Definition RM {A} (m1 m2 : M A) := forall s, R (m1 s) (m2 s).

Lemma RM_refl {A} (m:M A) : RM m m. Proof. intros s; left; reflexivity. Qed.
Lemma RM_bind {A B} (m1 m2:M A) (f1 f2 : A -> M B) :
  RM m1 m2 -> (forall a, RM (f1 a) (f2 a)) -> RM (bind m1 f1) (bind m2 f2).
Proof.
  intros Hm Hf s. unfold bind. destruct (Hm s) as [E|P].
  - rewrite E. destruct (m2 s) as [[a| d|] s']; [apply Hf | left; reflexivity | left; reflexivity].
  - destruct (m1 s) as [[a|d|] s']; cbn in P; try contradiction. destruct d; try contradiction. right; exact I.
Qed.
Lemma RM_chk msg : RM (chk true msg) (chk false msg).
Proof. intros s; right; exact I. Qed.
Lemma RM_if {A} (b:bool) (a1 a2 b1 b2 : M A) : RM a1 a2 -> RM b1 b2 -> RM (if b then a1 else b1) (if b then a2 else b2).
Proof. destruct b; auto. Qed.

Ltac rm := repeat first
  [ apply RM_refl | apply RM_chk | apply RM_bind; [|intros ?] | apply RM_if | assumption ].

Lemma eval_R e : RM (eval true e) (eval false e).
Proof. induction e; cbn [eval]; rm. Qed.
Lemma assign_R x z : RM (assign true x z) (assign false x z).
Proof. intros s; unfold assign. destruct (lookup x (snd s)); [left; reflexivity|]. revert s. change (RM (_ <- chk true "undeclared";; (fun s0 => (Ok tt, (fst s0, (x, z) :: snd s0)))) (_ <- chk false "undeclared";; (fun s0 => (Ok tt, (fst s0, (x, z) :: snd s0))))). rm. Qed.

Lemma exec_block_R : forall fuel, (forall s, RM (exec true fuel s) (exec false fuel s)) /\ (forall b, RM (block true fuel b) (block false fuel b)).
Proof.
  induction fuel as [|f [IHe IHb]]; split; intros x; cbn [exec block]; try apply RM_refl.
  - destruct x; rm; try apply eval_R; try apply assign_R.
    + induction elifs as [|[c' b'] l IHl]; rm; try apply eval_R; auto.
    + apply IHb.
    + apply IHb.
    + apply IHe.
  - destruct x; rm. apply IHe. apply IHb.
Qed.

Theorem C20_only_rejects : forall fuel b s r, block true fuel b s = r -> ~ is_ped (fst r) -> block false fuel b s = r.
Proof. intros fuel b s r E NP. destruct (proj2 (exec_block_R fuel) b s) as [H|H]; subst; [symmetry; exact H | contradiction]. Qed.
Print Assumptions C20_only_rejects.
