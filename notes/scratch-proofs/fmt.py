import random, struct, math
from fractions import Fraction
def decomp(x):
    m,e=math.frexp(x); m=int(m*(1<<53)); e-=53
    return m,e   # x = m*2^e exactly
def rdiv_half_even(num,den):
    q,r=divmod(num,den)
    if 2*r>den or (2*r==den and q%2==1): q+=1
    return q
def fmt_g(x,P):
    if x==0: return '-0' if math.copysign(1,x)<0 else '0'
    s='-' if x<0 else ''; m,e=decomp(abs(x))
    num,den=(m<<e,1) if e>=0 else (m,1<<(-e))
    # k = floor(log10(num/den))
    k=len(str(num))-len(str(den))  # estimate
    while num >= den*10**(k+1) if k+1>=0 else num*10**(-(k+1)) >= den: k+=1
    while (num < den*10**k) if k>=0 else (num*10**(-k) < den): k-=1
    sh=k-P+1
    D = rdiv_half_even(num, den*10**sh) if sh>=0 else rdiv_half_even(num*10**(-sh), den)
    if D==10**P: D//=10; k+=1
    ds=str(D)
    if k<-4 or k>=P:
        mant=ds[0]+('.'+ds[1:]).rstrip('0').rstrip('.')
        return s+mant+'e'+('-' if k<0 else '+')+('%02d'%abs(k))
    if k>=0:
        ip,fp=ds[:k+1],ds[k+1:]
    else:
        ip,fp='0','0'*(-k-1)+ds
    fp=fp.rstrip('0')
    return s+ip+('.'+fp if fp else '')
def fmt_f(x,dec=6):
    s='-' if x<0 or (x==0 and math.copysign(1,x)<0) else ''; 
    if x==0: return s+'0.'+'0'*dec
    m,e=decomp(abs(x)); num,den=(m<<e,1) if e>=0 else (m,1<<(-e))
    D=rdiv_half_even(num*10**dec,den); ds=str(D).rjust(dec+1,'0')
    return s+ds[:-dec]+'.'+ds[-dec:]
rnd=random.Random(1); bad=0; n=0
def rand_double():
    c=rnd.random()
    if c<0.3: return struct.unpack('d',struct.pack('Q',rnd.getrandbits(64)))[0]
    if c<0.6: return rnd.uniform(-1e6,1e6)
    if c<0.8: return round(rnd.uniform(-1000,1000),rnd.randint(0,7))
    return rnd.randint(-10**18,10**18)*10.0**rnd.randint(-30,30)
for _ in range(200000):
    x=rand_double()
    if x!=x or x in (float('inf'),float('-inf')): continue
    n+=1
    for P in (10,17):
        a=fmt_g(x,P); b='%.*g'%(P,x)
        if a!=b: bad+=1; print('G',P,repr(x),a,b) if bad<10 else None
    a=fmt_f(x); b='%f'%x
    if a!=b: bad+=1; print('F',repr(x),a,b) if bad<10 else None
print('checked',n,'bad',bad)
