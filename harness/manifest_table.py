NOTES = ("Every check = (1) the theorems of coq/Properties_<id>.v compile with no axiom (Print Assumptions captured on every run), "
         "(2) /repo is rebuilt from its working tree, (3) the extracted Coq model and the implementation run the same generated "
         "programs / REPL histories and their observations are compared, (4) the property's intrinsic oracle runs on the implementation alone.")
ALL = ['C%02d' % i for i in range(1, 21)]
CHECKS = {
 'C06': dict(text='Theorems: index linearisation is in range and injective for any number of dimensions, get/set laws on the element vector, equal-bounds criterion for whole-array assignment. The executable model containing these definitions is compared with the implementation on REPL histories that write, read back and probe every cell and the surrounding box of 1-, 2- and 3-dimensional shapes with bounds in [-3,4].',
             design_ref='DESIGN.md §3 C06', technique='Coq proof (induction over the dimension list, Z.div_mod_unique) + model/implementation correspondence on exhaustive small shapes',
             note='The theorems are about the Gallina model (Arrays.v as used by Eval.v); the tie to the C++ is the correspondence run. Element lifetime is not modelled.'),
 'C18': dict(text='Theorems: SETDATE and literals yield a date exactly for valid Gregorian triples with the written components; the comparison key is strictly monotone and injective on valid dates; DAYINDEX advances cyclically by one per calendar day and is anchored on two known days.',
             design_ref='DESIGN.md §3 C18', technique='Coq proof (lia with div/mod equations over the civil-day formula) + correspondence on date sweeps',
             note="std::chrono's calendar is modelled (Dates.v), not verified; agreement is checked by sweeping dates through both."),
 'C19': dict(text='Theorem: the enumerated +/- of the code equals (position +/- k) mod n for every INTEGER k, every position and every n > 0, including negative intermediates and 64-bit boundary offsets.',
             design_ref='DESIGN.md §3 C19', technique='Coq proof (truncating remainder vs mathematical mod) + correspondence on exhaustive small enumerations',
             note='Store-channel type checks are covered by correspondence of whole programs.'),
}
NOT_APPLICABLE = [dict(property_id=p, reason='check under construction in this build round; will be claimed when its theorems and generators exist') for p in ALL if p not in CHECKS]
