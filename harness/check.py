#!/usr/bin/env python3
"""check.py <id> --tier quick|thorough [--replay path]
Decides one property: (1) proof obligations of coq/Properties_<id>.v, (2) implementation rebuilt
from /repo's working tree, (3) correspondence model vs implementation on generated cases,
(4) the property's intrinsic oracles on the implementation.  Writes evidence/<id>.json."""
import argparse, importlib, json, os, random, re, subprocess, sys, time, hashlib, traceback
sys.path.insert(0, os.path.dirname(os.path.abspath(__file__)))
import pe2, gen2
from pe2 import Case, VERIF, COQ

FORBIDDEN = re.compile(r'\b(Admitted|admit|Axiom|Axioms|Parameter|Parameters|Conjecture|Hypothesis|Variable[s]?\s+\w+\s*:.*\bProp\b)|Unset\s+Guard|bypass_check|-type-in-type|Admit Obligations')
OUT = os.environ.get('PE2_OUT', VERIF)   # where evidence/ and replays/ are written (seeded-change runs use a scratch directory)
ALLOWED_AXIOMS = set()     # no axiom is used by any property theorem; extend deliberately if that changes

def load_known():
    p = os.path.join(VERIF, 'known_findings.json')
    if not os.path.exists(p):
        return []
    return json.load(open(p)).get('findings', [])

def scan_forbidden():
    hits = []
    for f in sorted(os.listdir(COQ)):
        if not f.endswith('.v'):
            continue
        txt = open(os.path.join(COQ, f)).read()
        txt_nc = re.sub(r'\(\*.*?\*\)', '', txt, flags=re.S)
        for i, ln in enumerate(txt_nc.split('\n'), 1):
            m = re.search(r'\b(Admitted|admit|Axiom|Conjecture|Parameter)\b|Unset\s+Guard|bypass_check|Admit Obligations', ln)
            if m:
                hits.append('%s:%d: %s' % (f, i, ln.strip()[:120]))
            m2 = re.match(r'\s*(Hypothesis|Variable|Variables|Hypotheses)\b', ln)
            if m2 and not in_section(txt_nc, i):
                hits.append('%s:%d: %s outside a section' % (f, i, m2.group(1)))
    return hits

def in_section(txt, lineno):
    depth = 0
    for i, ln in enumerate(txt.split('\n'), 1):
        if i >= lineno:
            break
        if re.match(r'\s*Section\s+\w+', ln):
            depth += 1
        elif re.match(r'\s*End\s+\w+\s*\.', ln) and depth > 0:
            depth -= 1
    return depth > 0

def proof_obligations(pid, tier):
    """returns dict(obligations, discharged, theorems, problems, axioms, log)"""
    res = dict(obligations=0, discharged=0, theorems=[], problems=[], axioms={}, checker_cmd='')
    src = os.path.join(COQ, 'Properties_%s.v' % pid)
    if not os.path.exists(src):
        res['problems'].append('Properties_%s.v is missing' % pid)
        return res
    txt = open(src).read()
    thms = re.findall(r'^\s*(?:Theorem|Lemma)\s+(\w+)', txt, flags=re.M)
    printed = re.findall(r'^\s*Print Assumptions\s+(\w+)\s*\.', txt, flags=re.M)
    res['theorems'] = thms
    res['obligations'] = len(thms)
    for t in thms:
        if t not in printed:
            res['problems'].append('theorem %s has no Print Assumptions' % t)
    t0 = time.time()
    ok, lg = pe2.build_coq(['Properties_%s.vo' % pid])
    res['checker_cmd'] = 'make -C coq Properties_%s.vo (coq_makefile, full .vo) && coqc -Q coq PE2 coq/Properties_%s.v' % (pid, pid)
    if not ok:
        res['problems'].append('coq build failed: ' + lg[-1500:])
        return res
    r = subprocess.run(['coqc', '-Q', '.', 'PE2', 'Properties_%s.v' % pid], cwd=COQ, capture_output=True, text=True, timeout=900)
    if r.returncode != 0:
        res['problems'].append('coqc failed on Properties_%s.v: %s' % (pid, (r.stdout + r.stderr)[-1500:]))
        return res
    out = r.stdout
    blocks = re.split(r'(?=^Closed under the global context|^Axioms:)', out, flags=re.M)
    blocks = [b for b in blocks if b.startswith('Closed under') or b.startswith('Axioms:')]
    if len(blocks) != len(printed):
        res['problems'].append('expected %d Print Assumptions results, saw %d' % (len(printed), len(blocks)))
    for name, b in zip(printed, blocks):
        if b.startswith('Closed under'):
            res['axioms'][name] = []
        else:
            ax = re.findall(r'^(\S+)\s*:', b[len('Axioms:'):], flags=re.M)
            res['axioms'][name] = ax
            bad = [a for a in ax if a not in ALLOWED_AXIOMS]
            if bad:
                res['problems'].append('theorem %s depends on axioms outside the allowed list: %s' % (name, bad))
    bad_words = scan_forbidden()
    if bad_words:
        res['problems'].append('forbidden vernacular: ' + '; '.join(bad_words[:5]))
    if tier == 'thorough' and not res['problems'] and os.environ.get('PE2_SKIP_COQCHK') != '1':
        try:
            rc = subprocess.run(['coqchk', '-o', '-silent', '-Q', '.', 'PE2', 'PE2.Properties_%s' % pid], cwd=COQ,
                                capture_output=True, text=True, timeout=1500)
            res['coqchk'] = (rc.stdout + rc.stderr)[-1200:]
            if rc.returncode != 0:
                res['problems'].append('coqchk rejected Properties_%s' % pid)
        except subprocess.TimeoutExpired:
            res['coqchk'] = 'timed out (not counted)'
    if not res['problems']:
        res['discharged'] = len(thms)
    res['wall_s'] = round(time.time() - t0, 1)
    return res

def write_replay(pid, case, io, mo, why, extra=None):
    d = os.path.join(OUT, 'replays', pid, case.key())
    os.makedirs(d, exist_ok=True)
    json.dump(case.to_json(), open(os.path.join(d, 'case.json'), 'w'), indent=1)
    if case.mode == 'file':
        open(os.path.join(d, 'prog.pseudo'), 'wb').write(case.program)
    open(os.path.join(d, 'stdin.txt'), 'wb').write(case.stdin)
    rep = dict(property=pid, why=why, implementation=io.summary() if io else None, model=mo.summary() if mo else None,
               rerun='python3 harness/check.py %s --replay %s' % (pid, os.path.relpath(d, OUT)))
    if extra:
        rep.update(extra)
    json.dump(rep, open(os.path.join(d, 'report.json'), 'w'), indent=1)
    return os.path.relpath(d, OUT)

def write_obligation_replay(pid, problems):
    d = os.path.join(OUT, 'replays', pid, 'obligations')
    os.makedirs(d, exist_ok=True)
    json.dump(dict(property=pid, broken_obligations=problems,
                   note='a theorem of coq/Properties_%s.v (or something it depends on) no longer checks; no failing input was found' % pid),
              open(os.path.join(d, 'report.json'), 'w'), indent=1)
    return os.path.relpath(d, OUT)

def matches_known(pid, case, why, known):
    for k in known:
        if k.get('property') != pid or k.get('status') != 'open':
            continue
        m = k.get('match', {})
        if 'program_sha1' in m and hashlib.sha1(case.program + b'|' + case.stdin).hexdigest() == m['program_sha1']:
            return k
        if 'why_regex' in m and re.search(m['why_regex'], why) and ('program_regex' not in m or re.search(m['program_regex'].encode(), case.program + case.stdin)):
            return k
    return None

def main():
    ap = argparse.ArgumentParser()
    ap.add_argument('pid')
    ap.add_argument('--tier', default=os.environ.get('VERIF_TIER', 'quick'))
    ap.add_argument('--replay')
    a = ap.parse_args()
    pid, tier = a.pid, a.tier
    seed = int(os.environ.get('VERIF_SEED', '1'))
    t0 = time.time()
    mod = importlib.import_module('props.' + pid)
    if not a.replay:
        import shutil
        shutil.rmtree(os.path.join(OUT, 'replays', pid), ignore_errors=True)
    known = load_known()
    violations = []      # (replay_path, suffix)
    known_hits = []
    notes = []

    # 1. proof obligations
    po = proof_obligations(pid, tier)
    if po['problems']:
        path = write_obligation_replay(pid, po['problems'])
        violations.append((path, ' no-failing-input-found'))

    # 2. builds
    try:
        exe = pe2.build_impl('normal')
        exe_asan = pe2.build_impl('asan') if getattr(mod, 'NEEDS_ASAN', False) else None
    except RuntimeError as e:
        print('implementation build failed:', str(e)[:2000])
        print('VIOLATION property=%s replay=%s no-failing-input-found' % (pid, write_obligation_replay(pid, ['implementation does not build: ' + str(e)[:500]])))
        sys.exit(1)
    try:
        mexe = pe2.build_model()
    except RuntimeError as e:
        mexe = None
        if not po['problems']:
            path = write_obligation_replay(pid, ['model does not build: ' + str(e)[-800:]])
            violations.append((path, ' no-failing-input-found'))

    # 3/4. cases
    rng = random.Random(seed * 1000003 + sum(ord(c) for c in pid))
    if a.replay:
        cj = json.load(open(os.path.join(VERIF, a.replay, 'case.json')))
        cases = [Case.from_json(cj)]
    else:
        cases = mod.generate(tier, rng)
        import gen2
        extra = gen2.extra(pid, tier, random.Random(seed * 7919 + 13))   # families shared between properties (own random stream)
        for c in extra:
            c.meta['gen2'] = True
        cases += extra
        corpus_dir = os.path.join(VERIF, 'corpus', pid)
        if os.path.isdir(corpus_dir):
            pre = []
            for f in sorted(os.listdir(corpus_dir)):
                if f.endswith('.json'):
                    pre.append(Case.from_json(json.load(open(os.path.join(corpus_dir, f)))))
            cases = pre + cases
    # de-duplicate
    seen = set(); uniq = []
    for c in cases:
        k = c.key() + '|' + str(c.meta.get('gen')) + '|' + str(c.meta.get('pair'))
        if k not in seen:
            seen.add(k); uniq.append(c)
    cases = uniq
    stats = dict(cases=len(cases), agree=0, inconclusive={}, disagreements=0, intrinsic_failures=0, crashes=0,
                 generators={}, modes={}, diag_kinds={})
    ios = pe2.run_impl_many(cases, exe)
    ios_asan = pe2.run_impl_many(cases, exe_asan, timeout=60) if exe_asan else [None] * len(cases)
    mos = [None] * len(cases)
    if mexe and not getattr(mod, 'NO_MODEL', False):
        idx = [i for i, c in enumerate(cases) if not c.meta.get('no_model')]      # cases judged by their own oracle only are not run through the model
        for i, mo in zip(idx, pe2.run_model([cases[i] for i in idx], mexe)):
            mos[i] = mo
    relevant = getattr(mod, 'RELEVANT', ('stdout', 'exit', 'diagkinds', 'files'))
    samples = []
    nontrivial = set()
    for c, io, ia, mo in zip(cases, ios, ios_asan, mos):
        g = c.meta.get('gen', '?')
        stats['generators'][g] = stats['generators'].get(g, 0) + 1
        stats['modes'][c.mode + (' pedantic' if c.pedantic else '')] = stats['modes'].get(c.mode + (' pedantic' if c.pedantic else ''), 0) + 1
        for dg in io.diags:
            stats['diag_kinds'][dg['kind']] = stats['diag_kinds'].get(dg['kind'], 0) + 1
        if len(io.stdout) > 0 or io.diags:
            nontrivial.add(hashlib.sha1(io.stdout + repr(io.diags).encode()).hexdigest())
        if len(samples) < 3 and c.meta.get('sample', True):
            samples.append(dict(generator=g, mode=c.mode, program=(c.program or c.stdin).decode('latin-1')[:600]))
        fails = []
        # crash oracle applies to every case of every property
        for tag, o in (('normal', io), ('asan', ia)):
            if o is None:
                continue
            cr = pe2.crashed(o)
            if cr and not c.meta.get('crash_ok'):
                fails.append(('crash[%s]: %s' % (tag, cr), o, True))
                stats['crashes'] += 1
        # intrinsic oracle
        if hasattr(mod, 'intrinsic'):
            try:
                # the property's own oracle reads the meta data of its own generators; the shared families carry their own expectations
                why = gen2.intrinsic(c, io) if c.meta.get('gen2') else mod.intrinsic(c, io, ia)
            except Exception as e:
                why = 'intrinsic oracle raised %r' % (e,)
            if why:
                fails.append(('intrinsic: ' + why, io, True))
                stats['intrinsic_failures'] += 1
        # correspondence
        if mo is not None and not c.meta.get('no_model'):
            inc = pe2.inconclusive(io, mo)
            if inc:
                stats['inconclusive'][inc] = stats['inconclusive'].get(inc, 0) + 1
            else:
                d_rel = pe2.compare(c, io, mo, fields=c.meta.get('relevant', relevant))
                d_all = pe2.compare(c, io, mo)
                if ia is not None and not pe2.inconclusive(ia, mo):
                    d_rel += [('asan-' + x[0],) + x[1:] for x in pe2.compare(c, ia, mo, fields=c.meta.get('relevant', relevant))]
                if d_rel:
                    fails.append(('model and implementation disagree on the property-relevant observation: ' + repr(d_rel)[:600], io, True))
                    stats['disagreements'] += 1
                elif d_all:
                    fails.append(('model and implementation disagree outside the property-relevant observation: ' + repr(d_all)[:600], io, False))
                    stats['disagreements'] += 1
                else:
                    stats['agree'] += 1
        for why, o, has_input in fails:
            k = matches_known(pid, c, why, known)
            if k:
                known_hits.append(k['what'])
                continue
            path = write_replay(pid, c, o, mo, why)
            violations.append((path, '' if has_input else ' no-failing-input-found'))
    if hasattr(mod, 'extra_checks'):
        for why, c, io in mod.extra_checks(tier, rng, exe, exe_asan, mexe, stats):
            k = matches_known(pid, c, why, known)
            if k:
                known_hits.append(k['what']); continue
            violations.append((write_replay(pid, c, io, None, why), ''))

    # evidence
    wall = round(time.time() - t0, 1)
    ev = dict(property_id=pid, tier=tier if tier in ('quick', 'thorough') else 'quick', seed=seed, level='proof',
              coverage=dict(obligations=max(po['obligations'], 1), discharged=max(po['discharged'], 0) if po['obligations'] else 0,
                            checker_cmd=po.get('checker_cmd') or 'coqc',
                            trusted_base=['Coq 8.16.1 kernel (coqc; coqchk in the thorough tier)',
                                          'axioms per theorem (Print Assumptions): ' + json.dumps(po['axioms']),
                                          'extraction: ExtrOcamlBasic + ExtrOcamlString, OCaml 4.13.1, ocaml/driver.ml',
                                          'correspondence harness harness/pe2.py + generators harness/props/%s.py' % pid,
                                          'g++ build of /repo working tree with -DPSEUDOENGINE2_VERIF, no readline'],
                            theorems=po['theorems'], proof_problems=po['problems'], coqchk=po.get('coqchk'),
                            evaluations=len(cases), distinct_nontrivial=len(nontrivial),
                            rule='cases come from harness/props/%s.py (generators listed in input_distribution); a case is non-trivial when the implementation printed something or raised a diagnostic; distinct = distinct (stdout, diagnostics) observations' % pid,
                            samples=samples or [dict(note='no cases')],
                            input_distribution=stats['generators'], modes=stats['modes'], diagnostic_kinds=stats['diag_kinds'],
                            correspondence=dict(agree=stats['agree'], inconclusive=stats['inconclusive'], disagreements=stats['disagreements']),
                            intrinsic_failures=stats['intrinsic_failures'], crashes=stats['crashes'],
                            known_findings_seen=sorted(set(known_hits)), extra=stats.get('extra', {})),
              assumptions=getattr(mod, 'ASSUMPTIONS', []),
              wall_s=wall, violations=len(violations))
    os.makedirs(os.path.join(OUT, 'evidence'), exist_ok=True)
    json.dump(ev, open(os.path.join(OUT, 'evidence', pid + '.json'), 'w'), indent=1)
    for w in sorted(set(known_hits)):
        print('KNOWN-FINDING: property=%s %s' % (pid, w))
    print('[%s %s] theorems %d/%d, cases %d (agree %d, inconclusive %s, disagree %d), intrinsic failures %d, crashes %d, %.1fs'
          % (pid, tier, po['discharged'], po['obligations'], len(cases), stats['agree'], stats['inconclusive'], stats['disagreements'],
             stats['intrinsic_failures'], stats['crashes'], wall))
    if violations:
        violations.sort(key=lambda v: v[1] != '')      # violations with a failing input first
        seenp = set()
        for path, suffix in violations[:10]:
            if path in seenp:
                continue
            seenp.add(path)
            print('VIOLATION property=%s replay=%s%s' % (pid, path, suffix))
        sys.exit(1)
    sys.exit(0)

if __name__ == '__main__':
    main()
