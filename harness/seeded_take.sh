#!/bin/sh
# seeded_take.sh <name> <agent worktree> <property>: import, confirm in a scratch worktree, run the property's quick check against it
cd "$(dirname "$0")/.."
python3 harness/seeded.py import "$1" "$2" "$3" && python3 harness/seeded.py verify "$1" && python3 harness/seeded.py run "$1" 2>&1 | tail -3
