#!/bin/sh
# runs every quick check sequentially; prints one summary line each
cd "$(dirname "$0")/.."
for i in 01 02 03 04 05 06 07 08 09 10 11 12 13 14 15 16 17 18 19 20; do
  timeout 1500 python3 harness/check.py C$i --tier ${1:-quick} > /tmp/pe2_runall_C$i.log 2>&1; rc=$?
  echo "C$i rc=$rc $(grep -c '^VIOLATION' /tmp/pe2_runall_C$i.log) violations; $(grep '^\[C' /tmp/pe2_runall_C$i.log | tail -1)"
done
