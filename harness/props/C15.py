"""C15 — text files return exactly the lines that were written, and EOF is exact."""
import itertools
from pe2 import Case
import gen
from props.C13 import pstr

RELEVANT = ('stdout', 'exit', 'diagkinds', 'files')
ASSUMPTIONS = ['lines contain no line break (WRITEFILE of a string with an embedded line break writes two lines by definition)']

VALUES = [('STRING', b'plain'), ('STRING', b''), ('STRING', b' lead and trail '), ('STRING', b'#hash'), ('STRING', b'"quoted"'), ('STRING', b'\t tab'),
          ('CHAR', b'c'), ('CHAR', b' '), ('INTEGER', 42), ('INTEGER', -7), ('INTEGER', 9223372036854775807), ('BOOLEAN', True), ('BOOLEAN', False),
          ('DATE', (5, 3, 2021)), ('REAL', '2.5'), ('REAL', '0.1'), ('REAL', '1234.5678'), ('REAL', '100.0'), ('REAL', '0.000001'), ('REAL', '-3.25')]
SMALL = [VALUES[0], VALUES[1], VALUES[3], VALUES[8], VALUES[11], VALUES[14]]

def rand_numeric(rng):
    """numerals across magnitudes and around the 32/53/63-bit boundaries (REAL literals have no exponent form)"""
    k = rng.randint(0, 5)
    if k == 0:
        base = rng.choice([2**31, 2**32, 2**53, 2**63, 10**9, 10**10, 10**15, 3 * 10**9])
        n = base + rng.choice([-1, 0, 1]) if base < 2**63 else base - rng.choice([1, 2, 1025])
        return ('INTEGER', rng.choice([1, -1]) * min(n, 2**63 - 1))
    if k == 1:
        w = rng.choice([2**31, 2**32, 3 * 10**9, 10**10, 2**40, 10**15, 2**53, 10**18, 10**20]) + rng.choice([-1, 0, 1])
        return ('REAL', '%s%d.%s' % (rng.choice(['', '-']), w, rng.choice(['0', '0', '5', '25'])))
    if k == 2:
        return ('REAL', '%s%d.%s' % (rng.choice(['', '-']), rng.randint(0, 10**rng.randint(1, 12)), rng.choice(['0', '5', '125', '000001', '999999'])))
    if k == 3:
        return ('REAL', '0.%s%d' % ('0' * rng.randint(0, 8), rng.randint(1, 999)))
    if k == 4:
        return ('INTEGER', rng.randint(-10**rng.randint(1, 18), 10**rng.randint(1, 18)))
    return ('REAL', '%d.0' % rng.randint(0, 10**rng.randint(1, 15)))

def expr_of(v):
    ty, x = v
    if ty == 'STRING': return pstr(x)
    if ty == 'CHAR': return "'%s'" % x.decode()
    if ty == 'INTEGER': return gen.neg_lit(x) if x >= 0 else '0 - %d' % (-x)
    if ty == 'BOOLEAN': return 'TRUE' if x else 'FALSE'
    if ty == 'DATE': return '%d/%d/%d' % x
    return x if not x.startswith('-') else '0 - ' + x[1:]

def text_of(v):
    ty, x = v
    if ty in ('STRING', 'CHAR'): return x
    if ty == 'INTEGER': return str(x).encode()
    if ty == 'BOOLEAN': return b'TRUE' if x else b'FALSE'
    if ty == 'DATE': return ('%d/%d/%d' % x).encode()
    return None      # REAL: checked numerically

READ_LOOP = ['OPENFILE "f.txt" FOR READ', 'n <- 0', 'WHILE NOT EOF("f.txt")', '  READFILE "f.txt", line', '  n <- n + 1', '  OUTPUT "[", line, "]"', 'ENDWHILE', 'OUTPUT "lines read: ", n', 'CLOSEFILE "f.txt"']

def session_case(sessions, tag):
    L = ['DECLARE line : STRING', 'DECLARE n : INTEGER']
    for si, vals in enumerate(sessions):
        L.append('OPENFILE "f.txt" FOR %s' % ('WRITE' if si == 0 else 'APPEND'))
        for v in vals:
            L.append('WRITEFILE "f.txt", %s' % expr_of(v))
        L.append('CLOSEFILE "f.txt"')
    L += READ_LOOP
    written = [v for s in sessions for v in s]
    return Case(gen.join(L), meta=dict(gen='sessions-' + tag, written=[(t, x.decode('latin-1') if isinstance(x, bytes) else x) for t, x in written], sample=tag == 'random'))

def preexisting_case(content, tag):
    L = ['DECLARE line : STRING', 'DECLARE n : INTEGER'] + READ_LOOP + ['OPENFILE "f.txt" FOR APPEND', 'WRITEFILE "f.txt", "appended"', 'CLOSEFILE "f.txt"'] + READ_LOOP
    return Case(gen.join(L), files={'f.txt': content}, meta=dict(gen='preexisting-' + tag, content=content.decode('latin-1')))

def generate(tier, rng):
    cases = []
    # exhaustive: up to 3 sessions x up to 3 lines over a small alphabet (bounded)
    alph = SMALL if tier == 'thorough' else SMALL[:4]
    maxlines = 2 if tier == 'quick' else 3
    sess_opts = [list(t) for n in range(0, maxlines + 1) for t in itertools.product(alph, repeat=n)]
    combos = []
    for ns in (1, 2, 3):
        combos += list(itertools.product(sess_opts, repeat=ns)) if ns < 3 or tier == 'thorough' else []
    if len(combos) > (400 if tier == 'quick' else 6000):
        combos = rng.sample(combos, 400 if tier == 'quick' else 6000)
    for c in combos:
        cases.append(session_case([list(s) for s in c], 'exhaustive'))
    for k in range(40 if tier == 'quick' else 400):
        sessions = [[rng.choice(VALUES) if rng.random() < 0.5 else rand_numeric(rng) for _ in range(rng.randint(0, 4))] for _ in range(rng.randint(1, 4))]
        cases.append(session_case(sessions, 'random'))
    for content, tag in [(b'', 'empty'), (b'one\n', 'nl'), (b'one', 'nonl'), (b'a\nb\n', 'nl2'), (b'a\nb', 'nonl2'), (b'\n', 'blank'), (b'\n\n', 'blank2'), (b'a\n\n', 'trailing-blank'),
                         (b'  \n#\n', 'odd'), (b'x' * 300 + b'\nshort\n', 'long')]:
        cases.append(preexisting_case(content, tag))
    # WRITE truncates an existing file
    cases.append(Case(gen.join(['DECLARE line : STRING', 'DECLARE n : INTEGER', 'OPENFILE "f.txt" FOR WRITE', 'WRITEFILE "f.txt", "new"', 'CLOSEFILE "f.txt"'] + READ_LOOP),
                      files={'f.txt': b'old1\nold2\nold3\n'}, meta=dict(gen='truncate', written=[('STRING', 'new')])))
    return cases

def lines_read(out, start=0):
    res = []
    for ln in out[start:]:
        if ln.startswith('lines read: '):
            return res, int(ln.split(': ')[1]), start + len(res) + 1
        res.append(ln)
    return res, None, len(out)

def intrinsic(case, io, ia):
    g = case.meta.get('gen', '')
    out = io.stdout.decode('latin-1').split('\n')
    if g.startswith('sessions-') or g == 'truncate':
        if io.exit != 0: return 'write/read history raised a diagnostic: %r' % io.raw_stderr[:200]
        got, n, _ = lines_read(out)
        written = case.meta['written']
        if n != len(written) or len(got) != len(written):
            return 'wrote %d lines, the reading loop delivered %s (%r)' % (len(written), n, got[:5])
        for (ty, x), ln in zip(written, got):
            inner = ln[1:-1] if ln.startswith('[') and ln.endswith(']') else None
            if inner is None: return 'malformed trace line %r' % ln
            if ty == 'REAL':
                try:
                    txt = inner[:-2] if 'e' in inner and inner.endswith('.0') else inner      # the printer appends ".0" to an exponent form
                    # accurate to 6 decimals, or to the 10 significant digits the REAL printer keeps
                    if abs(float(txt) - float(x)) > 5e-7 + 1e-9 * abs(float(x)): return 'REAL %s was written as %r' % (x, inner)
                except ValueError:
                    return 'REAL %s was written as %r' % (x, inner)
            else:
                want = text_of((ty, x.encode('latin-1') if isinstance(x, str) and ty in ('STRING', 'CHAR') else x)).decode('latin-1')
                if inner != want: return '%s value %r was read back as %r' % (ty, want, inner)
    if g.startswith('preexisting-'):
        content = case.meta['content']
        lines = content.split('\n')
        if lines and lines[-1] == '': lines = lines[:-1]
        got, n, nxt = lines_read(out)
        if n != len(lines) or [l[1:-1] for l in got] != lines:
            return 'file %r: expected lines %r, loop delivered %r' % (content[:40], lines[:5], got[:5])
        got2, n2, _ = lines_read(out, nxt)
        want2 = lines + ['appended'] if (content.endswith('\n') or content == '') else lines[:-1] + [lines[-1] + 'appended']
        if n2 != len(want2) or [l[1:-1] for l in got2] != want2:
            return 'after APPEND: expected %r, got %r' % (want2[:6], got2[:6])
    return None
