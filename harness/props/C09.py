"""C09 — pointers alias exactly their live target; dead or unset pointers are diagnosed."""
from pe2 import Case
import gen

NEEDS_ASAN = True
RELEVANT = ('stdout', 'exit', 'diagkinds')
ASSUMPTIONS = ['object lifetime is checked by requiring the normal build, the sanitizer build and the model to agree']

HDR = ['TYPE IP = ^INTEGER', 'TYPE SP = ^STRING', 'TYPE R', '  DECLARE n : INTEGER', '  DECLARE arr : ARRAY[1:2] OF INTEGER', 'ENDTYPE',
       'TYPE Outer', '  DECLARE inner : R', '  DECLARE k : INTEGER', 'ENDTYPE', 'TYPE RP = ^R', 'TYPE PP = ^IP',
       'DECLARE g : INTEGER', 'DECLARE g2 : INTEGER', 'DECLARE ga : ARRAY[0:2] OF INTEGER', 'DECLARE gr : R', 'DECLARE go : Outer', 'DECLARE gp : IP', 'DECLARE gq : IP',
       'g <- 1', 'g2 <- 2', 'ga[0] <- 10', 'ga[1] <- 11', 'ga[2] <- 12', 'gr.n <- 20', 'gr.arr[2] <- 22', 'go.inner.n <- 30', 'go.k <- 31']

TARGETS = ['g', 'ga[1]', 'gr.n', 'gr.arr[2]', 'go.inner.n', 'go.k', 'ga[g]']

def alias_case(rng, k):
    """p <- ^v : reads and writes through p are v's; copies of p denote the same target"""
    L = list(HDR)
    t = rng.choice(TARGETS)
    L += ['gp <- ^%s' % t, 'OUTPUT gp^', '%s <- 100' % t, 'OUTPUT gp^', 'gp^ <- 200', 'OUTPUT %s' % t, 'gq <- gp', 'gq^ <- gq^ + 1', 'OUTPUT %s, " ", gp^' % t]
    L += ['DECLARE pp : PP', 'pp <- ^gp', 'pp^^ <- 300', 'OUTPUT %s' % t]
    # everything else unchanged
    L += ['OUTPUT g, g2, ga[0], ga[1], ga[2], gr.n, gr.arr[1], gr.arr[2], go.inner.n, go.k']
    # the aliased object is overwritten as a whole
    if t.startswith('ga'):
        L += ['DECLARE gb : ARRAY[0:2] OF INTEGER', 'gb[1] <- 77', 'ga <- gb', 'OUTPUT gp^', 'gp^ <- 5', 'OUTPUT ga[1], gb[1]']
    if t.startswith('gr'):
        L += ['DECLARE gr2 : R', 'gr2.n <- 88', 'gr2.arr[2] <- 89', 'gr <- gr2', 'OUTPUT gp^', 'gp^ <- 6', 'OUTPUT gr.n, gr.arr[2], gr2.n, gr2.arr[2]']
    if t.startswith('go'):
        L += ['DECLARE go2 : Outer', 'go2.inner.n <- 98', 'go2.k <- 99', 'go <- go2', 'OUTPUT gp^', 'gp^ <- 7', 'OUTPUT go.inner.n, go.k, go2.inner.n, go2.k']
    return Case(gen.join(L), meta=dict(gen='alias', sample=k < 1))

SPECIAL = [
 # unset pointer
 'TYPE IP = ^INTEGER\nDECLARE p : IP\nOUTPUT p^\n', 'TYPE IP = ^INTEGER\nDECLARE p : IP\np^ <- 1\n', 'TYPE IP = ^INTEGER\nDECLARE p : IP\nDECLARE q : IP\nq <- p\nOUTPUT q^\n',
 # dead local: caller after return
 'TYPE IP = ^INTEGER\nDECLARE gp : IP\nPROCEDURE f\n  DECLARE loc : INTEGER\n  loc <- 9\n  gp <- ^loc\n  OUTPUT gp^\nENDPROCEDURE\nCALL f\nOUTPUT "back"\nOUTPUT gp^\n',
 # dead local: sibling call that reuses the freed activation's memory
 'TYPE IP = ^INTEGER\nDECLARE gp : IP\nPROCEDURE f\n  DECLARE loc : INTEGER\n  loc <- 9\n  gp <- ^loc\nENDPROCEDURE\nPROCEDURE g\n  DECLARE other : INTEGER\n  other <- 5\n  OUTPUT gp^\nENDPROCEDURE\nCALL f\nCALL g\n',
 'TYPE IP = ^INTEGER\nDECLARE gp : IP\nPROCEDURE f\n  DECLARE loc : INTEGER\n  loc <- 9\n  gp <- ^loc\nENDPROCEDURE\nPROCEDURE g\n  DECLARE other : INTEGER\n  other <- 5\n  gp^ <- 123\n  OUTPUT other\nENDPROCEDURE\nCALL f\nCALL g\n',
 # deeper recursion, then dereference in a fresh activation
 'TYPE IP = ^INTEGER\nDECLARE gp : IP\nPROCEDURE rec(n : INTEGER)\n  DECLARE loc : INTEGER\n  loc <- n\n  IF n = 3 THEN\n    gp <- ^loc\n  ENDIF\n  IF n > 0 THEN\n    CALL rec(n - 1)\n  ENDIF\n  IF n >= 3 THEN\n    OUTPUT n, " ", gp^\n  ENDIF\nENDPROCEDURE\nCALL rec(5)\nCALL rec(2)\nOUTPUT gp^\n',
 # callee may dereference a pointer to the caller's local (still live)
 'TYPE IP = ^INTEGER\nPROCEDURE use(p : IP)\n  OUTPUT p^\n  p^ <- p^ + 1\nENDPROCEDURE\nPROCEDURE owner\n  DECLARE loc : INTEGER\n  DECLARE lp : IP\n  loc <- 40\n  lp <- ^loc\n  CALL use(lp)\n  OUTPUT loc\nENDPROCEDURE\nCALL owner\n',
 # pointer returned from a function to its own local / parameter
 'TYPE IP = ^INTEGER\nFUNCTION mk() RETURNS IP\n  DECLARE loc : INTEGER\n  DECLARE p : IP\n  loc <- 3\n  p <- ^loc\n  RETURN p\nENDFUNCTION\nDECLARE q : IP\nq <- mk()\nOUTPUT "got"\nOUTPUT q^\n',
 'TYPE IP = ^INTEGER\nFUNCTION mk(BYVAL v : INTEGER) RETURNS IP\n  DECLARE p : IP\n  p <- ^v\n  RETURN p\nENDFUNCTION\nDECLARE q : IP\nq <- mk(8)\nOUTPUT q^\n',
 # pointer to a BYREF parameter denotes the caller's variable and outlives the callee
 'TYPE IP = ^INTEGER\nDECLARE gp : IP\nDECLARE g : INTEGER\nPROCEDURE keep(BYREF x : INTEGER)\n  gp <- ^x\nENDPROCEDURE\nPROCEDURE other(BYVAL a : INTEGER, BYVAL b : INTEGER)\n  gp^ <- 5\n  OUTPUT a, " ", b\nENDPROCEDURE\ng <- 2\nCALL keep(g)\nOUTPUT gp^\nCALL other(100, 200)\nOUTPUT g, " ", gp^\n',
 'TYPE IP = ^INTEGER\nDECLARE gp : IP\nDECLARE arr : ARRAY[1:3] OF INTEGER\nPROCEDURE keep(BYREF x : INTEGER)\n  gp <- ^x\nENDPROCEDURE\narr[2] <- 4\nCALL keep(arr[2])\ngp^ <- gp^ * 10\nOUTPUT arr[1], arr[2], arr[3]\n',
 'TYPE IP = ^INTEGER\nDECLARE gp : IP\nPROCEDURE keep(BYREF x : INTEGER)\n  gp <- ^x\nENDPROCEDURE\nPROCEDURE mid\n  DECLARE loc : INTEGER\n  loc <- 6\n  CALL keep(loc)\n  OUTPUT gp^\nENDPROCEDURE\nCALL mid\nOUTPUT gp^\n',
 # pointer into a local array copied to a global array, then taken again from the global
 'TYPE IP = ^INTEGER\nDECLARE g : ARRAY[1:2] OF INTEGER\nDECLARE p : IP\nPROCEDURE fillg\n  DECLARE loc : ARRAY[1:2] OF INTEGER\n  loc[1] <- 5\n  g <- loc\nENDPROCEDURE\nCALL fillg\np <- ^g[1]\nOUTPUT p^\n',
 # type checks
 'TYPE IP = ^INTEGER\nDECLARE p : IP\nDECLARE s : STRING\np <- ^s\n', 'TYPE IP = ^INTEGER\nDECLARE p : IP\nDECLARE r : REAL\np <- ^r\n', 'TYPE IP = ^INTEGER\nDECLARE i : INTEGER\nDECLARE j : INTEGER\ni <- ^j\n',
 'TYPE IP = ^INTEGER\nDECLARE p : IP\nDECLARE a : ARRAY[1:2] OF INTEGER\np <- ^a\n', 'TYPE IP = ^INTEGER\nTYPE SP = ^STRING\nDECLARE p : IP\nDECLARE q : SP\np <- q\n', 'DECLARE i : INTEGER\nOUTPUT i^\n',
 'TYPE IP = ^INTEGER\nDECLARE p : IP\np <- ^nothing\n', 'TYPE IP = ^Nothing\n', 'TYPE IP = ^INTEGER\nDECLARE p : IP\nDECLARE i : INTEGER\np <- ^i\nOUTPUT p\nOUTPUT p^^\n',
 # REPL echo of pointers
]

REPL_SPECIAL = [
 'TYPE IP = ^INTEGER\nDECLARE p : IP\np\nDECLARE i : INTEGER\np <- ^i\np\np^\nPROCEDURE f\n  DECLARE loc : INTEGER\n  p <- ^loc\n  p\nENDPROCEDURE\n\nCALL f\np\np^\ni\n',
]

def lifetime_case(rng, k):
    """random activation patterns around one global pointer"""
    L = ['TYPE IP = ^INTEGER', 'DECLARE gp : IP', 'DECLARE gq : IP', 'DECLARE g : INTEGER', 'g <- 1', 'gq <- ^g']
    # pointer COPIES in every liveness state: into a pointer that holds a live local of the running activation, from a
    # pointer left behind by a returned one (whose storage the running activation may have been given), and back
    L += ['PROCEDURE sibling(n : INTEGER)', '  DECLARE y : INTEGER', '  y <- n', '  gq <- ^y', '  OUTPUT "sib ", gq^', '  gq <- gp', '  OUTPUT "sib copy ", gq^',
          '  gq^ <- gq^ + 100', '  OUTPUT "y ", y', 'ENDPROCEDURE',
          'PROCEDURE sibling2(n : INTEGER)', '  DECLARE y : INTEGER', '  y <- n', '  gq <- ^y', '  gp <- gq', '  OUTPUT "sib2 ", gp^', 'ENDPROCEDURE',
          'PROCEDURE viaparam(BYVAL p : IP)', '  DECLARE z : INTEGER', '  z <- 77', '  OUTPUT "via ", p^', 'ENDPROCEDURE',
          'FUNCTION retptr(n : INTEGER) RETURNS IP', '  DECLARE w : INTEGER', '  DECLARE lp : IP', '  w <- n', '  lp <- ^w', '  IF n > 5 THEN', '    lp <- gp', '  ENDIF', '  RETURN lp', 'ENDFUNCTION']
    L += ['PROCEDURE setlocal(n : INTEGER)', '  DECLARE loc : INTEGER', '  loc <- n', '  gp <- ^loc', '  OUTPUT "set ", gp^', 'ENDPROCEDURE',
          'PROCEDURE setglobal', '  gp <- ^g', 'ENDPROCEDURE',
          'PROCEDURE setparam(BYVAL v : INTEGER)', '  gp <- ^v', '  OUTPUT "param ", gp^', 'ENDPROCEDURE',
          'PROCEDURE setref(BYREF v : INTEGER)', '  gp <- ^v', 'ENDPROCEDURE',
          'PROCEDURE useit(pad : INTEGER)', '  DECLARE filler : INTEGER', '  filler <- pad', '  OUTPUT "use ", gp^', '  gp^ <- gp^ + 1', 'ENDPROCEDURE',
          'PROCEDURE nested(d : INTEGER)', '  DECLARE mine : INTEGER', '  mine <- d * 7', '  IF d = 0 THEN', '    CALL useit(1)', '  ELSE', '    CALL nested(d - 1)', '  ENDIF', 'ENDPROCEDURE']
    for _ in range(rng.randint(2, 7)):
        L.append(rng.choice(['CALL setlocal(%d)' % rng.randint(1, 9), 'CALL setglobal', 'CALL setparam(%d)' % rng.randint(1, 9), 'CALL setref(g)', 'CALL useit(3)', 'CALL nested(%d)' % rng.randint(0, 3),
                             'OUTPUT gp^', 'gp^ <- 50', 'OUTPUT g', 'CALL sibling(%d)' % rng.randint(1, 9), 'CALL sibling2(%d)' % rng.randint(1, 9), 'CALL viaparam(gp)', 'CALL viaparam(gq)',
                             'gq <- gp', 'gp <- gq', 'OUTPUT gq^', 'gq^ <- 60', 'gq <- retptr(%d)' % rng.randint(1, 9), 'gp <- retptr(%d)' % rng.randint(1, 9)]))
    return Case(gen.join(L), meta=dict(gen='lifetime', sample=k < 1))

def generate(tier, rng):
    cases = [Case(s.encode(), meta=dict(gen='special')) for s in SPECIAL]
    cases += [Case(mode='repl', stdin=s.encode(), meta=dict(gen='special-repl')) for s in REPL_SPECIAL]
    for k in range(40 if tier == 'quick' else 300):
        cases.append(alias_case(rng, k))
    for k in range(120 if tier == 'quick' else 1500):
        cases.append(lifetime_case(rng, k))
    for _ in range(25 if tier == 'quick' else 500):      # cross-feature programs (gen.rich_program): every data kind, call mode and file kind mixed
        cases.append(Case(gen.rich_program(rng), limits=dict(steps=30000), stdin=b'typed\n', meta=dict(gen='rich', sample=False)))
    return cases

def intrinsic(case, io, ia):
    if ia is not None and not ia.timeout and not io.timeout and not io.budget and not ia.budget:
        if ia.stdout != io.stdout or ia.exit != io.exit:
            return 'normal and sanitizer builds disagree: %r vs %r' % (io.stdout[-160:], ia.stdout[-160:])
    return None
