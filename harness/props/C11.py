"""C11 — syntax is checked before anything runs, and diagnostics point at the fault."""
import re
from pe2 import Case
import gen
from props import C01, C04

RELEVANT = ('stdout', 'exit', 'diags', 'files')
ASSUMPTIONS = ['positions for faults detected only at end of input may be up to two lines past the last source line',
               'errors raised inside built-in functions have no source position for their innermost frame']

VALID = [
 'OPENFILE "made.txt" FOR WRITE\nWRITEFILE "made.txt", "x"\nCLOSEFILE "made.txt"\nOUTPUT "sentinel"\nINPUT v\nOUTPUT v\nDECLARE a : INTEGER\na <- 5\nIF a > 3 THEN\n  OUTPUT "big"\nELSE\n  OUTPUT "small"\nENDIF\nFOR i <- 1 TO 2\n  OUTPUT i\nNEXT i\n',
 'OUTPUT "sentinel"\nPROCEDURE p(x : INTEGER)\n  OUTPUT x * 2\nENDPROCEDURE\nCALL p(4)\nTYPE T\n  DECLARE f : INTEGER\nENDTYPE\nDECLARE t : T\nt.f <- 1\nCASE OF t.f\n  1 : OUTPUT "one"\n  OTHERWISE : OUTPUT "?"\nENDCASE\nWHILE FALSE DO\n  OUTPUT 1\nENDWHILE\nREPEAT\n  OUTPUT "r"\nUNTIL TRUE\n',
 'OUTPUT "sentinel"\nFUNCTION f(a : INTEGER, b : STRING) RETURNS STRING\n  RETURN b & a\nENDFUNCTION\nOUTPUT f(1, "s")\nCONSTANT K = 3\nDECLARE arr : ARRAY[1:K] OF REAL\narr[2] <- 1 / 2\nOUTPUT arr[2]\nTYPE E = (a1, a2)\nTYPE P = ^INTEGER\n',
]
TOKEN_RE = re.compile(r'"[^"\n]*"|\'[^\'\n]*\'|[A-Za-z_][A-Za-z0-9_]*|\d+(?:\.\d*)?|<-|<=|>=|<>|\n|[^\sA-Za-z0-9]|[ ]+')

def syntax_fault_cases(tier, rng):
    out = []
    progs = VALID + [p.decode('latin-1') for p in C01.corpus_programs() if len(p) < 1500][:10]
    for src in progs:
        # literals with every escape, a comment and a blank line in front: none of them may move a position
        noise = rng.choice(['', 'DECLARE esc : STRING\nesc <- "l1\\nl2\\t\\"q\\" \\\\ end"\n', "DECLARE ech : CHAR\nech <- '\\n'\n// comment line\n\n", 'DECLARE e2 : STRING\ne2 <- "\\n\\n\\n" & "x"   // three escapes\n'])
        src = 'OUTPUT "sentinel-first"\nOPENFILE "sentinel.txt" FOR WRITE\nCLOSEFILE "sentinel.txt"\n' + noise + src
        toks = TOKEN_RE.findall(src)
        idxs = [i for i, t in enumerate(toks) if t.strip(' ') != '']
        chosen = idxs if tier == 'thorough' else rng.sample(idxs, min(len(idxs), 30))
        for i in chosen:
            for op in (['delete', 'dup', 'replace', 'swap'] if tier == 'thorough' else [rng.choice(['delete', 'dup', 'replace', 'swap'])]):
                t = list(toks)
                if op == 'delete': del t[i]
                elif op == 'dup': t.insert(i, t[i] + ' ')
                elif op == 'replace': t[i] = rng.choice(['THEN', ')', 'ENDIF', ',', '==', '?', 'TO', '"', '1..2', 'NEXT'])
                elif op == 'swap':
                    j = i + 1
                    while j < len(t) and t[j].strip(' ') == '': j += 1
                    if j < len(t): t[i], t[j] = t[j], t[i]
                out.append(Case(''.join(t).encode('latin-1'), stdin=b'typed\n', meta=dict(gen='syntax-fault-' + op, nlines=src.count('\n'), sample=len(out) < 1)))
    return out

RUNTIME_FAULTS = ['OUTPUT undefined_name', 'x <- 1 + "s"', 'arr[9] <- 1', 'OUTPUT 1 / 0', 'CLOSEFILE "notopen.txt"', 'OUTPUT LEFT("ab", 5)', 'CALL nosuchproc', 'DECLARE arr : INTEGER',
                  'k <- 5 DIV 0', 'OUTPUT SETDATE(31, 2, 2000)', 'OUTPUT f0(nest(0))']

def runtime_fault_case(rng, depth, fault, pos):
    """fault placed at call depth `depth`; the expected line chain is computed from the layout"""
    L = ['DECLARE arr : ARRAY[1:3] OF INTEGER', 'FUNCTION nest(v : INTEGER) RETURNS INTEGER', '  RETURN v + 1', 'ENDFUNCTION']
    chain = []
    # procedures p<depth> ... p1 ; p_k calls p_{k+1} ; the fault is in the innermost
    for d in range(depth, 0, -1):
        kind = rng.choice(['PROCEDURE', 'FUNCTION'])
        L.append('%s f%d(n : INTEGER)%s' % (kind, d, ' RETURNS INTEGER' if kind == 'FUNCTION' else ''))
        for _ in range(rng.randint(0, 2)):
            L.append(rng.choice(['  OUTPUT "in f%d"' % d, '  OUTPUT "esc\\nline\\t\\"q\\"" & "\\\\"', "  OUTPUT '\\n', '\\''", '  // a comment', '', '  OUTPUT "a" & "\\n" & "b"   // trailing comment']))
        if d == depth:
            L.append('  ' + fault); line = len(L)
        else:
            inner_kind = kinds[d + 1]
            arg = rng.choice(['n', 'n + 1', 'nest(n)', 'nest(nest(2))'])
            L.append(('  CALL f%d(%s)' % (d + 1, arg)) if inner_kind == 'PROCEDURE' else ('  OUTPUT f%d(%s)' % (d + 1, arg))); line = len(L)
        chain_entry = ('f%d' % d, line)
        if kind == 'FUNCTION':
            L += ['  RETURN 0', 'ENDFUNCTION']
        else:
            L.append('ENDPROCEDURE')
        kinds_set(d, kind)
        chain.insert(0, chain_entry) if False else chain.append(chain_entry)
    for _ in range(pos):
        L.append(rng.choice(['OUTPUT "before"', 'OUTPUT "be\\nfore"', "OUTPUT '\\t'", '// comment before', '']))
    if depth == 0:
        L.append(fault); chain = [('Program', len(L))]
    else:
        arg = rng.choice(['1', 'nest(1)', 'nest(nest(1)) + 2'])
        L.append(('CALL f1(%s)' % arg) if kinds[1] == 'PROCEDURE' else ('OUTPUT f1(%s)' % arg))
        chain = chain + [('Program', len(L))]
    L.append('OUTPUT "after"')
    # chain is innermost first
    return Case(gen.join(L), meta=dict(gen='runtime-fault', chain=chain, fault=fault, sample=depth == 2 and pos == 0))

kinds = {}
def kinds_set(d, k):
    kinds[d] = k

def generate(tier, rng):
    cases = syntax_fault_cases(tier, rng)
    for depth in range(0, 5):
        for fault in (RUNTIME_FAULTS if tier == 'thorough' else rng.sample(RUNTIME_FAULTS, 6)):
            for pos in ([0, 1, 3] if tier == 'thorough' else [rng.choice([0, 2])]):
                for rep in range(3 if tier == 'thorough' else 1):
                    kinds.clear()
                    if 'f0(' in fault and depth == 0:
                        continue
                    f = fault.replace('f0(nest(0))', 'nest("x")')
                    cases.append(runtime_fault_case(rng, depth, f, pos))
    # REPL: positions are relative to the entry
    cases.append(Case(mode='repl', stdin=b'OUTPUT 1\nOUTPUT )\nx <- 1 +\nOUTPUT undefined\nIF TRUE THEN\n  OUTPUT 1 / 0\nENDIF\n\nOUTPUT "alive"\n', meta=dict(gen='repl-positions')))
    return cases

def intrinsic(case, io, ia):
    g = case.meta.get('gen', '')
    if g.startswith('syntax-fault'):
        kinds_ = [d['kind'] for d in io.diags]
        if 'syntax' in kinds_:
            out = C10strip(io.stdout)
            if out.strip(b'\n') != b'':
                return 'a program with a syntax error produced output: %r' % out[:100]
            if io.files:
                return 'a program with a syntax error created or changed files: %s' % sorted(io.files)
            if len(io.diags) != 1 or io.exit != 1:
                return 'expected exactly one Syntax Error and exit status 1, got %s / %s' % (kinds_, io.exit)
            d = io.diags[0]
            if d['line'] is None or d['line'] < 1 or d['line'] > case.meta['nlines'] + 3 + 2:
                return 'diagnostic line %s is outside the source (%d lines)' % (d['line'], case.meta['nlines'] + 3)
    if g == 'runtime-fault':
        if not io.diags or io.diags[-1]['kind'] != 'runtime':
            return None
        tr = io.diags[-1]['trace']
        want = case.meta['chain']
        got = [(n, l) for (n, l, c) in tr]
        # built-in frames have no position: drop leading frames whose line is 0
        while got and got[0][1] == 0:
            got = got[1:]
        want_l = [tuple(x) for x in want]
        # a fault inside the argument of the call is raised in the caller's frame
        if got != want_l and got != want_l[1:] and not (len(got) >= 1 and got[-len(want_l):] == want_l):
            return 'traceback %s, expected the chain %s' % (got, want_l)
    return None

def C10strip(out):
    return re.sub(rb'^Warning on line \d+ column \d+: [^\n]*\n', b'', out, flags=re.M)
