"""C04 — calls: BYVAL isolates, BYREF aliases, locals belong to one activation."""
from pe2 import Case
import gen

NEEDS_ASAN = True
RELEVANT = ('stdout', 'exit', 'diagkinds')
ASSUMPTIONS = ['lifetime of aliased storage is checked by the sanitizer build only']

TY = ['INTEGER', 'REAL', 'BOOLEAN', 'CHAR', 'STRING', 'DATE']

def dump_state(names_by_type):
    out = []
    for t, ns in names_by_type.items():
        for n in ns:
            out.append('OUTPUT "%s=", %s' % (n, n))
    return out

def mode_lists(rng):
    """parameter list text with explicit, inherited and changing modes and grouped types"""
    n = rng.randint(1, 5)
    params = []; txt = []; mode = False
    i = 0
    while i < n:
        group = rng.randint(1, min(2, n - i))
        ty = rng.choice(['INTEGER', 'STRING', 'REAL'])
        names = ['p%d' % (i + k) for k in range(group)]
        parts = []
        for nm in names:
            kw = rng.choice(['', '', 'BYREF ', 'BYVAL '])
            if kw == 'BYREF ': mode = True
            elif kw == 'BYVAL ': mode = False
            parts.append(kw + nm)
            params.append((nm, ty, mode))
        txt.append(', '.join(parts) + ' : ' + ty)
        i += group
    return ', '.join(txt), params

def sticky_case(rng, k):
    ptxt, params = mode_lists(rng)
    val = {'INTEGER': lambda j: str(10 + j), 'STRING': lambda j: '"s%d"' % j, 'REAL': lambda j: '%d.5' % j}
    new = {'INTEGER': lambda v: '%s + 100' % v, 'STRING': lambda v: '%s & "!"' % v, 'REAL': lambda v: '%s * 2' % v}
    lines = []
    for j, (nm, ty, _) in enumerate(params):
        lines += ['DECLARE g%d : %s' % (j, ty), 'g%d <- %s' % (j, val[ty](j))]
    kind = rng.choice(['PROCEDURE', 'FUNCTION'])
    if kind == 'PROCEDURE':
        lines.append('PROCEDURE q(%s)' % ptxt)
    else:
        lines.append('FUNCTION q(%s) RETURNS INTEGER' % ptxt)
    for nm, ty, _ in params:
        lines.append('  %s <- %s' % (nm, new[ty](nm)))
        lines.append('  OUTPUT "in %s=", %s' % (nm, nm))
    if kind == 'FUNCTION':
        lines += ['  RETURN 7', 'ENDFUNCTION', 'OUTPUT q(%s)' % ', '.join('g%d' % j for j in range(len(params)))]
    else:
        lines += ['ENDPROCEDURE', 'CALL q(%s)' % ', '.join('g%d' % j for j in range(len(params)))]
    for j in range(len(params)):
        lines.append('OUTPUT "g%d=", g%d' % (j, j))
    exp = [(j, byref) for j, (_, _, byref) in enumerate(params)]
    return Case(gen.join(lines), meta=dict(gen='sticky-modes', sample=k < 2))

SPECIAL = [
 # recursion: every activation has its own locals
 'FUNCTION fact(n : INTEGER) RETURNS INTEGER\n  DECLARE loc : INTEGER\n  loc <- n\n  IF n <= 1 THEN\n    RETURN 1\n  ENDIF\n  DECLARE r : INTEGER\n  r <- fact(n - 1)\n  OUTPUT "n=", n, " loc=", loc\n  RETURN n * r\nENDFUNCTION\nOUTPUT fact(6)\n',
 'PROCEDURE down(n : INTEGER)\n  DECLARE mine : INTEGER\n  mine <- n * 10\n  IF n > 0 THEN\n    CALL down(n - 1)\n  ENDIF\n  OUTPUT n, " ", mine\nENDPROCEDURE\nCALL down(50)\n',
 'FUNCTION even(n : INTEGER) RETURNS BOOLEAN\n  IF n = 0 THEN\n    RETURN TRUE\n  ENDIF\n  RETURN odd(n - 1)\nENDFUNCTION\nFUNCTION odd(n : INTEGER) RETURNS BOOLEAN\n  IF n = 0 THEN\n    RETURN FALSE\n  ENDIF\n  RETURN even(n - 1)\nENDFUNCTION\nOUTPUT even(40), " ", odd(7), " ", even(7)\n',
 # locals are invisible to other procedures and gone after return; globals visible
 'DECLARE g : INTEGER\ng <- 1\nPROCEDURE inner\n  OUTPUT "inner sees g=", g\n  OUTPUT secret\nENDPROCEDURE\nPROCEDURE outer\n  DECLARE secret : INTEGER\n  secret <- 42\n  g <- g + 1\n  CALL inner\nENDPROCEDURE\nCALL outer\n',
 'PROCEDURE mk\n  DECLARE tmp : INTEGER\n  tmp <- 5\n  implicit <- 6\nENDPROCEDURE\nCALL mk\nOUTPUT tmp\n', 'PROCEDURE mk\n  implicit <- 6\nENDPROCEDURE\nCALL mk\nOUTPUT implicit\n',
 # a local shadows a global; a callee called from there still sees the global
 'DECLARE x : INTEGER\nx <- 1\nPROCEDURE show\n  OUTPUT "show x=", x\n  x <- x + 10\nENDPROCEDURE\nPROCEDURE sh\n  DECLARE x : INTEGER\n  x <- 500\n  CALL show\n  OUTPUT "local x=", x\nENDPROCEDURE\nCALL sh\nOUTPUT "global x=", x\n',
 'DECLARE Total : INTEGER\nTotal <- 100\nFUNCTION ReadCount() RETURNS INTEGER\n  RETURN Count\nENDFUNCTION\nDECLARE Count : INTEGER\nPROCEDURE Add\n  Total <- Total + 1\n  k <- 999\nENDPROCEDURE\nPROCEDURE Worker\n  DECLARE Total : INTEGER\n  DECLARE Count : INTEGER\n  Total <- 5\n  Count <- 42\n  k <- 7\n  CALL Add\n  OUTPUT "Worker.Total=", Total\n  OUTPUT "ReadCount()=", ReadCount()\n  OUTPUT "Worker.k=", k\nENDPROCEDURE\nCALL Worker\nOUTPUT "Total=", Total\n',
 # name declared after its first use in the same activation (resolver cache)
 'DECLARE x : INTEGER\nx <- 1\nPROCEDURE p\n  FOR i <- 1 TO 3\n    OUTPUT x\n    IF i = 1 THEN\n      DECLARE x : INTEGER\n      x <- 5\n    ENDIF\n  NEXT i\nENDPROCEDURE\nCALL p\nCALL p\nOUTPUT x\n',
 # BYREF chains, elements, fields
 'PROCEDURE inc(BYREF a : INTEGER)\n  a <- a + 1\nENDPROCEDURE\nPROCEDURE twice(BYREF b : INTEGER)\n  CALL inc(b)\n  CALL inc(b)\n  OUTPUT "b=", b\nENDPROCEDURE\nDECLARE v : INTEGER\nDECLARE arr : ARRAY[1:3] OF INTEGER\nTYPE R\n  DECLARE f : INTEGER\n  DECLARE inner : ARRAY[0:1] OF INTEGER\nENDTYPE\nDECLARE r : R\nCALL twice(v)\nCALL twice(arr[2])\nCALL twice(r.f)\nCALL twice(r.inner[1])\nOUTPUT v, arr[1], arr[2], arr[3], r.f, r.inner[0], r.inner[1]\n',
 'PROCEDURE sw(BYREF a : INTEGER, b : INTEGER)\n  DECLARE t : INTEGER\n  t <- a\n  a <- b\n  b <- t\nENDPROCEDURE\nDECLARE x : INTEGER\nDECLARE y : INTEGER\nx <- 1\ny <- 2\nCALL sw(x, y)\nOUTPUT x, y\nCALL sw(x, x)\nOUTPUT x\n',
 # BYREF visible immediately in the caller's variable while the callee runs
 'DECLARE g : INTEGER\nPROCEDURE p(BYREF a : INTEGER)\n  a <- 9\n  OUTPUT "g now ", g\n  g <- 11\n  OUTPUT "a now ", a\nENDPROCEDURE\nCALL p(g)\n',
 # BYREF + READFILE / record assignment replacing the payload (lifetime)
 'OPENFILE "t.txt" FOR WRITE\nWRITEFILE "t.txt", "line one"\nCLOSEFILE "t.txt"\nPROCEDURE rd(BYREF s : STRING)\n  OPENFILE "t.txt" FOR READ\n  READFILE "t.txt", s\n  CLOSEFILE "t.txt"\nENDPROCEDURE\nDECLARE mine : STRING\nCALL rd(mine)\nOUTPUT mine\n',
 'TYPE In\n  DECLARE n : INTEGER\nENDTYPE\nTYPE Out\n  DECLARE i : In\n  DECLARE k : INTEGER\nENDTYPE\nDECLARE r1 : Out\nDECLARE r2 : Out\nPROCEDURE q(BYREF x : INTEGER)\n  r1 <- r2\n  OUTPUT x\n  x <- 5\n  OUTPUT x\nENDPROCEDURE\nr2.i.n <- 9\nr1.i.n <- 3\nCALL q(r1.i.n)\nOUTPUT r1.i.n\nCALL q(r1.k)\nOUTPUT r1.k\n',
 # errors
 'PROCEDURE p(a : INTEGER)\nENDPROCEDURE\nCALL p(1, 2)\n', 'PROCEDURE p(a : INTEGER)\nENDPROCEDURE\nCALL p("x")\n', 'PROCEDURE p(a : INTEGER)\nENDPROCEDURE\nCALL p\n',
 'PROCEDURE p(BYREF a : INTEGER)\n  a <- 1\nENDPROCEDURE\nCALL p(5)\n', 'PROCEDURE p(BYREF a : INTEGER)\n  a <- 1\nENDPROCEDURE\nDECLARE x : INTEGER\nCALL p(x + 0)\n', 'PROCEDURE p(BYREF a : REAL)\nENDPROCEDURE\nDECLARE i : INTEGER\nCALL p(i)\n',
 'PROCEDURE p(a : REAL)\n  OUTPUT a\nENDPROCEDURE\nCALL p(3)\n', 'FUNCTION f() RETURNS INTEGER\n  OUTPUT "no return"\nENDFUNCTION\nOUTPUT f()\n', 'RETURN 5\n', 'PROCEDURE p\n  RETURN 1\nENDPROCEDURE\nCALL p\n',
 'FUNCTION f() RETURNS INTEGER\n  RETURN "s"\nENDFUNCTION\nOUTPUT f()\n', 'FUNCTION f() RETURNS REAL\n  RETURN 2\nENDFUNCTION\nOUTPUT f()\n', 'FUNCTION f(x : INTEGER) RETURNS INTEGER\n  IF x > 0 THEN\n    RETURN x\n  ENDIF\n  OUTPUT "fallthrough"\n  RETURN 0 - x\n  OUTPUT "dead"\nENDFUNCTION\nOUTPUT f(3), f(-4)\n',
 'CALL nosuch\n', 'OUTPUT nosuch(1)\n', 'PROCEDURE p\nENDPROCEDURE\nPROCEDURE p\nENDPROCEDURE\n', 'FUNCTION LENGTH(s : STRING) RETURNS INTEGER\n  RETURN 1\nENDFUNCTION\n',
 'PROCEDURE p(a : Nope)\nENDPROCEDURE\n', 'IF TRUE THEN\n  PROCEDURE inner\n  ENDPROCEDURE\nENDIF\n',
 # same call site in many activations
 'DECLARE acc : INTEGER\nPROCEDURE add(BYVAL n : INTEGER, BYREF total : INTEGER)\n  n <- n * 2\n  total <- total + n\nENDPROCEDURE\nFOR i <- 1 TO 5\n  CALL add(i, acc)\n  OUTPUT i, " ", acc\nNEXT i\n',
 'DECLARE a : ARRAY[1:4] OF INTEGER\nFUNCTION nxt(BYREF c : INTEGER) RETURNS INTEGER\n  c <- c + 1\n  RETURN c\nENDFUNCTION\nDECLARE c : INTEGER\nPROCEDURE setel(BYREF e : INTEGER, v : INTEGER)\n  e <- v\nENDPROCEDURE\nCALL setel(a[nxt(c)], 10)\nOUTPUT c, " ", a[1], a[2], a[3], a[4]\n',
]

def random_calls(rng, k):
    pre, env = gen.prelude(rng)
    lines = list(pre)
    nproc = rng.randint(1, 4)
    sigs = []
    for p in range(nproc):
        n = rng.randint(0, 3)
        params = [('a%d' % j, rng.choice(['INTEGER', 'STRING', 'REAL', 'BOOLEAN']), rng.random() < 0.4) for j in range(n)]
        isf = rng.random() < 0.5
        rty = rng.choice(['INTEGER', 'STRING', 'BOOLEAN'])
        ptxt = ', '.join('%s%s : %s' % ('BYREF ' if br else 'BYVAL ', nm, ty) for nm, ty, br in params)
        lines.append(('FUNCTION f%d(%s) RETURNS %s' % (p, ptxt, rty)) if isf else ('PROCEDURE f%d(%s)' % (p, ptxt)))
        lenv = gen.Env({t: list(v) for t, v in env.v.items()})
        for nm, ty, _ in params:
            lenv.v[ty].append(nm)
        lines.append('  DECLARE loc : INTEGER')
        lines.append('  loc <- %s' % gen.expr(rng, 'INTEGER', lenv, 2))
        for nm, ty, br in params:
            lines.append('  %s <- %s' % (nm, gen.expr(rng, ty, lenv, 2)))
        gv = rng.choice(['i1', 'i2', 's1', 'b1'])
        lines.append('  OUTPUT "f%d ", loc, " ", %s' % (p, ', " ", '.join([nm for nm, _, _ in params] + [gv])))
        if sigs and rng.random() < 0.6:
            q, qparams, qf, qr = rng.choice(sigs)
            args = [(lenv.pick(rng, ty) if br else gen.expr(rng, ty, lenv, 1)) for _, ty, br in qparams]
            lines.append(('  OUTPUT f%d(%s)' % (q, ', '.join(args))) if qf else ('  CALL f%d(%s)' % (q, ', '.join(args))))
        if isf:
            lines.append('  RETURN %s' % gen.expr(rng, rty, lenv, 2))
            lines.append('ENDFUNCTION')
        else:
            lines.append('ENDPROCEDURE')
        sigs.append((p, params, isf, rty))
    for _ in range(rng.randint(2, 5)):
        q, qparams, qf, qr = rng.choice(sigs)
        args = [(env.pick(rng, ty) if br else gen.expr(rng, ty, env, 1)) for _, ty, br in qparams]
        call = ('OUTPUT f%d(%s)' % (q, ', '.join(args))) if qf else ('CALL f%d(%s)' % (q, ', '.join(args)))
        if rng.random() < 0.4:
            lines += ['FOR z <- 1 TO 2', '  ' + call, 'NEXT z']
        else:
            lines.append(call)
        lines += dump_state({'x': ['i1', 'i2', 'r1', 's1', 'b1']})
    return Case(gen.join(lines), meta=dict(gen='random-calls', sample=k < 1))

def scope_matrix_case(rng):
    """every statement kind that resolves a NAME as its target (assignment, FOR, INPUT, READFILE, BYREF argument,
    pointer target) x where the name lives (global only, local only, both, nowhere) x activation (procedure, function,
    nested call); values printed inside the activation and after it returns"""
    def use(kind, name, ind):
        if kind == 'assign': return ['%s%s <- %s + 1000' % (ind, name, name) if rng.random() < 0.5 else '%s%s <- 41' % (ind, name)]
        if kind == 'for': return ['%sFOR %s <- 1 TO 3' % (ind, name), '%s  OUTPUT "it ", %s' % (ind, name), '%sNEXT %s' % (ind, name)]
        if kind == 'for-empty': return ['%sFOR %s <- 5 TO 1' % (ind, name), '%s  OUTPUT "never"' % ind, '%sNEXT %s' % (ind, name)]
        if kind == 'input': return ['%sINPUT %s' % (ind, name)]
        if kind == 'byref': return ['%sCALL bump(%s)' % (ind, name)]
        if kind == 'pointer': return ['%sip <- ^%s' % (ind, name), '%sip^ <- ip^ + 7' % ind]
        if kind == 'case': return ['%sCASE OF %s' % (ind, name), '%s    1 : OUTPUT "one"' % ind, '%s    OTHERWISE : OUTPUT "other"' % ind, '%sENDCASE' % ind]
    kinds = ['assign', 'for', 'for-empty', 'input', 'byref', 'pointer', 'case']
    L = ['TYPE IP = ^INTEGER', 'DECLARE ip : IP', 'DECLARE g : INTEGER', 'DECLARE b : INTEGER', 'g <- 100', 'b <- 200',
         'PROCEDURE bump(BYREF z : INTEGER)', '  z <- z + 1', 'ENDPROCEDURE']
    body = ['  DECLARE l : INTEGER', '  DECLARE b : INTEGER', '  l <- 10', '  b <- 20']
    for _ in range(rng.randint(2, 5)):
        k = rng.choice(kinds); nm = rng.choice(['g', 'g', 'l', 'b', 'n' if k in ('assign', 'for', 'for-empty', 'input') else 'g'])
        body += use(k, nm, '  ') + ['  OUTPUT "in ", g, " ", l, " ", b']
    form = rng.choice(['proc', 'func', 'nested'])
    if form == 'proc':
        L += ['PROCEDURE work'] + body + ['ENDPROCEDURE', 'CALL work', 'OUTPUT "after ", g, " ", b', 'CALL work', 'OUTPUT "after2 ", g, " ", b']
    elif form == 'func':
        L += ['FUNCTION work(p : INTEGER) RETURNS INTEGER'] + body + ['  RETURN g + l + b + p', 'ENDFUNCTION', 'OUTPUT work(1)', 'OUTPUT "after ", g, " ", b', 'OUTPUT work(g)']
    else:
        L += ['PROCEDURE work'] + body + ['ENDPROCEDURE', 'PROCEDURE outer', '  DECLARE g : INTEGER', '  g <- 555', '  CALL work', '  OUTPUT "outer ", g', 'ENDPROCEDURE', 'CALL outer', 'OUTPUT "after ", g, " ", b']
    L += use(rng.choice(kinds), rng.choice(['g', 'b']), '') + ['OUTPUT "end ", g, " ", b']
    return Case(gen.join(L), stdin=b'61\n62\n63\n64\n65\n66\n67\n68\n', limits=dict(steps=20000), meta=dict(gen='scope-matrix', sample=False))

def generate(tier, rng):
    cases = [Case(s.encode(), meta=dict(gen='special')) for s in SPECIAL]
    for k in range(60 if tier == 'quick' else 600):
        cases.append(sticky_case(rng, k))
    for k in range(80 if tier == 'quick' else 1000):
        cases.append(random_calls(rng, k))
    for k in range(60 if tier == 'quick' else 800):
        cases.append(scope_matrix_case(rng))
    for _ in range(25 if tier == 'quick' else 500):      # cross-feature programs (gen.rich_program): every data kind, call mode and file kind mixed
        cases.append(Case(gen.rich_program(rng), limits=dict(steps=30000), stdin=b'typed\n', meta=dict(gen='rich', sample=False)))
    return cases

def intrinsic(case, io, ia):
    if ia is not None and not ia.timeout and not io.timeout and not io.budget and not ia.budget:
        if ia.stdout != io.stdout or ia.exit != io.exit:
            return 'normal and sanitizer builds disagree: %r vs %r' % (io.stdout[-200:], ia.stdout[-200:])
    return None
