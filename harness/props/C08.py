"""C08 — a CONSTANT never changes after its definition."""
from pe2 import Case
import gen

RELEVANT = ('stdout', 'exit', 'diagkinds')
ASSUMPTIONS = []

LITS = [('INTEGER', '5'), ('INTEGER', '-5'), ('REAL', '2.5'), ('REAL', '-0.125'), ('BOOLEAN', 'TRUE'), ('CHAR', "'k'"), ('STRING', '"konst"'), ('STRING', '""')]
OTHER = {'INTEGER': '99', 'REAL': '9.75', 'BOOLEAN': 'FALSE', 'CHAR': "'z'", 'STRING': '"changed"'}

def writers(ty):
    """statement forms that write to a named variable c of type ty: (name, setup lines, attempt lines, stdin-after)"""
    o = OTHER[ty]
    W = [('assign', [], ['c <- %s' % o]),
         ('assign-self', [], ['c <- c']),
         ('input', [], ['INPUT c', {'INTEGER': '7', 'REAL': '7.5', 'BOOLEAN': 'FALSE', 'CHAR': 'w', 'STRING': 'typed'}[ty]]),
         ('read-kw', [], ['READ c', 'typed']),
         ('byref', ['PROCEDURE w(BYREF p : %s)' % ty, '  p <- %s' % o, 'ENDPROCEDURE', ''], ['CALL w(c)']),
         ('byref-chain', ['PROCEDURE w2(BYREF q : %s)' % ty, '  q <- %s' % o, 'ENDPROCEDURE', '', 'PROCEDURE w(BYREF p : %s)' % ty, '  CALL w2(p)', 'ENDPROCEDURE', ''], ['CALL w(c)']),
         ('byref-input', ['PROCEDURE w(BYREF p : %s)' % ty, '  INPUT p', 'ENDPROCEDURE', ''], ['CALL w(c)', 'x']),
         # the same channels through FUNCTIONs (called in an OUTPUT list, in an assignment, as a bare expression)
         ('byref-function', ['FUNCTION w(BYREF p : %s) RETURNS INTEGER' % ty, '  p <- %s' % o, '  RETURN 1', 'ENDFUNCTION', ''], ['OUTPUT w(c)']),
         ('byref-function-expr', ['FUNCTION w(BYREF p : %s) RETURNS INTEGER' % ty, '  p <- %s' % o, '  RETURN 1', 'ENDFUNCTION', '', 'DECLARE r : INTEGER'], ['r <- w(c) + 1']),
         ('byref-function-chain', ['PROCEDURE w2(BYREF q : %s)' % ty, '  q <- %s' % o, 'ENDPROCEDURE', '', 'FUNCTION w(BYREF p : %s) RETURNS INTEGER' % ty, '  CALL w2(p)', '  RETURN 1', 'ENDFUNCTION', ''], ['OUTPUT w(c)']),
         ('byref-function-from-procedure', ['FUNCTION w2(BYREF q : %s) RETURNS INTEGER' % ty, '  q <- %s' % o, '  RETURN 1', 'ENDFUNCTION', '', 'PROCEDURE w(BYREF p : %s)' % ty, '  OUTPUT w2(p)', 'ENDPROCEDURE', ''], ['CALL w(c)']),
         ('byref-function-input', ['FUNCTION w(BYREF p : %s) RETURNS INTEGER' % ty, '  INPUT p', '  RETURN 1', 'ENDFUNCTION', ''], ['OUTPUT w(c)', 'x']),
         ('byref-function-second-param', ['FUNCTION w(BYVAL k : INTEGER, BYREF p : %s) RETURNS INTEGER' % ty, '  p <- %s' % o, '  RETURN k', 'ENDFUNCTION', ''], ['OUTPUT w(3, c)']),
         ('in-function', ['FUNCTION w() RETURNS INTEGER', '  c <- %s' % o, '  RETURN 1', 'ENDFUNCTION', ''], ['OUTPUT w()']),
         ('pointer-in-function', ['TYPE P = ^%s' % ty, 'DECLARE p : P', 'p <- ^c', 'FUNCTION w() RETURNS INTEGER', '  p^ <- %s' % o, '  RETURN 1', 'ENDFUNCTION', ''], ['OUTPUT w()']),
         ('pointer', ['TYPE P = ^%s' % ty, 'DECLARE p : P', 'p <- ^c'], ['p^ <- %s' % o]),
         ('pointer-copy', ['TYPE P = ^%s' % ty, 'DECLARE p : P', 'DECLARE q : P', 'p <- ^c', 'q <- p'], ['q^ <- %s' % o]),
         ('pointer-input', ['TYPE P = ^%s' % ty, 'DECLARE p : P', 'p <- ^c'], ['INPUT p^', 'v']),
         ('pointer-in-record', ['TYPE P = ^%s' % ty, 'TYPE H', '  DECLARE ptr : P', 'ENDTYPE', '', 'DECLARE h : H', 'h.ptr <- ^c'], ['h.ptr^ <- %s' % o]),
         ('pointer-in-array', ['TYPE P = ^%s' % ty, 'DECLARE ps : ARRAY[1:2] OF P', 'ps[2] <- ^c'], ['ps[2]^ <- %s' % o]),
         ('pointer-to-pointer', ['TYPE P = ^%s' % ty, 'TYPE PP = ^P', 'DECLARE p : P', 'DECLARE pp : PP', 'p <- ^c', 'pp <- ^p'], ['pp^^ <- %s' % o]),
         ('redeclare', [], ['DECLARE c : %s' % ty]),
         ('redefine', [], ['CONSTANT c = %s' % o]),
         ('getrecord', ['DECLARE v : %s' % ty, 'v <- %s' % o, 'OPENFILE "r.dat" FOR RANDOM', 'PUTRECORD "r.dat", v', 'SEEK "r.dat", 1'], ['GETRECORD "r.dat", c']),
         ('in-procedure', ['PROCEDURE w', '  c <- %s' % o, 'ENDPROCEDURE', ''], ['CALL w']),
         ]
    if ty == 'INTEGER':
        # FOR headers of every shape: non-empty, empty in either direction, single iteration, start equal to the constant
        for nm, hdr in [('for-empty', 'FOR c <- 10 TO 1'), ('for-empty-negstep', 'FOR c <- 1 TO 10 STEP -1'), ('for-single', 'FOR c <- 7 TO 7'),
                        ('for-same-value', 'FOR c <- %s TO %s' % (OTHER[ty], OTHER[ty])), ('for-step', 'FOR c <- 1 TO 9 STEP 4'), ('for-down', 'FOR c <- 3 TO 1 STEP -1'),
                        ('for-empty-var', 'FOR c <- hi TO lo')]:
            W.append((nm, ['DECLARE lo : INTEGER', 'DECLARE hi : INTEGER', 'lo <- 1', 'hi <- 4'], [hdr, '  OUTPUT "body"', 'NEXT c', '']))
            W.append((nm + '-in-proc', ['PROCEDURE w', '  ' + hdr.replace('hi', '4').replace('lo', '1'), '    OUTPUT "body"', '  NEXT c', 'ENDPROCEDURE', ''], ['CALL w']))
        W += [('for', [], ['FOR c <- 1 TO 3', '  OUTPUT "body"', 'NEXT c', '']),
              ('for-in-proc', ['PROCEDURE w', '  FOR c <- 1 TO 2', '    OUTPUT "body"', '  NEXT c', 'ENDPROCEDURE', ''], ['CALL w'])]
    if ty == 'STRING':
        W += [('readfile', ['OPENFILE "t.txt" FOR WRITE', 'WRITEFILE "t.txt", "from file"', 'CLOSEFILE "t.txt"', 'OPENFILE "t.txt" FOR READ'], ['READFILE "t.txt", c']),
              ('readfile-byref', ['OPENFILE "t.txt" FOR WRITE', 'WRITEFILE "t.txt", "from file"', 'CLOSEFILE "t.txt"', 'OPENFILE "t.txt" FOR READ',
                                  'PROCEDURE w(BYREF p : STRING)', '  READFILE "t.txt", p', 'ENDPROCEDURE', ''], ['CALL w(c)'])]
    return W

def case_for(ty, litv, w, mode, op='='):
    name, setup, attempt = w
    hist = ['CONSTANT c %s %s' % (op, litv)] + setup + ['c'] + attempt + ['c', 'c = %s' % litv if ty != 'REAL' else 'c']
    if mode == 'repl':
        return Case(mode='repl', stdin=gen.join(hist), meta=dict(gen='writer-' + name, writer=name, lit=litv, ty=ty, sample=name == 'pointer'))
    # file mode: the attempt ends the program, so read back first and make the attempt last
    prog = ['CONSTANT c %s %s' % (op, litv)] + [s for s in setup if s != ''] + ['OUTPUT "before ", c']
    stdin = []
    for a in attempt:
        if a and (a.split(' ')[0] in ('c', 'INPUT', 'READ', 'CALL', 'OUTPUT', 'r', 'p^', 'q^', 'h.ptr^', 'ps[2]^', 'pp^^', 'DECLARE', 'CONSTANT', 'GETRECORD', 'READFILE', 'FOR', 'NEXT', ' ', '') or a.startswith('  ')):
            prog.append(a)
        elif a:
            stdin.append(a)
    prog += ['OUTPUT "after ", c']
    return Case(gen.join(prog), stdin=gen.join(stdin) if stdin else b'', meta=dict(gen='writer-file-' + name, writer=name, lit=litv, ty=ty, sample=False))

def generate(tier, rng):
    cases = []
    for ty, litv in LITS:
        for w in writers(ty):
            cases.append(case_for(ty, litv, w, 'repl', rng.choice(['=', '<-'])))
            if tier == 'thorough' or rng.random() < 0.4:
                cases.append(case_for(ty, litv, w, 'file'))
    # constants threaded through calls in random programs
    for k in range(30 if tier == 'quick' else 300):
        ty, litv = rng.choice(LITS)
        pre, env = gen.prelude(rng)
        L = ['CONSTANT K = %s' % litv] + pre
        L += ['FUNCTION id(v : %s) RETURNS %s' % (ty, ty), '  v <- %s' % OTHER[ty], '  RETURN K', 'ENDFUNCTION',
              'PROCEDURE show(BYVAL a : %s, BYREF b : %s)' % (ty, ty), '  a <- %s' % OTHER[ty], '  OUTPUT a, " ", b, " ", K', 'ENDPROCEDURE']
        L += ['OUTPUT id(K)', 'CALL show(K, K)', 'OUTPUT K']
        sg = gen.StmtGen(rng, env)
        for _ in range(2):
            L += sg.stmt(2, '', False)
        L = L[:1] + sg.pre + L[1:]
        L += ['OUTPUT K', rng.choice(['K <- %s' % OTHER[ty], 'INPUT K', 'CALL show(K, K)']), 'OUTPUT K']
        cases.append(Case(gen.join(L), stdin=b'zz\n', meta=dict(gen='random-const', sample=False)))
    return cases

def intrinsic(case, io, ia):
    g = case.meta.get('gen', '')
    w = case.meta.get('writer')
    if g.startswith('writer-') and case.mode == 'repl':
        outs = gen.repl_outputs(io.stdout)
        vals = [o for o in outs if o and o != '\n']
        # the first and the last-but-one echo of `c` must be identical, and at least one diagnostic must have been raised
        txt = io.stdout.decode('latin-1')
        first = None; later = []
        lit = case.meta['lit']
        shown = {'INTEGER': lambda l: l, 'REAL': lambda l: l, 'BOOLEAN': lambda l: l, 'CHAR': lambda l: "'" + l[1] + "'", 'STRING': lambda l: l}[case.meta['ty']](lit)
        if case.meta['ty'] == 'REAL':
            shown = lit
        last = outs[-2] if len(outs) >= 2 else ''
        if case.meta['ty'] != 'REAL':
            if not last.endswith('TRUE\n'):
                return 'the constant no longer equals its definition after the %s attempt (last entry printed %r)' % (w, last[-60:])
        else:
            import re as _re
            firsts = [o for o in outs if _re.match(r'^-?\d', o)]
            if len(firsts) >= 2 and firsts[0] != firsts[-1]:
                return 'the REAL constant reads back differently after the %s attempt: %r then %r' % (w, firsts[0], firsts[-1])
        if not io.diags and w not in ('assign-self-noop',):
            return 'the %s attempt on a constant was not reported' % w
    if g.startswith('writer-file-'):
        out = io.stdout.decode('latin-1')
        if 'after ' in out:
            return 'execution continued past the %s attempt without an error' % w
        if io.exit != 1:
            return 'exit status %s' % io.exit
    return None
