"""C02 — expressions evaluate to the documented value and type."""
import itertools
from pe2 import Case
import gen

RELEVANT = ('stdout', 'exit', 'diagkinds')
ASSUMPTIONS = ['REAL results are compared as the exact text both sides print; the model computes them with binary64 spec_float arithmetic']

BINOPS = ['+', '-', '*', '/', 'DIV', 'MOD', '&', '=', '<>', '<', '<=', '>', '>=', 'AND', 'OR']
LEVEL = {'*': 5, '/': 5, 'DIV': 5, 'MOD': 5, '+': 4, '-': 4, '&': 3, '=': 2, '<>': 2, '<': 2, '<=': 2, '>': 2, '>=': 2, 'AND': 1, 'OR': 1}
BOUND = [9223372036854775807, 9223372036854775806, 4611686018427387904, 9007199254740993, 9007199254740992, 4294967296, 2147483648, 3037000500]

def neg(k):
    return '(0 - %d)' % (-k) if k < 0 else str(k)
def neg_min():
    return '(0 - 9223372036854775807 - 1)'

def pair_cases(tier, rng):
    """every ordered pair of binary operators on atoms whose types make both groupings meaningful,
    printed flat and with each explicit grouping"""
    lines = []
    atoms = {'num': ['7', '2', '3'], 'bool': ['TRUE', 'FALSE', 'TRUE'], 'str': ['"a"', '"b"', '"c"']}
    for o1, o2 in itertools.product(BINOPS, BINOPS):
        for a, b, c in [('7', '2', '3'), ('8', '4', '2'), ('2.5', '2', '4'), ('TRUE', 'FALSE', 'TRUE'), ('"x"', '"y"', '"z"'), ('1', '"s"', '2'), ('5', '3', 'TRUE')]:
            lines.append('%s %s %s %s %s' % (a, o1, b, o2, c))
            lines.append('(%s %s %s) %s %s' % (a, o1, b, o2, c))
            lines.append('%s %s (%s %s %s)' % (a, o1, b, o2, c))
    for o in BINOPS:
        lines += ['NOT TRUE %s FALSE' % o if o in ('AND', 'OR', '=', '<>') else 'NOT 1 %s 2 = 3' % o, '-2 %s 3' % o, '- 2 %s -3' % o, '2 %s -3' % o]
    out = []
    for i in range(0, len(lines), 600):
        out.append(Case(mode='repl', stdin=gen.join(lines[i:i + 600]), meta=dict(gen='operator-pairs', sample=i == 0)))
    return out

def divmod_cases(tier, rng):
    vals = list(range(-40, 41)) if tier == 'thorough' else [-40, -13, -7, -3, -2, -1, 0, 1, 2, 3, 5, 7, 12, 40]
    ent = []; exp = []
    pairs = [(a, b) for a in vals for b in vals]
    bnd = BOUND + [-x for x in BOUND] + [1, -1, 2, -2, 3, 7, -7]
    pairs += [(a, b) for a in bnd for b in (bnd if tier == 'thorough' else [1, -1, 2, -2, 3, 7, -7, 9223372036854775807, -9223372036854775807, 4294967296])]
    for a, b in pairs:
        A, B = neg(a), neg(b)
        ent.append('%s DIV %s' % (A, B)); exp.append(('div', a, b))
        ent.append('%s MOD %s' % (A, B)); exp.append(('mod', a, b))
        ent.append('(%s DIV %s) * %s + (%s MOD %s) = %s' % (A, B, B, A, B, A)); exp.append(('law', a, b))
        ent.append('DIV(%s, %s)' % (A, B)); exp.append(('div', a, b))
    for b in [1, -1, 2, -2, 7]:
        ent.append('%s DIV %s' % (neg_min(), neg(b))); exp.append(('div', -2**63, b))
        ent.append('%s MOD %s' % (neg_min(), neg(b))); exp.append(('mod', -2**63, b))
    out = []
    for i in range(0, len(ent), 3000):
        out.append(Case(mode='repl', stdin=gen.join(ent[i:i + 3000]), meta=dict(gen='divmod', expect=exp[i:i + 3000], sample=False)))
    return out

def int_exact_cases(tier, rng):
    ent = []; exp = []
    vals = BOUND + [x + 1 for x in BOUND[2:]] + [3, 7, 1000003, 123456789012345678]
    for a in vals:
        for b in (vals if tier == 'thorough' else rng.sample(vals, 5)):
            for op, f in (('+', lambda x, y: x + y), ('-', lambda x, y: x - y), ('*', lambda x, y: x * y)):
                ent.append('%d %s %d' % (a, op, b)); exp.append(((f(a, b) + 2**63) % 2**64 - 2**63))
    return [Case(mode='repl', stdin=gen.join(ent), meta=dict(gen='int-exact', expect=exp, sample=False))]

TYPED = {'INTEGER': '3', 'REAL': '2.5', 'BOOLEAN': 'TRUE', 'CHAR': "'c'", 'STRING': '"st"', 'DATE': '1/2/2003'}
def acceptance_cases(tier, rng):
    ent = []
    for op in BINOPS:
        for t1, v1 in TYPED.items():
            for t2, v2 in TYPED.items():
                ent.append('%s %s %s' % (v1, op, v2))
    for t, v in TYPED.items():
        ent += ['-%s' % v, 'NOT %s' % v, '%s / 0' % v, '%s DIV 0' % v, '%s MOD 0' % v, '%s / 0.0' % v, '%s MOD 0.0' % v, 'MOD(%s, 0)' % v]
    return [Case(mode='repl', stdin=gen.join(ent), meta=dict(gen='acceptance'))]

def tree_cases(tier, rng):
    out = []
    n = 30 if tier == 'quick' else 300
    for k in range(n):
        pre, env = gen.prelude(rng)
        lines = list(pre)
        for _ in range(12):
            ty = rng.choice(gen.TYPES[:5])
            lines.append('OUTPUT %s' % gen.expr(rng, ty, env, rng.randint(1, 6), redundant=rng.random() < 0.5))
        # one statement per program may fail (zero divisor / type error) and ends it
        if rng.random() < 0.4:
            lines.append('OUTPUT %s' % gen.expr(rng, rng.choice(gen.TYPES[:3]), env, 3, safe=False))
            lines.append('OUTPUT "unreached?"')
        out.append(Case(gen.join(lines), meta=dict(gen='expr-trees', sample=k < 1)))
    # REPL: types show in the echo form
    for k in range(n // 3):
        pre, env = gen.prelude(rng)
        lines = list(pre) + [gen.expr(rng, rng.choice(gen.TYPES[:5]), env, rng.randint(1, 5), redundant=True) for _ in range(25)]
        out.append(Case(mode='repl', stdin=gen.join(lines), meta=dict(gen='expr-trees-repl', sample=False)))
    return out

def generate(tier, rng):
    cases = pair_cases(tier, rng) + divmod_cases(tier, rng) + int_exact_cases(tier, rng) + acceptance_cases(tier, rng) + tree_cases(tier, rng)
    for _ in range(25 if tier == 'quick' else 500):      # cross-feature programs (gen.rich_program): every data kind, call mode and file kind mixed
        cases.append(Case(gen.rich_program(rng), limits=dict(steps=30000), stdin=b'typed\n', meta=dict(gen='rich', sample=False)))
    return cases

def cquot(a, b):
    q = abs(a) // abs(b)
    return q if (a < 0) == (b < 0) else -q

def intrinsic(case, io, ia):
    g = case.meta.get('gen')
    if g == 'divmod':
        outs = gen.repl_outputs(io.stdout)
        for (k, a, b), o in zip(case.meta['expect'], outs):
            if b == 0:
                if o != '\n': return '%s by zero produced %r' % (k, o)
                continue
            if k == 'law':
                if o != 'TRUE\n': return 'a = (a DIV b)*b + (a MOD b) fails for a=%d b=%d: %r' % (a, b, o)
            elif k == 'mod':
                try: v = int(o)
                except ValueError: return 'MOD gave %r for %d, %d' % (o, a, b)
                if abs(v) >= abs(b): return '|a MOD b| < |b| fails for %d, %d: %d' % (a, b, v)
            elif k == 'div' and not (a == -2**63 and b == -1):
                try: v = int(o)
                except ValueError: return 'DIV gave %r for %d, %d' % (o, a, b)
                r = a - v * b
                if abs(r) >= abs(b): return 'DIV is not an integer quotient for %d, %d: %d' % (a, b, v)
    elif g == 'int-exact':
        outs = gen.repl_outputs(io.stdout)
        for e, o in zip(case.meta['expect'], outs):
            if o != '%d\n' % e:
                return 'integer arithmetic is not exact: expected %d got %r' % (e, o)
    return None
