"""C03 — selection and loop statements execute exactly the documented control flow."""
import itertools
from pe2 import Case
import gen

RELEVANT = ('stdout', 'exit', 'diagkinds')
ASSUMPTIONS = ['loops in generated programs are bounded by counters; a run that ends in the verification budget is inconclusive']

def for_cube(tier):
    R = range(-3, 4) if tier == 'quick' else range(-4, 5)
    lines = ['DECLARE i : INTEGER', 'DECLARE n : INTEGER']
    exp = []
    for a, b, s in itertools.product(R, R, [x for x in R if x != 0]):
        lines += ['i <- 99', 'n <- 0', 'FOR i <- %s TO %s STEP %s' % (gen.neg_lit(a), gen.neg_lit(b), gen.neg_lit(s)), '  n <- n + 1', '  OUTPUT i', 'NEXT i',
                  'OUTPUT "end ", i, " ", n']
        seq = []
        v = a
        while (s > 0 and v <= b) or (s < 0 and v >= b):
            seq.append(v); v += s
        exp.append((seq, v))
    return [Case(gen.join(lines), limits=dict(steps=200000), meta=dict(gen='for-cube', expect=exp))]

SPECIAL = [
 # REPEAT evaluates UNTIL after every iteration, including one ended by CONTINUE
 'DECLARE i : INTEGER\ni <- 0\nREPEAT\n  i <- i + 1\n  IF i < 10 THEN\n    CONTINUE\n  ENDIF\n  OUTPUT "body ", i\nUNTIL i >= 3\nOUTPUT i\n',
 # stray BREAK in a procedure called from a loop
 'PROCEDURE p\n  OUTPUT "in p"\n  BREAK\nENDPROCEDURE\nFOR i <- 1 TO 3\n  OUTPUT i\n  CALL p\nNEXT i\nOUTPUT "done"\n',
 'FUNCTION f() RETURNS INTEGER\n  CONTINUE\n  RETURN 1\nENDFUNCTION\nWHILE TRUE\n  OUTPUT f()\nENDWHILE\n',
 # bounds evaluated once; iterator left at the first value past stop
 'DECLARE n : INTEGER\nn <- 3\nFOR i <- 1 TO n\n  n <- n + 1\n  OUTPUT i, " ", n\nNEXT i\nOUTPUT i, " ", n\n',
 'DECLARE s : INTEGER\ns <- 1\nFOR i <- 1 TO 6 STEP s\n  s <- s + 1\n  OUTPUT i\nNEXT\nOUTPUT i\n',
 'FOR i <- 5 TO 1\n  OUTPUT "never"\nNEXT i\nOUTPUT i\nFOR j <- 1 TO 5 STEP -1\n  OUTPUT "never"\nNEXT j\nOUTPUT j\n',
 # conditions that are not BOOLEAN
 'IF 1 THEN\n  OUTPUT "x"\nENDIF\n', 'WHILE "s" DO\n  OUTPUT 1\nENDWHILE\n', 'REPEAT\n  OUTPUT 1\nUNTIL 0\n', 'x <- 5\nIF x = 5 THEN\n  OUTPUT "a"\nELSE IF "no" THEN\n  OUTPUT "b"\nENDIF\nOUTPUT "c"\n',
 'x <- 4\nIF x = 5 THEN\n  OUTPUT "a"\nELSE IF 7 THEN\n  OUTPUT "b"\nENDIF\n',
 # CASE: first match wins, inclusive ranges, OTHERWISE, overlapping clauses
 'FOR x <- 0 TO 7\n  CASE OF x\n    1 : OUTPUT "one"\n    1 TO 3 : OUTPUT "low"\n    3 : OUTPUT "three"\n    5 TO 4 : OUTPUT "empty"\n    6 : OUTPUT "six"\n        OUTPUT "six again"\n    OTHERWISE : OUTPUT "other ", x\n  ENDCASE\nNEXT x\n',
 'DECLARE r : REAL\nr <- 2.5\nCASE OF r\n  2 : OUTPUT "two"\n  2 TO 3 : OUTPUT "range"\n  2.5 : OUTPUT "exact"\nENDCASE\nDECLARE c : CHAR\nc <- \'m\'\nCASE OF c\n  \'a\' TO \'z\' : OUTPUT "range"\n  \'m\' : OUTPUT "m"\nENDCASE\nDECLARE s : STRING\ns <- "hi"\nCASE OF s\n  "ho" : OUTPUT 1\n  "hi" : OUTPUT 2\n  "hi" : OUTPUT 3\nENDCASE\nDECLARE b : BOOLEAN\nCASE OF b\n  TRUE : OUTPUT "t"\n  FALSE : OUTPUT "f"\nENDCASE\n',
 'x <- 3\nCASE OF x\n  "a" TO 5 : OUTPUT 1\nENDCASE\n', 'x <- 3\nCASE OF x\n  1 TO TRUE : OUTPUT 1\nENDCASE\n',
 # BREAK / CONTINUE act on the innermost loop only
 'FOR i <- 1 TO 3\n  FOR j <- 1 TO 3\n    IF j = 2 THEN\n      CONTINUE\n    ENDIF\n    IF i = 2 THEN\n      BREAK\n    ENDIF\n    OUTPUT i, j\n  NEXT j\n  OUTPUT "outer ", i\nNEXT i\n',
 'i <- 0\nWHILE i < 5\n  i <- i + 1\n  j <- 0\n  REPEAT\n    j <- j + 1\n    IF j = 2 THEN\n      BREAK\n    ENDIF\n    OUTPUT i, " ", j\n  UNTIL j > 3\n  IF i = 3 THEN\n    CONTINUE\n  ENDIF\n  OUTPUT "w ", i\nENDWHILE\n',
 'BREAK\n', 'OUTPUT 1\nCONTINUE\nOUTPUT 2\n', 'IF TRUE THEN\n  BREAK\nENDIF\nOUTPUT "x"\n',
 'WHILE FALSE\n  OUTPUT "never"\nENDWHILE\nREPEAT\n  OUTPUT "once"\nUNTIL TRUE\n',
]

def fmt_num(v):
    """a literal for the number v (ints and multiples of 1/8), negative values as unary minus"""
    if isinstance(v, int): return gen.neg_lit(v)
    t = ('%.3f' % abs(v)).rstrip('0')
    if t.endswith('.'): t += '0'
    return ('-' if v < 0 else '') + t

def case_grid(rng):
    """CASE over INTEGER / REAL / CHAR selectors against single values and inclusive ranges with integral and
    fractional bounds; the expected clause is computed here (first match wins, else OTHERWISE, else nothing)"""
    ty = rng.choice(['INTEGER', 'REAL', 'REAL', 'CHAR'])
    if ty == 'CHAR':
        pool = [chr(c) for c in range(ord('a'), ord('h'))]
        lit = lambda v: "'%s'" % v
    elif ty == 'INTEGER':
        pool = list(range(-4, 7)); lit = fmt_num
    else:
        pool = [k / 4 for k in range(-12, 26)] ; lit = lambda v: fmt_num(v if v != int(v) or rng.random() < 0.5 else int(v))
        if True: pool = [v if v != int(v) else float(v) for v in pool]
    clauses = []
    for i in range(rng.randint(1, 5)):
        if rng.random() < 0.6:
            a = rng.choice(pool); b = rng.choice(pool)
            if rng.random() < 0.8 and b < a: a, b = b, a
            clauses.append(('range', a, b, 'C%d' % i))
        else:
            clauses.append(('value', rng.choice(pool), None, 'C%d' % i))
    other = rng.random() < 0.6
    lines = ['DECLARE v : %s' % ty]
    expect = []
    for v in rng.sample(pool, min(len(pool), 8)):
        lines += ['v <- %s' % lit(v), 'CASE OF v']
        hit = None
        for kind, a, b, tag in clauses:
            lines.append('    %s : OUTPUT "%s"' % (lit(a) if kind == 'value' else '%s TO %s' % (lit(a), lit(b)), tag))
            if hit is None and ((kind == 'value' and v == a) or (kind == 'range' and ty != 'CHAR' and a <= v <= b)):   # ranges are numeric: a CHAR selector matches no range clause
                hit = tag
        if other:
            lines.append('    OTHERWISE : OUTPUT "other"')
            if hit is None: hit = 'other'
        lines += ['ENDCASE', 'OUTPUT "."']
        if hit: expect.append(hit)
        expect.append('.')
    return Case(gen.join(lines), limits=dict(steps=20000), meta=dict(gen='case-grid', expect_lines=expect, sample=False))

def generate(tier, rng):
    cases = for_cube(tier)
    for _ in range(60 if tier == 'quick' else 1500):
        cases.append(case_grid(rng))
    for s in SPECIAL:
        cases.append(Case(s.encode(), meta=dict(gen='special')))
        cases.append(Case(mode='repl', stdin=s.replace('\nENDIF\n', '\nENDIF\n\n').encode(), meta=dict(gen='special-repl', sample=False, no_model=True)))
    n = 120 if tier == 'quick' else 1500
    for k in range(n):
        pre, env = gen.prelude(rng)
        sg = gen.StmtGen(rng, env)
        body = []
        for _ in range(rng.randint(1, 4)):
            body += sg.stmt(rng.randint(1, 4), '', False)
        cases.append(Case(gen.join(pre + sg.pre + body), meta=dict(gen='nested-control', sample=k < 2)))
    for _ in range(25 if tier == 'quick' else 500):      # cross-feature programs (gen.rich_program): every data kind, call mode and file kind mixed
        cases.append(Case(gen.rich_program(rng), limits=dict(steps=30000), stdin=b'typed\n', meta=dict(gen='rich', sample=False)))
    return cases

def intrinsic(case, io, ia):
    if case.meta.get('gen') == 'case-grid':
        got = io.stdout.decode('latin-1').split('\n')
        if got and got[-1] == '': got = got[:-1]
        want = case.meta['expect_lines']
        if got != want:
            k = next((i for i in range(min(len(got), len(want))) if got[i] != want[i]), min(len(got), len(want)))
            return 'CASE chose the wrong clause: output line %d is %r, expected %r' % (k + 1, got[k] if k < len(got) else None, want[k] if k < len(want) else None)
    if case.meta.get('gen') == 'for-cube':
        out = io.stdout.decode().split('\n')
        pos = 0
        for seq, final in case.meta['expect']:
            for v in seq:
                if pos >= len(out) or out[pos] != str(v):
                    return 'FOR iteration sequence wrong: expected %s, got %r' % (seq, out[pos:pos + 3])
                pos += 1
            want = 'end %d %d' % (final, len(seq))
            if pos >= len(out) or out[pos] != want:
                return 'after FOR: expected %r, got %r' % (want, out[pos] if pos < len(out) else None)
            pos += 1
    return None
