"""C20 — --pedantic only rejects; it never changes the meaning of an accepted program."""
from pe2 import Case
import gen
from props import C01, C04, C07

RELEVANT = ('stdout', 'exit', 'diagkinds', 'files')
ASSUMPTIONS = ['the pedantic-clean subset is what the generators produce with pedantic_clean=True: every variable declared, no BREAK/CONTINUE/ELSE IF/cast']

def clean_program(rng):
    pre, env = gen.prelude(rng)
    sg = gen.StmtGen(rng, env, pedantic_clean=True)
    body = []
    for _ in range(rng.randint(2, 5)):
        body += sg.stmt(rng.randint(1, 3), '', False)
    extra = ['FUNCTION acc(v : INTEGER) RETURNS INTEGER', '  i3 <- i3 + v', '  RETURN i3', 'ENDFUNCTION',
             'PROCEDURE pr(BYREF q : INTEGER)', '  q <- q + 1', 'ENDPROCEDURE']
    tail = ['acc(2)', 'i1 = 5', '"bare string"', 'CALL pr(i2)', 'OUTPUT i1, " ", i2, " ", i3, " ", r1, " ", s1',
            'OPENFILE "o.txt" FOR WRITE', 'WRITEFILE "o.txt", r1', 'WRITEFILE "o.txt", s1 & i2', 'CLOSEFILE "o.txt"', 'INPUT s2', 'OUTPUT s2', 'OUTPUT 1 / 3', 'OUTPUT 2.0 * i1']
    # declared FOR iterators only (pedantic-clean): StmtGen declares most; force the rest
    lines = pre + sg.pre + extra + body + tail
    decl = set(l.split(' ')[1] for l in lines if l.startswith('DECLARE '))
    its = set()
    for l in lines:
        t = l.strip().split(' ')
        if t[0] == 'FOR' and t[1] not in decl: its.add(t[1])
    lines = ['DECLARE %s : INTEGER' % i for i in sorted(its)] + lines
    if rng.random() < 0.3:
        lines.append(rng.choice(['OUTPUT nosuchname', 'i1 <- "s"', 'OUTPUT 1 / 0', 'OUTPUT )']))
    return lines

CONSTRUCTS = [('BREAK', ['WHILE TRUE', '  BREAK', 'ENDWHILE'], 'lex'), ('CONTINUE', ['FOR zq <- 1 TO 2', '  CONTINUE', 'NEXT zq'], 'lex'),
              ('ELSE IF', ['IF FALSE THEN', '  OUTPUT 1', 'ELSE IF TRUE THEN', '  OUTPUT 2', 'ENDIF'], 'parse'),
              ('cast', ['OUTPUT INTEGER("5")'], 'parse'), ('cast2', ['i1 <- INTEGER(2.5) + 1'], 'parse'),
              ('undeclared-assign', ['neverdeclared <- 5'], 'run'), ('undeclared-input', ['INPUT neverdeclared2'], 'run'),
              ('BREAK-in-comment', ['// BREAK is fine here', 'OUTPUT "BREAK"'], 'none'), ('BREAKx', ['DECLARE BREAKx : INTEGER', 'BREAKx <- 1'], 'none')]

def generate(tier, rng):
    cases = []
    n = 40 if tier == 'quick' else 500
    for k in range(n):
        lines = clean_program(rng)
        src = gen.join(lines)
        for opt in ['', '-p', '--pedantic']:
            cases.append(Case(src, pedantic=opt, stdin=b'typed line\n', meta=dict(gen='clean' + (opt or '-plain'), pair=k, sample=k < 1 and opt == '-p')))
        # one inserted construct at an arbitrary top-level position
        name, snippet, stage = rng.choice(CONSTRUCTS)
        tops = [i for i, l in enumerate(lines) if not l.startswith(' ')]
        ents = gen.to_entries(lines)
        pos = rng.randint(0, len(ents))
        before = [l for e in ents[:pos] for l in e if l != '']
        after = [l for e in ents[pos:] for l in e if l != '']
        src2 = gen.join(before + snippet + after)
        cases.append(Case(gen.join(before), pedantic='-p', stdin=b'typed line\n', meta=dict(gen='prefix', pair=10000 + k, sample=False)))
        cases.append(Case(src2, pedantic=rng.choice(['-p', '--pedantic']), stdin=b'typed line\n', meta=dict(gen='inserted-' + stage, construct=name, pair=10000 + k, sample=k < 1)))
    # cross-feature pedantic-clean programs (every statement kind the generators know, all names declared)
    for k in range(30 if tier == 'quick' else 400):
        src = gen.rich_program(rng, pedantic_clean=True)
        for opt in ['', '-p', '--pedantic']:
            cases.append(Case(src, pedantic=opt, stdin=b'typed line\n', limits=dict(steps=30000), meta=dict(gen='clean' + (opt or '-plain'), pair=20000 + k, sample=False)))
    for p in C01.corpus_programs():
        for opt in ['', '-p']:
            cases.append(Case(p, pedantic=opt, stdin=b'5\n7\nabc\n', meta=dict(gen='corpus' + (opt or '-plain'), pair='c' + str(hash(p)), sample=False)))
    # option handling of main()
    cases.append(Case(b'OUTPUT 1\n', pedantic='-p', meta=dict(gen='option')))
    return cases

_plain = {}
_prefix = {}
def intrinsic(case, io, ia):
    g = case.meta.get('gen', '')
    if g in ('clean-plain', 'corpus-plain'):
        _plain[case.meta['pair']] = io; return None
    if g == 'prefix':
        _prefix[case.meta['pair']] = io; return None
    if g.startswith('clean-') or g.startswith('corpus-'):
        b = _plain.get(case.meta['pair'])
        if b is None or b.budget or io.budget or b.timeout or io.timeout: return None
        ped = any(d['kind'] == 'pedantic' for d in io.diags)
        if ped:
            if g.startswith('clean-'): return 'a pedantic-clean program was rejected: %r' % io.raw_stderr[:200]
            return None
        if b.stdout != io.stdout: return 'stdout differs with the option: %r vs %r' % (b.stdout[-200:], io.stdout[-200:])
        if b.raw_stderr.replace(b'prog.pseudo', b'') != io.raw_stderr.replace(b'prog.pseudo', b''): return 'stderr differs with the option'
        if b.exit != io.exit: return 'exit status differs with the option'
        if b.files != io.files: return 'files differ with the option'
    if g.startswith('inserted-'):
        stage = g.split('-', 1)[1]
        ped = [d for d in io.diags if d['kind'] == 'pedantic']
        if stage == 'none':
            if ped: return 'a construct that only looks non-pedantic (%s) was rejected' % case.meta['construct']
            return None
        pre = _prefix.get(case.meta['pair'])
        if pre is not None and pre.exit != 0:
            return None      # the prefix itself fails: the construct is never reached
        if stage == 'run' and any(d['kind'] == 'syntax' for d in io.diags):
            return None      # a syntax error elsewhere in the text: nothing runs, the run-time construct is never reached
        if not ped or io.exit != 1:
            return 'the %s construct was not rejected with a pedantic Error (exit %s, diagnostics %s)' % (case.meta['construct'], io.exit, [d['kind'] for d in io.diags])
        if stage in ('lex', 'parse'):
            if io.stdout.strip(b'\n') != b'' and not io.stdout.startswith(b'Warning'):
                import re
                if re.sub(rb'Warning on line \d+ column \d+: [^\n]*\n', b'', io.stdout).strip(b'\n') != b'':
                    return 'output was produced although the construct is rejected before execution: %r' % io.stdout[:100]
        else:
            import re
            W = lambda b: re.sub(rb'Warning on line \d+ column \d+: [^\n]*\n', b'', b)
            if pre is not None and not pre.budget and W(io.stdout).rstrip(b'\n') != W(pre.stdout).rstrip(b'\n'):
                return 'output is not the prefix that precedes the construct: %r vs %r' % (io.stdout[-120:], pre.stdout[-120:])
    return None
