"""C18 — DATE values are always real calendar dates in chronological order."""
import datetime
from pe2 import Case
import gen

RELEVANT = ('stdout', 'exit', 'diagkinds')
BIG = dict(steps=200000)
ASSUMPTIONS = ["the independent calendar of the intrinsic oracle is Python's datetime (proleptic Gregorian, years 1..9999)"]

def valid(d, m, y):
    try:
        datetime.date(y, m, d); return True
    except ValueError:
        return False

def dayindex(d, m, y):
    return datetime.date(y, m, d).isoweekday() % 7 + 1

def chunked(entries, n=600):
    for i in range(0, len(entries), n):
        yield entries[i:i + n]

def generate(tier, rng):
    cases = []
    years = [2020, 1900, 2000, 1, 9999, 2100] if tier == 'thorough' else [2020, 1900, 2000]
    if tier == 'thorough':
        ds = list(range(0, 70)) + list(range(250, 301, 2)); ms = list(range(0, 40)) + list(range(250, 301, 2))
    else:
        ds = [0, 1, 2, 15, 27, 28, 29, 30, 31, 32, 33, 60, 255, 256, 257, 284, 285, 286, 287, 300]
        ms = [0, 1, 2, 3, 4, 6, 9, 11, 12, 13, 14, 255, 256, 257, 258, 260, 268, 300]
    for y in years:
        ent = []
        for d in ds:
            for m in ms:
                ent.append(('SETDATE(%d, %d, %d)' % (d, m, y), (d, m, y)))
                if tier == 'quick' or (d % 7 == 0) or d <= 32 and m <= 13:
                    ent.append(('%d/%d/%d' % (d, m, y), (d, m, y)))
        for ch in chunked(ent):
            cases.append(Case(mode='repl', stdin=gen.join([e[0] for e in ch]), limits=BIG,
                              meta=dict(gen='date-grid', expect=[e[1] for e in ch], sample=len(cases) < 1)))
    # literal spellings: the documented dd/mm/yyyy form writes leading zeros; every field padded to 2-4 digits
    ent = []
    for (d, m, y) in [(8, 9, 2021), (9, 8, 2021), (1, 1, 2000), (10, 11, 2024), (7, 7, 777), (31, 12, 99), (29, 2, 2024), (30, 2, 2024), (5, 10, 8), (18, 9, 2019), (28, 2, 1900)] + \
                     [(rng.randint(1, 31), rng.randint(1, 12), rng.randint(1, 2999)) for _ in range(40 if tier == 'quick' else 600)]:
        for wd, wm, wy in ((2, 2, 4), (3, 3, 5), (2, 1, 1), (1, 2, 4), (4, 4, 6)):
            ent.append(('%0*d/%0*d/%0*d' % (wd, d, wm, m, wy, y), (d, m, y)))
    for ch in chunked(ent):
        cases.append(Case(mode='repl', stdin=gen.join([e[0] for e in ch]), limits=BIG, meta=dict(gen='date-grid', expect=[e[1] for e in ch], sample=False)))
    # years sweep for fixed (d, m)
    ys = list(range(1, 10000)) if tier == 'thorough' else sorted(set([1, 2, 3, 4, 99, 100, 400, 1582, 1600, 1700, 1900, 2000, 2023, 2024, 2100, 9999] + [rng.randint(1, 9999) for _ in range(300)]))
    for (d, m) in [(29, 2), (31, 12), (1, 1)]:
        ent = []
        for y in ys:
            ent.append(('SETDATE(%d, %d, %d)' % (d, m, y), (d, m, y)))
            ent.append(('%d/%d/%d' % (d, m, y), (d, m, y)))
        for ch in chunked(ent):
            cases.append(Case(mode='repl', stdin=gen.join([e[0] for e in ch]), limits=BIG, meta=dict(gen='date-years', expect=[e[1] for e in ch], sample=False)))
    # components far outside the calendar, where narrowing conversions wrap
    far = [256 + 1, 256 + 29, 512 + 2, 65536 + 2020, 65536 + 1, 70000, 32768, 32767, 4294967296 + 1, 4294967297, 18446744073709551617, 99999999999999999999]
    ent = []
    for a in far:
        for (d, m, y) in [(a, 1, 2020), (1, a, 2020), (1, 1, a), (a, a, a)]:
            if max(d, m, y) < 2**62:
                ent.append(('SETDATE(%d, %d, %d)' % (d, m, y), (d, m, y)))
            ent.append(('%d/%d/%d' % (d, m, y), (d, m, y)))
            ent.append(('SETDATE(-%d, 1, 2020)' % (a % 1000 + 1), (-1, 1, 2020)))
    cases.append(Case(mode='repl', stdin=gen.join([e[0] for e in ent]), limits=BIG, meta=dict(gen='date-far', expect=[e[1] for e in ent])))
    # accessor functions and DAYINDEX
    if tier == 'thorough':
        dates = []
        cur = datetime.date(1600, 1, 1)
        while cur <= datetime.date(2400, 12, 31):
            dates.append((cur.day, cur.month, cur.year)); cur += datetime.timedelta(days=1)
    else:
        dates = []
        for _ in range(1500):
            o = rng.randint(datetime.date(1600, 1, 1).toordinal(), datetime.date(2400, 12, 31).toordinal())
            c = datetime.date.fromordinal(o); dates.append((c.day, c.month, c.year))
        for y in (1600, 1900, 2000, 2024, 2400):
            for (d, m) in ((28, 2), (1, 3), (31, 12), (1, 1)):
                dates.append((d, m, y))
    for ch in chunked(dates, 600):
        ent = ['DAYINDEX(%d/%d/%d)' % t for t in ch]
        cases.append(Case(mode='repl', stdin=gen.join(ent), limits=BIG, meta=dict(gen='dayindex', dates=ch, sample=False)))
    acc = []
    for (d, m, y) in dates[:200]:
        acc += ['DAY(%d/%d/%d)' % (d, m, y), 'MONTH(SETDATE(%d, %d, %d))' % (d, m, y), 'YEAR(%d/%d/%d)' % (d, m, y)]
    cases.append(Case(mode='repl', stdin=gen.join(acc), limits=BIG, meta=dict(gen='accessors', dates=dates[:200])))
    # comparisons on a sample of dates
    sample = rng.sample(dates, min(len(dates), 150 if tier == 'thorough' else 60))
    sample += [(28, 2, 2023), (1, 3, 2023), (31, 1, 2023), (1, 2, 2023), (31, 12, 1999), (1, 1, 2000)]
    ent = []; exp = []
    for a in sample:
        for b in (sample if tier == 'thorough' else rng.sample(sample, 12)):
            for op in ['=', '<>', '<', '<=', '>', '>=']:
                ent.append('%d/%d/%d %s %d/%d/%d' % (a + (op,) + b)); exp.append((a, op, b))
    # neighbours: a date against the days just around it and one month / one year away (where any ordering key that is
    # not strictly monotone in the calendar collides), for every month end and month start of two years and the sample
    near = list(sample[:40])
    for y in (2023, 2024):
        for m in range(1, 13):
            last = (datetime.date(y + (m == 12), m % 12 + 1, 1) - datetime.timedelta(days=1)).day
            near += [(1, m, y), (last, m, y), (last - 1, m, y), (28, m, y)]
    for a in near:
        da = datetime.date(a[2], a[1], a[0])
        for delta in (1, -1, 2, 29, 30, 31, 32, 365, 366, -30, -31):
            try:
                db = da + datetime.timedelta(days=delta)
            except OverflowError:
                continue
            if not (1 <= db.year <= 9999): continue
            b = (db.day, db.month, db.year)
            for op in (['=', '<>', '<', '<=', '>', '>='] if tier == 'thorough' else rng.sample(['=', '<>', '<', '<=', '>', '>='], 2)):
                ent.append('%d/%d/%d %s %d/%d/%d' % (a + (op,) + b)); exp.append((a, op, b))
    for i in range(0, len(ent), 600):
        cases.append(Case(mode='repl', stdin=gen.join(ent[i:i + 600]), limits=BIG, meta=dict(gen='date-compare', cmp=exp[i:i + 600], sample=i == 0)))
    # printing
    cases.append(Case(gen.join(['DECLARE d : DATE', 'd <- 5/3/2021', 'OUTPUT d', 'OUTPUT "on " & d', 'OUTPUT STRING(d)',
                                'OPENFILE "f.txt" FOR WRITE', 'WRITEFILE "f.txt", d', 'CLOSEFILE "f.txt"']), meta=dict(gen='date-print')))
    return cases

def intrinsic(case, io, ia):
    g = case.meta.get('gen')
    outs = gen.repl_outputs(io.stdout) if case.mode == 'repl' else None
    if g in ('date-grid', 'date-years', 'date-far'):
        exp = case.meta['expect']
        if len(outs) < len(exp):
            return 'transcript too short'
        for (d, m, y), o in zip(exp, outs):
            ok = 1 <= y <= 9999 and valid(d, m, y) if (1 <= m <= 12 and 1 <= d <= 31 and 1 <= y <= 9999) else False
            if y > 9999 or y < 1:
                # outside the property (years < 1) / outside Python's calendar: only require that no OTHER date comes out
                if o != '\n' and o != '%d/%d/%d\n' % (d, m, y):
                    return '(%d,%d,%d) yields a different date %r' % (d, m, y, o)
                continue
            want = '%d/%d/%d\n' % (d, m, y) if ok else '\n'
            if o != want:
                return '(%d,%d,%d): expected %r, got %r' % (d, m, y, want, o)
    elif g == 'dayindex':
        for (d, m, y), o in zip(case.meta['dates'], outs):
            if o != '%d\n' % dayindex(d, m, y):
                return 'DAYINDEX(%d/%d/%d) = %r, calendar says %d' % (d, m, y, o, dayindex(d, m, y))
    elif g == 'accessors':
        exp = []
        for (d, m, y) in case.meta['dates']:
            exp += ['%d\n' % d, '%d\n' % m, '%d\n' % y]
        if outs[:len(exp)] != exp:
            return 'DAY/MONTH/YEAR do not return the components'
    elif g == 'date-compare':
        for (a, op, b), o in zip(case.meta['cmp'], outs):
            ka, kb = (a[2], a[1], a[0]), (b[2], b[1], b[0])
            r = {'=': ka == kb, '<>': ka != kb, '<': ka < kb, '<=': ka <= kb, '>': ka > kb, '>=': ka >= kb}[op]
            if o != ('TRUE\n' if r else 'FALSE\n'):
                return '%s %s %s gave %r' % (a, op, b, o)
    return None
