"""C19 — enumerated values keep their type and cycle through their declared order."""
from pe2 import Case
import gen

RELEVANT = ('stdout', 'exit', 'diagkinds')
ASSUMPTIONS = []
NEEDS_ASAN = True

def names(n, p='v'):
    return ['%s%d' % (p, i) for i in range(n)]

def arith_case(n, tier, rng):
    nm = names(n)
    lines = ['TYPE E = (%s)' % ', '.join(nm), 'DECLARE x : E']
    exp = []
    ks = list(range(-40, 41)) if tier == 'thorough' else sorted(set(list(range(-9, 10)) + [-40, -39, 39, 40, -17, 23]))
    big = [9223372036854775807, 9223372036854775806, 4611686018427387904, 18446744073709551615 // 2]
    for s in range(n):
        for k in ks:
            kk = '(%d)' % k if k >= 0 else '(0 - %d)' % (-k)
            lines.append('%s + %s' % (nm[s], kk)); exp.append(nm[(s + k) % n])
            lines.append('%s + %s' % (kk, nm[s])); exp.append(nm[(s + k) % n])
            lines.append('%s - %s' % (nm[s], kk)); exp.append(nm[(s - k) % n])
        for k in big:
            lines.append('%s + %d' % (nm[s], k)); exp.append(nm[(s + k) % n])
            lines.append('%s - %d' % (nm[s], k)); exp.append(nm[(s - k) % n])
            lines.append('%s + (0 - %d - 1)' % (nm[s], k)); exp.append(nm[(s - k - 1) % n])
            lines.append('%s - (0 - %d - 1)' % (nm[s], k)); exp.append(nm[(s + k + 1) % n])
    return Case(mode='repl', stdin=gen.join(lines), meta=dict(gen='enum-arith', n=n, expect=exp, skip=2, sample=n == 3))

def basics_case(n, rng):
    nm = names(n)
    p = ['TYPE E = (%s)' % ', '.join(nm), 'DECLARE x : E', 'DECLARE y : E']
    for i, v in enumerate(nm):
        p += ['x <- %s' % v, 'OUTPUT x', 'OUTPUT %s' % v]
        for j, w in enumerate(nm):
            p += ['y <- %s' % w, 'OUTPUT x = y, " ", x <> y, " ", %s = %s' % (v, w)]
    p += ['x <- %s' % nm[0], 'FOR i <- 1 TO %d' % (2 * n + 1), '  x <- x + 1', '  OUTPUT x', 'NEXT i',
          'FOR i <- 1 TO %d' % (2 * n + 1), '  x <- x - 1', '  OUTPUT x', 'NEXT i']
    return Case(gen.join(p), meta=dict(gen='enum-basics', n=n))

CHANNELS = ['assign-name', 'assign-var', 'assign-arith', 'byval', 'return', 'element', 'field', 'byref', 'implicit',
            'func-byval', 'func-byval-name', 'func-byval-arith', 'func-byref', 'return-var', 'return-arith', 'pointer', 'deref', 'getrecord', 'record-copy']
def cross_case(n1, n2, channel, rng):
    a = names(n1, 'a'); b = names(n2, 'b')
    p = ['TYPE A = (%s)' % ', '.join(a), 'TYPE B = (%s)' % ', '.join(b), 'DECLARE x : A', 'DECLARE y : B',
         'x <- %s' % a[-1], 'y <- %s' % b[0]]
    if channel == 'assign-name': p += ['x <- %s' % b[0]]
    elif channel == 'assign-var': p += ['x <- y']
    elif channel == 'assign-arith': p += ['x <- y + 1']
    elif channel == 'byval':
        p = p[:2] + ['PROCEDURE p(BYVAL v : A)', '  OUTPUT v', 'ENDPROCEDURE'] + p[2:] + ['CALL p(y)']
    elif channel == 'byref':
        p = p[:2] + ['PROCEDURE p(BYREF v : A)', '  OUTPUT v', 'ENDPROCEDURE'] + p[2:] + ['CALL p(y)']
    elif channel == 'return':
        p = p[:2] + ['FUNCTION f() RETURNS A', '  RETURN %s' % b[0], 'ENDFUNCTION'] + p[2:] + ['x <- f()']
    elif channel in ('func-byval', 'func-byval-name', 'func-byval-arith', 'func-byref'):
        mode = 'BYREF' if channel == 'func-byref' else 'BYVAL'
        arg = {'func-byval': 'y', 'func-byval-name': b[-1], 'func-byval-arith': 'y + 1', 'func-byref': 'y'}[channel]
        p = p[:2] + ['FUNCTION g(%s v : A) RETURNS INTEGER' % mode, '  OUTPUT "stored ", v, " next ", v + 1', '  RETURN 1', 'ENDFUNCTION'] + p[2:] + ['OUTPUT g(x)', 'OUTPUT g(%s)' % arg]
    elif channel in ('return-var', 'return-arith'):
        p = p[:2] + ['FUNCTION f(w : B) RETURNS A', '  RETURN %s' % ('w' if channel == 'return-var' else 'w + 1'), 'ENDFUNCTION'] + p[2:] + ['x <- f(y)']
    elif channel == 'pointer':
        p = p[:2] + ['TYPE PA = ^A'] + p[2:] + ['DECLARE pa : PA', 'pa <- ^x', 'OUTPUT pa^', 'pa <- ^y']
    elif channel == 'deref':
        p = p[:2] + ['TYPE PA = ^A'] + p[2:] + ['DECLARE pa : PA', 'pa <- ^x', 'pa^ <- y', 'OUTPUT pa^']
    elif channel == 'getrecord':
        p += ['OPENFILE "e.dat" FOR RANDOM', 'PUTRECORD "e.dat", y', 'SEEK "e.dat", 1', 'GETRECORD "e.dat", x']
    elif channel == 'record-copy':
        p = p[:2] + ['TYPE RA', '  DECLARE f : A', 'ENDTYPE', 'TYPE RB', '  DECLARE f : B', 'ENDTYPE'] + p[2:] + ['DECLARE ra : RA', 'DECLARE rb : RB', 'rb.f <- y', 'ra <- rb', 'OUTPUT ra.f']
    elif channel == 'element':
        p += ['DECLARE arr : ARRAY[1:2] OF A', 'arr[1] <- y']
    elif channel == 'field':
        p = p[:2] + ['TYPE R', '  DECLARE f : A', 'ENDTYPE'] + p[2:] + ['DECLARE r : R', 'r.f <- y + 2']
    elif channel == 'implicit':
        p += ['z <- %s' % b[0], 'z <- %s' % a[0], 'OUTPUT z', 'z <- x + 1', 'OUTPUT z']
    p += ['OUTPUT "after ", x, " ", y']
    return Case(gen.join(p), meta=dict(gen='enum-cross-' + channel))

def local_type_case(rng, n):
    nm = names(n, 'c')
    p = ['PROCEDURE p(k : INTEGER)', '  TYPE Col = (%s)' % ', '.join(nm), '  DECLARE c : Col', '  c <- %s' % nm[-1],
         '  OUTPUT c + k', '  OUTPUT c - k', '  OUTPUT %s' % nm[0], 'ENDPROCEDURE']
    for k in range(4):
        p.append('CALL p(%d)' % rng.randint(-5, 9))
    p += ['TYPE G = (g0, g1, g2)', 'PROCEDURE q', '  DECLARE e : G', '  e <- g2', '  OUTPUT e + 2', 'ENDPROCEDURE', 'CALL q', 'CALL q']
    return Case(gen.join(p), meta=dict(gen='enum-local-type'))

def generate(tier, rng):
    cases = []
    for n in range(1, 9):
        cases.append(arith_case(n, tier, rng))
        cases.append(basics_case(n, rng))
    pairs = [(n1, n2) for n1 in range(1, 5) for n2 in range(1, 5)] if tier == 'thorough' else [(1, 1), (2, 3), (3, 2), (3, 3), (4, 1)]
    for (n1, n2) in pairs:
        for ch in CHANNELS:
            cases.append(cross_case(n1, n2, ch, rng))
    for n in ([1, 2, 3, 5, 8] if tier == 'thorough' else [1, 3]):
        cases.append(local_type_case(rng, n))
    # REPL echo form
    cases.append(Case(mode='repl', stdin=gen.join(['TYPE Season = (spring, summer)', 'DECLARE s : Season', 's', 's <- summer', 's', 'summer + 1', 's = summer']),
                      meta=dict(gen='enum-echo')))
    for _ in range(25 if tier == 'quick' else 500):      # cross-feature programs (gen.rich_program): every data kind, call mode and file kind mixed
        cases.append(Case(gen.rich_program(rng), limits=dict(steps=30000), stdin=b'typed\n', meta=dict(gen='rich', sample=False)))
    return cases

def intrinsic(case, io, ia):
    g = case.meta.get('gen', '')
    if g == 'enum-arith':
        outs = gen.repl_outputs(io.stdout)[case.meta['skip']:]
        exp = case.meta['expect']
        if len(outs) < len(exp):
            return 'transcript too short (%d of %d)' % (len(outs), len(exp))
        for k, (e, o) in enumerate(zip(exp, outs)):
            if o != 'E: %s\n' % e:
                return 'entry %d: expected E: %s, got %r' % (k, e, o)
    elif g.startswith('enum-cross-') and g != 'enum-cross-implicit':
        for o in (io, ia):
            if o is None: continue
            n1 = case.program.decode().split('\n')[0].count(',') + 1
            if o.exit != 1 or not o.diags or o.diags[-1]['kind'] != 'runtime':
                return 'a cross-type store was not rejected with a runtime error (exit %s)' % o.exit
    return None
