"""C01 — every input is either executed or diagnosed; the interpreter never crashes."""
import glob, itertools, os
from pe2 import Case, REPO, VERIF
import gen

NEEDS_ASAN = True
RELEVANT = ('exit', 'diagkinds')
ASSUMPTIONS = ['signed 64-bit overflow wraps silently (recorded assumption of the property; the UBSan check for it is off)',
               'bounds: executed statements, call depth, array cells and string length within the verification budget (hook H1)',
               'pre-existing data-file bytes outside the codec image and INPUT text outside the modelled numeral grammars are judged by the crash oracle only']

VOCAB = ['1', '0', '2.5', "'a'", '"s"', '1/1/2000', 'x', 'y', 'f', 'INTEGER', 'REAL', 'STRING', 'DATE', 'BOOLEAN', 'CHAR',
         '(', ')', '+', '-', '*', '/', 'DIV', 'MOD', '&', '<-', ':', ',', '=', '<>', '>', '<', '>=', '<=', 'AND', 'OR', 'NOT',
         'TRUE', 'FALSE', 'DECLARE', 'CONSTANT', 'ARRAY', '[', ']', 'TYPE', 'ENDTYPE', '^', '.', 'IF', 'THEN', 'ELSE', 'ENDIF',
         'CASE', 'OF', 'OTHERWISE', 'ENDCASE', 'WHILE', 'DO', 'ENDWHILE', 'REPEAT', 'UNTIL', 'FOR', 'TO', 'STEP', 'NEXT',
         'BREAK', 'CONTINUE', 'PROCEDURE', 'BYREF', 'BYVAL', 'ENDPROCEDURE', 'CALL', 'FUNCTION', 'ENDFUNCTION', 'RETURNS',
         'RETURN', 'OUTPUT', 'INPUT', 'OPENFILE', 'READFILE', 'WRITEFILE', 'CLOSEFILE', 'READ', 'WRITE', 'APPEND', 'RANDOM',
         'SEEK', 'GETRECORD', 'PUTRECORD', '\n', 'LENGTH', 'EOF', 'SETDATE']

# lexical atoms glued together with no separator: token boundaries decided by the lexer alone
LEX_ATOMS = ['1', '25', '0', '007', '2.5', '3.', '.', '..', '/', '//', '///', '1/1/2000', '12/03', '/2020', '31/12/99999', '"', '"s"', "'", "'a'", "''", "'\\n'",
             'x', 'X1', '_', 'e', 'E5', '<', '-', '<-', '<=', '>', '=', '==', '<>', '(', ')', '[', ']', ':', ',', '&', '^', '+', '*', ' ', '\t',
             '#', '\\', 'OUTPUT', 'BREAK', 'TO', 'INTEGER', 'TRUE', 'DIV', 'x5 rows', '9 rows']
LEX_PREFIX = ['OUTPUT ', 'x <- ', '', 'OUTPUT 1 + ']

def glued(rng, n):
    out = []
    for _ in range(n):
        k = rng.choice([2, 2, 3, 3, 4])
        body = ''.join(rng.choice(LEX_ATOMS) for _ in range(k))
        lines = [rng.choice(LEX_PREFIX) + body]
        if rng.random() < 0.5:
            lines.append('OUTPUT "next line"')
        out.append(('\n'.join(lines) + '\n').encode('latin-1'))
    return out

# the number / date / comment look-ahead of the lexer: every short string over a tiny alphabet
NUM_ALPHA = ['1', '25', '/', '.', ' ', 'x']
def numlex(tier, rng):
    import itertools as it
    short = [''.join(w) for k in range(2, 5) for w in it.product(NUM_ALPHA, repeat=k)]      # every word of 2..4 atoms, always
    longw = [''.join(w) for k in range(5, 7) for w in it.product(NUM_ALPHA, repeat=k)]
    words = short + rng.sample(longw, 300 if tier == 'quick' else 12000)
    return [('%s%s\nOUTPUT "next line"\n' % (rng.choice(['OUTPUT ', 'x <- ']), w)).encode() for w in words]

# every channel through which a numeral reaches a conversion, at and past the 64-bit / double boundaries
BOUNDARY_NUMERALS = ['9223372036854775807', '9223372036854775808', '-9223372036854775808', '-9223372036854775809', '18446744073709551616',
                     '99999999999999999999', '-99999999999999999999', '0' * 25 + '7', '1' + '0' * 400, '4294967296', '2147483648', '0x10', '1e5', '+5', ' 5', '5 ', '', '-', '.', '1.', '.5']
def boundary_programs():
    out = []
    for n in BOUNDARY_NUMERALS:
        q = '"%s"' % n
        for stmt in ['OUTPUT INTEGER(%s)' % q, 'OUTPUT REAL(%s)' % q, 'OUTPUT STR_TO_NUM(%s)' % q, 'OUTPUT IS_NUM(%s)' % q,
                     'DECLARE s : STRING\ns <- %s\nDECLARE i : INTEGER\ni <- INTEGER(s)\nOUTPUT i' % q]:
            out.append((stmt + '\nOUTPUT "next"\n', b''))
        for decl in ['INTEGER', 'REAL', 'STRING', 'CHAR', 'BOOLEAN', 'DATE']:
            out.append(('DECLARE v : %s\nINPUT v\nOUTPUT v\nOUTPUT "next"\n' % decl, n.encode() + b'\n'))
        if n and n.lstrip('-').isdigit():
            m = n.lstrip('-')
            out += [('OUTPUT %s\n' % m, b''), ('OUTPUT 0 - %s\n' % m, b''), ('OUTPUT %s.0\n' % m, b''), ('OUTPUT INT(%s.0)\n' % m, b''), ('OUTPUT CHR(%s)\n' % m, b''),
                    ('OUTPUT 1/1/%s\n' % m, b''), ('OUTPUT SETDATE(1, 1, %s)\n' % m, b''), ('DECLARE a : ARRAY[1:%s] OF INTEGER\nOUTPUT "declared"\n' % m, b''),
                    ('OUTPUT LEFT("abc", %s)\n' % m, b''), ('OUTPUT MID("abc", %s, 1)\n' % m, b''), ('FOR i <- %s TO %s\n  OUTPUT i\nNEXT i\n' % (m, m), b'')]
    return out

def corpus_programs():
    out = []
    for p in sorted(glob.glob(os.path.join(REPO, 'tests', '*.pseudo')) + glob.glob(os.path.join(REPO, 'examples', '*.pseudo'))):
        out.append(open(p, 'rb').read())
    d = os.path.join(VERIF, 'corpus', 'programs')
    if os.path.isdir(d):
        for p in sorted(glob.glob(os.path.join(d, '*.pseudo'))):
            out.append(open(p, 'rb').read())
    return out

def tokens_of(src):
    """rough token split used only to mutate at token level"""
    import re
    return re.findall(rb'"[^"\n]*"|\'[^\'\n]*\'|[A-Za-z_][A-Za-z0-9_]*|\d+(?:\.\d*)?|<-|<=|>=|<>|\n|[^\sA-Za-z0-9]| +', src)

def mutate(rng, src, progs):
    k = rng.randint(0, 7)
    if k <= 1:   # byte-level
        b = bytearray(src)
        for _ in range(rng.randint(1, 4)):
            if not b: break
            i = rng.randrange(len(b)); op = rng.randint(0, 2)
            if op == 0: del b[i]
            elif op == 1: b[i] = rng.choice(b'()[]<>=-+*/&^.,:\'"#\\ \n\t09azAZ_\x00\x80\xff')
            else: b.insert(i, rng.choice(b'()[]<>=-+*/&^.,:\'"#\\ \n\t09azAZ_'))
        return bytes(b)
    toks = tokens_of(src)
    if not toks: return src
    for _ in range(rng.randint(1, 3)):
        i = rng.randrange(len(toks))
        op = rng.randint(0, 4)
        if op == 0: del toks[i]
        elif op == 1: toks.insert(i, toks[i])
        elif op == 2: toks[i] = rng.choice(VOCAB).encode()
        elif op == 3 and len(toks) > 1:
            j = rng.randrange(len(toks)); toks[i], toks[j] = toks[j], toks[i]
        else:
            other = tokens_of(rng.choice(progs)); a = rng.randrange(len(other) + 1)
            toks[i:i] = other[a:a + rng.randint(1, 12)]
        if not toks: break
    return b''.join(t if t == b'\n' or t.startswith(b' ') else t for t in toks)[:2048]

def structured(rng):
    """small grammar-based programs aimed at the downcast / null-payload / lookup sites"""
    pre, env = gen.prelude(rng)
    lines = list(pre)
    stm = []
    for _ in range(rng.randint(1, 6)):
        k = rng.randint(0, 14)
        ty = rng.choice(gen.TYPES)
        if k == 0: stm.append('%s <- %s' % (rng.choice(env.v[ty]), gen.expr(rng, rng.choice(gen.TYPES), env, 2)))
        elif k == 1: stm.append('OUTPUT %s' % gen.expr(rng, ty, env, 3, safe=False))
        elif k == 2: stm.append('OUTPUT %s(%s)' % (rng.choice(['INTEGER', 'REAL', 'STRING', 'CHAR', 'BOOLEAN', 'DATE']), gen.expr(rng, ty, env, 1)))
        elif k == 3: stm.append('x <- y <- %s' % gen.lit(rng, ty))
        elif k == 4: stm.append('OUTPUT %s & (z <- 5)' % gen.lit(rng, 'STRING'))
        elif k == 5: stm.append('DECLARE arr%d : ARRAY[%s:%s] OF %s' % (len(stm), gen.expr(rng, 'INTEGER', env, 1), gen.expr(rng, 'INTEGER', env, 1), ty))
        elif k == 6: stm.append('OUTPUT %s %s %s' % (gen.lit(rng, ty), rng.choice(['=', '<', '+', '&', 'AND', 'DIV', 'MOD', '/']), gen.lit(rng, rng.choice(gen.TYPES))))
        elif k == 7: stm += ['TYPE T%d' % len(stm), '  DECLARE f : %s' % rng.choice(['INTEGER', 'Nope', 'T0', 'STRING']), 'ENDTYPE', 'DECLARE rec%d : T%d' % (len(stm), len(stm))]
        elif k == 8: stm += ['TYPE P%d = ^%s' % (len(stm), ty), 'DECLARE p%d : P%d' % (len(stm), len(stm)), 'OUTPUT p%d^' % len(stm)]
        elif k == 9: stm.append('OUTPUT %s' % rng.choice(['i1 DIV (0 - 1)', '(0 - 9223372036854775807 - 1) DIV (0 - 1)', '(0 - 9223372036854775807 - 1) MOD (0 - 1)', '9223372036854775807 + 1', 'i1 / 0', 'r1 MOD 0.0']))
        elif k == 10: stm += ['OPENFILE "f.dat" FOR %s' % rng.choice(['READ', 'WRITE', 'APPEND', 'RANDOM']), rng.choice(['READFILE "f.dat", s1', 'WRITEFILE "f.dat", i1', 'GETRECORD "f.dat", i1', 'PUTRECORD "f.dat", s1', 'SEEK "f.dat", 2', 'OUTPUT EOF("f.dat")'])]
        elif k == 11: stm.append('INPUT %s' % rng.choice(env.v[ty]))
        elif k == 12: stm += ['FUNCTION g%d(a : %s) RETURNS %s' % (len(stm), ty, rng.choice(gen.TYPES)), '  RETURN a', 'ENDFUNCTION', 'OUTPUT g%d(%s)' % (len(stm), gen.lit(rng, rng.choice(gen.TYPES)))]
        elif k == 13: stm.append('OUTPUT %s' % rng.choice(['MID("abc", 0, 1)', 'LEFT("abc", 4)', 'RIGHT("", 0)', 'CHR(300)', 'ASC(CHR(200))', 'LENGTH(5)', 'SETDATE(31, 2, 2000)', 'DAYINDEX(d1)', 'INT(1e30)' , 'INT(99999999999999999999.0)', 'INTEGER("99999999999999999999")']))
        else: stm.append('CALL nothing(%s)' % gen.lit(rng, ty))
    return gen.join(lines + stm)

STDINS = [b'', b'5\n', b'abc\n', b'TRUE\n3.5\n\n', b'-12\n0x1A\n1e5\ninf\nnan\n', b'99999999999999999999\n', b'\n\n\n', b'x' * 300 + b'\n', b'\xff\x00\n']
DATAFILES = [b'', b'INTEGER 5\n', b'STRING 3 abc\n', b'STRING abc x\n', b'STRING 99999999999999 x\n', b'REAL nan\n', b'CHAR \n', b'#\n#\n', b'COMPOSITE T INTEGER\n',
             b'ARRAY 3 INTEGER 1\n', b'DATE 99 99 99999\n', b'ENUM E 7\n', b'INTEGER 99999999999999999999999\n', b'\x00\xff\n', b'BOOLEAN MAYBE\n', b'STRING 2 a\n#b\n']

def generate(tier, rng):
    cases = []
    progs = corpus_programs()
    n_mut = 250 if tier == 'quick' else 3000
    for _ in range(n_mut):
        src = mutate(rng, rng.choice(progs), progs)
        mode = 'file' if rng.random() < 0.75 else 'repl'
        ped = rng.choice(['', '', '-p', '--pedantic'])
        files = {'f.dat': rng.choice(DATAFILES), 'random.dat': rng.choice(DATAFILES), 'new.txt': rng.choice(DATAFILES)} if rng.random() < 0.5 else {}
        garbage_in = bool(files)
        if mode == 'file':
            cases.append(Case(src, 'file', ped, rng.choice(STDINS), files, meta=dict(gen='corpus-mutation', relevant=('exit',) if garbage_in else None, no_model=garbage_in)))
        else:
            cases.append(Case(b'', 'repl', ped, src + b'\n', files, meta=dict(gen='corpus-mutation-repl', no_model=garbage_in)))
    # exhaustive token sequences
    if tier == 'quick':
        seqs = [(a,) for a in VOCAB] + list(itertools.product(VOCAB, VOCAB))
        seqs = [(a,) for a in VOCAB] + rng.sample(list(itertools.product(VOCAB, VOCAB)), 1500)
    else:
        seqs = [(a,) for a in VOCAB] + list(itertools.product(VOCAB, VOCAB)) + rng.sample(list(itertools.product(VOCAB, VOCAB, VOCAB)), 25000)
    for s in seqs:
        cases.append(Case((' '.join(s) + '\n').encode(), 'file', '', b'7\n', meta=dict(gen='token-seq-%d' % len(s), sample=False)))
    for src in glued(rng, 600 if tier == 'quick' else 8000):
        cases.append(Case(src, 'file', rng.choice(['', '', '-p']), b'7\n', meta=dict(gen='glued-atoms', sample=False)))
    for src, inp in boundary_programs():
        cases.append(Case(src.encode(), 'file', '', inp, meta=dict(gen='numeric-boundary', sample=False)))
    for src in numlex(tier, rng):
        cases.append(Case(src, 'file', '', b'7\n', meta=dict(gen='number-lexer', sample=False)))
    for _ in range(150 if tier == 'quick' else 2000):
        src = structured(rng)
        files = {'f.dat': rng.choice(DATAFILES)} if rng.random() < 0.4 else {}
        mode = 'file' if rng.random() < 0.7 else 'repl'
        nm = bool(files)
        if mode == 'file':
            cases.append(Case(src, 'file', rng.choice(['', '-p']), rng.choice(STDINS), files, meta=dict(gen='structured', no_model=nm)))
        else:
            cases.append(Case(b'', 'repl', '', src, files, meta=dict(gen='structured-repl', no_model=nm)))
    for c in cases:
        if c.meta.get('relevant') is None:
            c.meta.pop('relevant', None)
    for _ in range(25 if tier == 'quick' else 500):      # cross-feature programs (gen.rich_program): every data kind, call mode and file kind mixed
        cases.append(Case(gen.rich_program(rng), limits=dict(steps=30000), stdin=b'typed\n', meta=dict(gen='rich', sample=False)))
    return cases

def intrinsic(case, io, ia):
    for tag, o in (('normal', io), ('asan', ia)):
        if o is None or o.timeout:
            continue
        if case.mode == 'file' and o.exit in (0, 1):
            if o.exit == 1 and not o.diags and not o.misc:
                return '%s build: exit status 1 without a diagnostic' % tag
            if o.exit == 0 and o.diags:
                return '%s build: a diagnostic was printed but the exit status is 0' % tag
    return None
