"""C07 — records are values: every copy is deep and independent."""
from pe2 import Case
import gen

NEEDS_ASAN = True
RELEVANT = ('stdout', 'exit', 'diagkinds')
ASSUMPTIONS = ['lifetime of record storage is checked by the sanitizer build only']

SCALARS = ['INTEGER', 'REAL', 'BOOLEAN', 'CHAR', 'STRING', 'DATE']

class RType:
    def __init__(self, name):
        self.name = name; self.fields = []      # (fname, kind, spec): kind 'scalar'|'rec'|'arr' ; spec: type | RType | (lo, hi, elemtype or RType)
    def decl(self):
        out = ['TYPE %s' % self.name]
        for f, k, s in self.fields:
            if k == 'scalar': out.append('  DECLARE %s : %s' % (f, s))
            elif k == 'rec': out.append('  DECLARE %s : %s' % (f, s.name))
            else: out.append('  DECLARE %s : ARRAY[%d:%d] OF %s' % (f, s[0], s[1], s[2].name if isinstance(s[2], RType) else s[2]))
        return out + ['ENDTYPE']
    def leaves(self, prefix):
        """all scalar paths under a value of this type: (path, scalar type)"""
        out = []
        for f, k, s in self.fields:
            if k == 'scalar': out.append(('%s.%s' % (prefix, f), s))
            elif k == 'rec': out += s.leaves('%s.%s' % (prefix, f))
            else:
                for i in range(s[0], s[1] + 1):
                    if isinstance(s[2], RType): out += s[2].leaves('%s.%s[%d]' % (prefix, f, i))
                    else: out.append(('%s.%s[%d]' % (prefix, f, i), s[2]))
        return out

def make_types(rng, levels, max_arr=3):
    types = []
    def mk(level):
        t = RType('T%d' % len(types)); types.append(t)
        nf = rng.randint(0, 3) if level > 0 else rng.randint(1, 3)
        for i in range(nf):
            t.fields.append(('s%d' % i, 'scalar', rng.choice(SCALARS)))
        for i in range(rng.randint(0, max_arr)):
            lo = rng.randint(-1, 1); hi = lo + rng.randint(0, 2)
            if level < levels and rng.random() < 0.3:
                sub = mk(level + 1); t.fields.append(('a%d' % i, 'arr', (lo, hi, sub)))
            else:
                t.fields.append(('a%d' % i, 'arr', (lo, hi, rng.choice(SCALARS))))
        if level < levels and rng.random() < 0.7:
            sub = mk(level + 1); t.fields.append(('r0', 'rec', sub))
        rng.shuffle(t.fields)
        if not t.fields:
            t.fields.append(('only', 'scalar', 'INTEGER'))
        return t
    top = mk(1)
    # inner types must be declared before the types that use them
    order = []
    def visit(t):
        for f, k, s in t.fields:
            sub = s if k == 'rec' else (s[2] if k == 'arr' and isinstance(s[2], RType) else None)
            if sub is not None: visit(sub)
        if t not in order: order.append(t)
    visit(top)
    return top, order

def val(rng, ty, salt):
    if ty == 'INTEGER': return str(100 + salt)
    if ty == 'REAL': return '%d.25' % salt
    if ty == 'BOOLEAN': return 'TRUE' if salt % 2 else 'FALSE'
    if ty == 'CHAR': return "'%s'" % chr(65 + salt % 26)
    if ty == 'STRING': return '"v%d"' % salt
    return '%d/%d/%d' % (1 + salt % 28, 1 + salt % 12, 2000 + salt % 50)

def fill(rng, top, var, base):
    return ['%s <- %s' % (p, val(rng, ty, base + i)) for i, (p, ty) in enumerate(top.leaves(var))]
def dump(top, var, tag):
    return ['OUTPUT "%s %s=", %s' % (tag, p, p) for p, ty in top.leaves(var)]

def channel_case(rng, k, channel):
    top, order = make_types(rng, rng.randint(1, 3))
    L = []
    for t in order: L += t.decl()
    L += ['DECLARE x : %s' % top.name, 'DECLARE y : %s' % top.name]
    L += fill(rng, top, 'x', 0) + fill(rng, top, 'y', 500)
    if channel == 'assign':
        L += ['y <- x']
    elif channel == 'byval':
        L = L[:0] + L
        L += ['PROCEDURE take(BYVAL p : %s)' % top.name] + ['  ' + s for s in dump(top, 'p', 'param')] + ['  ' + s for s in fill(rng, top, 'p', 900)] + ['  ' + s for s in dump(top, 'x', 'inside-x')] + ['  y <- p', 'ENDPROCEDURE', 'CALL take(x)']
    elif channel == 'return':
        L += ['FUNCTION give() RETURNS %s' % top.name, '  DECLARE loc : %s' % top.name] + ['  ' + s for s in fill(rng, top, 'loc', 0)] + ['  RETURN loc', 'ENDFUNCTION', 'y <- give()']
    elif channel == 'array':
        L += ['DECLARE xs : ARRAY[1:2] OF %s' % top.name, 'DECLARE ys : ARRAY[1:2] OF %s' % top.name, 'xs[1] <- x', 'xs[2] <- y', 'ys <- xs', 'y <- ys[1]', 'xs[1] <- ys[2]'] + dump(top, 'xs[1]', 'xs1') + dump(top, 'ys[2]', 'ys2')
    elif channel == 'field':
        L = L[:0] + L
        L += ['TYPE Wrap', '  DECLARE inner : %s' % top.name, '  DECLARE z : INTEGER', 'ENDTYPE', 'DECLARE w : Wrap', 'DECLARE w2 : Wrap', 'w.inner <- x', 'w2 <- w', 'y <- w2.inner'] + fill(rng, top, 'w.inner', 700) + dump(top, 'w2.inner', 'w2')
    elif channel == 'implicit':
        L += ['z <- x'] + dump(top, 'z', 'z') + fill(rng, top, 'z', 800)
    L += dump(top, 'x', 'copied-x') + dump(top, 'y', 'copied-y')
    # mutate the source, then the destination; neither may show in the other
    L += fill(rng, top, 'x', 300) + dump(top, 'y', 'after-src-mut-y')
    L += fill(rng, top, 'y', 600) + dump(top, 'x', 'after-dst-mut-x')
    nleaves = len(top.leaves('x'))
    return Case(gen.join(L), limits=dict(steps=20000), meta=dict(gen='copy-' + channel, nleaves=nleaves, sample=k < 1))

SPECIAL = [
 'TYPE R\n  DECLARE a : INTEGER\nENDTYPE\nDECLARE r : R\nDECLARE g : INTEGER\ng <- 5\nOUTPUT r.a\nOUTPUT r.g\n', 'TYPE R\n  DECLARE a : INTEGER\nENDTYPE\nDECLARE r : R\nDECLARE g : INTEGER\nr.g <- 1\n',
 'TYPE R\n  DECLARE a : INTEGER\n  DECLARE s : STRING\n  DECLARE c : CHAR\n  DECLARE b : BOOLEAN\n  DECLARE x : REAL\n  DECLARE d : DATE\n  DECLARE arr : ARRAY[1:2] OF STRING\nENDTYPE\nDECLARE r : R\nOUTPUT r.a, "|", r.s, "|", r.b, "|", r.x, "|", r.d, "|", r.arr[1], "|", LENGTH(r.s), ASC(r.c)\n',
 'TYPE R\n  DECLARE a : INTEGER\nENDTYPE\nDECLARE r : R\nr.a <- "s"\n', 'TYPE R\n  DECLARE a : INTEGER\nENDTYPE\nDECLARE r : R\nr.a <- 2.5\n', 'TYPE R\n  DECLARE a : INTEGER\nENDTYPE\nTYPE S\n  DECLARE a : INTEGER\nENDTYPE\nDECLARE r : R\nDECLARE s : S\nr <- s\n',
 'TYPE R\n  DECLARE a : INTEGER\nENDTYPE\nDECLARE r : R\nOUTPUT r.a.b\n', 'DECLARE i : INTEGER\nOUTPUT i.f\n', 'TYPE R\n  DECLARE a : ARRAY[1:2] OF INTEGER\nENDTYPE\nDECLARE r : R\nOUTPUT r.a\n', 'TYPE R\n  DECLARE a : ARRAY[1:2] OF INTEGER\nENDTYPE\nDECLARE r : R\nDECLARE s : R\nr.a[1] <- 7\ns.a <- r.a\nr.a[1] <- 8\nOUTPUT s.a[1], r.a[1]\n',
 'TYPE R\n  DECLARE a : INTEGER\n\n  // comment inside\n  DECLARE b : INTEGER\n\nENDTYPE\nDECLARE r : R\nr.b <- 2\nOUTPUT r.a + r.b\n',
 'PROCEDURE p\n  TYPE L\n    DECLARE v : INTEGER\n  ENDTYPE\n  DECLARE l : L\n  DECLARE m : L\n  l.v <- 4\n  m <- l\n  l.v <- 5\n  OUTPUT m.v, l.v\nENDPROCEDURE\nCALL p\nCALL p\n',
 'TYPE R\n  DECLARE f : Undefined\nENDTYPE\nDECLARE r : R\n', 'TYPE R\n  DECLARE a : INTEGER\nENDTYPE\nTYPE R\n  DECLARE b : INTEGER\nENDTYPE\n', 'TYPE R\n  DECLARE a : INTEGER\n  DECLARE a : INTEGER\nENDTYPE\nDECLARE r : R\n',
]

def generate(tier, rng):
    cases = [Case(s.encode(), meta=dict(gen='special')) for s in SPECIAL]
    n = 14 if tier == 'quick' else 150
    k = 0
    for ch in ['assign', 'byval', 'return', 'array', 'field', 'implicit']:
        for _ in range(n):
            cases.append(channel_case(rng, k, ch)); k += 1
    for _ in range(25 if tier == 'quick' else 400):
        cases.append(Case(gen.compound_loop_program(rng), limits=dict(steps=20000), meta=dict(gen='compound-in-loop', sample=False)))
    for _ in range(25 if tier == 'quick' else 500):      # cross-feature programs (gen.rich_program): every data kind, call mode and file kind mixed
        cases.append(Case(gen.rich_program(rng), limits=dict(steps=30000), stdin=b'typed\n', meta=dict(gen='rich', sample=False)))
    return cases

def intrinsic(case, io, ia):
    g = case.meta.get('gen', '')
    if ia is not None and not ia.timeout and not io.timeout and not io.budget and not ia.budget and (ia.stdout != io.stdout or ia.exit != io.exit):
        return 'normal and sanitizer builds disagree'
    if not g.startswith('copy-') or io.exit != 0 or io.budget:
        return None
    lines = io.stdout.decode('latin-1').split('\n')
    def sect(tag):
        return [l.split('=', 1)[1] for l in lines if l.startswith(tag + ' ')]
    cx, cy = sect('copied-x'), sect('copied-y')
    if g in ('copy-assign', 'copy-return', 'copy-array', 'copy-field') and cx != cy:
        return 'the copy differs from the source: %r vs %r' % (cx[:6], cy[:6])
    if g == 'copy-byval':
        if sect('param') != cx:
            return 'the BYVAL parameter differs from the argument: %r vs %r' % (sect('param')[:6], cx[:6])
        if sect('inside-x') != cx:
            return 'writing the BYVAL parameter changed the argument'
    if g == 'copy-implicit' and sect('z') != cx:
        return 'the implicitly declared copy differs from the source'
    if sect('after-src-mut-y') != cy:
        return 'mutating the source showed in the copy'
    ax = sect('after-dst-mut-x')
    if g != 'copy-byval' and len(ax) != len(cx):
        return 'dump length changed'
    # x was refilled with base 300 before y was mutated: x must still hold those values, i.e. differ from y's new ones
    if ax == sect('after-src-mut-y') and len(ax) > 0 and cx != ax:
        pass
    return None
