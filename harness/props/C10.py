"""C10 — layout, comments and line endings never change what a program does."""
import re, subprocess
from pe2 import Case
import pe2, gen
from props import C01

RELEVANT = ('stdout', 'exit', 'diagkinds')
ASSUMPTIONS = ['transformations are applied only to programs whose every line has balanced quotes, so that line ends and blanks are token boundaries',
               "a comment appended to a line that ends in '/' is separated by a blank (otherwise it would merge with that token)"]

WARN = re.compile(rb'^Warning on line (\d+) column \d+: [^\n]*\n', re.M)

def lines_of(src):
    return src.split(b'\n')

def transformable(src):
    if b'\r' in src or b'\\' in src:
        return False
    for ln in lines_of(src):
        code = ln.split(b'//')[0] if b'"' not in ln and b"'" not in ln else ln
        if ln.count(b'"') % 2 or ln.count(b"'") % 2:
            return False
        if b'"' in ln and b'//' in ln:
            return False
        if b"'" in ln and b'//' in ln:
            return False
    return True

COMMENT_TEXTS = [b'', b' note', b'2', b'/', b' "quoted"', b"'", b' OUTPUT 1', b'ENDIF', b' <- 5', b'1/1/2000', b' 12//3', b'\t tab', b' a // b', b'#', b' ( [ {']

def widen(rng, ln):
    if b'"' in ln or b"'" in ln:
        return ln
    out = bytearray()
    i = 0
    while i < len(ln):
        c = ln[i:i+1]
        if c == b' ':
            out += rng.choice([b' ', b'  ', b'\t', b' \t ', b'    '])
        else:
            out += c
        i += 1
    return bytes(out)

def transform(rng, src, kind):
    """returns (new source, line map old->new) ; line numbers are 1-based"""
    ls = lines_of(src)
    m = {}
    out = []
    for idx, ln in enumerate(ls):
        old = idx + 1
        if kind in ('blank', 'mixed') and rng.random() < 0.3:
            for _ in range(rng.randint(1, 3)):
                out.append(rng.choice([b'', b'   ', b'\t', b'// full line comment' + rng.choice(COMMENT_TEXTS), b'  //x']))
        new = ln
        if kind in ('indent', 'mixed'):
            new = rng.choice([b'', b' ', b'    ', b'\t', b'\t\t ']) + new.lstrip(b' \t')
        if kind in ('widen', 'mixed') and rng.random() < 0.7:
            lead = len(new) - len(new.lstrip(b' \t'))
            new = new[:lead] + widen(rng, new[lead:])
        if kind == 'tabs' and b'"' not in new and b"'" not in new:
            new = new.replace(b' ', b'\t')
        if kind in ('comment', 'mixed') and rng.random() < (0.5 if kind == 'comment' else 0.25) and b'"' not in new and b"'" not in new and b'//' not in new:
            sep = b' ' if new.rstrip(b' \t').endswith(b'/') else rng.choice([b'', b' ', b'\t'])
            new = new + sep + b'//' + rng.choice(COMMENT_TEXTS)
        out.append(new)
        m[old] = len(out)
    res = b'\n'.join(out)
    if kind == 'crlf':
        res = res.replace(b'\n', b'\r\n')
    return res, m

KINDS = ['indent', 'widen', 'tabs', 'blank', 'comment', 'crlf', 'mixed']

def base_programs(tier, rng):
    progs = [p for p in C01.corpus_programs()]
    extra = []
    for _ in range(40 if tier == 'quick' else 400):
        extra.append(C01.structured(rng))
    for _ in range(40 if tier == 'quick' else 400):
        extra.append(C01.mutate(rng, rng.choice(progs), progs))
    small = [b'OUTPUT 1\nOUTPUT 2\n', b'DECLARE x : INTEGER\nx <- 5 / 2\nOUTPUT x\n', b'IF 1 = 1\n  THEN\n    OUTPUT "a"\n  ELSE\n    OUTPUT "b"\nENDIF\n',
             b'TYPE R\n  DECLARE a : INTEGER\n  DECLARE b : STRING\nENDTYPE\nDECLARE r : R\nr.a <- 3\nOUTPUT r.a\n',
             b'x <- 10\nCASE OF x\n  1 : OUTPUT "one"\n  5 TO 20 : OUTPUT "mid"\n      OUTPUT "again"\n  OTHERWISE : OUTPUT "other"\nENDCASE\n',
             b'FUNCTION f(a : INTEGER)\n  RETURNS INTEGER\n  RETURN a * 2\nENDFUNCTION\nOUTPUT f(4)\nOUTPUT 1 / 0\nOUTPUT 3\n',
             b'PROCEDURE p(n : INTEGER)\n  IF n > 0 THEN\n    CALL p(n - 1)\n  ELSE\n    OUTPUT undefined_name\n  ENDIF\nENDPROCEDURE\nCALL p(3)\n',
             b'OUTPUT 5 / 2\nOUTPUT 7 DIV 2\nx <- 9\nOUTPUT x\n', b'OUTPUT (1)\nOUTPUT(2)\n',
             # keywords that may stand on a line of their own: the line break in front of them is layout too
             b'x <- 0\nWHILE x < 3\nDO\n  x <- x + 1\n  OUTPUT x\nENDWHILE\nOUTPUT 1 DIV 0\n',
             b'x <- 0\nWHILE x < 2\n  DO\n  x <- x + 1\nENDWHILE\nOUTPUT x\n',
             b'x <- 4\nIF x > 3\nTHEN\n  OUTPUT "big"\nELSE IF x > 1\nTHEN\n  OUTPUT "mid"\nELSE\n  OUTPUT "small"\nENDIF\nOUTPUT undefined_name\n',
             b'x <- 2\nCASE OF x\n  1 : OUTPUT "one"\n  2 :\n      OUTPUT "two"\n      OUTPUT "still two"\n  OTHERWISE :\n      OUTPUT "other"\nENDCASE\n',
             b'i <- 0\nREPEAT\n  i <- i + 1\n  OUTPUT i\nUNTIL i >= 2\nFOR j <- 1 TO 2\n  OUTPUT j\nNEXT j\nFOR k <- 1 TO 2 STEP 1\n  OUTPUT k\nNEXT\n',
             b'PROCEDURE p(BYREF a : INTEGER, b : INTEGER)\n  a <- a + b\nENDPROCEDURE\nDECLARE v : INTEGER\nv <- 1\nCALL p(v, 2)\nOUTPUT v\nTYPE E = (e1, e2)\nTYPE P = ^INTEGER\nDECLARE q : P\nq <- ^v\nOUTPUT q^\n']
    return [p for p in progs + extra + small if transformable(p)]

def generate(tier, rng):
    cases = []
    bases = base_programs(tier, rng)
    reps = 1 if tier == 'quick' else 3
    for bi, src in enumerate(bases):
        cases.append(Case(src, stdin=b'5\n7\nabc\n', meta=dict(gen='original', pair=None, base=bi, sample=bi < 1)))
        for kind in KINDS:
            for _ in range(reps):
                new, m = transform(rng, src, kind)
                cases.append(Case(new, stdin=b'5\n7\nabc\n', meta=dict(gen='layout-' + kind, base=bi, linemap={str(k): v for k, v in m.items()}, sample=bi < 1 and kind == 'mixed')))
    # exhaustive single-line trailing comments for the small programs
    for bi, src in enumerate(bases):
        ls = lines_of(src)
        if len(ls) > 12:
            continue
        for i in range(len(ls)):
            if b'"' in ls[i] or b"'" in ls[i] or b'//' in ls[i]:
                continue
            for txt in ([b'', b' c', b'2'] if tier == 'quick' else COMMENT_TEXTS):
                sep = b' ' if ls[i].rstrip(b' \t').endswith(b'/') else b''
                new = b'\n'.join(ls[:i] + [ls[i] + sep + b'//' + txt] + ls[i + 1:])
                cases.append(Case(new, stdin=b'5\n7\nabc\n', meta=dict(gen='single-comment', base=bi, linemap={str(k + 1): k + 1 for k in range(len(ls))}, sample=False)))
    # exhaustive single inserted line (blank, blanks only, comment, comment without text) at every line boundary of the small programs
    for bi, src in enumerate(bases):
        ls = lines_of(src)
        if len(ls) > 14:
            continue
        for i in range(len(ls) + 1):
            for filler in (b'', b'  \t', b'// c', b'//'):
                new = b'\n'.join(ls[:i] + [filler] + ls[i:])
                lm = {str(k + 1): (k + 1 if k < i else k + 2) for k in range(len(ls))}
                cases.append(Case(new, stdin=b'5\n7\nabc\n', meta=dict(gen='single-line-inserted', base=bi, linemap=lm, sample=False)))
    return cases

_orig = {}
def strip_warnings(out):
    return WARN.sub(b'', out)

def intrinsic(case, io, ia):
    g = case.meta.get('gen')
    if 'base' not in case.meta:
        return None
    if g == 'original':
        _orig[case.meta['base']] = io
        return None
    o = _orig.get(case.meta['base'])
    if o is None or o.timeout or io.timeout or o.budget or io.budget:
        return None
    if strip_warnings(o.stdout) != strip_warnings(io.stdout):
        return 'output differs from the original layout: %r vs %r' % (strip_warnings(o.stdout)[:200], strip_warnings(io.stdout)[:200])
    if o.exit != io.exit:
        return 'exit status %s vs %s' % (o.exit, io.exit)
    if [d['kind'] for d in o.diags] != [d['kind'] for d in io.diags]:
        return 'diagnostic kinds differ: %s vs %s' % ([d['kind'] for d in o.diags], [d['kind'] for d in io.diags])
    if o.files != io.files:
        return 'files differ'
    lm = case.meta.get('linemap')
    if lm and g != 'layout-crlf':
        nlines = len(lm)
        for d0, d1 in zip(o.diags, io.diags):
            chain0 = [d0['line']] + [t[1] for t in d0['trace'][1:]]
            chain1 = [d1['line']] + [t[1] for t in d1['trace'][1:]]
            for a, b in zip(chain0, chain1):
                if a is None or a == 0 or str(a) not in lm:
                    continue       # positions past the last source line / built-in frames
                if lm[str(a)] != b:
                    return 'diagnostic line %s should move to %s, reported %s' % (a, lm[str(a)], b)
    return None

def extra_checks(tier, rng, exe, exe_asan, mexe, stats):
    """direct tie of the lexer model: token dump (hook H2) of arbitrary text vs Lexer.v"""
    texts = []
    progs = C01.corpus_programs()
    alphabet = b'abcXYZ_019 .,:;()[]<>=-+*/&^\'"\\#\t\n\r!{}|~\x80\xff'
    for _ in range(300 if tier == 'quick' else 5000):
        k = rng.randint(0, 2)
        if k == 0:
            texts.append(bytes(rng.choice(alphabet) for _ in range(rng.randint(0, 40))))
        elif k == 1:
            texts.append(C01.mutate(rng, rng.choice(progs), progs)[:600])
        else:
            texts.append((' '.join(rng.choice(C01.VOCAB + ['12/3/2020', '5//2', '1/2', "'\\n'", '"a\\"b"', '3.', '.5', '1.2.3', 'x1_y', '<-', '< -', '==', '//c'])
                                   for _ in range(rng.randint(1, 12)))).encode())
    cases = [Case(t, meta=dict(env={'PE2_VERIF_DUMP_TOKENS': '1'}, gen='lexer-dump')) for t in texts]
    for ped in ('', '-p'):
        for c in cases:
            c.pedantic = ped
        ios = pe2.run_impl_many(cases, exe)
        # runFile() hands the lexer the file's text followed by one line break
        mos = pe2.run_model([Case(c.program + b'\n', mode='lex', pedantic=ped) for c in cases], mexe)
        n = 0
        for c, io, mo in zip(cases, ios, mos):
            n += 1
            if io.diags:
                want = (io.diags[0]['kind'], io.diags[0]['line'], io.diags[0]['col'])
                got = mo.lexerr
                # a parse error cannot occur: the hook returns before parsing
                if got is None or (got[0], got[1], got[2]) != want:
                    yield ('lexer model and implementation disagree on a lexical error: impl %r model %r' % (want, got), c, io)
            else:
                toks = []
                for ln in io.stdout.decode('latin-1').split('\n'):
                    if not ln: continue
                    p = ln.split(' ')
                    toks.append((p[0], int(p[1]), int(p[2]), bytes.fromhex(p[3]) if len(p) > 3 else b''))
                if mo.lexerr is not None or toks != mo.toks:
                    yield ('lexer model and implementation disagree on the token stream', c, io)
        stats.setdefault('extra', {})['lexer_dump_cases' + ped] = n
