"""C12 — the REPL runs programs like file mode and survives failing entries unharmed."""
import re
from pe2 import Case
import gen

RELEVANT = ('stdout', 'exit', 'diagkinds', 'files')
ASSUMPTIONS = ['the REPL is driven through standard input without readline; prompts are removed before REPL and file output are compared']

SETUP = ['DECLARE i1 : INTEGER', 'DECLARE s1 : STRING', 'DECLARE r1 : REAL', 'CONSTANT K = 7', 'DECLARE arr : ARRAY[1:3] OF INTEGER', 'TYPE Col = (red, green)',
         'TYPE Rec', '  DECLARE f : INTEGER', 'ENDTYPE', '', 'DECLARE rec : Rec', 'DECLARE col : Col',
         'PROCEDURE bump(BYREF v : INTEGER)', '  v <- v + 1', 'ENDPROCEDURE', '',
         'FUNCTION twice(v : INTEGER) RETURNS INTEGER', '  RETURN v * 2', 'ENDFUNCTION', '',
         'i1 <- 5', 's1 <- "text"', 'r1 <- 2.5', 'arr[2] <- 22', 'rec.f <- 9', 'col <- green',
         'OPENFILE "log.txt" FOR WRITE', 'WRITEFILE "log.txt", "first"',
         'DECLARE ln : STRING', 'DECLARE rv : INTEGER', 'OPENFILE "in.txt" FOR READ', 'READFILE "in.txt", ln',
         'OPENFILE "rnd.dat" FOR RANDOM', 'rv <- 11', 'PUTRECORD "rnd.dat", rv', 'SEEK "rnd.dat", 2', 'rv <- 22', 'PUTRECORD "rnd.dat", rv', 'SEEK "rnd.dat", 1']
FILES = {'in.txt': b'line1\nline2\nline3\nline4\n'}
PROBES = ['READFILE "in.txt", ln', 'ln', 'EOF("in.txt")', 'GETRECORD "rnd.dat", rv', 'rv', 'READFILE "in.txt", ln', 'ln', 'i1', 's1', 'r1', 'K', 'arr[1]', 'arr[2]', 'rec.f', 'col', 'twice(i1)', 'CALL bump(i1)', 'i1', 'newv', 'fresh1', 'WRITEFILE "log.txt", "probe"', 'red', 'rec', '1/1/2000', "'c'", 'TRUE', '"s" & 1', '7 / 2', '6 / 2']
FAILING_SIMPLE = {
 'syntax': ['x <- ', 'OUTPUT )', 'i1 <- 1 +* 2', 'DECLARE : INTEGER', '"unterminated', "i1 <- 'ab'"],
 'undefined': ['newv <- nosuch + 1', 'i1 <- nosuch', 'OUTPUT nosuch', 'CALL nosuchproc', 'newv <- twice(nosuch)'],
 'type': ['i1 <- "str"', 'newv <- 1 + "s"', 's1 <- 5', 'arr[1] <- "x"', 'rec.f <- TRUE', 'col <- 1', 'i1 <- 2.5'],
 'redeclaration': ['DECLARE i1 : INTEGER', 'DECLARE s1 : REAL', 'CONSTANT K = 8', 'DECLARE K : INTEGER', 'TYPE Col = (a, b)', 'DECLARE fresh1 : NoSuchType'],
 'constant': ['K <- 2', 'K <- K'],
 'bounds': ['arr[99] <- 1', 'arr[0] <- 1', 'newv <- arr[4]', 'arr[1, 1] <- 2'],
 'file': ['CLOSEFILE "nope.txt"', 'READFILE "nope.txt", newv', 'OPENFILE "missing.txt" FOR READ', 'WRITEFILE "nope.txt", 1', 'READFILE "log.txt", newv', 'OPENFILE "log.txt" FOR WRITE', 'SEEK "log.txt", 1', 'GETRECORD "log.txt", i1',
          'READFILE "in.txt", i1', 'READFILE "in.txt", K', 'READFILE "in.txt", rec', 'READFILE "in.txt", arr[9]', 'READFILE "in.txt", col',
          'SEEK "rnd.dat", 99', 'SEEK "rnd.dat", 0', 'SEEK "rnd.dat", "x"', 'GETRECORD "rnd.dat", s1', 'GETRECORD "rnd.dat", K', 'GETRECORD "rnd.dat", nosuch', 'PUTRECORD "rnd.dat", nosuch',
          'PUTRECORD "rnd.dat", 1 + "s"', 'WRITEFILE "in.txt", 1', 'OPENFILE "in.txt" FOR READ', 'OPENFILE "rnd.dat" FOR READ', 'READFILE "rnd.dat", ln', 'WRITEFILE "log.txt", nosuch', 'WRITEFILE "log.txt", 1 / 0'],
}

def history_case(rng, kind, failing, pos, k):
    base = list(SETUP)
    middle = ['i1 <- i1 + 1', 's1 <- s1 & "!"', 'arr[3] <- 33']
    n = len(middle)
    with_f = middle[:pos % (n + 1)] + [failing] + middle[pos % (n + 1):]
    h1 = base + with_f + PROBES + ['CLOSEFILE "log.txt"']
    h0 = base + middle + PROBES + ['CLOSEFILE "log.txt"']
    return [Case(mode='repl', stdin=gen.join(h0), files=dict(FILES), meta=dict(gen='history-clean', pair='clean-mid', sample=False)),
            Case(mode='repl', stdin=gen.join(h1), files=dict(FILES), meta=dict(gen='history-failing-' + kind, pair='clean-mid', failing=failing, sample=k < 1))]

def split_case(rng, k):
    pre, env = gen.prelude(rng)
    sg = gen.StmtGen(rng, env)
    body = []
    for _ in range(rng.randint(2, 5)):
        body += sg.stmt(rng.randint(1, 3), '', False)
    lines = pre + sg.pre + body + ['OUTPUT i1, " ", i2, " ", r1, " ", b1, " ", s1']
    ent = gen.to_entries(lines)
    flat = [l for e in ent for l in e]
    return [Case(gen.join(lines), meta=dict(gen='split-file', pair=k, sample=False)),
            Case(mode='repl', stdin=gen.join(flat), meta=dict(gen='split-repl', pair=k, sample=k < 1))]

ECHO = [('5', '5'), ('2 + 3', '5'), ('7 / 2', '3.5'), ('6 / 2', '3.0'), ('1.0', '1.0'), ('0.1 + 0.2', '0.3'), ('TRUE', 'TRUE'), ('1 > 2', 'FALSE'), ("'x'", "'x'"), ('"str"', '"str"'), ('""', '""'),
        ('"a" & 1', '"a1"'), ('5/3/2021', '5/3/2021'), ('SETDATE(1, 2, 2003)', '1/2/2003'), ('-3', '-3'), ('100000000000.0', '1e+11.0'), ('1 / 3', '0.3333333333'), ('LENGTH("abc")', '3'),
        ('CHR(65)', "'A'"), ('12345678901234', '12345678901234')]

def runfile_case(rng, k, ok):
    prog = b'DECLARE i1 : INTEGER\ni1 <- 999\nOUTPUT "in file ", i1\n' + (b'' if ok else rng.choice([b'OUTPUT nosuch\n', b'OUTPUT )\n', b'x <- 1 / 0\n']))
    h = SETUP + ['RUNFILE prog2.pseudo'] + PROBES + ['CLOSEFILE "log.txt"']
    h0 = SETUP + PROBES + ['CLOSEFILE "log.txt"']
    return [Case(mode='repl', stdin=gen.join(h0), files=dict(FILES), meta=dict(gen='history-clean', pair='clean-nomid', sample=False)),
            Case(mode='repl', stdin=gen.join(h), files=dict(FILES, **{'prog2.pseudo': prog}), meta=dict(gen='history-runfile-' + ('ok' if ok else 'failing'), pair='clean-nomid', failing='RUNFILE prog2.pseudo', sample=False))]

def generate(tier, rng):
    cases = []
    k = 0
    for kind, lst in FAILING_SIMPLE.items():
        for f in lst:
            for pos in ([0, 1, 2, 3] if tier == 'thorough' else [rng.randint(0, 3)]):
                cases += history_case(rng, kind, f, pos, k); k += 1
    for j in range(20 if tier == 'quick' else 300):
        cases += split_case(rng, 5000 + j)
    for j in range(4 if tier == 'quick' else 20):
        cases += runfile_case(rng, j, j % 2 == 0)
    cases.append(Case(mode='repl', stdin=gen.join(['TYPE Season = (spring, summer)', 'DECLARE s : Season', 's <- summer', 's'] + [e[0] for e in ECHO]), meta=dict(gen='echo-forms')))
    # '?', EXIT, blank lines, multi-line entry cut short by end of input
    cases.append(Case(mode='repl', stdin=b'?\n\n\nOUTPUT 1\nEXIT\nOUTPUT 2\n', meta=dict(gen='repl-commands')))
    cases.append(Case(mode='repl', stdin=b'OUTPUT 1\nIF TRUE THEN\n  OUTPUT 2\n', meta=dict(gen='repl-commands')))
    cases.append(Case(mode='repl', stdin=b'OUTPUT 1\nOUTPUT 2', meta=dict(gen='repl-commands')))
    cases.append(Case(mode='repl', stdin=b'RUNFILE\nRUNFILE nosuchfile.pseudo\nOUTPUT 3\n', meta=dict(gen='repl-commands', relevant=('stdout', 'exit', 'diagkinds'))))
    return cases

_store = {}
def intrinsic(case, io, ia):
    g = case.meta.get('gen', '')
    if g == 'history-clean' or g == 'split-file':
        _store[case.meta['pair']] = io
        return None
    if io.exit != 0:
        return 'the REPL session ended with status %s' % io.exit
    base = _store.get(case.meta.get('pair'))
    if g.startswith('history-failing') or g.startswith('history-runfile'):
        if base is None: return None
        if g.startswith('history-failing') and len(io.diags) <= len(base.diags):
            return None      # the entry did not fail (e.g. READFILE into a name that is only an array defines a new variable): nothing to compare
        a = gen.repl_outputs(base.stdout); b = gen.repl_outputs(io.stdout)
        # locate the failing entry's chunk: histories are identical up to it
        nset = len([l for l in SETUP if True])
        # compare the tail (all probes): same number of chunks from the end
        ntail = len(PROBES) + 2
        if a[-ntail:] != b[-ntail:]:
            for x, y in zip(a[-ntail:], b[-ntail:]):
                if x != y:
                    return 'after the failing entry %r a later entry printed %r instead of %r' % (case.meta['failing'], y[:80], x[:80])
        for fn in ('log.txt', 'rnd.dat', 'in.txt'):
            if base.files.get(fn) != io.files.get(fn):
                return 'the open file %s was disturbed by the failing entry %r' % (fn, case.meta['failing'])
        if False:
            return ''
    if g == 'split-repl':
        if base is None or base.budget or io.budget: return None
        if base.exit != 0: return None
        want = re.sub(r'^Warning on line \d+ column \d+: [^\n]*\n', '', base.stdout.decode('latin-1'), flags=re.M)
        got = re.sub(r'Warning on line \d+ column \d+: [^\n]*\n', '', gen.strip_prompts(io.stdout))
        if want != got:
            return 'REPL output differs from file mode: %r vs %r' % (got[:200], want[:200])
    if g == 'echo-forms':
        outs = gen.repl_outputs(io.stdout)[4:]
        for (e, want), o in zip(ECHO, outs):
            if o != want + '\n':
                return 'echo of %s is %r, documented form %r' % (e, o, want)
        if gen.repl_outputs(io.stdout)[3] != 'Season: summer\n':
            return 'echo of an enumerated value is %r' % gen.repl_outputs(io.stdout)[3]
    return None
