"""C06 — arrays are bounds-checked total maps with independent elements."""
import itertools
from pe2 import Case
import gen

RELEVANT = ('stdout', 'exit', 'diagkinds')
ASSUMPTIONS = ['whole-program model (Lexer/Parser/Eval) is tied to the C++ by this correspondence only',
               'object lifetime of array elements is outside the model (sanitizer build in C09/C01)']

def shapes(tier, rng):
    bounds = [(l, u) for l in range(-3, 5) for u in range(l, 5)]
    one = [[b] for b in bounds]
    two = [[a, b] for a in bounds for b in bounds]
    three = [[a, b, c] for a in bounds for b in bounds for c in bounds]
    if tier == 'thorough':
        return one + two + rng.sample(three, 1500)
    return rng.sample(one, 12) + rng.sample(two, 25) + rng.sample(three, 25)

def shape_case(dims, elem='INTEGER', rng=None):
    """REPL history: declare, write a distinct value to every cell, read all back, probe the
    surrounding box one step outside, then read all cells again"""
    decl = 'DECLARE a : ARRAY[%s] OF %s' % (', '.join('%d:%d' % d for d in dims), elem)
    cells = list(itertools.product(*[range(l, u + 1) for (l, u) in dims]))
    box = list(itertools.product(*[range(l - 1, u + 2) for (l, u) in dims]))
    if len(box) > 400 and rng is not None:
        inside = [t for t in box if t in set(cells)]
        outside = [t for t in box if t not in set(cells)]
        box = rng.sample(inside, min(len(inside), 100)) + rng.sample(outside, min(len(outside), 250))
    def val(k):
        if elem == 'INTEGER': return str(1000 + k)
        if elem == 'REAL': return '%d.5' % k
        if elem == 'STRING': return '"v%d"' % k
        if elem == 'CHAR': return "'%s'" % chr(33 + k % 90)
        if elem == 'BOOLEAN': return 'TRUE' if k % 2 else 'FALSE'
        if elem == 'DATE': return '%d/%d/%d' % (1 + k % 28, 1 + k % 12, 2000 + k)
    idx = lambda t: '[' + ', '.join(str(x) for x in t) + ']'
    lines = [decl]
    for k, t in enumerate(cells):
        lines.append('a%s <- %s' % (idx(t), val(k)))
    for t in cells:
        lines.append('a' + idx(t))
    for t in box:
        lines.append('a%s <- %s' % (idx(t), val(7777)) if t not in cells and (sum(t) % 2 == 0) else 'a' + idx(t))
    # wrong arity and non-INTEGER index
    lines.append('a' + idx(cells[0] + (0,)))
    if len(dims) > 1:
        lines.append('a' + idx(cells[0][:-1]))
    lines.append('a[%s]' % ', '.join(['1.0'] * len(dims)))
    lines.append('a[%s] <- %s' % (', '.join(['"x"'] * len(dims)), val(1)))
    for t in cells:
        lines.append('a' + idx(t))
    return Case(mode='repl', stdin=gen.join(lines), meta=dict(gen='shape-%dd-%s' % (len(dims), elem), dims=dims))

def assign_case(rng):
    """whole-array assignment: equal and unequal bounds / element types, independence afterwards"""
    d1 = [(rng.randint(-2, 1), rng.randint(2, 4)) for _ in range(rng.randint(1, 2))]
    same = rng.random() < 0.6
    d2 = d1 if same else [(l, u + rng.choice([0, 1])) for (l, u) in d1]
    t1 = rng.choice(['INTEGER', 'STRING', 'REAL'])
    t2 = t1 if rng.random() < 0.8 else rng.choice(['INTEGER', 'STRING', 'REAL'])
    ds = lambda d: ', '.join('%d:%d' % x for x in d)
    lines = ['DECLARE a : ARRAY[%s] OF %s' % (ds(d1), t1), 'DECLARE b : ARRAY[%s] OF %s' % (ds(d2), t2)]
    cells1 = list(itertools.product(*[range(l, u + 1) for (l, u) in d1]))
    cells2 = list(itertools.product(*[range(l, u + 1) for (l, u) in d2]))
    idx = lambda t: '[' + ', '.join(str(x) for x in t) + ']'
    v = lambda t, k: {'INTEGER': str(k), 'STRING': '"s%d"' % k, 'REAL': '%d.25' % k}[t]
    for k, t in enumerate(cells1):
        lines.append('a%s <- %s' % (idx(t), v(t1, k)))
    for k, t in enumerate(cells2):
        lines.append('b%s <- %s' % (idx(t), v(t2, 500 + k)))
    lines.append('b <- a')
    lines.append('a%s <- %s' % (idx(cells1[0]), v(t1, 99)))
    lines.append('b%s <- %s' % (idx(cells2[-1]), v(t2, 77)))
    for t in cells1: lines.append('a' + idx(t))
    for t in cells2: lines.append('b' + idx(t))
    lines.append('a <- a')
    lines.append('x <- a')
    for t in cells1: lines.append('a' + idx(t))
    return Case(mode='repl', stdin=gen.join(lines), meta=dict(gen='array-assign'))

def field_assign_case(rng):
    """whole-array assignment where source and target are array FIELDS (same field name in two records, elements of an
    array of records, a field and a plain array): every element copied, bounds/type checked, independent afterwards"""
    lo = rng.randint(-1, 1); hi = lo + rng.randint(1, 3)
    hi2 = hi + rng.choice([0, 0, 1])
    ty2 = rng.choice(['INTEGER', 'INTEGER', 'STRING'])
    L = ['TYPE Row', '  DECLARE id : INTEGER', '  DECLARE v : ARRAY[%d:%d] OF INTEGER' % (lo, hi), 'ENDTYPE',
         'TYPE Other', '  DECLARE v : ARRAY[%d:%d] OF %s' % (lo, hi2, ty2), 'ENDTYPE',
         'DECLARE r1 : Row', 'DECLARE r2 : Row', 'DECLARE o : Other', 'DECLARE rows : ARRAY[0:2] OF Row', 'DECLARE plain : ARRAY[%d:%d] OF INTEGER' % (lo, hi), 'DECLARE k : INTEGER',
         'FOR k <- %d TO %d' % (lo, hi), '  r1.v[k] <- 100 + k', '  r2.v[k] <- 200 + k', '  rows[0].v[k] <- 300 + k', '  rows[2].v[k] <- 500 + k', '  plain[k] <- 700 + k', 'NEXT k']
    dump = ['FOR k <- %d TO %d' % (lo, hi), '  OUTPUT k, " ", r1.v[k], " ", r2.v[k], " ", rows[0].v[k], " ", rows[1].v[k], " ", rows[2].v[k], " ", plain[k]', 'NEXT k']
    steps = ['r1.v <- r2.v', 'rows[0].v <- rows[2].v', 'rows[1].v <- r1.v', 'r2.v <- plain', 'plain <- rows[0].v', 'r1.v <- r1.v', 'rows[2].v <- rows[2].v']
    rng.shuffle(steps)
    for st in steps[:rng.randint(2, 5)]:
        a, b = st.split(' <- ')
        L += [st, '%s[%d] <- 9000' % (b, lo), '%s[%d] <- 8000' % (a, hi)] + dump
    L += ['r1.v <- o.v', 'OUTPUT "after the mismatched assignment"'] + dump
    return Case(gen.join(L), limits=dict(steps=20000), meta=dict(gen='array-field-assign', sample=False))

def loop_case(rng):
    """file-mode program: the same element node is indexed with varying indices inside loops"""
    l1, u1 = rng.randint(-3, 0), rng.randint(1, 4)
    l2, u2 = rng.randint(-2, 1), rng.randint(2, 3)
    p = ['DECLARE m : ARRAY[%d:%d, %d:%d] OF INTEGER' % (l1, u1, l2, u2),
         'FOR i <- %d TO %d' % (l1, u1), '  FOR j <- %d TO %d' % (l2, u2), '    m[i, j] <- i * 10 + j', '  NEXT j', 'NEXT i',
         'FOR j <- %d TO %d' % (l2, u2), '  FOR i <- %d TO %d' % (l1, u1), '    OUTPUT i, " ", j, " ", m[i, j]', '  NEXT i', 'NEXT j',
         'PROCEDURE bump(BYREF x : INTEGER)', '  x <- x + 1000', 'ENDPROCEDURE',
         'CALL bump(m[%d, %d])' % (l1, u2), 'OUTPUT m[%d, %d], " ", m[%d, %d]' % (l1, u2, u1, l2),
         'OUTPUT m[%d, %d]' % (u1 + rng.choice([0, 1]), l2)]
    return Case(gen.join(p), meta=dict(gen='loop-index'))

def generate(tier, rng):
    cases = []
    for dims in shapes(tier, rng):
        cases.append(shape_case(dims, 'INTEGER', rng))
    for elem in ['REAL', 'STRING', 'CHAR', 'BOOLEAN', 'DATE']:
        for _ in range(3 if tier == 'quick' else 12):
            dims = [(rng.randint(-3, 1), rng.randint(1, 4)) for _ in range(rng.randint(1, 3))]
            cases.append(shape_case(dims, elem, rng))
    for _ in range(25 if tier == 'quick' else 200):
        cases.append(assign_case(rng))
    for _ in range(10 if tier == 'quick' else 60):
        cases.append(loop_case(rng))
    for _ in range(12 if tier == 'quick' else 120):
        cases.append(field_assign_case(rng))
    for _ in range(25 if tier == 'quick' else 400):
        cases.append(Case(gen.compound_loop_program(rng), limits=dict(steps=20000), meta=dict(gen='compound-in-loop', sample=False)))
    for _ in range(25 if tier == 'quick' else 500):      # cross-feature programs (gen.rich_program): every data kind, call mode and file kind mixed
        cases.append(Case(gen.rich_program(rng), limits=dict(steps=30000), stdin=b'typed\n', meta=dict(gen='rich', sample=False)))
    return cases

def intrinsic(case, io, ia):
    """the property on the implementation alone, for the shape histories: cells read back as
    written, probes outside give a diagnostic, cells unchanged afterwards"""
    if not case.meta.get('gen', '').startswith('shape-') or not case.meta['gen'].endswith('INTEGER'):
        return None
    dims = case.meta['dims']
    cells = list(itertools.product(*[range(l, u + 1) for (l, u) in dims]))
    # every cell value 1000+k must be echoed exactly twice (first read-back, final read-back) plus once per in-box probe
    out = io.stdout.decode('latin-1')
    for k in range(len(cells)):
        if out.count('> %d\n' % (1000 + k)) < 2:
            return 'cell %s does not read back %d twice' % (cells[k], 1000 + k)
    if '8777' in out:
        return 'an out-of-bounds write became visible'
    return None
