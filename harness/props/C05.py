"""C05 — variables keep their declared type; bad stores are rejected without effect."""
from pe2 import Case
import gen

RELEVANT = ('stdout', 'exit', 'diagkinds')
ASSUMPTIONS = ['INPUT converts the typed line with the code\'s conversion (strtol/strtod whole-match-or-0, = "TRUE", first character)']

PRELUDE = ['TYPE Col = (red, green, blue)', 'TYPE Shape = (sq, tri)', 'TYPE IP = ^INTEGER', 'TYPE SP = ^STRING',
           'TYPE Rec', '  DECLARE n : INTEGER', '  DECLARE s : STRING', 'ENDTYPE', '',
           'TYPE Rec2', '  DECLARE n : INTEGER', 'ENDTYPE', '',
           'DECLARE gi : INTEGER', 'DECLARE gs : STRING', 'gi <- 77', 'gs <- "gs"',
           'DECLARE srcrec : Rec', 'srcrec.n <- 5', 'srcrec.s <- "five"', 'DECLARE srcrec2 : Rec2',
           'DECLARE srcip : IP', 'srcip <- ^gi', 'DECLARE srcsp : SP', 'srcsp <- ^gs']
# type -> (declared type name, initial value expr, show expr template)
TARGETS = {
 'INTEGER': ('INTEGER', '11'), 'REAL': ('REAL', '1.5'), 'BOOLEAN': ('BOOLEAN', 'TRUE'), 'CHAR': ('CHAR', "'q'"), 'STRING': ('STRING', '"init"'),
 'DATE': ('DATE', '1/2/2003'), 'ENUM': ('Col', 'green'), 'PTR': ('IP', None), 'REC': ('Rec', None)}
SOURCES = [('INTEGER', '42'), ('INTEGER', '-3'), ('REAL', '2.75'), ('REAL', '4.0'), ('BOOLEAN', 'FALSE'), ('CHAR', "'z'"), ('STRING', '"w"'), ('STRING', '""'),
           ('STRING', '"two"'), ('DATE', '25/12/2020'), ('ENUM', 'blue'), ('ENUM2', 'tri'), ('PTR', 'srcip'), ('PTR2', 'srcsp'), ('REC', 'srcrec'), ('REC2', 'srcrec2'),
           ('STRING', 'LEFT("abc", 0)'), ('STRING', 'MID("abc", 2, 1)'), ('INTEGER', '9223372036854775807'), ('REAL', '3.0 / 2')]
CHANNELS = ['var', 'element', 'field', 'deref', 'byval', 'byref', 'return', 'implicit']

def accepted(tt, st, sv):
    if tt == st: return True
    if tt == 'REAL' and st == 'INTEGER': return True
    if tt == 'STRING' and st == 'CHAR': return True
    if tt == 'CHAR' and st == 'STRING' and sv in ('"w"', 'MID("abc", 2, 1)'): return True
    return False

def show(tt, e):
    if tt == 'PTR': return ['%s^' % e]
    if tt == 'REC': return ['%s.n' % e, '%s.s' % e]
    return [e]

def init(tt, e):
    if tt == 'PTR': return ['%s <- ^gi' % e]
    if tt == 'REC': return ['%s.n <- 1' % e, '%s.s <- "one"' % e]
    return ['%s <- %s' % (e, TARGETS[tt][1])]

def store_case(tt, st, sv, ch):
    tname = TARGETS[tt][0]
    L = list(PRELUDE)
    byref_ok = (tt == st)
    if ch == 'var':
        L += ['DECLARE t : %s' % tname] + init(tt, 't'); tgt = 't'; store = ['t <- %s' % sv]
    elif ch == 'element':
        L += ['DECLARE arr : ARRAY[1:2] OF %s' % tname] + init(tt, 'arr[1]') + init(tt, 'arr[2]'); tgt = 'arr[2]'; store = ['arr[2] <- %s' % sv]
    elif ch == 'field':
        L += ['TYPE Holder', '  DECLARE f : %s' % tname, '  DECLARE other : INTEGER', 'ENDTYPE', '', 'DECLARE h : Holder'] + init(tt, 'h.f'); tgt = 'h.f'; store = ['h.f <- %s' % sv]
    elif ch == 'deref':
        L += ['TYPE TP = ^%s' % tname, 'DECLARE t : %s' % tname, 'DECLARE tp : TP'] + init(tt, 't') + ['tp <- ^t']; tgt = 't'; store = ['tp^ <- %s' % sv]
    elif ch == 'byval':
        L += ['DECLARE t : %s' % tname] + init(tt, 't')
        L += ['PROCEDURE take(BYVAL p : %s)' % tname] + ['  OUTPUT "in ", %s' % x for x in show(tt, 'p')] + ['ENDPROCEDURE', '']
        tgt = 't'; store = ['CALL take(%s)' % sv]
    elif ch == 'byref':
        L += ['DECLARE t : %s' % tname] + init(tt, 't') + ['DECLARE srcv : %s' % {'ENUM2': 'Shape', 'PTR2': 'SP', 'REC2': 'Rec2', 'ENUM': 'Col', 'PTR': 'IP', 'REC': 'Rec'}.get(st, st)]
        L += (['srcv <- %s' % sv] if st not in ('REC', 'REC2') else [])
        L += ['PROCEDURE take(BYREF p : %s)' % tname] + ['  OUTPUT "in ", %s' % x for x in show(tt, 'p')] + ['ENDPROCEDURE', '']
        tgt = 't'; store = ['CALL take(srcv)']
    elif ch == 'return':
        L += ['DECLARE t : %s' % tname] + init(tt, 't')
        L += ['FUNCTION give() RETURNS %s' % tname, '  RETURN %s' % sv, 'ENDFUNCTION', '']
        tgt = 't'; store = ['t <- give()']
    elif ch == 'implicit':
        L += ['fresh <- %s' % TARGETS[tt][1]] if TARGETS[tt][1] else ['DECLARE fresh : %s' % tname] + init(tt, 'fresh')
        tgt = 'fresh'; store = ['fresh <- %s' % sv]
    before = show(tt, tgt)
    L += ['"BEFORE"'] + before + ['"STORE"'] + store + ['"AFTER"'] + before
    return Case(mode='repl', stdin=gen.join(L), meta=dict(gen='store-' + ch, tt=tt, st=st, sv=sv, ch=ch, sample=(tt, st, ch) == ('CHAR', 'STRING', 'var')))

INPUT_LINES = ['42', '-7', '3.5', 'abc', '', 'TRUE', 'true', 'x', '12x', ' 12', '1e3', '0x1F', '99999999999999999999', 'inf', '.5', '5.', '+4', '1 2']
def input_case(tt, line, via):
    tname = TARGETS[tt][0]
    L = list(PRELUDE)
    if via == 'var':
        L += ['DECLARE t : %s' % tname] + init(tt, 't') + show(tt, 't') + ['INPUT t', line] + show(tt, 't')
    elif via == 'element':
        L += ['DECLARE arr : ARRAY[0:1] OF %s' % tname] + init(tt, 'arr[1]') + ['INPUT arr[1]', line] + show(tt, 'arr[1]')
    else:
        L += ['INPUT undeclared', line, 'undeclared']
    return Case(mode='repl', stdin=gen.join(L), meta=dict(gen='input-' + via, tt=tt, line=line))

def generate(tier, rng):
    cases = []
    for tt in TARGETS:
        for st, sv in SOURCES:
            chans = CHANNELS if tier == 'thorough' else ['var', rng.choice(['element', 'field', 'deref']), rng.choice(['byval', 'return']), rng.choice(['byref', 'implicit'])]
            for ch in chans:
                if ch == 'byref' and st in ('REC', 'REC2') and False:
                    continue
                cases.append(store_case(tt, st, sv, ch))
    for tt in ['INTEGER', 'REAL', 'BOOLEAN', 'CHAR', 'STRING', 'DATE', 'ENUM', 'REC']:
        for line in (INPUT_LINES if tier == 'thorough' else rng.sample(INPUT_LINES, 7)):
            for via in (['var', 'element'] if tier == 'thorough' else ['var']):
                cases.append(input_case(tt, line, via))
    cases.append(input_case('STRING', 'some text', 'undeclared'))
    # random typed programs
    for k in range(40 if tier == 'quick' else 400):
        pre, env = gen.prelude(rng)
        L = list(pre)
        for _ in range(10):
            t1 = rng.choice(gen.TYPES); t2 = rng.choice(gen.TYPES) if rng.random() < 0.3 else t1
            v = env.pick(rng, t1)
            L += ['%s <- %s' % (v, gen.expr(rng, t2, env, 2))] if t1 == t2 else []
        L += ['OUTPUT i1, " ", i2, " ", r1, " ", b1, " ", c1, " ", s1, " ", d1']
        t1 = rng.choice(gen.TYPES); t2 = rng.choice([t for t in gen.TYPES if t != t1])
        L += ['%s <- %s' % (env.pick(rng, t1), gen.expr(rng, t2, env, 1)), 'OUTPUT "unreached unless convertible"']
        cases.append(Case(gen.join(L), meta=dict(gen='random-typed', sample=False)))
    for _ in range(25 if tier == 'quick' else 500):      # cross-feature programs (gen.rich_program): every data kind, call mode and file kind mixed
        cases.append(Case(gen.rich_program(rng), limits=dict(steps=30000), stdin=b'typed\n', meta=dict(gen='rich', sample=False)))
    return cases

def intrinsic(case, io, ia):
    g = case.meta.get('gen', '')
    if not g.startswith('store-'):
        return None
    out = io.stdout.decode('latin-1')
    try:
        b = out.index('"BEFORE"\n'); s = out.index('"STORE"\n'); a = out.index('"AFTER"\n')
    except ValueError:
        return None
    before = out[b + 9:s]; after = out[a + 8:]
    nshow = 2 if case.meta['tt'] == 'REC' else 1
    bvals = before.split('> ')[1:1 + nshow]
    avals = after.split('> ')[1:1 + nshow]
    tt, st, sv, ch = case.meta['tt'], case.meta['st'], case.meta['sv'], case.meta['ch']
    st_n = {'ENUM2': 'ENUM?', 'PTR2': 'PTR?', 'REC2': 'REC?'}.get(st, st)
    ok = accepted(tt, st_n, sv)
    if ch == 'byref':
        ok = (tt == st_n)
    errors = len(io.diags)
    if ch == 'implicit' and TARGETS[tt][1] is None:
        return None
    if not ok:
        if errors == 0:
            return 'store of %s value %s into %s through %s was accepted' % (st, sv, tt, ch)
        if bvals != avals:
            return 'rejected store changed the target: %r -> %r' % (bvals, avals)
    else:
        if errors != 0:
            return 'convertible store of %s %s into %s through %s was rejected' % (st, sv, tt, ch)
    return None
