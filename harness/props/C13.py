"""C13 — records written to a random file read back exactly."""
import itertools
from pe2 import Case
import gen
from props import C07

RELEVANT = ('stdout', 'exit', 'diagkinds', 'files')
ASSUMPTIONS = ['printing a binary64 with 17 significant digits and reading it back with a correctly rounded strtod is the identity (named hypothesis of C13_real_roundtrip)']

def pstr(b):
    """pseudocode string expression for arbitrary bytes (CHR() for what a literal cannot hold)"""
    parts = []; cur = ''
    for ch in b:
        c = chr(ch)
        if c in '"\\' or ch < 32 or ch > 126:
            if cur: parts.append('"%s"' % cur); cur = ''
            parts.append('CHR(%d)' % ch)
        else:
            cur += c
    if cur or not parts: parts.append('"%s"' % cur)
    return ' & '.join(parts)

def show_str(v):
    return ['OUTPUT LENGTH(%s)' % v, 'FOR zz <- 1 TO LENGTH(%s)' % v, '  OUTPUT ASC(MID(%s, zz, 1))' % v, 'NEXT zz']

def string_case(values, layout, tag, mode):
    """values: list of byte strings, each stored as its own record at positions given by layout"""
    W = ['DECLARE s : STRING', 'DECLARE t : STRING', 'OPENFILE "r.dat" FOR RANDOM']
    for i, v in enumerate(values):
        W += ['s <- %s' % pstr(v), 'SEEK "r.dat", %d' % (i + 1), 'PUTRECORD "r.dat", s']
    R = []
    for i, v in enumerate(values):
        R += ['SEEK "r.dat", %d' % (i + 1), 't <- "junk"', 'GETRECORD "r.dat", t', 'OUTPUT "rec %d"' % (i + 1)] + show_str('t')
    if mode == 'session':
        prog = W + R + ['CLOSEFILE "r.dat"']
    elif mode == 'reopen':
        prog = W + ['CLOSEFILE "r.dat"', 'OPENFILE "r.dat" FOR RANDOM'] + R + ['CLOSEFILE "r.dat"']
    exp = []
    for i, v in enumerate(values):
        exp += ['rec %d' % (i + 1), str(len(v))] + [str(b if b < 128 else b - 256) for b in v]
    return Case(gen.join(prog), limits=dict(steps=50000), meta=dict(gen='strings-' + tag + '-' + mode, expect=exp, sample=False))

def second_process_cases(values, tag):
    """write in one run, read in a later run: the second case gets the file the first one produced"""
    W = ['DECLARE s : STRING', 'OPENFILE "r.dat" FOR RANDOM']
    for i, v in enumerate(values):
        W += ['s <- %s' % pstr(v), 'SEEK "r.dat", %d' % (i + 1), 'PUTRECORD "r.dat", s']
    W += ['CLOSEFILE "r.dat"']
    return Case(gen.join(W), meta=dict(gen='writer-' + tag, values=[v.decode('latin-1') for v in values], sample=False))

ALPHA = [b'\n', b'#', b' ', b'0', b'A', b'"']
def adversarial_strings(maxlen):
    out = [b'']
    for n in range(1, maxlen + 1):
        for t in itertools.product(ALPHA, repeat=n):
            out.append(b''.join(t))
    return out

def char_cases(tier):
    cases = []
    for pos in ['alone', 'first', 'middle', 'last']:
        codes = list(range(256))
        for chunk in range(0, 256, 64):
            cs = codes[chunk:chunk + 64]
            L = ['TYPE R', '  DECLARE a : INTEGER', '  DECLARE c : CHAR', '  DECLARE b : STRING', 'ENDTYPE', 'TYPE RF', '  DECLARE c : CHAR', '  DECLARE b : STRING', 'ENDTYPE',
                 'TYPE RL', '  DECLARE a : INTEGER', '  DECLARE c : CHAR', 'ENDTYPE', 'DECLARE ch : CHAR', 'DECLARE r : R', 'DECLARE rf : RF', 'DECLARE rl : RL',
                 'OPENFILE "c.dat" FOR RANDOM']
            var = {'alone': 'ch', 'first': 'rf', 'middle': 'r', 'last': 'rl'}[pos]
            fld = {'alone': 'ch', 'first': 'rf.c', 'middle': 'r.c', 'last': 'rl.c'}[pos]
            for i, code in enumerate(cs):
                L += ['%s <- CHR(%d)' % (fld, code)]
                if pos in ('first', 'middle'): L += ['%s.b <- "tail"' % var]
                if pos in ('middle', 'last'): L += ['%s.a <- %d' % (var, code)]
                L += ['SEEK "c.dat", %d' % (i + 1), 'PUTRECORD "c.dat", %s' % var]
            L += ['CLOSEFILE "c.dat"', 'OPENFILE "c.dat" FOR RANDOM']
            exp = []
            for i, code in enumerate(cs):
                L += ['SEEK "c.dat", %d' % (i + 1), '%s <- CHR(1)' % fld, 'GETRECORD "c.dat", %s' % var, 'OUTPUT ASC(%s)' % fld]
                exp.append(str(code if code < 128 else code - 256))
                if pos in ('first', 'middle'):
                    L += ['OUTPUT %s.b' % var]; exp.append('tail')
                if pos in ('middle', 'last'):
                    L += ['OUTPUT %s.a' % var]; exp.append(str(code))
            L += ['CLOSEFILE "c.dat"']
            cases.append(Case(gen.join(L), limits=dict(steps=50000), meta=dict(gen='char-' + pos, expect=exp, sample=False)))
    return cases

INTS = [0, 1, -1, 42, 2**31 - 1, -2**31, 2**53 + 1, 2**63 - 1, -2**63 + 1, 10**18]
REALS = ['0.0', '0.1', '0.2', '1.5', '3.141592653589793', '2.718281828459045', '123456789.123456789', '0.000001', '1234567890123456789.0', '0.3333333333333333',
         '9007199254740993.0', '0.000000000000000000001', '4.9', '1.7976931348623157', '2.2250738585072014']

def scalar_cases(tier, rng):
    L = ['DECLARE i : INTEGER', 'DECLARE x : REAL', 'DECLARE b : BOOLEAN', 'DECLARE d : DATE', 'TYPE E = (e0, e1, e2)', 'DECLARE e : E', 'OPENFILE "s.dat" FOR RANDOM']
    exp = []; n = 0
    ints = INTS + [rng.randint(-2**63 + 1, 2**63 - 1) for _ in range(20 if tier == 'quick' else 200)]
    for v in ints:
        n += 1
        L += ['i <- %s' % (str(v) if v >= 0 else '0 - %d' % (-v)), 'SEEK "s.dat", %d' % n, 'PUTRECORD "s.dat", i']
    reals = REALS + ['%d.%d' % (rng.randint(0, 10**rng.randint(1, 15)), rng.randint(0, 10**rng.randint(1, 15))) for _ in range(20 if tier == 'quick' else 300)]
    rexprs = reals + ['%s / %s' % (a, b) for a, b in [('1', '3'), ('2', '3'), ('22', '7'), ('1', '7'), ('10', '3')]] + ['0.1 + 0.2', '1.1 * 1.1', '-1 / 3']
    for v in rexprs:
        n += 1
        L += ['x <- %s' % v, 'OUTPUT x = x', 'SEEK "s.dat", %d' % n, 'PUTRECORD "s.dat", x']
    L += ['CLOSEFILE "s.dat"', 'OPENFILE "s.dat" FOR RANDOM', 'DECLARE j : INTEGER', 'DECLARE y : REAL']
    n = 0
    for v in ints:
        n += 1
        L += ['SEEK "s.dat", %d' % n, 'GETRECORD "s.dat", j', 'OUTPUT j']
        exp.append(('int', v))
    for v in rexprs:
        n += 1
        L += ['x <- %s' % v, 'SEEK "s.dat", %d' % n, 'GETRECORD "s.dat", y', 'OUTPUT "same ", x = y']
    for bv, dv, ev in [('TRUE', '29/2/2024', 'e2'), ('FALSE', '1/1/1', 'e0')]:
        L += ['b <- %s' % bv, 'd <- %s' % dv, 'e <- %s' % ev, 'SEEK "s.dat", 1', 'PUTRECORD "s.dat", b', 'b <- NOT b', 'GETRECORD "s.dat", b', 'OUTPUT b',
              'PUTRECORD "s.dat", d', 'd <- 2/2/2002', 'GETRECORD "s.dat", d', 'OUTPUT d', 'PUTRECORD "s.dat", e', 'e <- e1', 'GETRECORD "s.dat", e', 'OUTPUT e']
    L += ['CLOSEFILE "s.dat"']
    return [Case(gen.join(L), limits=dict(steps=50000), meta=dict(gen='scalars', sample=True))]

def shape_cases(tier, rng):
    cases = []
    for k in range(25 if tier == 'quick' else 250):
        top, order = C07.make_types(rng, rng.randint(1, 3), max_arr=3)
        L = []
        for t in order: L += t.decl()
        L += ['DECLARE x : %s' % top.name, 'DECLARE y : %s' % top.name, 'DECLARE xs : ARRAY[1:2] OF %s' % top.name, 'DECLARE ys : ARRAY[1:2] OF %s' % top.name]
        L += C07.fill(rng, top, 'x', 0) + C07.fill(rng, top, 'xs[1]', 50) + C07.fill(rng, top, 'xs[2]', 90)
        # make some strings adversarial
        for p, ty in top.leaves('x'):
            if ty == 'STRING' and rng.random() < 0.5:
                L.append('%s <- %s' % (p, pstr(rng.choice([b'a\nb', b'\n', b'#x', b'\n#', b' lead', b'', b'x y z', b'12 INTEGER 5']))))
            if ty == 'CHAR' and rng.random() < 0.3:
                L.append('%s <- CHR(%d)' % (p, rng.choice([10, 32, 35, 0, 200])))
        L += ['OPENFILE "t.dat" FOR RANDOM', 'PUTRECORD "t.dat", x', 'SEEK "t.dat", 2', 'PUTRECORD "t.dat", xs']
        if rng.random() < 0.5:
            L += ['CLOSEFILE "t.dat"', 'OPENFILE "t.dat" FOR RANDOM']
        L += ['SEEK "t.dat", 1', 'GETRECORD "t.dat", y', 'SEEK "t.dat", 2', 'GETRECORD "t.dat", ys', 'CLOSEFILE "t.dat"']
        for (p, ty), (q, _) in zip(top.leaves('x') + top.leaves('xs[1]') + top.leaves('xs[2]'), top.leaves('y') + top.leaves('ys[1]') + top.leaves('ys[2]')):
            L.append('OUTPUT %s = %s' % (p, q) if ty != 'STRING' else 'OUTPUT (%s = %s) AND (LENGTH(%s) = LENGTH(%s))' % (p, q, p, q))
        cases.append(Case(gen.join(L), limits=dict(steps=50000, cells=50000), meta=dict(gen='record-shapes', sample=k < 1)))
    return cases

TYPED = {'INTEGER': '5', 'REAL': '2.5', 'BOOLEAN': 'TRUE', 'CHAR': "'c'", 'STRING': '"str"', 'DATE': '3/4/2005', 'E': 'e1', 'F': 'f0', 'R': None, 'R2': None}
def mismatch_cases(tier):
    cases = []
    hdr = ['TYPE E = (e0, e1)', 'TYPE F = (f0, f1)', 'TYPE R', '  DECLARE n : INTEGER', 'ENDTYPE', 'TYPE R2', '  DECLARE n : INTEGER', 'ENDTYPE']
    for st in TYPED:
        L = list(hdr) + ['DECLARE src : %s' % st] + (['src <- %s' % TYPED[st]] if TYPED[st] else ['src.n <- 4']) + ['OPENFILE "m.dat" FOR RANDOM', 'PUTRECORD "m.dat", src']
        L += ['DECLARE arr : ARRAY[1:2] OF INTEGER', 'SEEK "m.dat", 2', 'PUTRECORD "m.dat", arr', 'SEEK "m.dat", 1']
        for rt in TYPED:
            L += ['DECLARE dst%s : %s' % (rt, rt)]
        hist = L[:]
        for rt in TYPED:
            hist += ['GETRECORD "m.dat", dst%s' % rt]
        hist += ['DECLARE arr3 : ARRAY[1:3] OF INTEGER', 'DECLARE arrs : ARRAY[1:2] OF STRING', 'SEEK "m.dat", 2', 'GETRECORD "m.dat", arr3', 'GETRECORD "m.dat", arrs', 'GETRECORD "m.dat", dstINTEGER', 'GETRECORD "m.dat", arr', '"done"']
        hist2 = []
        for l in hist:
            hist2.append(l)
            if l == 'ENDTYPE': hist2.append('')
        cases.append(Case(mode='repl', stdin=gen.join(hist2), meta=dict(gen='type-mismatch', st=st, sample=st == 'INTEGER')))
    return cases

def generate(tier, rng):
    cases = []
    strs = adversarial_strings(4 if tier == 'thorough' else 3)
    if tier == 'quick':
        strs = rng.sample(strs, 70) + [b'', b'\n', b'\n\n', b'\n#', b'#\n', b'a\n\nb', b'\n#\n##', b' ', b'"', b'x\n']
    rand_long = [bytes(rng.randrange(256) for _ in range(rng.randint(5, 60))) for _ in range(10 if tier == 'quick' else 100)]
    strs += rand_long
    for i in range(0, len(strs), 3):
        vals = strs[i:i + 3]
        if len(vals) < 3: vals = vals + [b'pad'] * (3 - len(vals))
        for mode in ('session', 'reopen'):
            cases.append(string_case(vals, None, 'adv', mode))
        cases.append(second_process_cases(vals, 'adv'))
    cases += char_cases(tier) + scalar_cases(tier, rng) + shape_cases(tier, rng) + mismatch_cases(tier)
    return cases

def intrinsic(case, io, ia):
    g = case.meta.get('gen', '')
    out = io.stdout.decode('latin-1').split('\n')
    if g.startswith('strings-') or g.startswith('char-'):
        exp = case.meta['expect']
        if io.exit != 0:
            return 'round trip raised a diagnostic: %s' % (io.raw_stderr[:200],)
        if out[:len(exp)] != exp:
            for i, (a, b) in enumerate(zip(exp, out)):
                if a != b:
                    return 'read back differs at output line %d: expected %r got %r' % (i, a, b)
            return 'read back is shorter than written'
    if g == 'scalars':
        if io.exit != 0: return 'scalar round trip raised a diagnostic'
        if any(l == 'same FALSE' for l in out):
            return 'a REAL did not read back bit-exactly'
    if g == 'record-shapes':
        if io.exit != 0: return 'record round trip raised a diagnostic: %r' % io.raw_stderr[:200]
        if 'FALSE' in out:
            return 'a field did not read back as written'
    if g == 'type-mismatch':
        st = case.meta['st']
        outs = gen.repl_outputs(io.stdout)
        # the GETRECORD entries are the 10 before the array probes; exactly the same-type read may succeed
        ndiag = len(io.diags)
        if ndiag != len(TYPED) - 1 + 3:
            return 'stored %s: %d of the %d mismatching reads were rejected' % (st, ndiag, len(TYPED) - 1 + 3)
    return None

def extra_checks(tier, rng, exe, exe_asan, mexe, stats):
    """second process: feed the file written by each writer case to a reader run"""
    import pe2
    writers = []
    strs = adversarial_strings(3)
    sample = rng.sample(strs, 30 if tier == 'quick' else 250) + [b'\n', b'a\nb', b'\n#', b'']
    for i in range(0, len(sample), 3):
        vals = sample[i:i + 3]
        writers.append((second_process_cases(vals, 'p2'), vals))
    ios = pe2.run_impl_many([w for w, _ in writers], exe)
    readers = []
    for (w, vals), io in zip(writers, ios):
        R = ['DECLARE t : STRING', 'OPENFILE "r.dat" FOR RANDOM']
        exp = []
        for i, v in enumerate(vals):
            R += ['SEEK "r.dat", %d' % (i + 1), 'GETRECORD "r.dat", t', 'OUTPUT "rec %d"' % (i + 1)] + show_str('t')
            exp += ['rec %d' % (i + 1), str(len(v))] + [str(b if b < 128 else b - 256) for b in v]
        readers.append((Case(gen.join(R + ['CLOSEFILE "r.dat"']), files={'r.dat': io.files.get('r.dat', b'')}, meta=dict(gen='second-process')), exp))
    rios = pe2.run_impl_many([r for r, _ in readers], exe)
    n = 0
    for (r, exp), io in zip(readers, rios):
        n += 1
        out = io.stdout.decode('latin-1').split('\n')
        if io.exit != 0 or out[:len(exp)] != exp:
            yield ('a later run of the interpreter does not read back what was written', r, io)
    stats.setdefault('extra', {})['second_process_pairs'] = n
