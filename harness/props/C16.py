"""C16 — file statements obey the handle state machine and never lose data silently."""
import itertools, os
from pe2 import Case
import pe2, gen

RELEVANT = ('stdout', 'exit', 'diagkinds', 'files')
ASSUMPTIONS = ['the operating system verdict on a path is exercised only through the listed fault sequences (missing directory, directory, /dev/full, deleted file)',
               'a write rejected by the operating system (/dev/full) is a recorded known finding if the implementation stays silent']

NAMES = ['x.txt', 'y.txt']
MODES = ['READ', 'WRITE', 'APPEND', 'RANDOM']

class Spec:
    """explicit model of handle states and file contents (lines for text files, records for random files)"""
    def __init__(self, disk):
        self.disk = {k: list(v) for k, v in disk.items()}     # name -> list of lines/records
        self.h = {}                                           # name -> dict(mode, pos/cursor, recs)
    def nrec(self, f):
        """records of a file opened FOR RANDOM: its lines without the empty lines at the end (the loader drops them; they stay on
        disk until the handle is modified)"""
        n = len(self.disk[f])
        while n > 0 and self.disk[f][n - 1] == '':
            n -= 1
        return n
    def apply(self, op):
        k, f = op[0], op[1]
        if k == 'OPEN':
            m = op[2]
            if f in self.h: return 'err'
            if m in ('READ', 'APPEND') and f not in self.disk: return 'err'
            if m == 'WRITE': self.disk[f] = []
            if m == 'RANDOM' and f not in self.disk: self.disk[f] = []
            self.h[f] = dict(mode=m, pos=0, cur=1)
            return 'ok'
        if f not in self.h: return 'err'
        h = self.h[f]; m = h['mode']
        if k == 'CLOSE':
            del self.h[f]; return 'ok'
        if k == 'READFILE':
            if m != 'READ': return 'err'
            lines = self.disk[f]
            v = lines[h['pos']] if h['pos'] < len(lines) else ''
            if v.startswith('r'): v = rec_text(v)          # a record read back as a text line shows its on-disk form
            h['pos'] = min(h['pos'] + 1, len(lines) + 1)
            return ('val', v)
        if k == 'EOF':
            if m != 'READ': return 'err'
            return ('val', 'TRUE' if h['pos'] >= len(self.disk[f]) else 'FALSE')
        if k == 'WRITEFILE':
            if m not in ('WRITE', 'APPEND'): return 'err'
            self.disk[f].append(op[2]); return 'ok'
        if k == 'SEEK':
            if m != 'RANDOM': return 'err'
            if 1 <= op[2] <= self.nrec(f) + 1: h['cur'] = op[2]; return 'ok'
            return 'err'
        if k == 'PUTRECORD':
            if m != 'RANDOM': return 'err'
            n = self.nrec(f)
            del self.disk[f][n:]
            if h['cur'] <= n: self.disk[f][h['cur'] - 1] = op[2]
            else: self.disk[f].append(op[2])
            return 'ok'
        if k == 'GETRECORD':
            if m != 'RANDOM': return 'err'
            if h['cur'] <= self.nrec(f):
                v = self.disk[f][h['cur'] - 1]
                return ('val', v) if v.startswith('r') else 'err'      # a text line is not a record: reading it is a runtime error
            return 'err'

def render(op):
    k, f = op[0], op[1]
    if k == 'OPEN': return ['OPENFILE "%s" FOR %s' % (f, op[2])]
    if k == 'CLOSE': return ['CLOSEFILE "%s"' % f]
    if k == 'READFILE': return ['READFILE "%s", line' % f, 'line']
    if k == 'EOF': return ['EOF("%s")' % f]
    if k == 'WRITEFILE': return ['WRITEFILE "%s", "%s"' % (f, op[2])]
    if k == 'SEEK': return ['SEEK "%s", %d' % (f, op[2])]
    if k == 'PUTRECORD': return ['rec <- "%s"' % op[2], 'PUTRECORD "%s", rec' % f]
    if k == 'GETRECORD': return ['rec <- "?"', 'GETRECORD "%s", rec' % f, 'rec']

def alphabet(names):
    A = []
    for f in names:
        A += [('OPEN', f, m) for m in MODES] + [('CLOSE', f), ('READFILE', f), ('EOF', f), ('WRITEFILE', f, 'w1'), ('WRITEFILE', f, ''), ('WRITEFILE', f, ' '), ('SEEK', f, 1), ('SEEK', f, 2), ('PUTRECORD', f, 'r1'), ('GETRECORD', f)]
    return A

def history_case(ops, initial, tag, tail):
    L = ['DECLARE line : STRING', 'DECLARE rec : STRING']
    for op in ops: L += render(op)
    if tail == 'error': L += ['OUTPUT 1 / 0']
    if tail == 'exit': L += ['EXIT', 'OUTPUT "after exit"']          # the EXIT command ends the session with handles still open
    if tail == 'error-exit': L += ['OUTPUT 1 / 0', 'EXIT']
    if tail == 'no-final-newline': L += ['OUTPUT "unterminated last line"']     # never executed: the session ends at end of input
    files = {}
    for f, lines in initial.items():
        files[f] = ''.join(l + '\n' for l in lines).encode()
    stdin = gen.join(L)
    if tail == 'no-final-newline': stdin = stdin[:-1]
    return Case(mode='repl', stdin=stdin, files=files,
                meta=dict(gen='history-' + tag, ops=[list(o) for o in ops], initial=initial, tail=tail, sample=tag == 'random'))

def file_mode_case(ops, initial, tail):
    """same history as a program: ends at the first error or with a runtime error / normally; everything accepted must be on disk"""
    L = ['DECLARE line : STRING', 'DECLARE rec : STRING']
    for op in ops:
        r = render(op)
        L += [x if not (x in ('line', 'rec') or x.startswith('EOF(')) else 'OUTPUT ' + x for x in r]
    L += {'normal': [], 'error': ['OUTPUT 1 / 0'], 'unclosed': []}[tail]
    files = {f: ''.join(l + '\n' for l in lines).encode() for f, lines in initial.items()}
    return Case(gen.join(L), files=files, meta=dict(gen='program-' + tail, ops=[list(o) for o in ops], initial=initial, tail=tail, sample=False))

def generate(tier, rng):
    cases = []
    A1 = alphabet(['x.txt'])
    initial = {'x.txt': ['l1', 'l2']}
    depth = 3 if tier == 'quick' else 4
    hs = list(itertools.product(A1, repeat=depth))
    lim = 500 if tier == 'quick' else 8000
    if len(hs) > lim: hs = rng.sample(hs, lim)
    for h in hs:
        cases.append(history_case(list(h), initial if rng.random() < 0.7 else {}, 'exhaustive', rng.choice(['normal', 'normal', 'exit', 'error-exit', 'no-final-newline'])))
    A2 = alphabet(NAMES)
    for k in range(80 if tier == 'quick' else 1000):
        ops = [rng.choice(A2) for _ in range(rng.randint(3, 40))]
        init = rng.choice([{}, {'x.txt': ['a']}, {'x.txt': ['a', 'b'], 'y.txt': []}])
        cases.append(history_case(ops, init, 'random', rng.choice(['normal', 'error', 'exit', 'error-exit', 'no-final-newline'])))
        # file-mode variant made only of legal steps, ending normally, by error, or without closing
        spec = Spec(init); legal = []
        for op in ops:
            s2 = Spec(spec.disk); s2.h = {k: dict(v) for k, v in spec.h.items()}
            if s2.apply(op) != 'err':
                spec.apply(op); legal.append(op)
        cases.append(file_mode_case(legal, init, rng.choice(['normal', 'error', 'unclosed'])))
    return cases

def disk_lines(b):
    t = b.decode('latin-1')
    ls = t.split('\n')
    if ls and ls[-1] == '': ls = ls[:-1]
    return ls

def rec_text(v):
    return 'STRING %d %s' % (len(v), v)

def intrinsic(case, io, ia):
    g = case.meta.get('gen', '')
    if not (g.startswith('history-') or g.startswith('program-')):
        return None
    ops = [tuple(o) for o in case.meta['ops']]
    spec = Spec(case.meta['initial'])
    # mark records written by PUTRECORD so that a text line read as a record is expected to fail
    if g.startswith('history-'):
        outs = gen.repl_outputs(io.stdout)[2:]
        pos = 0
        for op in ops:
            n = len(render(op)); chunk = outs[pos:pos + n]; pos += n
            if len(chunk) < n: return 'transcript too short'
            f = op[1]
            exp = spec.apply(op)
            errpos = {'READFILE': 0, 'GETRECORD': 1, 'PUTRECORD': 1}.get(op[0], 0)
            got_err = chunk[errpos] == '\n'
            if exp == 'err' and not got_err: return '%r is illegal in this state but was accepted' % (op,)
            if exp != 'err' and got_err: return '%r is legal in this state but failed' % (op,)
            if isinstance(exp, tuple):
                shown = chunk[-1]
                want = ('"%s"\n' % exp[1]) if op[0] in ('READFILE', 'GETRECORD') else exp[1] + '\n'
                if shown != want: return '%r gave %r, expected %r' % (op, shown, want)
    else:
        for op in ops: spec.apply(op)
    # at exit everything accepted is on disk
    for f, lines in spec.disk.items():
        got = io.files.get(f)
        if got is None: return 'file %s is missing after the run' % f
        gl = disk_lines(got)
        want = [l if not l.startswith('r') else rec_text(l) for l in lines]
        if gl != want: return 'file %s holds %r, accepted writes give %r' % (f, gl[:6], want[:6])
    return None

def extra_checks(tier, rng, exe, exe_asan, mexe, stats):
    """fault sequences with a real operating system verdict"""
    faults = [
        ('missing directory', 'OPENFILE "nodir/f.txt" FOR WRITE\nWRITEFILE "nodir/f.txt", "x"\nCLOSEFILE "nodir/f.txt"\nOUTPUT "silent"\n', {}, None),
        ('missing directory random', 'DECLARE s : STRING\nOPENFILE "nodir/f.dat" FOR RANDOM\nPUTRECORD "nodir/f.dat", s\nCLOSEFILE "nodir/f.dat"\nOUTPUT "silent"\n', {}, None),
        ('path is a directory', 'OPENFILE "." FOR READ\nDECLARE l : STRING\nREADFILE ".", l\nOUTPUT "silent"\n', {}, None),
        ('path is a directory (write)', 'OPENFILE "." FOR WRITE\nWRITEFILE ".", "x"\nOUTPUT "silent"\n', {}, None),
        ('path is a directory (append)', 'OPENFILE "." FOR APPEND\nOUTPUT "silent"\n', {}, None),
        ('empty name', 'OPENFILE "" FOR WRITE\nOUTPUT "silent"\n', {}, None),
        ('over-long name', 'OPENFILE "%s" FOR READ\nOUTPUT "silent"\n' % ('a' * 300), {}, None),
        ('over-long name write', 'OPENFILE "%s" FOR WRITE\nOUTPUT "silent"\n' % ('a' * 300), {}, None),
        ('deleted between close and reopen', 'OPENFILE "gone.txt" FOR READ\nOUTPUT "silent"\n', {}, None),
        ('/dev/full', 'OPENFILE "/dev/full" FOR WRITE\nWRITEFILE "/dev/full", "data that cannot be stored"\nCLOSEFILE "/dev/full"\nOUTPUT "silent"\n', {}, 'devfull'),
        ('/dev/full at exit', 'OPENFILE "/dev/full" FOR APPEND\nWRITEFILE "/dev/full", "data that cannot be stored"\nOUTPUT "silent"\n', {}, 'devfull'),
    ]
    n = 0
    for name, prog, files, tag in faults:
        for e in [x for x in (exe, exe_asan) if x]:
            c = Case(prog.encode(), files=files, meta=dict(gen='fault-' + name))
            io = pe2.run_impl(c, e)
            n += 1
            cr = pe2.crashed(io)
            if cr:
                yield ('fault sequence "%s" crashes the interpreter: %s' % (name, cr), c, io)
            elif b'silent' in io.stdout and io.exit == 0:
                yield ('fault sequence "%s": the operating system refused, the program was not told' % name, c, io)
    stats.setdefault('extra', {})['fault_sequences'] = n
