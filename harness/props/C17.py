"""C17 — string, character, conversion and numeric built-ins meet their contracts."""
import itertools
from fractions import Fraction
from pe2 import Case
import gen
from props.C13 import pstr

RELEVANT = ('stdout', 'exit', 'diagkinds')
ASSUMPTIONS = ['RAND values are never compared, only the range 0 <= RAND(x) <= x',
               'POW/EXP/SIN/... (libm) are outside the model and judged by the crash oracle only']

ALPHA = 'aZ0 .-'
def all_strings(n):
    out = ['']
    for k in range(1, n + 1):
        out += [''.join(t) for t in itertools.product(ALPHA, repeat=k)]
    return out

def substring_cases(tier, rng):
    strs = all_strings(4 if tier == 'thorough' else 3)
    if tier == 'quick': strs = rng.sample(strs, 60) + ['', 'a', 'aZ0', ' .-']
    cases = []
    ent = []; exp = []
    for s in strs:
        L = len(s)
        ent.append('LENGTH("%s")' % s); exp.append(('val', str(L)))
        ent.append('TO_UPPER("%s") & "|" & TO_LOWER("%s")' % (s, s)); exp.append(('val', '"%s|%s"' % (s.upper(), s.lower())))
        for n in range(-2, L + 3):
            ok = 0 <= n <= L
            ent.append('LEFT("%s", %s)' % (s, gen.neg_lit(n))); exp.append(('val', '"%s"' % s[:n]) if ok else ('err',))
            ent.append('RIGHT("%s", %s)' % (s, gen.neg_lit(n))); exp.append(('val', '"%s"' % s[L - n:]) if ok else ('err',))
            if ok:
                ent.append('LEFT("%s", %d) & RIGHT("%s", LENGTH("%s") - %d) = "%s"' % (s, n, s, s, n, s)); exp.append(('val', 'TRUE'))
            for i in range(-2, L + 3):
                okm = i >= 1 and n >= 0 and i <= L and i - 1 + n <= L
                ent.append('MID("%s", %s, %s)' % (s, gen.neg_lit(i), gen.neg_lit(n))); exp.append(('val', '"%s"' % s[i - 1:i - 1 + n]) if okm else ('err',))
    for i in range(0, len(ent), 600):
        cases.append(Case(mode='repl', stdin=gen.join(ent[i:i + 600]), meta=dict(gen='substrings', expect=exp[i:i + 600], sample=i == 0)))
    return cases

def char_cases(tier):
    ent = []; exp = []
    for c in range(256):
        ent.append('ASC(CHR(%d))' % c); exp.append(('val', str(c if c < 128 else c - 256)))
        lo = c + 32 if 65 <= c <= 90 else c
        up = c - 32 if 97 <= c <= 122 else c
        ent.append('ASC(LCASE(CHR(%d)))' % c); exp.append(('val', str(lo if lo < 128 else lo - 256)))
        ent.append('ASC(UCASE(CHR(%d)))' % c); exp.append(('val', str(up if up < 128 else up - 256)))
        ent.append('LENGTH(TO_UPPER("x" & CHR(%d)))' % c); exp.append(('val', '2'))
    for n in [256, 257, 321, -1, -128, 1000000]:
        ent.append('ASC(CHR(%s))' % gen.neg_lit(n)); exp.append(('val', str(((n + 128) % 256) - 128)))
    return [Case(mode='repl', stdin=gen.join(ent), meta=dict(gen='chars', expect=exp))]

def numeral_cases(tier, rng):
    digs = '0159.'
    strs = set()
    maxlen = 6 if tier == 'thorough' else 4
    for k in range(1, maxlen + 1):
        for t in itertools.product(digs, repeat=k):
            s = ''.join(t)
            if s.count('.') <= 1 and any(ch.isdigit() for ch in s):
                strs.add(s)
    strs = sorted(strs)
    if len(strs) > (300 if tier == 'quick' else 4000):
        strs = rng.sample(strs, 300 if tier == 'quick' else 4000)
    strs += ['0', '007', '3.14159', '123456789', '9223372036854775807', '0.000001', '1.', '.5', '00.50', '1234567.125', '4294967296', '99999999999999999999']
    ent = []; exp = []
    for s in strs:
        val = Fraction(s if not s.endswith('.') else s + '0') if not s.startswith('.') else Fraction('0' + s)
        ent.append('IS_NUM("%s")' % s); exp.append(('val', 'TRUE'))
        ent.append('STR_TO_NUM("%s") = %s' % (s, real_lit(s))); exp.append(('val', 'TRUE'))
        ent.append('REAL("%s") = %s' % (s, real_lit(s))); exp.append(('val', 'TRUE'))
        if '.' not in s and int(s) < 2**63:
            ent.append('INTEGER("%s")' % s); exp.append(('val', str(int(s))))
    for bad in ['abc', '12x', '', 'x12', '1 2', '--1', '1-', 'one']:
        ent.append('STR_TO_NUM("%s")' % bad); exp.append(('val', '0.0'))
        ent.append('REAL("%s")' % bad); exp.append(('val', '0.0'))
        ent.append('INTEGER("%s")' % bad); exp.append(('val', '0'))
    for bad in ['abc', '12x', '1.2.3', '1e5', '-1', ' 1', 'x']:
        ent.append('IS_NUM("%s")' % bad); exp.append(('val', 'FALSE'))
    return [Case(mode='repl', stdin=gen.join(ent[i:i + 600]), meta=dict(gen='numerals', expect=exp[i:i + 600], sample=i == 0)) for i in range(0, len(ent), 600)]

def real_lit(s):
    if s.startswith('.'): s = '0' + s
    if '.' not in s: s = s + '.0'
    return s

def roundtrip_cases(tier, rng):
    ent = []; exp = []
    vals = ['0.5', '1.25', '100.0', '3.141593', '0.000001', '123456.654321', '7.0', '8589934591.5', '0.1', '0.7', '2.675', '1000000.000001']
    vals += ['%d.%06d' % (rng.randint(0, 2**33 - 1), rng.randint(0, 999999)) for _ in range(60 if tier == 'quick' else 1500)]
    vals += ['%d.%d' % (rng.randint(0, 99999), rng.randint(0, 999)) for _ in range(40 if tier == 'quick' else 500)]
    for v in vals:
        ent.append('STR_TO_NUM(NUM_TO_STR(%s)) = %s' % (v, v)); exp.append(('val', 'TRUE'))
        ent.append('STR_TO_NUM(NUM_TO_STR(0 - %s)) = 0 - %s' % (v, v)); exp.append(('val', 'TRUE'))
    for v, f in [('2.7', 2), ('2.0', 2), ('-2.7', -3), ('-2.0', -2), ('0.999999', 0), ('-0.000001', -1), ('123456789.99', 123456789), ('-123456789.01', -123456790)]:
        ent.append('INT(%s)' % (v if not v.startswith('-') else '0 - ' + v[1:])); exp.append(('val', str(f)))
    # INT far from zero: floors around 2^31, 2^32, 2^40 and up to 2^52 (x.5 and x.25 are exact there)
    import math
    bigs = []
    for base in [2**31, 2**32, 3 * 10**9, 2**40, 10**12, 2**51]:
        for d in (-1, 0, 1):
            for fr in (('0', '5', '25', '75') if base < 2**44 else ('0', '5')):      # only fractions a double holds exactly at that magnitude
                bigs.append(('%d.%s' % (base + d, fr), base + d))
    bigs += [('%d.%s' % (w, rng.choice(['0', '5', '125'])), w) for w in [rng.randint(2**31, 2**44) for _ in range(20 if tier == 'quick' else 400)]]
    for txt, w in bigs:
        ent.append('INT(%s)' % txt); exp.append(('val', str(w)))
        neg_floor = -w if txt.endswith('.0') else -w - 1
        ent.append('INT(0 - %s)' % txt); exp.append(('val', str(neg_floor)))
    for x in [1, 2, 10, 1000, 2147483647, 9223372036854775807]:
        n = 40 if tier == 'quick' else 400
        ent.append('ok <- TRUE'); exp.append(('none',))
        ent += ['FOR z <- 1 TO %d' % n, '  rv <- RAND(%d)' % x, '  IF (rv < 0) OR (rv > %d) THEN' % x, '    ok <- FALSE', '  ENDIF', 'NEXT z', '']
        exp.append(('none',))
        ent.append('ok'); exp.append(('val', 'TRUE'))
    ent += ['RAND(0)', 'RAND(0 - 5)']; exp += [('val', '0.0'), ('val', '0.0')]
    # sessions of at most ~600 entries: the single-line probes (one expectation each) are cut into sessions of their own, the
    # multi-line tail (FOR loops, which count as several input lines per expectation) stays one session
    first_multi = ent.index('ok <- TRUE')
    head_e, head_x = ent[:first_multi], exp[:first_multi]
    assert len(head_e) == len(head_x)
    cases = []
    for i in range(0, len(head_e), 600):
        cases.append(Case(mode='repl', stdin=gen.join(head_e[i:i + 600]), limits=dict(steps=50000), meta=dict(gen='roundtrip-int-rand', expect=head_x[i:i + 600], sample=i == 0)))
    cases.append(Case(mode='repl', stdin=gen.join(['DECLARE ok : BOOLEAN', 'DECLARE rv : REAL'] + ent[first_multi:]), limits=dict(steps=50000),
                      meta=dict(gen='roundtrip-int-rand', expect=[('none',), ('none',)] + exp[first_multi:], multi=True)))
    return cases

def generate(tier, rng):
    cases = substring_cases(tier, rng) + char_cases(tier) + numeral_cases(tier, rng) + roundtrip_cases(tier, rng)
    # long random strings
    ent = []; exp = []
    for _ in range(40 if tier == 'quick' else 400):
        s = ''.join(rng.choice('abcXYZ 0123.,;-_') for _ in range(rng.randint(5, 60)))
        i = rng.randint(1, len(s)); n = rng.randint(0, len(s) - i + 1)
        ent.append('MID("%s", %d, %d)' % (s, i, n)); exp.append(('val', '"%s"' % s[i - 1:i - 1 + n]))
        k = rng.randint(0, len(s))
        ent.append('LEFT("%s", %d) & RIGHT("%s", %d)' % (s, k, s, len(s) - k)); exp.append(('val', '"%s"' % s))
    cases.append(Case(mode='repl', stdin=gen.join(ent), meta=dict(gen='long-strings', expect=exp, sample=False)))
    return cases

def intrinsic(case, io, ia):
    exp = case.meta.get('expect')
    if not exp: return None
    outs = gen.repl_outputs(io.stdout)
    if case.meta.get('multi'):
        # multi-line entries print continuation prompts; compare only the value entries in order
        vals = [o for o in outs if o in ('TRUE\n', 'FALSE\n') or o[:1].isdigit() or o[:1] == '-']
        want = [e[1] + '\n' for e in exp if e[0] == 'val']
        if vals[:len(want)] != want:
            for i, (a, b) in enumerate(zip(want, vals)):
                if a != b: return 'entry %d: expected %r got %r' % (i, a, b)
            return 'transcript too short'
        return None
    if len(outs) < len(exp): return 'transcript too short'
    ents = case.stdin.decode('latin-1').split('\n')
    for k, (e, o) in enumerate(zip(exp, outs)):
        if e[0] == 'err':
            if o != '\n': return '%s should be a runtime error, got %r' % (ents[k], o[:60])
        elif e[0] == 'val':
            if o != e[1] + '\n': return '%s = %r, contract says %r' % (ents[k], o[:60], e[1])
    return None
