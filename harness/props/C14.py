"""C14 — a random file is a stable, 1-based sequence of independent records."""
import itertools
from pe2 import Case
import pe2, gen
from props.C13 import pstr

RELEVANT = ('stdout', 'exit', 'diagkinds', 'files')
ASSUMPTIONS = ['the intrinsic oracle is an explicit spec (list of records plus a cursor) written in Python; the Coq model is compared on the same histories']

PAYLOADS = [b'p', b'multi\nline', b'\n', b'#h', b'two\n\nblank', b'']
FILES = ['a.dat', 'b.dat']

class Spec:
    def __init__(self):
        self.disk = {f: [] for f in FILES}
        self.open = {}
    def apply(self, op):
        """returns expected observation: ('ok',) | ('err',) | ('val', bytes)"""
        kind, f = op[0], op[1]
        if kind == 'OPEN':
            if f in self.open: return ('err',)
            self.open[f] = dict(recs=list(self.disk[f]), cur=1); return ('ok',)
        if kind == 'RESTART':
            for g in list(self.open): self.disk[g] = self.open[g]['recs']
            self.open = {}; return ('ok',)
        if f not in self.open: return ('err',)
        h = self.open[f]
        n = len(h['recs'])
        if kind == 'CLOSE':
            self.disk[f] = h['recs']; del self.open[f]; return ('ok',)
        if kind == 'SEEK':
            k = op[2]
            if 1 <= k <= n + 1: h['cur'] = k; return ('ok',)
            return ('err',)
        if kind == 'PUT':
            v = op[2]
            if h['cur'] <= n: h['recs'][h['cur'] - 1] = v
            else: h['recs'].append(v)
            return ('ok',)
        if kind == 'GET':
            if h['cur'] <= n: return ('val', h['recs'][h['cur'] - 1])
            return ('err',)

def render(op):
    kind, f = op[0], op[1]
    if kind == 'OPEN': return ['OPENFILE "%s" FOR RANDOM' % f]
    if kind == 'CLOSE': return ['CLOSEFILE "%s"' % f]
    if kind == 'SEEK': return ['SEEK "%s", %s' % (f, gen.neg_lit(op[2]))]
    if kind == 'PUT': return ['s <- %s' % pstr(op[2]), 'PUTRECORD "%s", s' % f]
    if kind == 'GET': return ['t <- "?"', 'GETRECORD "%s", t' % f, 't']

def echo_form(v):
    return b'"' + v + b'"\n'

def history_entries(ops):
    L = ['DECLARE s : STRING', 'DECLARE t : STRING']
    for op in ops:
        L += render(op)
    return L

def check_segment(ops, spec, stdout, first_skip=2):
    """compare one REPL transcript with the spec; returns failure text or None"""
    outs = gen.repl_outputs(stdout)[first_skip:]
    pos = 0
    for op in ops:
        exp = spec.apply(op)
        n = len(render(op))
        chunk = outs[pos:pos + n]; pos += n
        if len(chunk) < n:
            return 'transcript too short at %r' % (op,)
        last = chunk[-1]
        if op[0] == 'GET':
            got_err = chunk[1] == '\n'
            if exp[0] == 'err':
                if not got_err: return '%r should fail, got %r' % (op, chunk[2][:60])
            else:
                if got_err or chunk[2].encode('latin-1') != echo_form(exp[1]):
                    return '%r returned %r, the sequence holds %r' % (op, chunk[2][:60], exp[1])
        else:
            got_err = last == '\n'
            if exp[0] == 'err' and not got_err: return '%r should be a runtime error' % (op,)
            if exp[0] == 'ok' and got_err: return '%r failed but is legal' % (op,)
    return None

def alphabet(files, nmax):
    A = []
    for f in files:
        A += [('OPEN', f), ('CLOSE', f), ('GET', f), ('PUT', f, PAYLOADS[0]), ('PUT', f, PAYLOADS[1])]
        A += [('SEEK', f, k) for k in range(0, nmax + 3)]
    return A

def generate(tier, rng):
    cases = []
    # exhaustive histories on one file after a fixed opening that creates two records
    prefix = [('OPEN', 'a.dat'), ('PUT', 'a.dat', b'r1'), ('SEEK', 'a.dat', 2), ('PUT', 'a.dat', b'r2\nx')]
    A = alphabet(['a.dat'], 2)
    depth = 3 if tier == 'quick' else 4
    hs = list(itertools.product(A, repeat=depth))
    if tier == 'quick':
        hs = rng.sample(hs, 600)
    elif len(hs) > 12000:
        hs = rng.sample(hs, 12000)
    for h in hs:
        ops = prefix + list(h) + [('CLOSE', 'a.dat'), ('OPEN', 'a.dat'), ('SEEK', 'a.dat', 1), ('GET', 'a.dat'), ('SEEK', 'a.dat', 2), ('GET', 'a.dat'), ('SEEK', 'a.dat', 3), ('GET', 'a.dat'), ('SEEK', 'a.dat', 4)]
        cases.append(Case(mode='repl', stdin=gen.join(history_entries(ops)), meta=dict(gen='exhaustive-1file', ops=[list(o[:2]) + ([o[2].decode('latin-1')] if len(o) > 2 and isinstance(o[2], bytes) else list(o[2:])) for o in ops], sample=len(cases) < 1)))
    # random histories on two files, longer
    A2 = alphabet(FILES, 3)
    for k in range(60 if tier == 'quick' else 800):
        n = rng.randint(5, 60)
        ops = [('OPEN', 'a.dat')] + [rng.choice(A2) if rng.random() < 0.8 else ('PUT', rng.choice(FILES), rng.choice(PAYLOADS)) for _ in range(n)]
        cases.append(Case(mode='repl', stdin=gen.join(history_entries(ops)), meta=dict(gen='random-2files', ops=[list(o[:2]) + ([o[2].decode('latin-1')] if len(o) > 2 and isinstance(o[2], bytes) else list(o[2:])) for o in ops], sample=False)))
    # the same kind of history as a PROGRAM of its legal steps, ending with files still open (normally, by an error, or run
    # through RUNFILE): the files left on disk are compared with the model
    import copy
    for k in range(40 if tier == 'quick' else 500):
        spec = Spec(); legal = []
        for op in [('OPEN', 'a.dat')] + [rng.choice(A2) if rng.random() < 0.8 else ('PUT', rng.choice(FILES), rng.choice(PAYLOADS)) for _ in range(rng.randint(3, 25))]:
            probe = copy.deepcopy(spec)
            if probe.apply(op)[0] != 'err':
                spec.apply(op); legal.append(op)
        L = ['DECLARE s : STRING', 'DECLARE t : STRING']
        for op in legal:
            L += [x if x != 't' else 'OUTPUT t' for x in render(op)]
        form = rng.choice(['file', 'file-error', 'runfile'])
        if form == 'file-error': L.append('OUTPUT 1 / 0')
        if form == 'runfile':
            cases.append(Case(mode='repl', stdin=b'RUNFILE seg.pseudo\nOUTPUT "back at the prompt"\n', files={'seg.pseudo': gen.join(L)}, meta=dict(gen='program-runfile', sample=False)))
        else:
            cases.append(Case(gen.join(L), meta=dict(gen='program-' + form, sample=False)))
    return cases

def ops_of(meta):
    out = []
    for o in meta['ops']:
        if o[0] == 'PUT': out.append(('PUT', o[1], o[2].encode('latin-1')))
        else: out.append(tuple(o))
    return out

def intrinsic(case, io, ia):
    if 'ops' not in case.meta: return None
    return check_segment(ops_of(case.meta), Spec(), io.stdout)

def extra_checks(tier, rng, exe, exe_asan, mexe, stats):
    """histories with process restarts: segments are run one after the other, each starting from the
    files the previous one left; the spec is carried across"""
    A2 = alphabet(FILES, 3)
    n = 0
    for k in range(40 if tier == 'quick' else 400):
        spec = Spec(); files = {}
        for seg in range(rng.randint(2, 4)):
            last_seg = False
            ops = [rng.choice(A2) if rng.random() < 0.75 else ('PUT', rng.choice(FILES), rng.choice(PAYLOADS)) for _ in range(rng.randint(2, 10))]
            if seg == 0: ops = [('OPEN', 'a.dat'), ('PUT', 'a.dat', b'first\nrecord')] + ops
            form = rng.choice(['repl', 'repl', 'file', 'file-error', 'runfile'])
            if form == 'repl':
                c = Case(mode='repl', stdin=gen.join(history_entries(ops)), files=files, meta=dict(gen='restart-segment'))
                io = pe2.run_impl(c, exe)
                n += 1
                why = check_segment(ops, spec, io.stdout)
            else:
                # the same segment as a PROGRAM (file mode, or RUNFILE from the REPL) made of its legal steps only, ending with the
                # files still open (normally or by a runtime error): what was put must be on disk for the next process
                import copy
                legal = []
                for op in ops:
                    probe = copy.deepcopy(spec)
                    if probe.apply(op)[0] != 'err':
                        spec.apply(op); legal.append(op)
                # always leave at least one modified file open at the end
                f0 = rng.choice(FILES)
                for op in ([('OPEN', f0)] if f0 not in spec.open else []) + [('PUT', f0, rng.choice(PAYLOADS))]:
                    spec.apply(op); legal.append(op)
                L = ['DECLARE s : STRING', 'DECLARE t : STRING']
                for op in legal:
                    L += [x if x != 't' else 'OUTPUT t' for x in render(op)]
                if form == 'file-error': L.append('OUTPUT 1 / 0')
                if form == 'runfile':
                    c = Case(mode='repl', stdin=b'RUNFILE seg.pseudo\n', files=dict(files, **{'seg.pseudo': gen.join(L)}), meta=dict(gen='restart-segment-runfile'))
                else:
                    c = Case(gen.join(L), files=files, meta=dict(gen='restart-segment-' + form))
                io = pe2.run_impl(c, exe)
                n += 1
                want_exit = 1 if form == 'file-error' else 0
                why = None if io.exit == want_exit else 'a program of legal steps ended with status %s: %r' % (io.exit, io.raw_stderr[:160])
            if why:
                yield ('after a process restart: ' + why, c, io); break
            spec.apply(('RESTART', None))
            files = {f: io.files[f] for f in FILES if f in io.files}
        else:
            # a final process reads every record of both files back
            ops = []
            for f in FILES:
                ops += [('OPEN', f)] + [x for k in range(1, len(spec.disk[f]) + 1) for x in (('SEEK', f, k), ('GET', f))] + [('SEEK', f, len(spec.disk[f]) + 1), ('GET', f), ('SEEK', f, len(spec.disk[f]) + 2)]
            c = Case(mode='repl', stdin=gen.join(history_entries(ops)), files=files, meta=dict(gen='restart-final-read'))
            io = pe2.run_impl(c, exe); n += 1
            why = check_segment(ops, spec, io.stdout)
            if why:
                yield ('after the last process restart: ' + why, c, io)
    stats.setdefault('extra', {})['restart_segments'] = n
