"""gen.py — generators of pseudocode programs shared by the property modules.
Every random choice comes from the rng passed in, so a case replays from VERIF_SEED."""
import random

TYPES = ['INTEGER', 'REAL', 'BOOLEAN', 'CHAR', 'STRING', 'DATE']

def int_lit(rng, small=True):
    if small or rng.random() < 0.8:
        return str(rng.choice([0, 1, 2, 3, 5, 7, 10, 12, 40, 100, 255, rng.randint(0, 1000)]))
    return str(rng.choice([2147483647, 2147483648, 4294967296, 9223372036854775807, 9223372036854775806, 1000000007]))

def real_lit(rng):
    return rng.choice(['0.0', '0.5', '1.5', '2.25', '3.14', '10.0', '0.1', '0.2', '100.125', '7.', '1234567.891', '0.000123',
                       '%d.%d' % (rng.randint(0, 999), rng.randint(0, 999))])

def char_lit(rng):
    return "'" + rng.choice(list('abczAZ09 #_')) + "'"

STR_ALPHA = 'abXY01 #.-'
def str_lit(rng, maxlen=6):
    n = rng.randint(0, maxlen)
    return '"' + ''.join(rng.choice(STR_ALPHA) for _ in range(n)) + '"'

def date_lit(rng):
    return rng.choice(['1/1/2000', '29/2/2024', '31/12/1999', '15/8/2021', '28/2/2023', '1/3/2020',
                       '%d/%d/%d' % (rng.randint(1, 28), rng.randint(1, 12), rng.randint(1, 9999))])

def lit(rng, ty):
    if ty == 'INTEGER': return int_lit(rng)
    if ty == 'REAL': return real_lit(rng)
    if ty == 'BOOLEAN': return rng.choice(['TRUE', 'FALSE'])
    if ty == 'CHAR': return char_lit(rng)
    if ty == 'STRING': return str_lit(rng)
    if ty == 'DATE': return date_lit(rng)
    raise ValueError(ty)

class Env:
    """typed variables that expressions may read"""
    def __init__(self, vars_by_type=None):
        self.v = {t: [] for t in TYPES}
        for t, names in (vars_by_type or {}).items():
            self.v[t] = list(names)
    def pick(self, rng, ty):
        return rng.choice(self.v[ty]) if self.v.get(ty) else None

def paren(rng, s, redundant):
    return '(' + s + ')' if redundant and rng.random() < 0.5 else s

def expr(rng, ty, env, depth, redundant=False, safe=True):
    """random well-typed expression of type ty; with safe=True divisors are non-zero literals"""
    if depth <= 0 or rng.random() < 0.25:
        v = env.pick(rng, ty)
        if v and rng.random() < 0.5:
            return v
        return lit(rng, ty)
    d = depth - 1
    E = lambda t: expr(rng, t, env, d, redundant, safe)
    P = lambda s: '(' + s + ')'
    if ty == 'INTEGER':
        k = rng.randint(0, 9)
        if k <= 2:
            return paren(rng, '%s %s %s' % (P(E('INTEGER')) if rng.random() < 0.5 else E('INTEGER'), rng.choice(['+', '-', '*']), P(E('INTEGER')) if rng.random() < 0.5 else E('INTEGER')), redundant)
        if k == 3:
            return '%s %s %s' % (P(E('INTEGER')), rng.choice(['DIV', 'MOD']), rng.choice(['1', '2', '3', '7', '-2', '-1', '10']) if safe else P(E('INTEGER')))
        if k == 4:
            return '-' + P(E('INTEGER'))
        if k == 5:
            return 'LENGTH(%s)' % E('STRING')
        if k == 6:
            return 'ASC(%s)' % E('CHAR')
        if k == 7:
            return 'INT(%s)' % E('REAL')
        if k == 8:
            return '%s(%s, %s)' % (rng.choice(['DIV', 'MOD']), E('INTEGER'), rng.choice(['1', '2', '5', '-3']))
        return '%s + %s * %s' % (E('INTEGER'), E('INTEGER'), E('INTEGER'))
    if ty == 'REAL':
        k = rng.randint(0, 6)
        if k == 0:
            return '%s / %s' % (P(E('INTEGER')), rng.choice(['2', '3', '4', '7', '10', '0.5']) if safe else P(E('INTEGER')))
        if k == 1:
            return '%s %s %s' % (P(E('REAL')), rng.choice(['+', '-', '*']), P(E('REAL')))
        if k == 2:
            return '%s %s %s' % (P(E('INTEGER')), rng.choice(['+', '-', '*']), P(E('REAL')))
        if k == 3:
            return '%s %s %s' % (P(E('REAL')), rng.choice(['+', '-', '*']), P(E('INTEGER')))
        if k == 4:
            return '-' + P(E('REAL'))
        if k == 5:
            return 'STR_TO_NUM(%s)' % rng.choice(['"12"', '"3.5"', '"007"', '"1.25"', '"abc"', '""', '"9.75"'])
        return '%s / %s' % (P(E('REAL')), rng.choice(['2', '4', '0.25', '8']))
    if ty == 'BOOLEAN':
        k = rng.randint(0, 8)
        if k <= 1:
            t = rng.choice(['INTEGER', 'REAL'])
            return paren(rng, '%s %s %s' % (P(E(t)), rng.choice(['=', '<>', '<', '<=', '>', '>=']), P(E(rng.choice(['INTEGER', 'REAL'])))), True)
        if k == 2:
            return P('%s %s %s' % (E('STRING'), rng.choice(['=', '<>']), E('STRING')))
        if k == 3:
            return P('%s %s %s' % (E('CHAR'), rng.choice(['=', '<>', '<', '>', '<=', '>=']), E('CHAR')))
        if k == 4:
            return P('%s %s %s' % (E('DATE'), rng.choice(['=', '<>', '<', '>', '<=', '>=']), E('DATE')))
        if k == 5:
            return P('%s AND %s' % (E('BOOLEAN'), E('BOOLEAN')))
        if k == 6:
            return P('%s OR %s' % (E('BOOLEAN'), E('BOOLEAN')))
        if k == 7:
            return P('NOT %s' % E('BOOLEAN'))
        return 'IS_NUM(%s)' % E('STRING')
    if ty == 'CHAR':
        k = rng.randint(0, 3)
        if k == 0:
            return 'CHR(%s)' % rng.choice(['65', '97', '48', '122', '32', '35'])
        if k == 1:
            return 'LCASE(%s)' % E('CHAR')
        if k == 2:
            return 'UCASE(%s)' % E('CHAR')
        return lit(rng, 'CHAR')
    if ty == 'STRING':
        k = rng.randint(0, 6)
        if k <= 1:
            return paren(rng, '%s & %s' % (E('STRING'), E(rng.choice(['STRING', 'CHAR', 'INTEGER', 'BOOLEAN', 'STRING']))), redundant)
        if k == 2:
            return 'TO_UPPER(%s)' % E('STRING')
        if k == 3:
            return 'TO_LOWER(%s)' % E('STRING')
        if k == 4:
            return 'NUM_TO_STR(%s)' % E('REAL')
        if k == 5:
            s = str_lit(rng, 6)
            n = len(s) - 2
            return '%s(%s, %d)' % (rng.choice(['LEFT', 'RIGHT']), s, rng.randint(0, n))
        return lit(rng, 'STRING')
    if ty == 'DATE':
        if rng.random() < 0.3:
            return 'SETDATE(%d, %d, %d)' % (rng.randint(1, 28), rng.randint(1, 12), rng.randint(1, 3000))
        return lit(rng, 'DATE')
    raise ValueError(ty)

def declare_block(env_names):
    """DECLARE lines for a dict type -> names"""
    out = []
    for t, names in env_names.items():
        for n in names:
            out.append('DECLARE %s : %s' % (n, t))
    return out

def init_block(rng, env_names):
    out = []
    for t, names in env_names.items():
        for n in names:
            out.append('%s <- %s' % (n, lit(rng, t)))
    return out

STD_VARS = {'INTEGER': ['i1', 'i2', 'i3'], 'REAL': ['r1', 'r2'], 'BOOLEAN': ['b1', 'b2'], 'CHAR': ['c1', 'c2'],
            'STRING': ['s1', 's2'], 'DATE': ['d1', 'd2']}

def prelude(rng, vars_=None):
    v = vars_ or STD_VARS
    return declare_block(v) + init_block(rng, v), Env(v)

def join(lines):
    return ('\n'.join(lines) + '\n').encode('latin-1')

REPL_HEADER_LINES = 2
def repl_outputs(stdout):
    """per-entry stdout chunks of a REPL transcript (single-line entries, no INPUT): the text
    between consecutive '> ' prompts"""
    txt = stdout.decode('latin-1')
    parts = txt.split('\n', REPL_HEADER_LINES)
    body = parts[REPL_HEADER_LINES] if len(parts) > REPL_HEADER_LINES else ''
    chunks = body.split('> ')
    return chunks[1:]     # chunks[0] is the empty text before the first prompt

# ----------------------------------------------------------------------------- statements
class StmtGen:
    """random control-flow programs with an OUTPUT trace in every branch and body; loops are bounded
    by dedicated counters that are advanced at the top of the body (so CONTINUE cannot skip them)"""
    def __init__(self, rng, env, allow_break=True, pedantic_clean=False):
        self.rng = rng; self.env = env; self.n = 0; self.allow_break = allow_break and not pedantic_clean
        self.pedantic_clean = pedantic_clean
        self.pre = []       # declarations needed by generated statements
    def fresh(self, p):
        self.n += 1
        return '%s%d' % (p, self.n)
    def cond(self):
        return expr(self.rng, 'BOOLEAN', self.env, 2)
    def trace(self, ind, tag):
        r = self.rng
        return ['%sOUTPUT "%s ", %s' % (ind, tag, expr(r, r.choice(['INTEGER', 'BOOLEAN', 'STRING', 'REAL']), self.env, 1))]
    def assign(self, ind):
        r = self.rng
        ty = r.choice(['INTEGER', 'INTEGER', 'REAL', 'BOOLEAN', 'STRING', 'CHAR'])
        v = self.env.pick(r, ty)
        if not v:
            return []
        return ['%s%s <- %s' % (ind, v, expr(r, ty, self.env, 2))]
    def block(self, depth, ind, in_loop):
        r = self.rng
        out = []
        for _ in range(r.randint(1, 3)):
            out += self.stmt(depth, ind, in_loop)
        return out
    def stmt(self, depth, ind, in_loop):
        r = self.rng
        k = r.randint(0, 11) if depth > 0 else r.randint(0, 2)
        tag = self.fresh('t')
        if k == 0: return self.trace(ind, tag)
        if k == 1: return self.assign(ind) + self.trace(ind, tag)
        if k == 2:
            if in_loop and self.allow_break and r.random() < 0.5:
                return ['%sIF %s THEN' % (ind, self.cond()), '%s  %s' % (ind, r.choice(['BREAK', 'CONTINUE'])), '%sENDIF' % ind]
            return self.trace(ind, tag)
        if k in (3, 4):      # IF
            out = ['%sIF %s' % (ind, self.cond()), '%s  THEN' % ind] if r.random() < 0.3 else ['%sIF %s THEN' % (ind, self.cond())]
            out += self.block(depth - 1, ind + '    ', in_loop)
            if not self.pedantic_clean:
                for _ in range(r.randint(0, 2)):
                    out += ['%sELSE IF %s THEN' % (ind, self.cond())] + self.block(depth - 1, ind + '    ', in_loop)
            if r.random() < 0.6:
                out += ['%sELSE' % ind] + self.block(depth - 1, ind + '    ', in_loop)
            return out + ['%sENDIF' % ind]
        if k == 5:           # CASE
            ty = r.choice(['INTEGER', 'INTEGER', 'REAL', 'CHAR', 'STRING', 'BOOLEAN'])
            simple = [x for x in self.env.v.get(ty, []) if x.replace('_', '').isalnum()]      # CASE OF takes a plain identifier
            v = r.choice(simple) if simple else None
            if not v: return self.trace(ind, tag)
            out = ['%sCASE OF %s' % (ind, v)]
            for _ in range(r.randint(1, 4)):
                if ty in ('INTEGER', 'REAL') and r.random() < 0.5:
                    a = r.randint(-5, 12); b = a + r.randint(-1, 8)
                    lab = '%s TO %s' % (neg_lit(a) if ty == 'INTEGER' or r.random() < 0.5 else '%d.5' % abs(a), neg_lit(b))
                else:
                    lab = lit(r, ty) if r.random() < 0.7 else expr(r, ty, self.env, 1)
                body = self.block(depth - 1, ind + '        ', in_loop)
                body[0] = '%s    %s : %s' % (ind, lab, body[0].lstrip())
                out += body
            if r.random() < 0.6:
                body = self.block(depth - 1, ind + '        ', in_loop)
                body[0] = '%s    OTHERWISE : %s' % (ind, body[0].lstrip())
                out += body
            return out + ['%sENDCASE' % ind]
        if k in (6, 7):      # WHILE
            w = self.fresh('w'); self.pre.append('DECLARE %s : INTEGER' % w)
            lim = r.randint(0, 4)
            c = '%s < %d' % (w, lim) if r.random() < 0.6 else '(%s < %d) AND %s' % (w, lim, self.cond())
            out = ['%s%s <- 0' % (ind, w), '%sWHILE %s%s' % (ind, c, r.choice([' DO', '', ' DO']))]
            out += ['%s    %s <- %s + 1' % (ind, w, w)] + self.trace(ind + '    ', tag) + self.block(depth - 1, ind + '    ', True)
            return out + ['%sENDWHILE' % ind]
        if k == 8:           # REPEAT
            w = self.fresh('q'); self.pre.append('DECLARE %s : INTEGER' % w)
            lim = r.randint(1, 4)
            out = ['%s%s <- 0' % (ind, w), '%sREPEAT' % ind, '%s    %s <- %s + 1' % (ind, w, w)] + self.trace(ind + '    ', tag)
            out += self.block(depth - 1, ind + '    ', True)
            c = '%s >= %d' % (w, lim) if r.random() < 0.6 else '(%s >= %d) OR %s' % (w, lim, self.cond())
            return out + ['%sUNTIL %s' % (ind, c)]
        if k in (9, 10):     # FOR
            it = self.fresh('k'); self.pre.append('DECLARE %s : INTEGER' % it) if r.random() < 0.7 else None
            a = r.randint(-3, 3); b = r.randint(-3, 3)
            st = r.choice([None, 1, 2, -1, -2, 3, -3])
            A = neg_lit(a) if r.random() < 0.7 else '%s + %s' % (neg_lit(a), self.env.pick(r, 'INTEGER') or '0')
            B = neg_lit(b) if r.random() < 0.7 else '%s - %s' % (neg_lit(b), self.env.pick(r, 'INTEGER') or '0')
            hdr = '%sFOR %s <- %s TO %s' % (ind, it, A, B) + ('' if st is None else ' STEP %s' % neg_lit(st))
            out = [hdr, '%s    OUTPUT "%s it=", %s' % (ind, tag, it)] + self.block(depth - 1, ind + '    ', True)
            if r.random() < 0.15:
                iv = self.env.pick(r, 'INTEGER')
                if iv: out.append('%s    %s <- %s + 1' % (ind, iv, iv))
            out += ['%sNEXT%s' % (ind, r.choice(['', ' ' + it]))]
            return out + ['%sOUTPUT "%s after=", %s' % (ind, tag, it)]
        return self.trace(ind, tag)

def neg_lit(k):
    return '-%d' % (-k) if k < 0 else str(k)

OPENERS = ('IF', 'CASE', 'WHILE', 'REPEAT', 'FOR', 'PROCEDURE', 'FUNCTION', 'TYPE')
CLOSERS = ('ENDIF', 'ENDCASE', 'ENDWHILE', 'UNTIL', 'NEXT', 'ENDPROCEDURE', 'ENDFUNCTION', 'ENDTYPE')
def to_entries(lines):
    """group the lines of a program (nested lines indented) into REPL entries: a multi-line construct
    is one entry closed by an empty line"""
    out = []; cur = None
    for ln in lines:
        if ln == '':
            continue
        top = not ln.startswith((' ', '\t'))
        first = ln.split(' ')[0].split('(')[0] if top else ''
        if cur is None:
            if top and first in OPENERS and not (first == 'TYPE' and '=' in ln):
                cur = [ln]
            else:
                out.append([ln])
        else:
            cur.append(ln)
            if top and first in CLOSERS:
                out.append(cur + ['']); cur = None
    if cur is not None:
        out.append(cur + [''])
    return out

def strip_prompts(stdout):
    """REPL stdout without header and without '> ' / '. ' prompts"""
    txt = stdout.decode('latin-1')
    parts = txt.split('\n', REPL_HEADER_LINES)
    body = parts[REPL_HEADER_LINES] if len(parts) > REPL_HEADER_LINES else ''
    out = []
    for seg in body.split('> '):
        while seg.startswith('. '):
            seg = seg[2:]
        out.append(seg)
    return ''.join(out)


# ----------------------------------------------------------------------------- compound elements in loops
def compound_loop_program(rng):
    """arrays of records, records with array fields and arrays of pointers, every access made through the SAME
    syntax node with a varying non-literal index (loops, repeated calls): element identity must follow the index"""
    lo = rng.randint(-2, 1); hi = lo + rng.randint(1, 3)
    L = ['TYPE Pt', '  DECLARE x : INTEGER', '  DECLARE tag : STRING', '  DECLARE inner : ARRAY[1:2] OF INTEGER', 'ENDTYPE',
         'TYPE IP = ^INTEGER', 'TYPE PP = ^Pt',
         'DECLARE pts : ARRAY[%d:%d] OF Pt' % (lo, hi), 'DECLARE ps : ARRAY[%d:%d] OF IP' % (lo, hi), 'DECLARE tg : ARRAY[%d:%d] OF INTEGER' % (lo, hi),
         'DECLARE pp : ARRAY[%d:%d] OF PP' % (lo, hi), 'DECLARE i : INTEGER', 'DECLARE j : INTEGER', 'DECLARE one : Pt']
    if rng.random() < 0.5:
        L += ['PROCEDURE show(k : INTEGER)', '  OUTPUT "show ", k, " ", pts[k].x, " ", pts[k].inner[2]', 'ENDPROCEDURE',
              'FUNCTION getx(k : INTEGER) RETURNS INTEGER', '  RETURN pts[k].x', 'ENDFUNCTION']
        has_proc = True
    else:
        has_proc = False
    fill = ['FOR i <- %d TO %d' % (lo, hi), '  pts[i].x <- i * 10', '  pts[i].tag <- "p" & NUM_TO_STR(i)',
            '  FOR j <- 1 TO 2', '    pts[i].inner[j] <- i * 100 + j', '  NEXT j', '  tg[i] <- i + 500', '  ps[i] <- ^tg[i]', '  pp[i] <- ^pts[i]', 'NEXT i']
    if rng.random() < 0.3:
        fill = ['i <- %d' % lo, 'WHILE i <= %d' % hi, '  pts[i].x <- i * 10', '  pts[i].tag <- "p" & NUM_TO_STR(i)', '  pts[i].inner[1] <- i * 100 + 1', '  pts[i].inner[2] <- i * 100 + 2',
                '  tg[i] <- i + 500', '  ps[i] <- ^tg[i]', '  pp[i] <- ^pts[i]', '  i <- i + 1', 'ENDWHILE']
    L += fill
    def dump(tag):
        a, b, st = (lo, hi, '') if rng.random() < 0.5 else (hi, lo, ' STEP -1')
        fields = rng.sample(['pts[i].x', 'pts[i].tag', 'pts[i].inner[1]', 'pts[i].inner[2]', 'ps[i]^', 'tg[i]', 'pp[i]^.x', 'pp[i]^.inner[1]'], rng.randint(2, 6))
        out = ['FOR i <- %d TO %d%s' % (a, b, st), '  OUTPUT "%s ", i, " ", %s' % (tag, ', " ", '.join(fields))]
        if has_proc and rng.random() < 0.6:
            out += ['  CALL show(i)', '  OUTPUT getx(i)']
        return out + ['NEXT i']
    L += dump('d1')
    for _ in range(rng.randint(1, 4)):
        a = rng.randint(lo, hi); b = rng.randint(lo, hi)
        k = rng.randint(0, 7)
        if k == 0: L += ['pts[%d] <- pts[%d]' % (a, b), 'pts[%d].x <- 777' % b, 'pts[%d].inner[1] <- 778' % b]
        elif k == 1: L += ['one <- pts[%d]' % a, 'one.x <- 901', 'one.inner[2] <- 902', 'pts[%d] <- one' % b, 'one.tag <- "changed"']
        elif k == 2: L += ['i <- %d' % a, 'ps[i]^ <- ps[i]^ + 1', 'i <- %d' % b, 'ps[i]^ <- ps[i]^ + 1']
        elif k == 3: L += ['FOR i <- %d TO %d' % (lo, hi), '  pp[i]^.x <- pp[i]^.x + 1', 'NEXT i']
        elif k == 4: L += ['FOR i <- %d TO %d' % (lo, hi), '  pts[i].inner[1] <- pts[i].inner[2]', '  pts[i].inner[2] <- i', 'NEXT i']
        elif k == 5: L += ['ps[%d] <- ps[%d]' % (a, b), 'tg[%d] <- 4242' % b]
        elif k == 6: L += ['FOR i <- %d TO %d' % (lo, hi), '  IF i = %d THEN' % a, '    pts[i].tag <- "hit"', '  ENDIF', 'NEXT i']
        else: L += ['FOR i <- %d TO %d' % (hi, lo), '  pts[i].x <- 0', 'NEXT i', 'i <- %d' % a, 'pts[i].x <- pts[i].x + 5', 'i <- %d' % b, 'pts[i].x <- pts[i].x + 7']
        L += dump('d%d' % (k + 2))
    # the same node, then an index outside the bounds
    L += ['FOR i <- %d TO %d' % (lo, hi + 1), '  OUTPUT "last ", pts[i].x', 'NEXT i', 'OUTPUT "not reached"']
    return join(L)


# ----------------------------------------------------------------------------- rich cross-feature programs
RICH_DECLS = [
    'CONSTANT KI = 7', 'CONSTANT KS = "konst"',
    'DECLARE a1 : ARRAY[0:3] OF INTEGER', 'DECLARE a1b : ARRAY[0:3] OF INTEGER', 'DECLARE a2 : ARRAY[1:2] OF STRING', 'DECLARE m2 : ARRAY[1:2, -1:1] OF INTEGER', 'DECLARE ar : ARRAY[1:3] OF REAL',
    'TYPE Rec', '  DECLARE x : INTEGER', '  DECLARE s : STRING', '  DECLARE r : REAL', '  DECLARE v : ARRAY[1:3] OF INTEGER', 'ENDTYPE',
    'TYPE Col = (red, green, blue)', 'TYPE IP = ^INTEGER', 'TYPE RP = ^Rec',
    'DECLARE rec1 : Rec', 'DECLARE rec2 : Rec', 'DECLARE recs : ARRAY[1:3] OF Rec', 'DECLARE col : Col', 'DECLARE col2 : Col',
    'DECLARE p : IP', 'DECLARE q : IP', 'DECLARE rp : RP', 'DECLARE line : STRING', 'DECLARE k : INTEGER', 'DECLARE j : INTEGER',
    'PROCEDURE inc(BYREF x : INTEGER, BYVAL n : INTEGER)', '  x <- x + n', '  n <- 0', 'ENDPROCEDURE',
    'PROCEDURE setrec(BYREF t : Rec, n : INTEGER)', '  t.x <- n', '  t.s <- "set" & n', '  t.v[2] <- n * 2', 'ENDPROCEDURE',
    'PROCEDURE byvalrec(t : Rec)', '  t.x <- -1', '  t.v[1] <- -1', '  OUTPUT "in byvalrec ", t.x', 'ENDPROCEDURE',
    'FUNCTION sum(n : INTEGER) RETURNS INTEGER', '  IF n <= 0 THEN', '    RETURN 0', '  ENDIF', '  RETURN n + sum(n - 1)', 'ENDFUNCTION',
    'FUNCTION mk(n : INTEGER) RETURNS Rec', '  DECLARE t : Rec', '  t.x <- n', '  t.s <- "mk"', '  t.r <- n / 2', '  t.v[3] <- n', '  RETURN t', 'ENDFUNCTION',
    'FUNCTION half(z : REAL) RETURNS REAL', '  RETURN z / 2', 'ENDFUNCTION',
]
RICH_INIT = ['FOR k <- 0 TO 3', '  a1[k] <- k * 11', 'NEXT k', 'a2[1] <- "one"', 'a2[2] <- "two"',
             'FOR k <- 1 TO 2', '  FOR j <- -1 TO 1', '    m2[k, j] <- k * 10 + j', '  NEXT j', 'NEXT k',
             'FOR k <- 1 TO 3', '  ar[k] <- k / 4', '  recs[k].x <- k', '  recs[k].s <- "r" & k', '  recs[k].r <- k + 0.5', '  recs[k].v[k] <- k * 100', 'NEXT k',
             'rec1.x <- 5', 'rec1.s <- "five"', 'rec1.r <- 5.5', 'rec1.v[1] <- 51', 'rec2 <- rec1', 'col <- green', 'col2 <- red', 'p <- ^i1', 'q <- ^a1[2]', 'rp <- ^rec2']
RICH_LVALS = {'INTEGER': ['a1[0]', 'a1[3]', 'a1[i1 MOD 4]', 'm2[1, -1]', 'm2[2, 1]', 'rec1.x', 'rec2.x', 'recs[1].x', 'recs[3].x', 'rec1.v[2]', 'recs[2].v[2]', 'p^', 'q^', 'rp^.x', 'k'],
              'STRING': ['a2[1]', 'a2[2]', 'rec1.s', 'recs[2].s', 'rp^.s'],
              'REAL': ['ar[1]', 'ar[3]', 'rec1.r', 'recs[3].r']}
RICH_SPECIAL = [
    'CALL inc(i1, 3)', 'CALL inc(a1[1], i2)', 'CALL inc(rec1.x, 1)', 'CALL inc(recs[2].x, KI)', 'CALL inc(p^, 2)', 'CALL setrec(rec1, i1)', 'CALL byvalrec(rec1)',
    'CALL byvalrec(recs[1])', 'i2 <- sum(4)', 'i3 <- sum(a1[1] MOD 5)', 'rec2 <- rec1', 'rec1 <- mk(i1)', 'recs[1] <- rec2', 'recs[2] <- mk(3)', 'rec2 <- recs[3]', 'r1 <- half(r2)', 'r2 <- half(i1)',
    'a1b <- a1', 'a1 <- a1b', 'rec1.v <- rec2.v', 'recs[1].v <- rec1.v', 'rec2.v <- recs[3].v', 'a1b[2] <- 5', 'rec2.v[1] <- 77',
    'col <- col + 1', 'col2 <- col - 2', 'col <- blue', 'OUTPUT col, " ", col2, " ", col = col2', 'p <- ^i2', 'q <- p', 'p <- ^rec1.x', 'q <- ^recs[2].x', 'rp <- ^recs[1]', 'rp <- ^rec1',
    'a1[i1 MOD 4] <- a1[(i1 + 1) MOD 4] + 1', 'm2[1 + i1 MOD 2, i2 MOD 2] <- i3', 'ar[2] <- r1 * 2', 'a2[1 + i1 MOD 2] <- s1 & a2[1]',
    'd1 <- SETDATE(DAY(d2), MONTH(d2), YEAR(d2))', 'OUTPUT d1 < d2, " ", DAYINDEX(d1)', 'OUTPUT KI + i1, " ", KS & s1', 'c1 <- MID(s1 & "xyz", 1 + LENGTH(s1) MOD 3, 1)',
    'OUTPUT INT(r1), " ", INT(0 - r2), " ", STR_TO_NUM("12.5") + i1', 'OUTPUT NUM_TO_STR(i1) & NUM_TO_STR(r1)',
]
RICH_FILE = ['OPENFILE "rich.txt" FOR WRITE', 'WRITEFILE "rich.txt", s1', 'WRITEFILE "rich.txt", i1', 'WRITEFILE "rich.txt", r1', 'WRITEFILE "rich.txt", rec1.s & a1[1]', 'CLOSEFILE "rich.txt"',
             'OPENFILE "rich.txt" FOR READ', 'WHILE NOT EOF("rich.txt")', '  READFILE "rich.txt", line', '  OUTPUT "read ", line', 'ENDWHILE', 'CLOSEFILE "rich.txt"',
             'OPENFILE "rich.dat" FOR RANDOM', 'PUTRECORD "rich.dat", rec1', 'SEEK "rich.dat", 2', 'rec2 <- recs[2]', 'PUTRECORD "rich.dat", rec2', 'SEEK "rich.dat", 1', 'GETRECORD "rich.dat", rec2', 'CLOSEFILE "rich.dat"',
             'OUTPUT rec2.x, " ", rec2.s, " ", rec2.v[1]']
RICH_DUMP = ['OUTPUT "== ", i1, " ", i2, " ", i3, " ", r1, " ", r2, " ", b1, " ", c1, " ", s1, " ", s2, " ", d1',
             'FOR k <- 0 TO 3', '  OUTPUT a1[k], " ", a1b[k]', 'NEXT k', 'OUTPUT a2[1], "|", a2[2]',
             'FOR k <- 1 TO 2', '  OUTPUT m2[k, -1], " ", m2[k, 0], " ", m2[k, 1]', 'NEXT k',
             'FOR k <- 1 TO 3', '  OUTPUT ar[k], " ", recs[k].x, " ", recs[k].s, " ", recs[k].r, " ", recs[k].v[1], recs[k].v[2], recs[k].v[3]', 'NEXT k',
             'OUTPUT rec1.x, " ", rec1.s, " ", rec1.r, " ", rec1.v[1], rec1.v[2], rec1.v[3]', 'OUTPUT rec2.x, " ", rec2.s, " ", rec2.r, " ", rec2.v[1], rec2.v[2], rec2.v[3]',
             'OUTPUT col, " ", col2, " ", p^, " ", q^, " ", rp^.x, " ", KI, " ", KS']

def rich_program(rng, pedantic_clean=True, with_files=True):
    """scalars, arrays (1-D/2-D), records with array fields, arrays of records, pointers, enumerations, constants,
    BYREF/BYVAL procedures, recursive and record-returning functions, text and random files — mixed at random
    under generated control flow, then a full dump of the state"""
    pre, env = prelude(rng)
    for t, names in RICH_LVALS.items():
        env.v[t] = env.v[t] + names
    sg = StmtGen(rng, env, pedantic_clean=pedantic_clean)
    body = []
    for _ in range(rng.randint(3, 8)):
        k = rng.random()
        if k < 0.45:
            body += sg.stmt(rng.randint(1, 3), '', False)
        elif k < 0.9:
            body.append(rng.choice(RICH_SPECIAL))
            if rng.random() < 0.3:
                it = sg.fresh('z'); sg.pre.append('DECLARE %s : INTEGER' % it)
                body += ['FOR %s <- 1 TO %d' % (it, rng.randint(1, 3)), '  ' + rng.choice(RICH_SPECIAL), '  ' + rng.choice(RICH_SPECIAL), 'NEXT %s' % it]
        elif with_files:
            body += RICH_FILE
    lines = RICH_DECLS[:2] + pre + RICH_DECLS[2:] + sg.pre + RICH_INIT + body + RICH_DUMP
    return join(lines)
