"""gen.py — generators of pseudocode programs shared by the property modules.
Every random choice comes from the rng passed in, so a case replays from VERIF_SEED."""
import random

TYPES = ['INTEGER', 'REAL', 'BOOLEAN', 'CHAR', 'STRING', 'DATE']

def int_lit(rng, small=True):
    if small or rng.random() < 0.8:
        return str(rng.choice([0, 1, 2, 3, 5, 7, 10, 12, 40, 100, 255, rng.randint(0, 1000)]))
    return str(rng.choice([2147483647, 2147483648, 4294967296, 9223372036854775807, 9223372036854775806, 1000000007]))

def real_lit(rng):
    return rng.choice(['0.0', '0.5', '1.5', '2.25', '3.14', '10.0', '0.1', '0.2', '100.125', '7.', '1234567.891', '0.000123',
                       '%d.%d' % (rng.randint(0, 999), rng.randint(0, 999))])

def char_lit(rng):
    return "'" + rng.choice(list('abczAZ09 #_')) + "'"

STR_ALPHA = 'abXY01 #.-'
def str_lit(rng, maxlen=6):
    n = rng.randint(0, maxlen)
    return '"' + ''.join(rng.choice(STR_ALPHA) for _ in range(n)) + '"'

def date_lit(rng):
    return rng.choice(['1/1/2000', '29/2/2024', '31/12/1999', '15/8/2021', '28/2/2023', '1/3/2020',
                       '%d/%d/%d' % (rng.randint(1, 28), rng.randint(1, 12), rng.randint(1, 9999))])

def lit(rng, ty):
    if ty == 'INTEGER': return int_lit(rng)
    if ty == 'REAL': return real_lit(rng)
    if ty == 'BOOLEAN': return rng.choice(['TRUE', 'FALSE'])
    if ty == 'CHAR': return char_lit(rng)
    if ty == 'STRING': return str_lit(rng)
    if ty == 'DATE': return date_lit(rng)
    raise ValueError(ty)

class Env:
    """typed variables that expressions may read"""
    def __init__(self, vars_by_type=None):
        self.v = {t: [] for t in TYPES}
        for t, names in (vars_by_type or {}).items():
            self.v[t] = list(names)
    def pick(self, rng, ty):
        return rng.choice(self.v[ty]) if self.v.get(ty) else None

def paren(rng, s, redundant):
    return '(' + s + ')' if redundant and rng.random() < 0.5 else s

def expr(rng, ty, env, depth, redundant=False, safe=True):
    """random well-typed expression of type ty; with safe=True divisors are non-zero literals"""
    if depth <= 0 or rng.random() < 0.25:
        v = env.pick(rng, ty)
        if v and rng.random() < 0.5:
            return v
        return lit(rng, ty)
    d = depth - 1
    E = lambda t: expr(rng, t, env, d, redundant, safe)
    P = lambda s: '(' + s + ')'
    if ty == 'INTEGER':
        k = rng.randint(0, 9)
        if k <= 2:
            return paren(rng, '%s %s %s' % (P(E('INTEGER')) if rng.random() < 0.5 else E('INTEGER'), rng.choice(['+', '-', '*']), P(E('INTEGER')) if rng.random() < 0.5 else E('INTEGER')), redundant)
        if k == 3:
            return '%s %s %s' % (P(E('INTEGER')), rng.choice(['DIV', 'MOD']), rng.choice(['1', '2', '3', '7', '-2', '-1', '10']) if safe else P(E('INTEGER')))
        if k == 4:
            return '-' + P(E('INTEGER'))
        if k == 5:
            return 'LENGTH(%s)' % E('STRING')
        if k == 6:
            return 'ASC(%s)' % E('CHAR')
        if k == 7:
            return 'INT(%s)' % E('REAL')
        if k == 8:
            return '%s(%s, %s)' % (rng.choice(['DIV', 'MOD']), E('INTEGER'), rng.choice(['1', '2', '5', '-3']))
        return '%s + %s * %s' % (E('INTEGER'), E('INTEGER'), E('INTEGER'))
    if ty == 'REAL':
        k = rng.randint(0, 6)
        if k == 0:
            return '%s / %s' % (P(E('INTEGER')), rng.choice(['2', '3', '4', '7', '10', '0.5']) if safe else P(E('INTEGER')))
        if k == 1:
            return '%s %s %s' % (P(E('REAL')), rng.choice(['+', '-', '*']), P(E('REAL')))
        if k == 2:
            return '%s %s %s' % (P(E('INTEGER')), rng.choice(['+', '-', '*']), P(E('REAL')))
        if k == 3:
            return '%s %s %s' % (P(E('REAL')), rng.choice(['+', '-', '*']), P(E('INTEGER')))
        if k == 4:
            return '-' + P(E('REAL'))
        if k == 5:
            return 'STR_TO_NUM(%s)' % rng.choice(['"12"', '"3.5"', '"007"', '"1.25"', '"abc"', '""', '"9.75"'])
        return '%s / %s' % (P(E('REAL')), rng.choice(['2', '4', '0.25', '8']))
    if ty == 'BOOLEAN':
        k = rng.randint(0, 8)
        if k <= 1:
            t = rng.choice(['INTEGER', 'REAL'])
            return paren(rng, '%s %s %s' % (P(E(t)), rng.choice(['=', '<>', '<', '<=', '>', '>=']), P(E(rng.choice(['INTEGER', 'REAL'])))), True)
        if k == 2:
            return P('%s %s %s' % (E('STRING'), rng.choice(['=', '<>']), E('STRING')))
        if k == 3:
            return P('%s %s %s' % (E('CHAR'), rng.choice(['=', '<>', '<', '>', '<=', '>=']), E('CHAR')))
        if k == 4:
            return P('%s %s %s' % (E('DATE'), rng.choice(['=', '<>', '<', '>', '<=', '>=']), E('DATE')))
        if k == 5:
            return P('%s AND %s' % (E('BOOLEAN'), E('BOOLEAN')))
        if k == 6:
            return P('%s OR %s' % (E('BOOLEAN'), E('BOOLEAN')))
        if k == 7:
            return P('NOT %s' % E('BOOLEAN'))
        return 'IS_NUM(%s)' % E('STRING')
    if ty == 'CHAR':
        k = rng.randint(0, 3)
        if k == 0:
            return 'CHR(%s)' % rng.choice(['65', '97', '48', '122', '32', '35'])
        if k == 1:
            return 'LCASE(%s)' % E('CHAR')
        if k == 2:
            return 'UCASE(%s)' % E('CHAR')
        return lit(rng, 'CHAR')
    if ty == 'STRING':
        k = rng.randint(0, 6)
        if k <= 1:
            return paren(rng, '%s & %s' % (E('STRING'), E(rng.choice(['STRING', 'CHAR', 'INTEGER', 'BOOLEAN', 'STRING']))), redundant)
        if k == 2:
            return 'TO_UPPER(%s)' % E('STRING')
        if k == 3:
            return 'TO_LOWER(%s)' % E('STRING')
        if k == 4:
            return 'NUM_TO_STR(%s)' % E('REAL')
        if k == 5:
            s = str_lit(rng, 6)
            n = len(s) - 2
            return '%s(%s, %d)' % (rng.choice(['LEFT', 'RIGHT']), s, rng.randint(0, n))
        return lit(rng, 'STRING')
    if ty == 'DATE':
        if rng.random() < 0.3:
            return 'SETDATE(%d, %d, %d)' % (rng.randint(1, 28), rng.randint(1, 12), rng.randint(1, 3000))
        return lit(rng, 'DATE')
    raise ValueError(ty)

def declare_block(env_names):
    """DECLARE lines for a dict type -> names"""
    out = []
    for t, names in env_names.items():
        for n in names:
            out.append('DECLARE %s : %s' % (n, t))
    return out

def init_block(rng, env_names):
    out = []
    for t, names in env_names.items():
        for n in names:
            out.append('%s <- %s' % (n, lit(rng, t)))
    return out

STD_VARS = {'INTEGER': ['i1', 'i2', 'i3'], 'REAL': ['r1', 'r2'], 'BOOLEAN': ['b1', 'b2'], 'CHAR': ['c1', 'c2'],
            'STRING': ['s1', 's2'], 'DATE': ['d1', 'd2']}

def prelude(rng, vars_=None):
    v = vars_ or STD_VARS
    return declare_block(v) + init_block(rng, v), Env(v)

def join(lines):
    return ('\n'.join(lines) + '\n').encode('latin-1')

REPL_HEADER_LINES = 2
def repl_outputs(stdout):
    """per-entry stdout chunks of a REPL transcript (single-line entries, no INPUT): the text
    between consecutive '> ' prompts"""
    txt = stdout.decode('latin-1')
    parts = txt.split('\n', REPL_HEADER_LINES)
    body = parts[REPL_HEADER_LINES] if len(parts) > REPL_HEADER_LINES else ''
    chunks = body.split('> ')
    return chunks[1:]     # chunks[0] is the empty text before the first prompt

# ----------------------------------------------------------------------------- statements
class StmtGen:
    """random control-flow programs with an OUTPUT trace in every branch and body; loops are bounded
    by dedicated counters that are advanced at the top of the body (so CONTINUE cannot skip them)"""
    def __init__(self, rng, env, allow_break=True, pedantic_clean=False):
        self.rng = rng; self.env = env; self.n = 0; self.allow_break = allow_break and not pedantic_clean
        self.pedantic_clean = pedantic_clean
        self.pre = []       # declarations needed by generated statements
    def fresh(self, p):
        self.n += 1
        return '%s%d' % (p, self.n)
    def cond(self):
        return expr(self.rng, 'BOOLEAN', self.env, 2)
    def trace(self, ind, tag):
        r = self.rng
        return ['%sOUTPUT "%s ", %s' % (ind, tag, expr(r, r.choice(['INTEGER', 'BOOLEAN', 'STRING', 'REAL']), self.env, 1))]
    def assign(self, ind):
        r = self.rng
        ty = r.choice(['INTEGER', 'INTEGER', 'REAL', 'BOOLEAN', 'STRING', 'CHAR'])
        v = self.env.pick(r, ty)
        if not v:
            return []
        return ['%s%s <- %s' % (ind, v, expr(r, ty, self.env, 2))]
    def block(self, depth, ind, in_loop):
        r = self.rng
        out = []
        for _ in range(r.randint(1, 3)):
            out += self.stmt(depth, ind, in_loop)
        return out
    def stmt(self, depth, ind, in_loop):
        r = self.rng
        k = r.randint(0, 11) if depth > 0 else r.randint(0, 2)
        tag = self.fresh('t')
        if k == 0: return self.trace(ind, tag)
        if k == 1: return self.assign(ind) + self.trace(ind, tag)
        if k == 2:
            if in_loop and self.allow_break and r.random() < 0.5:
                return ['%sIF %s THEN' % (ind, self.cond()), '%s  %s' % (ind, r.choice(['BREAK', 'CONTINUE'])), '%sENDIF' % ind]
            return self.trace(ind, tag)
        if k in (3, 4):      # IF
            out = ['%sIF %s' % (ind, self.cond()), '%s  THEN' % ind] if r.random() < 0.3 else ['%sIF %s THEN' % (ind, self.cond())]
            out += self.block(depth - 1, ind + '    ', in_loop)
            if not self.pedantic_clean:
                for _ in range(r.randint(0, 2)):
                    out += ['%sELSE IF %s THEN' % (ind, self.cond())] + self.block(depth - 1, ind + '    ', in_loop)
            if r.random() < 0.6:
                out += ['%sELSE' % ind] + self.block(depth - 1, ind + '    ', in_loop)
            return out + ['%sENDIF' % ind]
        if k == 5:           # CASE
            ty = r.choice(['INTEGER', 'INTEGER', 'REAL', 'CHAR', 'STRING', 'BOOLEAN'])
            v = self.env.pick(r, ty)
            if not v: return self.trace(ind, tag)
            out = ['%sCASE OF %s' % (ind, v)]
            for _ in range(r.randint(1, 4)):
                if ty in ('INTEGER', 'REAL') and r.random() < 0.5:
                    a = r.randint(-5, 12); b = a + r.randint(-1, 8)
                    lab = '%s TO %s' % (neg_lit(a) if ty == 'INTEGER' or r.random() < 0.5 else '%d.5' % abs(a), neg_lit(b))
                else:
                    lab = lit(r, ty) if r.random() < 0.7 else expr(r, ty, self.env, 1)
                body = self.block(depth - 1, ind + '        ', in_loop)
                body[0] = '%s    %s : %s' % (ind, lab, body[0].lstrip())
                out += body
            if r.random() < 0.6:
                body = self.block(depth - 1, ind + '        ', in_loop)
                body[0] = '%s    OTHERWISE : %s' % (ind, body[0].lstrip())
                out += body
            return out + ['%sENDCASE' % ind]
        if k in (6, 7):      # WHILE
            w = self.fresh('w'); self.pre.append('DECLARE %s : INTEGER' % w)
            lim = r.randint(0, 4)
            c = '%s < %d' % (w, lim) if r.random() < 0.6 else '(%s < %d) AND %s' % (w, lim, self.cond())
            out = ['%s%s <- 0' % (ind, w), '%sWHILE %s%s' % (ind, c, r.choice([' DO', '', ' DO']))]
            out += ['%s    %s <- %s + 1' % (ind, w, w)] + self.trace(ind + '    ', tag) + self.block(depth - 1, ind + '    ', True)
            return out + ['%sENDWHILE' % ind]
        if k == 8:           # REPEAT
            w = self.fresh('q'); self.pre.append('DECLARE %s : INTEGER' % w)
            lim = r.randint(1, 4)
            out = ['%s%s <- 0' % (ind, w), '%sREPEAT' % ind, '%s    %s <- %s + 1' % (ind, w, w)] + self.trace(ind + '    ', tag)
            out += self.block(depth - 1, ind + '    ', True)
            c = '%s >= %d' % (w, lim) if r.random() < 0.6 else '(%s >= %d) OR %s' % (w, lim, self.cond())
            return out + ['%sUNTIL %s' % (ind, c)]
        if k in (9, 10):     # FOR
            it = self.fresh('k'); self.pre.append('DECLARE %s : INTEGER' % it) if r.random() < 0.7 else None
            a = r.randint(-3, 3); b = r.randint(-3, 3)
            st = r.choice([None, 1, 2, -1, -2, 3, -3])
            A = neg_lit(a) if r.random() < 0.7 else '%s + %s' % (neg_lit(a), self.env.pick(r, 'INTEGER') or '0')
            B = neg_lit(b) if r.random() < 0.7 else '%s - %s' % (neg_lit(b), self.env.pick(r, 'INTEGER') or '0')
            hdr = '%sFOR %s <- %s TO %s' % (ind, it, A, B) + ('' if st is None else ' STEP %s' % neg_lit(st))
            out = [hdr, '%s    OUTPUT "%s it=", %s' % (ind, tag, it)] + self.block(depth - 1, ind + '    ', True)
            if r.random() < 0.15:
                iv = self.env.pick(r, 'INTEGER')
                if iv: out.append('%s    %s <- %s + 1' % (ind, iv, iv))
            out += ['%sNEXT%s' % (ind, r.choice(['', ' ' + it]))]
            return out + ['%sOUTPUT "%s after=", %s' % (ind, tag, it)]
        return self.trace(ind, tag)

def neg_lit(k):
    return '-%d' % (-k) if k < 0 else str(k)

OPENERS = ('IF', 'CASE', 'WHILE', 'REPEAT', 'FOR', 'PROCEDURE', 'FUNCTION', 'TYPE')
CLOSERS = ('ENDIF', 'ENDCASE', 'ENDWHILE', 'UNTIL', 'NEXT', 'ENDPROCEDURE', 'ENDFUNCTION', 'ENDTYPE')
def to_entries(lines):
    """group the lines of a program (nested lines indented) into REPL entries: a multi-line construct
    is one entry closed by an empty line"""
    out = []; cur = None
    for ln in lines:
        if ln == '':
            continue
        top = not ln.startswith((' ', '\t'))
        first = ln.split(' ')[0].split('(')[0] if top else ''
        if cur is None:
            if top and first in OPENERS and not (first == 'TYPE' and '=' in ln):
                cur = [ln]
            else:
                out.append([ln])
        else:
            cur.append(ln)
            if top and first in CLOSERS:
                out.append(cur + ['']); cur = None
    if cur is not None:
        out.append(cur + [''])
    return out

def strip_prompts(stdout):
    """REPL stdout without header and without '> ' / '. ' prompts"""
    txt = stdout.decode('latin-1')
    parts = txt.split('\n', REPL_HEADER_LINES)
    body = parts[REPL_HEADER_LINES] if len(parts) > REPL_HEADER_LINES else ''
    out = []
    for seg in body.split('> '):
        while seg.startswith('. '):
            seg = seg[2:]
        out.append(seg)
    return ''.join(out)


# ----------------------------------------------------------------------------- compound elements in loops
def compound_loop_program(rng):
    """arrays of records, records with array fields and arrays of pointers, every access made through the SAME
    syntax node with a varying non-literal index (loops, repeated calls): element identity must follow the index"""
    lo = rng.randint(-2, 1); hi = lo + rng.randint(1, 3)
    L = ['TYPE Pt', '  DECLARE x : INTEGER', '  DECLARE tag : STRING', '  DECLARE inner : ARRAY[1:2] OF INTEGER', 'ENDTYPE',
         'TYPE IP = ^INTEGER', 'TYPE PP = ^Pt',
         'DECLARE pts : ARRAY[%d:%d] OF Pt' % (lo, hi), 'DECLARE ps : ARRAY[%d:%d] OF IP' % (lo, hi), 'DECLARE tg : ARRAY[%d:%d] OF INTEGER' % (lo, hi),
         'DECLARE pp : ARRAY[%d:%d] OF PP' % (lo, hi), 'DECLARE i : INTEGER', 'DECLARE j : INTEGER', 'DECLARE one : Pt']
    if rng.random() < 0.5:
        L += ['PROCEDURE show(k : INTEGER)', '  OUTPUT "show ", k, " ", pts[k].x, " ", pts[k].inner[2]', 'ENDPROCEDURE',
              'FUNCTION getx(k : INTEGER) RETURNS INTEGER', '  RETURN pts[k].x', 'ENDFUNCTION']
        has_proc = True
    else:
        has_proc = False
    fill = ['FOR i <- %d TO %d' % (lo, hi), '  pts[i].x <- i * 10', '  pts[i].tag <- "p" & NUM_TO_STR(i)',
            '  FOR j <- 1 TO 2', '    pts[i].inner[j] <- i * 100 + j', '  NEXT j', '  tg[i] <- i + 500', '  ps[i] <- ^tg[i]', '  pp[i] <- ^pts[i]', 'NEXT i']
    if rng.random() < 0.3:
        fill = ['i <- %d' % lo, 'WHILE i <= %d' % hi, '  pts[i].x <- i * 10', '  pts[i].tag <- "p" & NUM_TO_STR(i)', '  pts[i].inner[1] <- i * 100 + 1', '  pts[i].inner[2] <- i * 100 + 2',
                '  tg[i] <- i + 500', '  ps[i] <- ^tg[i]', '  pp[i] <- ^pts[i]', '  i <- i + 1', 'ENDWHILE']
    L += fill
    def dump(tag):
        a, b, st = (lo, hi, '') if rng.random() < 0.5 else (hi, lo, ' STEP -1')
        fields = rng.sample(['pts[i].x', 'pts[i].tag', 'pts[i].inner[1]', 'pts[i].inner[2]', 'ps[i]^', 'tg[i]', 'pp[i]^.x', 'pp[i]^.inner[1]'], rng.randint(2, 6))
        out = ['FOR i <- %d TO %d%s' % (a, b, st), '  OUTPUT "%s ", i, " ", %s' % (tag, ', " ", '.join(fields))]
        if has_proc and rng.random() < 0.6:
            out += ['  CALL show(i)', '  OUTPUT getx(i)']
        return out + ['NEXT i']
    L += dump('d1')
    for _ in range(rng.randint(1, 4)):
        a = rng.randint(lo, hi); b = rng.randint(lo, hi)
        k = rng.randint(0, 7)
        if k == 0: L += ['pts[%d] <- pts[%d]' % (a, b), 'pts[%d].x <- 777' % b, 'pts[%d].inner[1] <- 778' % b]
        elif k == 1: L += ['one <- pts[%d]' % a, 'one.x <- 901', 'one.inner[2] <- 902', 'pts[%d] <- one' % b, 'one.tag <- "changed"']
        elif k == 2: L += ['i <- %d' % a, 'ps[i]^ <- ps[i]^ + 1', 'i <- %d' % b, 'ps[i]^ <- ps[i]^ + 1']
        elif k == 3: L += ['FOR i <- %d TO %d' % (lo, hi), '  pp[i]^.x <- pp[i]^.x + 1', 'NEXT i']
        elif k == 4: L += ['FOR i <- %d TO %d' % (lo, hi), '  pts[i].inner[1] <- pts[i].inner[2]', '  pts[i].inner[2] <- i', 'NEXT i']
        elif k == 5: L += ['ps[%d] <- ps[%d]' % (a, b), 'tg[%d] <- 4242' % b]
        elif k == 6: L += ['FOR i <- %d TO %d' % (lo, hi), '  IF i = %d THEN' % a, '    pts[i].tag <- "hit"', '  ENDIF', 'NEXT i']
        else: L += ['FOR i <- %d TO %d' % (hi, lo), '  pts[i].x <- 0', 'NEXT i', 'i <- %d' % a, 'pts[i].x <- pts[i].x + 5', 'i <- %d' % b, 'pts[i].x <- pts[i].x + 7']
        L += dump('d%d' % (k + 2))
    # the same node, then an index outside the bounds
    L += ['FOR i <- %d TO %d' % (lo, hi + 1), '  OUTPUT "last ", pts[i].x', 'NEXT i', 'OUTPUT "not reached"']
    return join(L)
