#!/usr/bin/env python3
"""seeded.py import <name> <worktree> <property>   : copy patch + demo from an agent's worktree into seeded/<name>/
   seeded.py verify <name>                        : confirm in a scratch worktree: compiles, 13 tests pass, demo fails with / passes without
   seeded.py run <name> [check ids...]            : apply to /repo, run the quick checks, undo; record which checks fire"""
import json, os, shutil, subprocess, sys, time
V = os.path.dirname(os.path.dirname(os.path.abspath(__file__)))
S = os.path.join(V, 'seeded')

def sh(cmd, **kw):
    return subprocess.run(cmd, shell=True, capture_output=True, text=True, **kw)

def imp(name, wt, prop):
    d = os.path.join(S, name); os.makedirs(d, exist_ok=True)
    p = sh('git -C %s diff -- src' % wt).stdout
    open(os.path.join(d, 'patch.diff'), 'w').write(p)
    if os.path.isdir(os.path.join(wt, 'demo')):
        shutil.rmtree(os.path.join(d, 'demo'), ignore_errors=True)
        shutil.copytree(os.path.join(wt, 'demo'), os.path.join(d, 'demo'))
    meta = dict(property=prop, name=name, files=sh('git -C %s diff --stat -- src' % wt).stdout.strip().split('\n'))
    notes = os.path.join(wt, 'demo', 'NOTES.md')
    if os.path.exists(notes):
        meta['needs_to_manifest'] = open(notes).read()[:1500]
    json.dump(meta, open(os.path.join(d, 'meta.json'), 'w'), indent=1)
    print('imported', name, len(p.split('\n')), 'patch lines')

def imp2(name, wt, k, prop):
    """import mutant k of a two-mutant worktree: wt/mut<k>.diff and wt/demo<k>/"""
    d = os.path.join(S, name); os.makedirs(d, exist_ok=True)
    p = open(os.path.join(wt, 'mut%s.diff' % k)).read()
    open(os.path.join(d, 'patch.diff'), 'w').write(p)
    dem = os.path.join(wt, 'demo%s' % k)
    if os.path.isdir(dem):
        shutil.rmtree(os.path.join(d, 'demo'), ignore_errors=True)
        shutil.copytree(dem, os.path.join(d, 'demo'))
    files = [l[6:] for l in p.split('\n') if l.startswith('+++ b/')]
    meta = dict(property=prop, name=name, files=files + ['%d files changed' % len(files)])
    notes = os.path.join(dem, 'NOTES.md')
    if os.path.exists(notes):
        meta['needs_to_manifest'] = open(notes).read()[:1500]
    json.dump(meta, open(os.path.join(d, 'meta.json'), 'w'), indent=1)
    print('imported', name, len(p.split('\n')), 'patch lines')

def verify(name):
    d = os.path.join(S, name)
    meta = json.load(open(os.path.join(d, 'meta.json')))
    wt = '/tmp/seedchk_' + name
    sh('git -C /repo worktree remove --force %s' % wt); shutil.rmtree(wt, ignore_errors=True)
    r = sh('git -C /repo worktree add -q --detach %s HEAD' % wt)
    res = {}
    try:
        b0 = sh('cmake -S %s -B %s/_orig -G Ninja -DCMAKE_BUILD_TYPE=Release >/dev/null && cmake --build %s/_orig' % (wt, wt, wt))
        res['orig_builds'] = b0.returncode == 0
        a = sh('git -C %s apply %s' % (wt, os.path.join(d, 'patch.diff')))
        res['applies'] = a.returncode == 0
        b1 = sh('cmake -S %s -B %s/_b -G Ninja -DCMAKE_BUILD_TYPE=Release >/dev/null && cmake --build %s/_b' % (wt, wt, wt))
        res['compiles'] = b1.returncode == 0
        t = sh('cd %s/_b && ctest -j8 2>&1 | tail -3' % wt)
        res['tests_pass'] = '100% tests passed' in t.stdout
        demo = os.path.join(d, 'demo', 'run_demo.sh')
        if os.path.exists(demo):
            os.chmod(demo, 0o755)
            dm = sh('cd %s && sh run_demo.sh %s/_b/PseudoEngine2' % (os.path.join(d, 'demo'), wt), timeout=120)
            do = sh('cd %s && sh run_demo.sh %s/_orig/PseudoEngine2' % (os.path.join(d, 'demo'), wt), timeout=120)
            res['demo_fails_with_change'] = dm.returncode != 0
            res['demo_passes_without'] = do.returncode == 0
            res['demo_output_with_change'] = (dm.stdout + dm.stderr)[-600:]
    finally:
        sh('git -C /repo worktree remove --force %s' % wt); shutil.rmtree(wt, ignore_errors=True)
    meta['verified'] = res
    meta['verified_cmds'] = 'fresh worktree of /repo HEAD; cmake+ninja build before and after `git apply patch.diff`; ctest -j8; demo/run_demo.sh on both binaries'
    json.dump(meta, open(os.path.join(d, 'meta.json'), 'w'), indent=1)
    print(name, {k: v for k, v in res.items() if k != 'demo_output_with_change'})

def run(name, ids):
    """runs the quick checks against a scratch worktree of /repo with the change applied (PE2_REPO), writing
    evidence and replays to a scratch directory, so that neither /repo nor /verif's own evidence is touched"""
    d = os.path.join(S, name)
    meta = json.load(open(os.path.join(d, 'meta.json')))
    ids = ids or [meta['property']]
    wt = '/tmp/seedrun_' + name; outd = '/tmp/seedout_' + name
    sh('git -C /repo worktree remove --force %s' % wt); shutil.rmtree(wt, ignore_errors=True); shutil.rmtree(outd, ignore_errors=True)
    r = sh('git -C /repo worktree add -q --detach %s HEAD' % wt); assert r.returncode == 0, r.stderr
    out = {}
    try:
        a = sh('git -C %s apply %s' % (wt, os.path.join(d, 'patch.diff')))
        assert a.returncode == 0, a.stderr
        os.makedirs(outd)
        for pid in ids:
            t0 = time.time()
            r = sh('cd %s && PE2_REPO=%s PE2_OUT=%s python3 harness/check.py %s --tier quick' % (V, wt, outd, pid), timeout=3000)
            lines = [l for l in r.stdout.split('\n') if l.startswith('VIOLATION')]
            out[pid] = dict(exit=r.returncode, violations=lines[:3], wall_s=round(time.time() - t0, 1))
            print(name, pid, 'exit', r.returncode, lines[:2])
            if lines:
                rp = lines[0].split('replay=')[1].split(' ')[0]
                try:
                    out[pid]['why'] = json.load(open(os.path.join(outd, rp, 'report.json'))).get('why', '')[:400]
                except Exception:
                    pass
    finally:
        sh('git -C /repo worktree remove --force %s' % wt); shutil.rmtree(wt, ignore_errors=True); shutil.rmtree(outd, ignore_errors=True)
    meta.setdefault('detected_by', {}).update(out)
    json.dump(meta, open(os.path.join(d, 'meta.json'), 'w'), indent=1)

if __name__ == '__main__':
    if sys.argv[1] == 'import': imp(sys.argv[2], sys.argv[3], sys.argv[4])
    elif sys.argv[1] == 'import2': imp2(sys.argv[2], sys.argv[3], sys.argv[4], sys.argv[5])
    elif sys.argv[1] == 'verify': verify(sys.argv[2])
    elif sys.argv[1] == 'run': run(sys.argv[2], sys.argv[3:])
