"""pe2.py — core of the correspondence harness: builds the implementation from /repo's working
tree (hooks on, no readline), builds the Coq model and its extracted OCaml driver, runs cases on
both and compares canonical observations."""
import hashlib, json, os, re, shutil, subprocess, sys, tempfile, time, signal
from concurrent.futures import ThreadPoolExecutor

VERIF = os.path.dirname(os.path.dirname(os.path.abspath(__file__)))
REPO = os.environ.get('PE2_REPO', '/repo')
CACHE = os.path.join(VERIF, '.cache')
COQ = os.path.join(VERIF, 'coq')
OCAML = os.path.join(VERIF, 'ocaml')
GUARD = 'PSEUDOENGINE2_VERIF'
NCPU = int(os.environ.get('PE2_JOBS', str(os.cpu_count() or 4)))

DEFAULT_LIMITS = dict(steps=3000, depth=100, cells=5000, strlen=20000)

FLAGS = {
    'normal': ['-std=c++20', '-O1', '-g0', '-D' + GUARD],
    'asan': ['-std=c++20', '-O1', '-g', '-fno-omit-frame-pointer', '-fsanitize=address,undefined',
             '-fno-sanitize=signed-integer-overflow', '-fno-sanitize-recover=undefined', '-D' + GUARD],
}

def log(*a):
    print(*a, file=sys.stderr, flush=True)

# ----------------------------------------------------------------------------- implementation build
def repo_sources():
    out = []
    for root, dirs, files in os.walk(os.path.join(REPO, 'src')):
        dirs.sort()
        for f in sorted(files):
            if f.endswith(('.cpp', '.h')):
                out.append(os.path.join(root, f))
    return out

def tree_hash(kind):
    h = hashlib.sha256()
    h.update(' '.join(FLAGS[kind]).encode())
    for p in repo_sources() + [os.path.join(REPO, 'PsConfig.h.in'), os.path.join(REPO, 'CMakeLists.txt')]:
        h.update(p.encode()); h.update(b'\0')
        with open(p, 'rb') as fh:
            h.update(fh.read())
        h.update(b'\0')
    return h.hexdigest()[:24]

def project_version():
    txt = open(os.path.join(REPO, 'CMakeLists.txt')).read()
    m = re.search(r'project\(\s*PseudoEngine2\s+VERSION\s+(\d+)\.(\d+)\.(\d+)', txt)
    return m.groups() if m else ('0', '0', '0')

def prune_cache(keep):
    d = os.path.join(CACHE, 'impl')
    if not os.path.isdir(d):
        return
    ents = sorted((os.path.getmtime(os.path.join(d, e)), e) for e in os.listdir(d))
    for _, e in ents[:-keep] if len(ents) > keep else []:
        shutil.rmtree(os.path.join(d, e), ignore_errors=True)

def build_impl(kind='normal'):
    """returns path of the interpreter binary built from the current working tree"""
    hh = tree_hash(kind)
    out = os.path.join(CACHE, 'impl', hh + '-' + kind)
    exe = os.path.join(out, 'pe')
    if os.path.exists(exe):
        os.utime(out, None)
        return exe
    prune_cache(120)
    tmp = out + '.tmp%d' % os.getpid()
    shutil.rmtree(tmp, ignore_errors=True)
    os.makedirs(tmp)
    maj, mi, pa = project_version()
    cfg = open(os.path.join(REPO, 'PsConfig.h.in')).read()
    cfg = cfg.replace('@PseudoEngine2_VERSION_MAJOR@', maj).replace('@PseudoEngine2_VERSION_MINOR@', mi).replace('@PseudoEngine2_VERSION_PATCH@', pa)
    open(os.path.join(tmp, 'PsConfig.h'), 'w').write(cfg)
    cpps = [p for p in repo_sources() if p.endswith('.cpp')]
    t0 = time.time()
    def cc(p):
        o = os.path.join(tmp, hashlib.md5(p.encode()).hexdigest()[:12] + '.o')
        r = subprocess.run(['g++'] + FLAGS[kind] + ['-I' + os.path.join(REPO, 'src'), '-I' + tmp, '-c', p, '-o', o],
                           capture_output=True, text=True)
        return (p, o, r.returncode, r.stderr)
    with ThreadPoolExecutor(NCPU) as ex:
        res = list(ex.map(cc, cpps))
    bad = [r for r in res if r[2] != 0]
    if bad:
        shutil.rmtree(tmp, ignore_errors=True)
        raise RuntimeError('implementation does not compile: %s\n%s' % (bad[0][0], bad[0][3][:2000]))
    link = ['g++'] + (['-fsanitize=address,undefined'] if kind == 'asan' else []) + [r[1] for r in res] + ['-o', os.path.join(tmp, 'pe')]
    r = subprocess.run(link, capture_output=True, text=True)
    if r.returncode != 0:
        shutil.rmtree(tmp, ignore_errors=True)
        raise RuntimeError('implementation does not link:\n' + r.stderr[:2000])
    for r_ in res:
        os.unlink(r_[1])
    shutil.rmtree(out, ignore_errors=True)
    os.rename(tmp, out)
    log('[build] %s implementation built in %.1fs -> %s' % (kind, time.time() - t0, out))
    return exe

# ----------------------------------------------------------------------------- model build
def coq_files():
    return sorted(f for f in os.listdir(COQ) if f.endswith('.v'))

def build_coq(targets=None, timeout=1500):
    """full .vo build through coq_makefile; returns (ok, log)"""
    if not os.path.exists(os.path.join(COQ, 'Makefile')) or \
       os.path.getmtime(os.path.join(COQ, 'Makefile')) < os.path.getmtime(os.path.join(COQ, '_CoqProject')) or \
       set(coq_files()) != set(open(os.path.join(COQ, '.filelist')).read().split() if os.path.exists(os.path.join(COQ, '.filelist')) else []):
        subprocess.run(['coq_makefile', '-f', '_CoqProject'] + coq_files() + ['-o', 'Makefile'], cwd=COQ, check=True,
                       capture_output=True)
        open(os.path.join(COQ, '.filelist'), 'w').write('\n'.join(coq_files()))
    cmd = ['make', '-j%d' % NCPU, '-k'] + (targets or [])
    try:
        r = subprocess.run(cmd, cwd=COQ, capture_output=True, text=True, timeout=timeout)
    except subprocess.TimeoutExpired as e:
        return False, 'make timed out after %ds' % timeout
    return r.returncode == 0, r.stdout + r.stderr

def build_model():
    ok, lg = build_coq(['Extract.vo'])
    if not ok:
        raise RuntimeError('the model does not compile:\n' + lg[-3000:])
    exe = os.path.join(OCAML, 'pe2model')
    src = [os.path.join(COQ, 'pe2model.ml'), os.path.join(OCAML, 'driver.ml')]
    if not os.path.exists(exe) or any(os.path.getmtime(s) > os.path.getmtime(exe) for s in src):
        subprocess.run(['sh', os.path.join(OCAML, 'build.sh')], check=True, capture_output=True)
    return exe

# ----------------------------------------------------------------------------- cases
class Case:
    def __init__(self, program=b'', mode='file', pedantic='', stdin=b'', files=None, limits=None, name='', meta=None):
        self.program = program if isinstance(program, bytes) else program.encode('latin-1')
        self.mode = mode              # 'file' | 'repl'
        self.pedantic = pedantic      # '' | '-p' | '--pedantic'
        self.stdin = stdin if isinstance(stdin, bytes) else stdin.encode('latin-1')
        self.files = dict(files or {})   # name -> bytes
        self.limits = dict(DEFAULT_LIMITS)
        if mode == 'repl':
            self.limits['steps'] = 30000
        self.limits.update(limits or {})
        self.name = name
        self.meta = meta or {}
    def key(self):
        h = hashlib.sha1()
        h.update(self.mode.encode() + b'|' + self.pedantic.encode() + b'|' + self.program + b'|' + self.stdin)
        for k in sorted(self.files):
            h.update(k.encode('latin-1') + b'=' + self.files[k])
        return h.hexdigest()[:16]
    def to_json(self):
        return dict(mode=self.mode, pedantic=self.pedantic, program=self.program.decode('latin-1'),
                    stdin=self.stdin.decode('latin-1'), files={k: v.decode('latin-1') for k, v in self.files.items()},
                    limits=self.limits, name=self.name, meta=self.meta)
    @staticmethod
    def from_json(d):
        return Case(d['program'].encode('latin-1'), d.get('mode', 'file'), d.get('pedantic', ''),
                    d.get('stdin', '').encode('latin-1'), {k: v.encode('latin-1') for k, v in d.get('files', {}).items()},
                    d.get('limits'), d.get('name', ''), d.get('meta'))

class Obs:
    """canonical observation"""
    def __init__(self):
        self.stdout = b''
        self.diags = []       # list of dict(kind, line, col, trace=[(name,line,col)])
        self.exit = None      # int; negative = killed by signal
        self.files = {}
        self.budget = False
        self.sanitizer = None # text of a sanitizer report
        self.raw_stderr = b''
        self.status = 'done'  # model: done | crash ... | fuel | unsupported ...
        self.timeout = False
        self.misc = []
    def summary(self):
        return dict(stdout=self.stdout.decode('latin-1'), diags=self.diags, exit=self.exit,
                    files={k: v.decode('latin-1') for k, v in self.files.items()}, budget=self.budget,
                    sanitizer=self.sanitizer, status=self.status, timeout=self.timeout,
                    stderr=self.raw_stderr.decode('latin-1')[-4000:])

DIAG_HEAD = re.compile(rb'^(Syntax Error|Error\(pedantic\)|Error) on line (-?\d+), column (-?\d+) of ')
RT_HEAD = re.compile(rb'^Runtime Error in file ')
TRACE_LINE = re.compile(rb'^(.*), line (-?\d+), column (-?\d+)$')

def parse_stderr(err):
    diags = []; misc = []
    lines = err.split(b'\n')
    i = 0
    while i < len(lines):
        ln = lines[i]
        m = DIAG_HEAD.match(ln)
        if m:
            kind = {b'Syntax Error': 'syntax', b'Error(pedantic)': 'pedantic', b'Error': 'error'}[m.group(1)]
            diags.append(dict(kind=kind, line=int(m.group(2)), col=int(m.group(3)), trace=[]))
            i += 1
            continue
        if RT_HEAD.match(ln):
            # find the traceback
            j = i + 1
            while j < len(lines) and lines[j] != b'Traceback:':
                j += 1
            tr = []
            k = j + 1
            while k < len(lines):
                t = TRACE_LINE.match(lines[k])
                if not t:
                    break
                tr.append((t.group(1).decode('latin-1'), int(t.group(2)), int(t.group(3))))
                k += 1
            budget = b'Execution budget exceeded' in b'\n'.join(lines[i:j])
            d = dict(kind='runtime', line=tr[0][1] if tr else None, col=tr[0][2] if tr else None, trace=tr)
            if budget:
                d['budget'] = True
            diags.append(d)
            i = k
            continue
        if ln.strip():
            misc.append(ln)
        i += 1
    return diags, misc

SAN_PAT = re.compile(rb'(ERROR: AddressSanitizer|ERROR: LeakSanitizer|runtime error:|AddressSanitizer:DEADLYSIGNAL|UndefinedBehaviorSanitizer)')

def run_impl(case, exe, timeout=20, keep_dir=None):
    d = tempfile.mkdtemp(prefix='pe2case_', dir=os.environ.get('PE2_TMP', None))
    try:
        for k, v in case.files.items():
            with open(os.path.join(d, k), 'wb') as fh:
                fh.write(v)
        args = [exe]
        if case.pedantic:
            args.append(case.pedantic)
        if case.mode == 'file':
            with open(os.path.join(d, 'prog.pseudo'), 'wb') as fh:
                fh.write(case.program)
            args.append('prog.pseudo')
            stdin = case.stdin
        else:
            stdin = case.stdin
        env = dict(os.environ)
        env.update(PE2_VERIF_MAX_STEPS=str(case.limits['steps']), PE2_VERIF_MAX_DEPTH=str(case.limits['depth']),
                   PE2_VERIF_MAX_CELLS=str(case.limits['cells']), PE2_VERIF_MAX_STRLEN=str(case.limits['strlen']),
                   PE2_VERIF_SRAND='1', ASAN_OPTIONS='detect_leaks=0:abort_on_error=0:exitcode=99', UBSAN_OPTIONS='print_stacktrace=1')
        env.update(case.meta.get('env', {}))
        o = Obs()
        try:
            r = subprocess.run(args, cwd=d, input=stdin, capture_output=True, timeout=timeout, env=env,
                               preexec_fn=lambda: __import__('resource').setrlimit(__import__('resource').RLIMIT_STACK, (256 << 20, 256 << 20)))
            o.stdout, o.raw_stderr, o.exit = r.stdout, r.stderr, r.returncode
        except subprocess.TimeoutExpired as e:
            o.timeout = True
            o.stdout = e.stdout or b''; o.raw_stderr = e.stderr or b''; o.exit = None
        o.diags, o.misc = parse_stderr(o.raw_stderr)
        o.budget = any(dg.get('budget') for dg in o.diags)
        m = SAN_PAT.search(o.raw_stderr)
        if m:
            o.sanitizer = o.raw_stderr[m.start():m.start() + 1500].decode('latin-1')
        for f in sorted(os.listdir(d)):
            p = os.path.join(d, f)
            if f == 'prog.pseudo' and case.mode == 'file':
                continue
            if os.path.isfile(p):
                with open(p, 'rb') as fh:
                    o.files[f] = fh.read()
        return o
    finally:
        if keep_dir:
            shutil.rmtree(keep_dir, ignore_errors=True); shutil.move(d, keep_dir)
        else:
            shutil.rmtree(d, ignore_errors=True)

def hx(b):
    return b.hex()

def glibc_rand(seed, n):
    """the rand() sequence of glibc after srand(seed) (TYPE_3 additive feedback generator)"""
    r = [0] * (344 + n)
    r[0] = seed & 0xffffffff
    for i in range(1, 31):
        prev = r[i-1] if r[i-1] < 2**31 else r[i-1] - 2**32
        r[i] = (16807 * prev) % 2147483647
    for i in range(31, 34):
        r[i] = r[i-31]
    for i in range(34, 344 + n):
        r[i] = (r[i-31] + r[i-3]) & 0xffffffff
    return [r[i] >> 1 for i in range(344, 344 + n)]

RAND_LINE = 'rand ' + ' '.join(str(x) for x in glibc_rand(1, 600))

def model_input(cases, fuel=8000):
    out = []
    for i, c in enumerate(cases):
        out.append('case %d' % i)
        out.append('mode %s' % c.mode)
        out.append('pedantic %d' % (1 if c.pedantic else 0))
        l = c.limits
        out.append('limits %d %d %d %d' % (l['steps'], l['depth'], l['cells'], l['strlen']))
        out.append('fuel %d' % fuel)
        out.append('program ' + hx(c.program))
        out.append('stdin ' + hx(c.stdin))
        for k in sorted(c.files):
            out.append('file %s %s' % (hx(k.encode('latin-1')), hx(c.files[k])))
        out.append(RAND_LINE)
        out.append('run')
    return ('\n'.join(out) + '\n').encode()

def parse_model_output(txt, n):
    res = [None] * n
    cur = None; o = None
    for ln in txt.split('\n'):
        if not ln:
            continue
        p = ln.split(' ')
        if p[0] == 'begin':
            cur = int(p[1]); o = Obs(); o.toks = []; o.lexerr = None
        elif p[0] == 'end':
            res[cur] = o; cur = None
        elif o is None:
            continue
        elif p[0] == 'out':
            o.stdout = bytes.fromhex(p[1]) if len(p) > 1 else b''
        elif p[0] == 'diag':
            tr = []
            for t in p[5:]:
                nm, l, c = t.rsplit(':', 2)
                tr.append((bytes.fromhex(nm).decode('latin-1'), int(l), int(c)))
            d = dict(kind=p[1], line=int(p[2]), col=int(p[3]), trace=tr)
            if p[4] == '1':
                d['budget'] = True; o.budget = True
            o.diags.append(d)
        elif p[0] == 'exit':
            o.exit = int(p[1])
        elif p[0] == 'status':
            o.status = ' '.join(p[1:])
        elif p[0] == 'file':
            o.files[bytes.fromhex(p[1]).decode('latin-1')] = bytes.fromhex(p[2]) if len(p) > 2 else b''
        elif p[0] == 'misc':
            o.misc.append(bytes.fromhex(p[1]) if len(p) > 1 else b'')
        elif p[0] == 'tok':
            o.toks.append((p[1], int(p[2]), int(p[3]), bytes.fromhex(p[4]) if len(p) > 4 else b''))
        elif p[0] == 'lexerr':
            o.lexerr = (p[1], int(p[2]), int(p[3]))
    return res

def run_model(cases, exe, fuel=8000, timeout=600, chunk=32):
    """runs all cases through the extracted model, in parallel chunks"""
    def work(idx):
        part = cases[idx:idx + chunk]
        try:
            r = subprocess.run([exe], input=model_input(part, fuel), capture_output=True, timeout=timeout,
                               preexec_fn=lambda: __import__('resource').setrlimit(__import__('resource').RLIMIT_STACK, (1 << 30, 1 << 30)))
            out = parse_model_output(r.stdout.decode('latin-1'), len(part))
        except subprocess.TimeoutExpired:
            out = [None] * len(part)
        for k, o in enumerate(out):
            if o is None:
                o = Obs(); o.status = 'model-died'; out[k] = o
        return out
    with ThreadPoolExecutor(NCPU) as ex:
        parts = list(ex.map(work, range(0, len(cases), chunk)))
    return [o for p in parts for o in p]

def run_impl_many(cases, exe, timeout=20):
    with ThreadPoolExecutor(NCPU) as ex:
        return list(ex.map(lambda c: run_impl(c, exe, timeout), cases))

# ----------------------------------------------------------------------------- comparison
def inconclusive(io, mo):
    if io.timeout or io.budget or mo.budget:
        return 'budget'
    if mo.status.startswith('fuel') or mo.status.startswith('stackoverflow') or mo.status.startswith('outofmemory') or mo.status == 'model-died':
        return 'model-fuel'
    if mo.status.startswith('unsupported'):
        return 'unsupported'
    return None

def norm_diag(d):
    return (d['kind'], d['line'], d['col'], tuple((n, l, c) for (n, l, c) in d['trace']))

def compare(case, io, mo, fields=('stdout', 'exit', 'diags', 'files')):
    """list of differences between implementation and model observation"""
    diffs = []
    if mo.status.startswith('crash'):
        diffs.append(('model-crash', mo.status))
    if 'stdout' in fields and io.stdout != mo.stdout:
        diffs.append(('stdout', io.stdout[:300].decode('latin-1'), mo.stdout[:300].decode('latin-1')))
    if 'exit' in fields and io.exit != mo.exit:
        diffs.append(('exit', io.exit, mo.exit))
    if 'diags' in fields:
        a = [norm_diag(d) for d in io.diags]; b = [norm_diag(d) for d in mo.diags]
        if a != b:
            diffs.append(('diags', a, b))
    elif 'diagkinds' in fields:
        a = [d['kind'] for d in io.diags]; b = [d['kind'] for d in mo.diags]
        if a != b:
            diffs.append(('diagkinds', a, b))
    if 'files' in fields:
        if io.files != mo.files:
            ks = sorted(set(io.files) | set(mo.files))
            bad = [k for k in ks if io.files.get(k) != mo.files.get(k)]
            diffs.append(('files', {k: (io.files.get(k, b'<absent>')[:200].decode('latin-1'), mo.files.get(k, b'<absent>')[:200].decode('latin-1')) for k in bad}))
    return diffs

def crashed(io):
    """the intrinsic C01 oracle: exit status in {0,1}, no signal, no sanitizer report"""
    if io.timeout:
        return None
    if io.sanitizer:
        return 'sanitizer: ' + io.sanitizer.split('\n')[0][:200]
    if io.exit is None:
        return None
    if io.exit < 0:
        return 'signal %d' % (-io.exit)
    if io.exit not in (0, 1):
        return 'exit status %d' % io.exit
    if b'terminate called' in io.raw_stderr:
        return 'uncaught exception'
    return None
