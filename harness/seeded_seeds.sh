#!/bin/sh
# every seeded change against its property's quick check under several seeds; prints the misses
cd "$(dirname "$0")/.."
for n in $(ls seeded); do
  for s in ${SEEDS:-2 3 4}; do
    r=$(VERIF_SEED=$s python3 harness/seeded.py run $n 2>&1 | tail -1)
    case "$r" in *"exit 1"*) ;; *) echo "MISS seed=$s $r";; esac
  done
  echo "done $n"
done
