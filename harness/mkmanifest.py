#!/usr/bin/env python3
"""writes MANIFEST.json from the table below (so that it always validates)"""
import json, os, subprocess
V = os.path.dirname(os.path.dirname(os.path.abspath(__file__)))
P = {}
exec(open(os.path.join(V, 'harness', 'manifest_table.py')).read(), P)
hooks = subprocess.run(['git', '-C', '/repo', 'log', '--format=%H %s'], capture_output=True, text=True).stdout.split('\n')
hook_commits = [l.split(' ')[0] for l in hooks if l.split(' ', 1)[-1].startswith('verif hooks:')]
man = dict(
    version=1,
    setup_cmd='sh setup.sh',
    hooks=dict(guard='PSEUDOENGINE2_VERIF',
               enable='harness/pe2.py compiles every src/**/*.cpp of /repo with g++ -std=c++20 -DPSEUDOENGINE2_VERIF (no -DREADLINE); budgets via PE2_VERIF_MAX_STEPS/DEPTH/CELLS/STRLEN, token dump via PE2_VERIF_DUMP_TOKENS=1, seed via PE2_VERIF_SRAND',
               baseline_off_cmd='rm -rf /tmp/pe2_baseline_off && cmake -S /repo -B /tmp/pe2_baseline_off -G Ninja >/dev/null && cmake --build /tmp/pe2_baseline_off >/dev/null && ctest --test-dir /tmp/pe2_baseline_off -j8 --timeout 900; rc=$?; rm -rf /tmp/pe2_baseline_off; exit $rc',
               source_commits=hook_commits, add_only=True),
    engines=[dict(name='pe2model', path='coq/ (Gallina model + theorems), ocaml/ (extracted driver), harness/ (correspondence)',
                  serves_properties=sorted(P['CHECKS']), kind_free_text='machine-checked proof in Coq 8.16.1 about a hand-written executable model of the interpreter, tied to the C++ by a correspondence check that runs the extracted model and the rebuilt implementation on the same programs')],
    checks=[], notes=P['NOTES'], not_applicable=P['NOT_APPLICABLE'])
for pid in sorted(P['CHECKS']):
    c = P['CHECKS'][pid]
    man['checks'].append(dict(
        property_id=pid,
        quick_cmd='python3 harness/check.py %s --tier quick' % pid,
        thorough_cmd='python3 harness/check.py %s --tier thorough' % pid,
        evidence_file='evidence/%s.json' % pid,
        replay_cmd_template='python3 harness/check.py %s --replay {path}' % pid,
        engine='pe2model',
        level_claimed=dict(category='proof', text=c['text'], design_ref=c['design_ref']),
        level_note=c['note'],
        technique=c['technique']))
json.dump(man, open(os.path.join(V, 'MANIFEST.json'), 'w'), indent=1)
print('MANIFEST.json written with', len(man['checks']), 'checks')
