"""gen2.py — input families added after the fourth round of seeded changes.  Each family is a *class of input*
(not a demonstration): the same syntax-tree node evaluated again with operands of another type or another
shape, names whose resolution changes during an activation, numbers and dates outside the everyday range,
positions beyond 16 bits, run-time rejections with files open, stores between user types of one kind.
Every case is compared with the model on the whole observation; REPL sessions pack many probes that end in
errors into one run."""
import itertools
from pe2 import Case
import gen

J = gen.join

# ------------------------------------------------------------------ one node, operands of changing type
RETYPE_VALUES = [('BOOLEAN', 'TRUE'), ('BOOLEAN', 'FALSE'), ('INTEGER', '0'), ('INTEGER', '3'), ('REAL', '2.5'), ('STRING', '"s"'),
                 ('CHAR', "'c'"), ('DATE', '1/2/2003')]
RETYPE_SITES = {
    'while':   ['  n <- 0', '  WHILE v', '    n <- n + 1', '    IF n > 2 THEN', '      BREAK', '    ENDIF', '  ENDWHILE', '  OUTPUT "while ", n'],
    'repeat':  ['  n <- 0', '  REPEAT', '    n <- n + 1', '    IF n > 2 THEN', '      BREAK', '    ENDIF', '  UNTIL v', '  OUTPUT "repeat ", n'],
    'if':      ['  IF v THEN', '    OUTPUT "then"', '  ELSE', '    OUTPUT "else"', '  ENDIF'],
    'not':     ['  OUTPUT NOT v'],
    'and':     ['  OUTPUT v AND TRUE'],
    'case':    ['  CASE OF v', '    TRUE : OUTPUT "t"', '    3 : OUTPUT "three"', '    2 TO 3 : OUTPUT "range"', '    "s" : OUTPUT "str"', '    OTHERWISE : OUTPUT "other"', '  ENDCASE'],
    'for':     ['  FOR i <- 1 TO v', '    OUTPUT i', '  NEXT i'],
    'forstep': ['  FOR i <- 6 TO 1 STEP v', '    OUTPUT i', '    IF i < -3 THEN', '      BREAK', '    ENDIF', '  NEXT i'],
    'index':   ['  OUTPUT arr[v]'],
    'plus':    ['  OUTPUT v + 1'],
    'minus':   ['  OUTPUT -v'],
    'div':     ['  OUTPUT 7 DIV v'],
    'concat':  ['  OUTPUT v & "x"'],
    'less':    ['  OUTPUT v < 3'],
    'length':  ['  OUTPUT LENGTH(v)'],
    'mid':     ['  OUTPUT MID("abcdef", v, 1)'],
    'store':   ['  k <- v', '  OUTPUT k'],
    'byval':   ['  CALL show(v)'],
    'fn':      ['  OUTPUT twice(v)'],
}
def retyped_sites(rng, sites=None, n_orders=3):
    """a routine whose undeclared local v takes the type of the argument-selected literal; the same statement is then run
    by several calls with v of different types (BOOLEAN first and last, every other type in between)"""
    out = []
    sites = sites or list(RETYPE_SITES)
    for site in sites:
        for _ in range(n_orders):
            vals = rng.sample(RETYPE_VALUES, rng.randint(2, 4))
            if site in ('while', 'repeat', 'if', 'not', 'and') and rng.random() < 0.7:
                vals = [rng.choice(RETYPE_VALUES[:2])] + vals          # a BOOLEAN test first, then another type at the same node
            L = ['DECLARE arr : ARRAY[0:5] OF INTEGER', 'DECLARE k : INTEGER',
                 'PROCEDURE show(BYVAL x : INTEGER)', '  OUTPUT "show ", x', 'ENDPROCEDURE',
                 'FUNCTION twice(BYVAL x : INTEGER) RETURNS INTEGER', '  RETURN x * 2', 'ENDFUNCTION',
                 'PROCEDURE T(BYVAL sel : INTEGER)']
            for i, (_, lit) in enumerate(vals):
                L += ['  IF sel = %d THEN' % i, '    v <- %s' % lit, '  ENDIF']
            L += RETYPE_SITES[site] + ['  OUTPUT "done ", sel', 'ENDPROCEDURE']
            # file mode stops at the first error: one program per prefix of the call sequence; REPL runs them all
            calls = ['CALL T(%d)' % i for i in range(len(vals))]
            out.append(Case(mode='repl', stdin=J(sum(gen.to_entries(L), []) + calls), limits=dict(steps=20000),
                            meta=dict(gen='retyped-' + site, sample=False)))
            for n in range(2, len(calls) + 1):
                out.append(Case(J(L + calls[:n]), limits=dict(steps=20000), meta=dict(gen='retyped-' + site, sample=False)))
    return out

def shadowed_condition(rng):
    """a DECLARE inside a loop body gives the name in the loop's condition another type from the next test on"""
    out = []
    for loop in ('while', 'repeat'):
        for ty, lit in (('INTEGER', '0'), ('INTEGER', '1'), ('REAL', '1.5'), ('STRING', '"x"')):
            L = ['DECLARE go : BOOLEAN', 'go <- %s' % ('TRUE' if loop == 'while' else 'FALSE'),
                 'PROCEDURE P()', '  n <- 0']
            body = ['    n <- n + 1', '    IF n = 2 THEN', '      DECLARE go : %s' % ty, '      go <- %s' % lit, '    ENDIF',
                    '    IF n > 4 THEN', '      BREAK', '    ENDIF', '    OUTPUT "iter ", n']
            L += (['  WHILE go'] + body + ['  ENDWHILE']) if loop == 'while' else (['  REPEAT'] + body + ['  UNTIL go'])
            L += ['  OUTPUT "after ", n', 'ENDPROCEDURE', 'CALL P()', 'OUTPUT go']
            for ped in ('', '-p'):
                out.append(Case(J(L), pedantic=ped, limits=dict(steps=20000), meta=dict(gen='shadowed-condition', sample=False)))
    return out

# ------------------------------------------------------------------ calls: routine kind x mode x parameter type x argument type
CALL_TYPES = [('INTEGER', '7'), ('REAL', '2.5'), ('BOOLEAN', 'TRUE'), ('CHAR', "'c'"), ('STRING', '"s"'), ('STRING', '"long"'), ('STRING', '""'),
              ('DATE', '1/2/2003'), ('E1', 'a2'), ('E2', 'b1'), ('R1', None), ('R2', None), ('P1', None)]
NEWVAL = {'INTEGER': '9', 'REAL': '9.5', 'BOOLEAN': 'FALSE', 'CHAR': "'z'", 'STRING': '"new"', 'DATE': '4/5/2006', 'E1': 'a1', 'E2': 'b2'}
def call_type_matrix(kinds=('PROCEDURE', 'FUNCTION'), modes=('BYREF', 'BYVAL')):
    """every (routine kind, passing mode, parameter type, argument variable type): accepted exactly for equal types, or for
    BYVAL with one of the three conversions; the callee writes the parameter, the caller's variable is printed afterwards"""
    pre = ['TYPE E1 = (a1, a2, a3)', 'TYPE E2 = (b1, b2)', 'TYPE R1', '  DECLARE n : INTEGER', 'ENDTYPE', 'TYPE R2', '  DECLARE n : INTEGER', 'ENDTYPE',
           'TYPE P1 = ^INTEGER']
    out = []
    ptypes = ['INTEGER', 'REAL', 'BOOLEAN', 'CHAR', 'STRING', 'DATE', 'E1', 'R1', 'P1']
    for kind in kinds:
        for mode in modes:
            L = list(pre)
            for i, (aty, lit) in enumerate(CALL_TYPES):
                L.append('DECLARE v%d : %s' % (i, aty))
                if lit is not None:
                    L.append('v%d <- %s' % (i, lit))
            for pty in ptypes:
                body = ['  OUTPUT "in %s %s"' % (kind[0], pty)]
                if pty in NEWVAL:
                    body += ['  OUTPUT x', '  x <- %s' % NEWVAL[pty]]
                if kind == 'PROCEDURE':
                    L += ['PROCEDURE r_%s(%s x : %s)' % (pty, mode, pty)] + body + ['ENDPROCEDURE']
                else:
                    L += ['FUNCTION r_%s(%s x : %s) RETURNS INTEGER' % (pty, mode, pty)] + body + ['  RETURN 1', 'ENDFUNCTION']
            ent = sum(gen.to_entries(L), [])
            for pty in ptypes:
                for i, (aty, lit) in enumerate(CALL_TYPES):
                    ent.append(('CALL r_%s(v%d)' if kind == 'PROCEDURE' else 'OUTPUT r_%s(v%d)') % (pty, i))
                    if aty in NEWVAL:
                        ent.append('OUTPUT v%d' % i)
                        if lit is not None:
                            ent.append('v%d <- %s' % (i, lit))
            out.append(Case(mode='repl', stdin=J(ent), limits=dict(steps=60000), meta=dict(gen='call-matrix-%s-%s' % (kind.lower(), mode.lower()), sample=False)))
    return out

# ------------------------------------------------------------------ declarations executed again with other bounds
def redeclared_bounds(rng):
    out = []
    for _ in range(6):
        sizes = [rng.randint(0, 6) for _ in range(rng.randint(2, 4))]
        lo = rng.choice([0, 1, -2])
        two = rng.random() < 0.4
        dims = '%d:n' % lo + (', 0:m' if two else '')
        idx = 'i' + (', m' if two else '')
        L = ['PROCEDURE Fill(BYVAL n : INTEGER, BYVAL m : INTEGER)', '  DECLARE a : ARRAY[%s] OF INTEGER' % dims,
             '  FOR i <- %d TO n' % lo, '    a[%s] <- i * 10 + n' % idx, '  NEXT i',
             '  FOR i <- %d TO n' % lo, '    OUTPUT a[%s]' % idx, '  NEXT i', '  OUTPUT "probe"', '  OUTPUT a[%s]' % ('n + 1' + (', 0' if two else '')), 'ENDPROCEDURE']
        calls = ['CALL Fill(%d, %d)' % (s, rng.randint(0, 2)) for s in sizes]
        out.append(Case(mode='repl', stdin=J(sum(gen.to_entries(L), []) + calls), limits=dict(steps=30000), meta=dict(gen='redeclared-bounds', sample=False)))
        for n in range(1, len(calls) + 1):
            out.append(Case(J(L + calls[:n]), limits=dict(steps=30000), meta=dict(gen='redeclared-bounds', sample=False)))
    # a function, a record type whose array field takes its bounds from a global, a loop at top level
    out.append(Case(J(['FUNCTION Sum(BYVAL n : INTEGER) RETURNS INTEGER', '  DECLARE a : ARRAY[1:n] OF INTEGER', '  t <- 0', '  FOR i <- 1 TO n', '    a[i] <- i', '    t <- t + a[i]', '  NEXT i', '  RETURN t', 'ENDFUNCTION',
                       'OUTPUT Sum(2)', 'OUTPUT Sum(5)', 'OUTPUT Sum(1)', 'OUTPUT Sum(4)']), meta=dict(gen='redeclared-bounds', sample=False)))
    out.append(Case(J(['DECLARE size : INTEGER', 'size <- 2', 'TYPE Box', '  DECLARE v : ARRAY[1:size] OF INTEGER', 'ENDTYPE', 'DECLARE b1 : Box', 'size <- 4', 'DECLARE b2 : Box',
                       'b2.v[4] <- 44', 'OUTPUT b2.v[4]', 'b1.v[2] <- 12', 'OUTPUT b1.v[2]', 'size <- 1', 'DECLARE b3 : Box', 'b3.v[1] <- 1', 'OUTPUT b3.v[1]', 'OUTPUT b3.v[2]']),
                    meta=dict(gen='redeclared-bounds', sample=False)))
    out.append(Case(J(['PROCEDURE Probe(BYVAL hi : INTEGER, BYVAL at : INTEGER)', '  DECLARE a : ARRAY[1:hi] OF STRING', '  a[at] <- "x"', '  OUTPUT "ok ", hi, " ", at', 'ENDPROCEDURE',
                       'CALL Probe(5, 4)', 'CALL Probe(2, 2)', 'CALL Probe(2, 4)']), meta=dict(gen='redeclared-bounds', sample=False)))
    return out

# ------------------------------------------------------------------ a name changes its meaning during an activation
USE_FORMS = [
    ['OUTPUT x', 'y <- x * 2', 'OUTPUT y'],
    ['x <- x + 1', 'OUTPUT x'],
    ['OUTPUT x', 'OUTPUT x + 1', 'OUTPUT x + 2'],
    ['x <- 5', 'x <- x + 1', 'OUTPUT x'],
    ['y <- x', 'y <- y + x', 'OUTPUT y'],
    ['IF x > 0 THEN', '  OUTPUT "pos ", x', 'ENDIF', 'x <- x - 1'],
]
def scope_change_in_activation(rng, hiders=('CONSTANT', 'DECLARE')):
    """inside one call the statements using a global x run in a loop; on one iteration a local constant or variable of that
    name is created; every later use must mean the local"""
    out = []
    for hider in hiders:
        for uses in USE_FORMS:
            for at in (1, 2):
                for kind in ('PROCEDURE', 'FUNCTION'):
                    if hider == 'CONSTANT':
                        hide = ['    CONSTANT x = 100']
                    else:
                        hide = ['    DECLARE x : INTEGER', '    x <- 100']
                    body = ['  FOR k <- 1 TO 4'] + ['    ' + u for u in uses] + ['    IF k = %d THEN' % at] + ['  ' + h for h in hide] + ['    ENDIF', '  NEXT k']
                    L = ['DECLARE x : INTEGER', 'DECLARE y : INTEGER', 'x <- 1']
                    if kind == 'PROCEDURE':
                        L += ['PROCEDURE P()'] + body + ['ENDPROCEDURE', 'CALL P()', 'OUTPUT "global ", x', 'CALL P()', 'OUTPUT "global ", x']
                    else:
                        L += ['FUNCTION F() RETURNS INTEGER'] + body + ['  RETURN 0', 'ENDFUNCTION', 'OUTPUT F()', 'OUTPUT "global ", x', 'OUTPUT F()', 'OUTPUT "global ", x']
                    out.append(Case(J(L), limits=dict(steps=20000), meta=dict(gen='scope-change-' + hider.lower(), sample=False)))
    return out

# ------------------------------------------------------------------ positions beyond 16 bits
def far_lines(fault_line='OUTPUT 1 +', runtime=False):
    """the same fault below 3, 65535, 65536 and 70000 inserted blank or comment lines (a 16-bit position would wrap).  The model's
    front end is quadratic in the number of lines, so these cases are judged by their own expectation: every line number in
    the diagnostic is the one of the unshifted program plus the number of lines inserted"""
    out = []
    base = ['OUTPUT "start"', 'PROCEDURE P()', '  OUTPUT 1 DIV 0', 'ENDPROCEDURE']
    for n in (3, 65535, 65536, 70000, 131073):
        for filler in ('', '// c'):
            prog = base[:1] + [filler] * n + base[1:] + (['CALL P()'] if runtime else [fault_line])
            expect = [3 + n, 3 + n, 5 + n] if runtime else [5 + n]
            out.append(Case(J(prog), limits=dict(steps=5000), meta=dict(gen='far-lines', inserted=n, expect_diag_lines=expect, no_model=n > 1000, sample=False)))
    return out

def intrinsic(case, io):
    """expectations carried by the cases of this module"""
    want = case.meta.get('expect_diag_lines')
    if want is not None:
        got = []
        for d in io.diags:
            got.append(d['line'])
            got += [t[1] for t in d.get('trace', [])]
        if got != want:
            return 'line numbers in the diagnostic are %r, expected %r (%d lines inserted above)' % (got, want, case.meta.get('inserted', 0))
    return None

# ------------------------------------------------------------------ dates outside the everyday range
FAR_DATES = [(15, 3, -44), (1, 1, -1), (31, 12, -32767), (1, 1, 0), (29, 2, 0), (7, 3, 9), (25, 11, 12000), (10, 10, 10000), (31, 12, 32767), (1, 12, 10000),
             (28, 2, -400), (29, 2, -400), (9, 9, 999)]
def setdate(d, m, y):
    return 'SETDATE(%d, %d, %s)' % (d, m, gen.neg_lit(y) if y >= 0 else '0 - %d' % (-y))

def far_dates_output():
    L = ['DECLARE d : DATE']
    for (d, m, y) in FAR_DATES:
        L += ['d <- %s' % setdate(d, m, y), 'OUTPUT d', 'OUTPUT DAY(d), " ", MONTH(d), " ", YEAR(d)', 'OUTPUT d = %s, " ", d < 1/1/2000, " ", d > 1/1/2000' % setdate(d, m, y),
              'OUTPUT LENGTH("" & d)', 'OUTPUT DAYINDEX(d)']
    return [Case(mode='repl', stdin=J(L), limits=dict(steps=20000), meta=dict(gen='far-dates', sample=False))]

def far_dates_files():
    """WRITEFILE / READFILE and PUTRECORD / GETRECORD (scalar, array element, record field) of dates with negative and five-digit years,
    read back in the session, after reopening and by a second program"""
    out = []
    w = ['DECLARE d : DATE', 'DECLARE s : STRING', 'TYPE R', '  DECLARE when : DATE', '  DECLARE n : INTEGER', 'ENDTYPE', 'DECLARE r : R', 'DECLARE a : ARRAY[1:2] OF DATE',
         'OPENFILE "t.txt" FOR WRITE', 'OPENFILE "r.dat" FOR RANDOM']
    rd = ['DECLARE d : DATE', 'DECLARE s : STRING', 'TYPE R', '  DECLARE when : DATE', '  DECLARE n : INTEGER', 'ENDTYPE', 'DECLARE r : R', 'DECLARE a : ARRAY[1:2] OF DATE',
          'OPENFILE "t.txt" FOR READ', 'OPENFILE "r.dat" FOR RANDOM']
    k = 0
    for (d, m, y) in FAR_DATES:
        w += ['d <- %s' % setdate(d, m, y), 'WRITEFILE "t.txt", d', 'r.when <- d', 'r.n <- %d' % k, 'a[2] <- d']
        rd += ['READFILE "t.txt", s', 'OUTPUT s, " ", LENGTH(s)']
        for what in ('d', 'r', 'a'):
            k += 1
            w += ['SEEK "r.dat", %d' % k, 'PUTRECORD "r.dat", %s' % what]
            rd += ['SEEK "r.dat", %d' % k, 'GETRECORD "r.dat", %s' % what,
                   {'d': 'OUTPUT d', 'r': 'OUTPUT r.when, " ", r.n', 'a': 'OUTPUT a[2]'}[what]]
    w += ['CLOSEFILE "t.txt"', 'CLOSEFILE "r.dat"']
    rd += ['CLOSEFILE "t.txt"', 'CLOSEFILE "r.dat"']
    out.append(Case(mode='repl', stdin=J(w + [l for l in rd if not l.startswith(('DECLARE', 'TYPE', '  DECLARE', 'ENDTYPE'))]), limits=dict(steps=40000),
                    meta=dict(gen='far-dates-files', sample=False)))
    out.append(Case(J(w), limits=dict(steps=40000), meta=dict(gen='far-dates-files', sample=False)))
    return out, (w, rd)

# ------------------------------------------------------------------ random-file addresses far outside 32 bits
def far_seek():
    L = ['DECLARE v : INTEGER', 'OPENFILE "f.dat" FOR RANDOM']
    for k in (1, 2, 3):
        L += ['v <- %d' % (k * 11), 'SEEK "f.dat", %d' % k, 'PUTRECORD "f.dat", v']
    probes = []
    for base in (2 ** 32, 2 ** 31, 2 ** 33, 2 ** 40, 2 ** 63 - 8, 2 ** 16, 2 ** 8):
        for k in (-1, 0, 1, 2, 3, 4, 5):
            probes += [base + k, -(base) + k]
    for a in probes:
        lit = str(a) if a >= 0 else '0 - %d' % (-a)
        L += ['SEEK "f.dat", %s' % lit, 'GETRECORD "f.dat", v', 'OUTPUT v', 'v <- 0 - 1']
    L += ['v <- 99', 'SEEK "f.dat", 4294967297', 'PUTRECORD "f.dat", v', 'SEEK "f.dat", 1', 'GETRECORD "f.dat", v', 'OUTPUT v', 'CLOSEFILE "f.dat"',
          'OPENFILE "f.dat" FOR RANDOM', 'SEEK "f.dat", 4', 'SEEK "f.dat", 5']
    return [Case(mode='repl', stdin=J(L), limits=dict(steps=40000), meta=dict(gen='far-seek', sample=False))]

# ------------------------------------------------------------------ a run that ends in a run-time pedantic rejection with files open
def pedantic_tail_with_files():
    out = []
    for tail in (['und <- 5'], ['INPUT und2'], ['PROCEDURE Q()', '  zz <- 1', 'ENDPROCEDURE', 'CALL Q()']):
        for closed in (False, True):
            L = ['OPENFILE "seq.txt" FOR WRITE', 'WRITEFILE "seq.txt", "one"', 'WRITEFILE "seq.txt", "two"',
                 'OPENFILE "log.txt" FOR APPEND', 'WRITEFILE "log.txt", "appended"',
                 'DECLARE seven : INTEGER', 'seven <- 7', 'DECLARE ex : STRING', 'ex <- "x"',
                 'OPENFILE "rec.dat" FOR RANDOM', 'SEEK "rec.dat", 1', 'PUTRECORD "rec.dat", seven', 'SEEK "rec.dat", 2', 'PUTRECORD "rec.dat", ex']
            if closed:
                L += ['CLOSEFILE "seq.txt"', 'CLOSEFILE "log.txt"', 'CLOSEFILE "rec.dat"']
            defs = [l for l in tail if l.startswith(('PROCEDURE', '  ', 'ENDPROCEDURE'))]
            rest = [l for l in tail if l not in defs]
            prog = defs + L + ['OUTPUT "before"'] + rest + ['OUTPUT "not reached under -p"']
            for ped in ('', '-p', '--pedantic'):
                out.append(Case(J(prog), pedantic=ped, stdin=b'typed\n', files={'log.txt': b'old\n'}, limits=dict(steps=5000),
                                meta=dict(gen='pedantic-tail-files', sample=False)))
    return out

# ------------------------------------------------------------------ whole arrays between user types of one kind
def array_cross_types():
    pre = ['TYPE Colour = (red, green, blue)', 'TYPE Season = (spring, summer, autumn, winter)', 'TYPE IntPtr = ^INTEGER', 'TYPE RealPtr = ^REAL',
           'TYPE Ra', '  DECLARE n : INTEGER', 'ENDTYPE', 'TYPE Rb', '  DECLARE n : INTEGER', 'ENDTYPE',
           'TYPE Plan', '  DECLARE slots : ARRAY[1:2] OF Colour', 'ENDTYPE']
    out = []
    pairs = [('Colour', 'Season', 'green', 'winter'), ('Season', 'Colour', 'summer', 'blue'), ('IntPtr', 'RealPtr', None, None), ('Ra', 'Rb', None, None),
             ('Colour', 'Colour', 'red', 'blue'), ('INTEGER', 'REAL', '1', '2.5'), ('CHAR', 'STRING', "'a'", '"b"')]
    for (ta, tb, va, vb) in pairs:
        L = list(pre) + ['DECLARE a : ARRAY[1:2] OF %s' % ta, 'DECLARE b : ARRAY[1:2] OF %s' % tb, 'DECLARE plan : Plan']
        if va: L += ['a[1] <- %s' % va, 'a[2] <- %s' % va, 'b[1] <- %s' % vb, 'b[2] <- %s' % vb]
        ent = sum(gen.to_entries(L), [])
        ent += ['a <- b']
        if va: ent += ['OUTPUT a[1]', 'OUTPUT a[2]', 'a[1] <- %s' % va, 'OUTPUT a[1]']
        if tb in ('Colour', 'Season'):
            ent += ['plan.slots <- b', 'OUTPUT plan.slots[1]', 'plan.slots[1] <- red', 'OUTPUT plan.slots[1]', 'b <- plan.slots', 'OUTPUT b[1]']
        ent += ['OUTPUT "end"']
        out.append(Case(mode='repl', stdin=J(ent), limits=dict(steps=10000), meta=dict(gen='array-cross-types', sample=False)))
        out.append(Case(J(L + ['a <- b', 'OUTPUT "stored"'] + (['OUTPUT a[1]'] if va else [])), meta=dict(gen='array-cross-types', sample=False)))
    return out

# ------------------------------------------------------------------ undeclared names in nested callees
def nested_undeclared(rng):
    """depth-2 and depth-3 call chains in which a callee assigns or INPUTs a name that is declared neither there nor globally while a caller
    up the chain owns a local, a parameter or a constant of that name"""
    out = []
    for stmt in ('name <- 5', 'INPUT name', 'name <- name2', 'OUTPUT name'):
        for owner in ('local', 'param', 'constant', 'none', 'global'):
            for depth in (2, 3):
                L = []
                if owner == 'global': L += ['DECLARE name : INTEGER', 'name <- 1']
                L += ['DECLARE name2 : INTEGER', 'name2 <- 2']
                L += ['PROCEDURE Inner()', '  OUTPUT "inner"', '  ' + stmt, '  OUTPUT "inner after"', 'ENDPROCEDURE']
                if depth == 3:
                    L += ['PROCEDURE Mid()', '  CALL Inner()', '  OUTPUT "mid after"', 'ENDPROCEDURE']
                callee = 'Mid' if depth == 3 else 'Inner'
                if owner == 'param':
                    L += ['PROCEDURE Outer(BYVAL name : INTEGER)', '  CALL %s()' % callee, '  OUTPUT "outer ", name', 'ENDPROCEDURE', 'CALL Outer(3)']
                elif owner == 'constant':
                    L += ['PROCEDURE Outer()', '  CONSTANT name = 3', '  CALL %s()' % callee, '  OUTPUT "outer ", name', 'ENDPROCEDURE', 'CALL Outer()']
                elif owner == 'local':
                    L += ['PROCEDURE Outer()', '  DECLARE name : INTEGER', '  name <- 3', '  CALL %s()' % callee, '  OUTPUT "outer ", name', 'ENDPROCEDURE', 'CALL Outer()']
                else:
                    L += ['PROCEDURE Outer()', '  CALL %s()' % callee, '  OUTPUT "outer"', 'ENDPROCEDURE', 'CALL Outer()']
                L += ['OUTPUT "end"']
                for ped in ('', '-p'):
                    out.append(Case(J(L), pedantic=ped, stdin=b'42\n', limits=dict(steps=5000), meta=dict(gen='nested-undeclared', sample=False)))
    return out

# ------------------------------------------------------------------ one dereference node, several pointer holders
def deref_node_reuse():
    progs = []
    progs.append(['TYPE IP = ^INTEGER', 'DECLARE a : INTEGER', 'DECLARE b : INTEGER', 'DECLARE c : INTEGER', 'a <- 1', 'b <- 2', 'c <- 3',
                  'DECLARE ptrs : ARRAY[1:4] OF IP', 'ptrs[1] <- ^a', 'ptrs[2] <- ^b', 'ptrs[3] <- ^c',
                  'FOR i <- 1 TO 3', '  OUTPUT ptrs[i]^', '  ptrs[i]^ <- ptrs[i]^ * 10', 'NEXT i', 'OUTPUT a, " ", b, " ", c',
                  'FOR i <- 1 TO 4', '  OUTPUT ptrs[i]^', 'NEXT i'])
    progs.append(['TYPE IP = ^INTEGER', 'TYPE Node', '  DECLARE ptr : IP', '  DECLARE tag : INTEGER', 'ENDTYPE', 'DECLARE a : INTEGER', 'DECLARE b : INTEGER', 'a <- 1', 'b <- 2',
                  'DECLARE recs : ARRAY[1:3] OF Node', 'recs[1].ptr <- ^a', 'recs[2].ptr <- ^b',
                  'FOR i <- 1 TO 2', '  recs[i].ptr^ <- recs[i].ptr^ + 100', '  OUTPUT recs[i].ptr^', 'NEXT i', 'OUTPUT a, " ", b',
                  'FOR i <- 1 TO 3', '  OUTPUT recs[i].ptr^', 'NEXT i'])
    progs.append(['TYPE IP = ^INTEGER', 'TYPE IPP = ^IP', 'DECLARE a : INTEGER', 'DECLARE b : INTEGER', 'a <- 1', 'b <- 2', 'DECLARE p : IP', 'DECLARE q : IP', 'DECLARE pp : IPP',
                  'p <- ^a', 'q <- ^b', 'FOR i <- 1 TO 2', '  IF i = 1 THEN', '    pp <- ^p', '  ELSE', '    pp <- ^q', '  ENDIF', '  OUTPUT pp^^', '  pp^^ <- pp^^ + 50', 'NEXT i', 'OUTPUT a, " ", b'])
    progs.append(['TYPE IP = ^INTEGER', 'DECLARE a : INTEGER', 'DECLARE b : INTEGER', 'a <- 1', 'b <- 2',
                  'PROCEDURE Show(BYREF h : IP)', '  OUTPUT h^', '  h^ <- h^ + 1', 'ENDPROCEDURE',
                  'DECLARE p : IP', 'DECLARE q : IP', 'DECLARE never : IP', 'p <- ^a', 'q <- ^b', 'CALL Show(p)', 'CALL Show(q)', 'CALL Show(p)', 'OUTPUT a, " ", b', 'CALL Show(never)'])
    # one `p^.field` expression, the pointer re-pointed between its evaluations: fields of every type, nested fields, array fields
    ev = ['TYPE Inner', '  DECLARE k : INTEGER', 'ENDTYPE', 'TYPE Ev', '  DECLARE when : DATE', '  DECLARE n : INTEGER', '  DECLARE label : STRING', '  DECLARE tags : ARRAY[1:2] OF INTEGER', '  DECLARE inner : Inner', 'ENDTYPE',
          'TYPE EvPtr = ^Ev', 'DECLARE e1, e2, e3 : Ev', 'DECLARE p : EvPtr',
          'e1.when <- 1/2/2003', 'e2.when <- 15/6/2010', 'e3.when <- 31/12/1999', 'e1.n <- 1', 'e2.n <- 2', 'e3.n <- 3', 'e1.label <- "one"', 'e2.label <- "two"', 'e3.label <- "three"',
          'e1.tags[2] <- 12', 'e2.tags[2] <- 22', 'e3.tags[2] <- 32', 'e1.inner.k <- 101', 'e2.inner.k <- 102', 'e3.inner.k <- 103']
    loop = ['FOR i <- 1 TO 3', '  IF i = 1 THEN', '    p <- ^e1', '  ENDIF', '  IF i = 2 THEN', '    p <- ^e2', '  ENDIF', '  IF i = 3 THEN', '    p <- ^e3', '  ENDIF',
            '  OUTPUT p^.when, " ", DAY(p^.when), " ", MONTH(p^.when), " ", YEAR(p^.when), " ", DAYINDEX(p^.when), " ", p^.when < 1/1/2005, " ", p^.when = 15/6/2010',
            '  OUTPUT p^.n, " ", p^.label, " ", p^.tags[2], " ", p^.inner.k', '  p^.n <- p^.n + 100', '  p^.when <- SETDATE(i, 1, 2010)', '  p^.tags[1] <- i', '  p^.inner.k <- p^.inner.k * 2', 'NEXT i',
            'OUTPUT e1.n, " ", e2.n, " ", e3.n, " ", e1.when, " ", e2.when, " ", e3.when, " ", e1.tags[1], " ", e2.tags[1], " ", e3.tags[1], " ", e1.inner.k, " ", e2.inner.k, " ", e3.inner.k']
    progs.append(ev + loop)
    progs.append(ev + ['PROCEDURE Visit()'] + ['  ' + l for l in loop] + ['ENDPROCEDURE', 'CALL Visit()', 'CALL Visit()'])
    progs.append(ev + ['DECLARE evs : ARRAY[1:3] OF Ev', 'evs[1] <- e1', 'evs[2] <- e2', 'evs[3] <- e3', 'FOR i <- 1 TO 3', '  p <- ^evs[i]', '  OUTPUT p^.when, " ", p^.n, " ", evs[i].label', '  p^.n <- 0 - i', 'NEXT i',
                       'OUTPUT evs[1].n, " ", evs[2].n, " ", evs[3].n, " ", e1.n'])
    return [Case(J(p), limits=dict(steps=10000), meta=dict(gen='deref-node-reuse', sample=False)) for p in progs]

# ------------------------------------------------------------------ '&' on every pair of operand kinds, empty strings included
CONCAT_OPERANDS = ['5', '0', '2.0', '2.5', 'TRUE', 'FALSE', "'c'", '""', '"s"', '"12"', '1/2/2003', 'iv', 'rv', 'bv', 'cv', 'sv', 'ev']
def concat_matrix():
    pre = ['DECLARE iv : INTEGER', 'DECLARE rv : REAL', 'DECLARE bv : BOOLEAN', 'DECLARE cv : CHAR', 'DECLARE sv : STRING', 'DECLARE ev : STRING', 'DECLARE t : STRING',
           'iv <- 7', 'rv <- 2.0', 'bv <- TRUE', "cv <- 'k'", 'sv <- "str"', 'ev <- ""']
    ent = list(pre)
    for a, b in itertools.product(CONCAT_OPERANDS, CONCAT_OPERANDS):
        e = '%s & %s' % (a, b)
        ent += [e, 'LENGTH(%s)' % e, '(%s) = "5"' % e, 't <- %s' % e, 't', '(%s) + 1' % e, '(%s) & "|"' % e]
    return [Case(mode='repl', stdin=J(ent[i:i + 700] if i == 0 else pre + ent[i:i + 700]), limits=dict(steps=60000), meta=dict(gen='concat-matrix', sample=False))
            for i in range(0, len(ent), 700)]

# ------------------------------------------------------------------ comments with empty or odd text in front of faults
EMPTY_COMMENT_NOISE = ['//', '// ', '//x', '///', '// //', '  //', 'OUTPUT "n" //', 'OUTPUT "n" // ', 'OUTPUT "n"//', '//\t']

def empty_comment_faults():
    """lexical, syntax and run-time faults right below comments with empty or odd text (the comment must end at its own line break)"""
    out = []
    faults = [['OUTPUT 1 +'], ['OUTPUT "unterminated'], ['OUTPUT 1 DIV 0'], ['x <- '], ['ENDIF'], ['OUTPUT 2 ?']]
    for noise in EMPTY_COMMENT_NOISE:
        for fault in faults:
            for k in (1, 2):
                prog = ['OUTPUT "a"'] + [noise] * k + fault + ['OUTPUT "after"']
                out.append(Case(J(prog), meta=dict(gen='empty-comment-fault', sample=False)))
        out.append(Case(J(['PROCEDURE Outer()', noise, '  OUTPUT 1 DIV 0', 'ENDPROCEDURE', noise, 'CALL Outer()']), meta=dict(gen='empty-comment-fault', sample=False)))
    return out

def alias_then_replace():
    """an alias to storage (BYREF parameter, FOR iterator, pointer) is live while the object holding the storage is replaced as a whole"""
    pre = ['TYPE Rec', '  DECLARE n : INTEGER', '  DECLARE m : INTEGER', '  DECLARE v : ARRAY[1:2] OF INTEGER', 'ENDTYPE', 'TYPE IP = ^INTEGER',
           'DECLARE r : Rec', 'DECLARE s : Rec', 'DECLARE ra : ARRAY[1:2] OF Rec', 'DECLARE rb : ARRAY[1:2] OF Rec', 's.n <- 5', 's.m <- 6', 's.v[1] <- 7', 'rb[1].n <- 8']
    out = []
    replaces = ['r <- s', 'ra <- rb', 'ra[1] <- s', 'r.v <- s.v']
    targets = ['r.n', 'r.m', 'r.v[1]', 'ra[1].n', 'ra[2].m']
    for rep in replaces:
        for tgt in targets:
            L = pre + ['PROCEDURE Loop(BYREF i : INTEGER)', '  FOR i <- 1 TO 3', '    ' + rep, '    OUTPUT i', '  NEXT i', '  OUTPUT "after ", i', 'ENDPROCEDURE', 'CALL Loop(%s)' % tgt, 'OUTPUT %s' % tgt]
            out.append(Case(J(L), limits=dict(steps=5000), meta=dict(gen='alias-then-replace', sample=False)))
            L = pre + ['PROCEDURE Use(BYREF i : INTEGER)', '  i <- 1', '  ' + rep, '  i <- i + 1', '  OUTPUT i', 'ENDPROCEDURE', 'CALL Use(%s)' % tgt, 'OUTPUT %s' % tgt]
            out.append(Case(J(L), limits=dict(steps=5000), meta=dict(gen='alias-then-replace', sample=False)))
            L = pre + ['DECLARE p : IP', 'p <- ^%s' % tgt, 'p^ <- 1', rep, 'p^ <- p^ + 1', 'OUTPUT p^', 'OUTPUT %s' % tgt]
            out.append(Case(J(L), limits=dict(steps=5000), meta=dict(gen='alias-then-replace', sample=False)))
            L = pre + ['PROCEDURE Inner(BYREF j : INTEGER)', '  ' + rep, '  j <- j + 1', 'ENDPROCEDURE', 'PROCEDURE Outer(BYREF i : INTEGER)', '  CALL Inner(i)', '  OUTPUT i', 'ENDPROCEDURE',
                       'CALL Outer(%s)' % tgt, 'OUTPUT %s' % tgt]
            out.append(Case(J(L), limits=dict(steps=5000), meta=dict(gen='alias-then-replace', sample=False)))
    return out

def shadowed_types():
    """a TYPE defined in a routine hides a global TYPE of the same name with other fields / other names; values cross between the two"""
    out = []
    kinds = {
        'record': (['TYPE T', '  DECLARE a : INTEGER', 'ENDTYPE'], ['  TYPE T', '    DECLARE a : INTEGER', '    DECLARE b : STRING', '    DECLARE c : ARRAY[1:2] OF INTEGER', '  ENDTYPE'], 'g.a <- 1', 'l.a <- 7'),
        'record-same': (['TYPE T', '  DECLARE a : INTEGER', 'ENDTYPE'], ['  TYPE T', '    DECLARE a : INTEGER', '  ENDTYPE'], 'g.a <- 1', 'l.a <- 7'),
        'record-retyped': (['TYPE T', '  DECLARE a : INTEGER', 'ENDTYPE'], ['  TYPE T', '    DECLARE a : STRING', '  ENDTYPE'], 'g.a <- 1', 'l.a <- "seven"'),
        'enum': (['TYPE T = (e1, e2)'], ['  TYPE T = (f1, f2, f3, f4)'], 'g <- e2', 'l <- f4'),
        'pointer': (['TYPE T = ^INTEGER'], ['  TYPE T = ^STRING'], 'g <- ^gi', 'l <- ^ls'),
    }
    stores = ['l <- g', 'g <- l', 'la <- ga', 'ga <- la', 'la[1] <- g', 'ga[1] <- l', 'CALL Q(l)', 'OUTPUT F(l)', 'h <- l']
    for kname, (gdef, ldef, ginit, linit) in kinds.items():
        for st in stores:
            L = gdef + ['DECLARE gi : INTEGER', 'DECLARE g : T', 'DECLARE ga : ARRAY[1:2] OF T', ginit,
                        'PROCEDURE Q(BYVAL x : T)', '  OUTPUT "in Q"', 'ENDPROCEDURE', 'FUNCTION F(BYVAL x : T) RETURNS INTEGER', '  RETURN 1', 'ENDFUNCTION',
                        'PROCEDURE P()'] + ldef + ['  DECLARE ls : STRING', '  DECLARE l : T', '  DECLARE la : ARRAY[1:2] OF T', '  ' + linit, '  ' + st, '  OUTPUT "stored"']
            if kname.startswith('record'):
                L += ['  OUTPUT l.a', '  OUTPUT g.a']
            elif kname == 'enum':
                L += ['  OUTPUT l', '  OUTPUT g', '  OUTPUT ga[1]', '  OUTPUT la[1]']
            L += ['ENDPROCEDURE', 'CALL P()', 'OUTPUT "end"']
            if st == 'h <- l':
                L += ['OUTPUT "h"'] + (['OUTPUT h.a'] if kname.startswith('record') else ['OUTPUT h'] if kname == 'enum' else [])
            out.append(Case(J(L), limits=dict(steps=5000), meta=dict(gen='shadowed-types-' + kname, sample=False)))
    return out

def undeclared_field_vs_names():
    """access to a field the record type does not declare, while a global or local scalar / array of that name exists:
    always a runtime error, never an access to the other object"""
    out = []
    uses = ['OUTPUT r.x', 'OUTPUT r.x[1]', 'r.x[1] <- 5', 'r.x <- 5', 'r.x <- other', 'other <- r.x', 'OUTPUT r.inner.x[2]', 'r.inner.x[2] <- 9', 'OUTPUT rs[1].x[1]', 'p <- ^r.x[1]']
    for namekind in ('global-array', 'global-scalar', 'local-array', 'none'):
        for use in uses:
            for where in ('main', 'proc', 'byval'):
                L = ['TYPE Inner', '  DECLARE k : INTEGER', 'ENDTYPE', 'TYPE T', '  DECLARE n : INTEGER', '  DECLARE v : ARRAY[1:2] OF INTEGER', '  DECLARE inner : Inner', 'ENDTYPE', 'TYPE IP = ^INTEGER',
                     'DECLARE r : T', 'DECLARE rs : ARRAY[1:2] OF T', 'DECLARE other : ARRAY[1:2] OF INTEGER', 'DECLARE p : IP']
                if namekind == 'global-array': L += ['DECLARE x : ARRAY[1:2] OF INTEGER', 'x[1] <- 11', 'x[2] <- 22']
                if namekind == 'global-scalar': L += ['DECLARE x : INTEGER', 'x <- 33']
                loc = ['  DECLARE x : ARRAY[1:2] OF INTEGER', '  x[1] <- 44'] if namekind == 'local-array' else []
                if where == 'main':
                    if namekind == 'local-array': continue
                    L += [use]
                elif where == 'proc':
                    L += ['PROCEDURE P()'] + loc + ['  ' + use, '  OUTPUT "after"', 'ENDPROCEDURE', 'CALL P()']
                else:
                    L += ['PROCEDURE Q(BYVAL r : T)'] + loc + ['  ' + use, '  OUTPUT "after"', 'ENDPROCEDURE', 'CALL Q(r)']
                L += ['OUTPUT "end"'] + (['OUTPUT x[1], " ", x[2]'] if namekind == 'global-array' else ['OUTPUT x'] if namekind == 'global-scalar' else [])
                out.append(Case(J(L), limits=dict(steps=5000), meta=dict(gen='undeclared-field-' + namekind, sample=False)))
    return out

def side_effects_in_subexpressions():
    """a function called inside a statement changes what the statement has already looked at or is about to use: the file it writes to,
    the record it copies from, the array it indexes, the variable it passes BYREF, the loop's iterator or bounds"""
    pre = ['TYPE Rec', '  DECLARE n : INTEGER', '  DECLARE s : STRING', 'ENDTYPE', 'DECLARE cur : Rec', 'DECLARE other : Rec', 'DECLARE journal : ARRAY[1:3] OF Rec',
           'DECLARE nums : ARRAY[1:3] OF INTEGER', 'DECLARE alt : ARRAY[1:3] OF INTEGER', 'DECLARE k : INTEGER', 'DECLARE slot : INTEGER',
           'cur.n <- 20', 'cur.s <- "second"', 'other.n <- 1', 'other.s <- "other"', 'alt[1] <- 71', 'alt[2] <- 72', 'alt[3] <- 73', 'nums[1] <- 1', 'nums[2] <- 2', 'nums[3] <- 3', 'slot <- 0', 'k <- 5']
    fns = {
        'NextSlot': ['FUNCTION NextSlot() RETURNS INTEGER', '  slot <- slot + 1', '  cur.n <- cur.n + 1', '  cur.s <- "pending"', '  RETURN slot', 'ENDFUNCTION'],
        'Swap': ['FUNCTION Swap() RETURNS INTEGER', '  nums <- alt', '  RETURN 2', 'ENDFUNCTION'],
        'Repl': ['FUNCTION Repl() RETURNS INTEGER', '  cur <- other', '  RETURN 9', 'ENDFUNCTION'],
        'CloseIt': ['FUNCTION CloseIt() RETURNS STRING', '  CLOSEFILE "f.txt"', '  RETURN "x"', 'ENDFUNCTION'],
        'Reopen': ['FUNCTION Reopen() RETURNS STRING', '  CLOSEFILE "f.txt"', '  OPENFILE "f.txt" FOR READ', '  RETURN "y"', 'ENDFUNCTION'],
        'ReopenW': ['FUNCTION ReopenW() RETURNS STRING', '  CLOSEFILE "f.txt"', '  OPENFILE "f.txt" FOR APPEND', '  RETURN "z"', 'ENDFUNCTION'],
        'Bump': ['FUNCTION Bump() RETURNS INTEGER', '  k <- k + 10', '  RETURN 2', 'ENDFUNCTION'],
    }
    progs = [
        (['NextSlot'], ['journal[NextSlot()] <- cur', 'OUTPUT journal[1].n, " ", journal[1].s, " ", cur.n']),
        (['NextSlot'], ['journal[NextSlot()].n <- cur.n', 'OUTPUT journal[1].n, " ", cur.n']),
        (['Swap'], ['nums[Swap()] <- nums[1] + 100', 'OUTPUT nums[1], " ", nums[2], " ", nums[3]']),
        (['Swap'], ['OUTPUT nums[1] + nums[Swap()] + nums[1]']),
        (['Repl'], ['cur.n <- Repl() + cur.n', 'OUTPUT cur.n, " ", cur.s']),
        (['Repl'], ['other <- cur', 'journal[2] <- cur', 'cur.n <- Repl()', 'OUTPUT cur.n, " ", journal[2].n, " ", other.n']),
        (['CloseIt'], ['OPENFILE "f.txt" FOR WRITE', 'WRITEFILE "f.txt", "a"', 'WRITEFILE "f.txt", CloseIt()', 'OUTPUT "after"']),
        (['Reopen'], ['OPENFILE "f.txt" FOR WRITE', 'WRITEFILE "f.txt", "a"', 'WRITEFILE "f.txt", Reopen()', 'OUTPUT "after"']),
        (['ReopenW'], ['OPENFILE "f.txt" FOR WRITE', 'WRITEFILE "f.txt", "a"', 'WRITEFILE "f.txt", ReopenW()', 'WRITEFILE "f.txt", "b"', 'CLOSEFILE "f.txt"', 'OUTPUT "after"']),
        (['CloseIt'], ['OPENFILE "f.txt" FOR WRITE', 'WRITEFILE "f.txt", "a" & CloseIt() & CloseIt()', 'OUTPUT "after"']),
        (['Bump'], ['FOR k <- 1 TO Bump()', '  OUTPUT k', 'NEXT k', 'OUTPUT k']),
        (['Bump'], ['FOR i <- k TO k + Bump() STEP Bump()', '  OUTPUT i', '  IF i > 40 THEN', '    BREAK', '  ENDIF', 'NEXT i', 'OUTPUT k']),
        (['Bump'], ['PROCEDURE Show(BYREF a : INTEGER, BYVAL b : INTEGER)', '  OUTPUT a, " ", b', '  a <- a + 1', 'ENDPROCEDURE', 'CALL Show(k, Bump())', 'OUTPUT k', 'CALL Show(nums[Bump()], k)', 'OUTPUT nums[2], " ", k']),
        (['Bump'], ['nums[Bump()] <- k', 'OUTPUT nums[2], " ", k', 'k <- k + Bump() * k', 'OUTPUT k']),
    ]
    out = []
    for names, body in progs:
        L = pre + sum((fns[n] for n in names), []) + body
        out.append(Case(J(L), files={'f.txt': b'old\n'}, limits=dict(steps=5000), meta=dict(gen='side-effect-subexpr', sample=False)))
    return out

# ------------------------------------------------------------------ round e
def array_scope_matrix():
    """an array name used in a routine: declared locally there, in the caller, in the caller's caller, globally, or nowhere; the routine reads,
    writes, copies and passes it.  Only the own and the global declaration may be seen."""
    out = []
    uses = [['OUTPUT tab[1]'], ['tab[2] <- 99', 'OUTPUT tab[2]'], ['DECLARE saved : ARRAY[1:3] OF INTEGER', 'saved <- tab', 'OUTPUT saved[1], " ", saved[3]'],
            ['OUTPUT tab[4]'], ['FOR i <- 1 TO 3', '  tab[i] <- tab[i] + 1', 'NEXT i', 'OUTPUT tab[3]']]
    for use in uses:
        for owners in (('global',), ('caller',), ('global', 'caller'), ('global', 'outer'), ('outer',), ('global', 'caller', 'own'), ('caller', 'own'), ()):
            L = []
            if 'global' in owners: L += ['DECLARE tab : ARRAY[1:3] OF INTEGER', 'tab[1] <- 1', 'tab[2] <- 2', 'tab[3] <- 3']
            L += ['PROCEDURE Helper()']
            if 'own' in owners: L += ['  DECLARE tab : ARRAY[1:4] OF INTEGER', '  tab[1] <- 41']
            L += ['  ' + u for u in use] + ['  OUTPUT "helper done"', 'ENDPROCEDURE']
            L += ['PROCEDURE Caller()']
            if 'caller' in owners: L += ['  DECLARE tab : ARRAY[1:4] OF INTEGER', '  tab[1] <- 11', '  tab[4] <- 14']
            L += ['  CALL Helper()']
            if 'caller' in owners: L += ['  OUTPUT "caller sees ", tab[1], " ", tab[2]']
            L += ['ENDPROCEDURE', 'PROCEDURE Outer()']
            if 'outer' in owners: L += ['  DECLARE tab : ARRAY[1:4] OF INTEGER', '  tab[1] <- 21', '  tab[4] <- 24']
            L += ['  CALL Caller()']
            if 'outer' in owners: L += ['  OUTPUT "outer sees ", tab[1], " ", tab[2]']
            L += ['ENDPROCEDURE', 'CALL Outer()']
            if 'global' in owners: L += ['OUTPUT "global ", tab[1], " ", tab[2], " ", tab[3]']
            out.append(Case(J(L), limits=dict(steps=5000), meta=dict(gen='array-scope-matrix', sample=False)))
    return out

def scalar_and_array_share_a_name():
    """a constant or variable and an array of the same name (same scope, or one local and one global): every writer form must treat the
    scalar as what it is"""
    out = []
    writers = {
        'assign': ['c <- 7'], 'for': ['FOR c <- 1 TO 2', '  OUTPUT "it"', 'NEXT c'], 'input': ['INPUT c'],
        'readfile': ['OPENFILE "t.txt" FOR READ', 'READFILE "t.txt", c'],
        'getrecord': ['OPENFILE "r.dat" FOR RANDOM', 'SEEK "r.dat", 1', 'GETRECORD "r.dat", c'],
        'putrecord': ['OPENFILE "r.dat" FOR RANDOM', 'SEEK "r.dat", 2', 'PUTRECORD "r.dat", c', 'CLOSEFILE "r.dat"'],
        'element': ['c[1] <- 9', 'OUTPUT c[1]'], 'byref': ['PROCEDURE W(BYREF x : INTEGER)', '  x <- 8', 'ENDPROCEDURE', 'CALL W(c)'],
    }
    for scalar in ('CONSTANT c = 5', 'DECLARE c : INTEGER'):
        for wname, w in writers.items():
            for place in ('same', 'array-local', 'scalar-local'):
                defs = [l for l in w if l.startswith(('PROCEDURE', '  x', 'ENDPROCEDURE'))]
                body = [l for l in w if l not in defs]
                sc = [scalar] + (['c <- 5'] if scalar.startswith('DECLARE') else [])
                ar = ['DECLARE c : ARRAY[1:2] OF INTEGER']
                if place == 'same':
                    L = defs + sc + ar + body + ['OUTPUT c']
                elif place == 'array-local':
                    L = defs + sc + ['PROCEDURE P()'] + ['  ' + l for l in ar + body] + ['  OUTPUT c', 'ENDPROCEDURE', 'CALL P()', 'OUTPUT c']
                else:
                    L = defs + ar + ['PROCEDURE P()'] + ['  ' + l for l in sc + body] + ['  OUTPUT c', 'ENDPROCEDURE', 'CALL P()']
                out.append(Case(J(L), stdin=b'6\n', files={'t.txt': b'line\n', 'r.dat': b'INTEGER 42\n'}, limits=dict(steps=5000),
                                meta=dict(gen='scalar-array-name-' + wname, sample=False)))
    return out

def pointer_to_implicit_record():
    """a record variable that comes into being by assignment (no DECLARE) inside a routine -- from an outer record, a function result, an
    array element -- and a pointer to one of its fields that outlives the routine"""
    pre = ['TYPE Rec', '  DECLARE n : INTEGER', '  DECLARE v : ARRAY[1:2] OF INTEGER', 'ENDTYPE', 'TYPE IP = ^INTEGER', 'DECLARE g : Rec', 'DECLARE ga : ARRAY[1:2] OF Rec', 'DECLARE keep : IP',
           'g.n <- 5', 'g.v[1] <- 6', 'ga[1].n <- 7',
           'FUNCTION Make() RETURNS Rec', '  DECLARE t : Rec', '  t.n <- 8', '  RETURN t', 'ENDFUNCTION']
    out = []
    for src in ('g', 'Make()', 'ga[1]'):
        for fld in ('n', 'v[1]'):
            for declared in (False, True):
                body = (['  DECLARE loc : Rec'] if declared else []) + ['  loc <- %s' % src, '  keep <- ^loc.%s' % fld, '  OUTPUT keep^']
                L = pre + ['PROCEDURE Grab()'] + body + ['ENDPROCEDURE', 'PROCEDURE Noise()', '  DECLARE filler : ARRAY[1:8] OF INTEGER', '  filler[1] <- 99', 'ENDPROCEDURE',
                           'CALL Grab()', 'CALL Noise()', 'OUTPUT "after"', 'OUTPUT keep^', 'keep^ <- 1', 'OUTPUT g.n']
                out.append(Case(J(L), limits=dict(steps=5000), meta=dict(gen='pointer-to-implicit-record', sample=False)))
    return out

BAD_TYPES = {
    'undefined-field-type': ['TYPE Bad', '  DECLARE a : INTEGER', '  DECLARE b : Nowhere', 'ENDTYPE'],
    'bad-array-bounds': ['TYPE Bad', '  DECLARE a : INTEGER', '  DECLARE v : ARRAY[5:1] OF INTEGER', 'ENDTYPE'],
    'duplicate-field': ['TYPE Bad', '  DECLARE a : INTEGER', '  DECLARE a : STRING', 'ENDTYPE'],
    'bound-not-integer': ['TYPE Bad', '  DECLARE v : ARRAY[1:"x"] OF INTEGER', 'ENDTYPE'],
}
def failing_record_creation():
    """a record type whose creation fails at run time (the TYPE statement itself succeeds), instantiated at call depth 0..3, in file mode and
    in a REPL session that goes on afterwards (echo of bare expressions, later declarations, later errors)"""
    out = []
    for kind, tdef in BAD_TYPES.items():
        for depth in (0, 1, 2, 3):
            L = list(tdef)
            names = ['Build', 'Mid', 'Top'][:depth]
            inner = ['DECLARE r : Bad', 'OUTPUT "not reached"']
            prev = None
            for nm in names:
                L += ['PROCEDURE %s()' % nm] + ['  ' + l for l in (inner if prev is None else ['CALL %s()' % prev, 'OUTPUT "back in %s"' % nm])] + ['ENDPROCEDURE']
                prev = nm
            L += (inner if prev is None else ['OUTPUT "start"', 'CALL %s()' % prev])
            out.append(Case(J(L), limits=dict(steps=5000), meta=dict(gen='failing-record-creation', sample=False)))
            ent = sum(gen.to_entries(L[:-1] if prev else L[:len(tdef)]), [])
            ent += ['1 + 1', (('CALL %s()' % prev) if prev else 'DECLARE r : Bad'), '2 + 2', '"echo"', 'x <- 3', 'x', 'DECLARE q : Bad', 'x * 2', 'OUTPUT "still here"', '1 DIV 0', 'x + 1']
            out.append(Case(mode='repl', stdin=J(ent), limits=dict(steps=20000), meta=dict(gen='failing-record-creation-repl', sample=False)))
    return out

def runfile_with_handles():
    """REPL sessions that combine RUNFILE with file handles: opened at the prompt before the run, left open by the program that was run,
    used again afterwards"""
    out = []
    progs = {
        'plain.pseudo': b'OUTPUT "ran plain"\n',
        'opens.pseudo': b'OPENFILE "p.txt" FOR WRITE\nWRITEFILE "p.txt", "from program"\nOUTPUT "ran opens"\n',
        'closes.pseudo': b'OPENFILE "q.txt" FOR WRITE\nWRITEFILE "q.txt", "q"\nCLOSEFILE "q.txt"\nOUTPUT "ran closes"\n',
        'fails.pseudo': b'OPENFILE "e.txt" FOR WRITE\nWRITEFILE "e.txt", "before error"\nOUTPUT 1 DIV 0\n',
        'uses.pseudo': b'WRITEFILE "s.txt", "program writes to the session file"\n',
    }
    for prog in progs:
        ent = ['OPENFILE "s.txt" FOR WRITE', 'WRITEFILE "s.txt", "one"', 'OPENFILE "r.dat" FOR RANDOM', 'DECLARE n : INTEGER', 'n <- 4', 'SEEK "r.dat", 1', 'PUTRECORD "r.dat", n',
               'RUNFILE %s' % prog, 'WRITEFILE "s.txt", "two"', 'SEEK "r.dat", 2', 'PUTRECORD "r.dat", n', 'OPENFILE "p.txt" FOR READ', 'OPENFILE "e.txt" FOR APPEND',
               'WRITEFILE "p.txt", "session"', 'CLOSEFILE "s.txt"', 'CLOSEFILE "r.dat"', 'RUNFILE %s' % prog, 'OPENFILE "s.txt" FOR APPEND', 'WRITEFILE "s.txt", "three"']
        for tail in ([], ['EXIT'], ['CLOSEFILE "s.txt"']):
            out.append(Case(mode='repl', stdin=J(ent + tail), files=dict(progs), limits=dict(steps=20000), meta=dict(gen='runfile-with-handles', sample=False)))
    return out

def declaredness_changes_per_activation():
    """one INPUT / assignment statement executed by several activations; its target is declared in some of them (conditional DECLARE, earlier FOR,
    parameter) and in others nowhere: under -p every execution with an undeclared target is rejected, without -p the variable is created"""
    out = []
    for stmt in ('INPUT v', 'v <- 5', 'READFILE "t.txt", v'):
        for first_declared in (True, False):
            for how in ('declare', 'for', 'recursion'):
                if how == 'recursion':
                    L = ['PROCEDURE Ask(BYVAL depth : INTEGER)', '  IF depth = %d THEN' % (2 if first_declared else 1), '    DECLARE v : STRING', '  ENDIF', '  ' + stmt, '  OUTPUT "got ", v',
                         '  IF depth > 1 THEN', '    CALL Ask(depth - 1)', '  ENDIF', 'ENDPROCEDURE', 'OPENFILE "t.txt" FOR READ', 'CALL Ask(2)', 'OUTPUT "end"']
                else:
                    mk = ['    DECLARE v : STRING'] if how == 'declare' else ['    FOR v <- 1 TO 1', '    NEXT v']
                    if how == 'for' and stmt != 'v <- 5': continue
                    L = ['PROCEDURE Ask(BYVAL known : BOOLEAN)', '  IF known THEN'] + mk + ['  ENDIF', '  ' + stmt, '  OUTPUT "got ", v', 'ENDPROCEDURE', 'OPENFILE "t.txt" FOR READ',
                         'CALL Ask(%s)' % ('TRUE' if first_declared else 'FALSE'), 'CALL Ask(%s)' % ('FALSE' if first_declared else 'TRUE'), 'CALL Ask(FALSE)', 'OUTPUT "end"']
                for ped in ('', '-p'):
                    out.append(Case(J(L), pedantic=ped, stdin=b'a\nb\nc\n', files={'t.txt': b'l1\nl2\nl3\n'}, limits=dict(steps=5000),
                                    meta=dict(gen='declaredness-per-activation', sample=False)))
    return out

def records_with_array_fields_in_files():
    """PUTRECORD / GETRECORD of records with array fields and of arrays of such records, with and without arrays declared in the scope that reads"""
    out = []
    for scope_arrays in ('none', 'same-shape', 'other-shape'):
        for inproc in (False, True):
            decl = ['TYPE Student', '  DECLARE name : STRING', '  DECLARE marks : ARRAY[1:3] OF INTEGER', '  DECLARE tags : ARRAY[0:1] OF STRING', 'ENDTYPE',
                    'DECLARE s : Student', 'DECLARE t : Student', 'DECLARE cls : ARRAY[1:2] OF Student']
            extra_arr = {'none': [], 'same-shape': ['DECLARE scratch : ARRAY[1:3] OF INTEGER', 'scratch[1] <- 77'], 'other-shape': ['DECLARE scratch : ARRAY[1:5] OF STRING']}[scope_arrays]
            w = ['s.name <- "ann"', 's.marks[1] <- 10', 's.marks[2] <- 20', 's.marks[3] <- 30', 's.tags[0] <- "a b"', 's.tags[1] <- "#"', 'cls[2] <- s', 'cls[1].name <- "bob"', 'cls[1].marks[3] <- 3',
                 'OPENFILE "st.dat" FOR RANDOM', 'SEEK "st.dat", 1', 'PUTRECORD "st.dat", s', 'SEEK "st.dat", 2', 'PUTRECORD "st.dat", cls', 'CLOSEFILE "st.dat"']
            rd = ['OPENFILE "st.dat" FOR RANDOM', 'SEEK "st.dat", 1', 'GETRECORD "st.dat", t', 'OUTPUT t.name, " ", t.marks[1], " ", t.marks[2], " ", t.marks[3], " ", t.tags[0], " ", t.tags[1]',
                  'cls[1].name <- "x"', 'cls[2].marks[1] <- 0', 'SEEK "st.dat", 2', 'GETRECORD "st.dat", cls', 'OUTPUT cls[1].name, " ", cls[1].marks[3], " ", cls[2].name, " ", cls[2].marks[1], " ", cls[2].tags[1]']
            if scope_arrays == 'same-shape': rd += ['OUTPUT scratch[1]']
            rd += ['SEEK "st.dat", 3', 'PUTRECORD "st.dat", t', 'CLOSEFILE "st.dat"']
            if inproc:
                L = decl + w + ['PROCEDURE ReadBack()'] + ['  ' + l for l in extra_arr + rd] + ['ENDPROCEDURE', 'CALL ReadBack()']
            else:
                L = decl + extra_arr + w + rd
            out.append(Case(J(L), limits=dict(steps=10000), meta=dict(gen='records-with-array-fields-in-files', sample=False)))
    return out

LEX_FAILS = ['1 + $', '7 - "abc', '"n=" & @', 'FALSE AND #', '"bad \\q escape"', "'ab'", "'", 'x == 1', 'OUTPUT("x")', '"open \\', '12 + "ab\\', 'LENGTH("abc" & "de', '3 * (4 + ~)', 'y <- "p" & "q',
             'x <- 10 / #', 'x <- 10 - #', '3 * $', '1 = @', '2 / "unterminated', '(#', '12/#', '1/2/#', 'x <- 1/2/2003 / #']
LEX_PROBES = ['2 * 3', '"hello"', 'LENGTH("hello")', "'c'", '1 / 0', '1 + 2', 'IS_NUM("42")', 'MID("abcdef", 2, 3)', 'TO_UPPER("abc")', 'STR_TO_NUM("7.5")', 'LEFT("abc", 1) & RIGHT("abc", 2)',
              'TRUE AND FALSE', '12', 'x <- 4', 'x', 'OUTPUT "out ", 1',
              '1/3/2021 = 1/3/2021', '31/2/2021', '29/2/2020 < 1/3/2020', '1/2/2003', 'DAY(5/6/2007)', '-3', '(1 + 1)', '.5', "'q' & \"r\""]
def lexer_failure_then_probe(rng):
    """REPL: an entry rejected by the lexer (after some tokens, inside a string or character literal, at an escape), then entries of every token
    kind: nothing of the rejected entry may survive into the next one"""
    out = []
    for fail in LEX_FAILS:
        ent = ['x <- 1', 'PROCEDURE Keep()', '  OUTPUT "kept"', 'ENDPROCEDURE', '']
        for probe in LEX_PROBES:
            ent += [fail, probe]
        ent += ['CALL Keep()', fail, fail, '"twice"']
        out.append(Case(mode='repl', stdin=J(ent), limits=dict(steps=20000), meta=dict(gen='lexer-failure-then-probe', sample=False)))
    mixed = []
    for _ in range(60):
        mixed += [rng.choice(LEX_FAILS), rng.choice(LEX_PROBES)]
    out.append(Case(mode='repl', stdin=J(mixed), limits=dict(steps=20000), meta=dict(gen='lexer-failure-then-probe', sample=False)))
    return out

def identifier_targets_by_binding():
    """statements that write to a plain identifier (READFILE, INPUT, GETRECORD, FOR, assignment) with the identifier bound in every way: global,
    local, BYVAL parameter, BYREF parameter (argument a variable / an array element / a record field), BYREF forwarded BYREF again, not declared"""
    out = []
    writers = {
        'readfile': (['READFILE "t.txt", tgt'], 'STRING', '"init"'),
        'input': (['INPUT tgt'], 'STRING', '"init"'),
        'getrecord': (['SEEK "r.dat", 1', 'GETRECORD "r.dat", tgt'], 'STRING', '"init"'),
        'for': (['FOR tgt <- 3 TO 4', '  OUTPUT "it ", tgt', 'NEXT tgt'], 'INTEGER', '0'),
        'assign': (['tgt <- tgt & "+"'], 'STRING', '"init"'),
    }
    for wname, (w, ty, init) in writers.items():
        pre = ['TYPE Box', '  DECLARE f : %s' % ty, 'ENDTYPE', 'DECLARE g : %s' % ty, 'DECLARE arr : ARRAY[1:2] OF %s' % ty, 'DECLARE bx : Box',
               'g <- %s' % init, 'arr[2] <- %s' % init, 'bx.f <- %s' % init, 'OPENFILE "t.txt" FOR READ', 'OPENFILE "r.dat" FOR RANDOM']
        body = ['  ' + l for l in w] + ['  OUTPUT "inside ", tgt']
        show = ['OUTPUT "g=", g, " arr=", arr[2], " f=", bx.f']
        variants = {
            'global': pre + ['PROCEDURE P()'] + [l.replace('tgt', 'g') for l in body] + ['ENDPROCEDURE', 'CALL P()', 'CALL P()'] + show,
            'local': pre + ['PROCEDURE P()', '  DECLARE tgt : %s' % ty, '  tgt <- %s' % init] + body + ['ENDPROCEDURE', 'CALL P()', 'CALL P()'] + show,
            'byval': pre + ['PROCEDURE P(BYVAL tgt : %s)' % ty] + body + ['ENDPROCEDURE', 'CALL P(g)', 'CALL P(arr[2])'] + show,
            'byref-var': pre + ['PROCEDURE P(BYREF tgt : %s)' % ty] + body + ['ENDPROCEDURE', 'CALL P(g)', 'CALL P(g)'] + show,
            'byref-element': pre + ['PROCEDURE P(BYREF tgt : %s)' % ty] + body + ['ENDPROCEDURE', 'CALL P(arr[2])', 'CALL P(arr[1])'] + show + ['OUTPUT arr[1]'],
            'byref-field': pre + ['PROCEDURE P(BYREF tgt : %s)' % ty] + body + ['ENDPROCEDURE', 'CALL P(bx.f)'] + show,
            'byref-forwarded': pre + ['PROCEDURE P(BYREF tgt : %s)' % ty] + body + ['ENDPROCEDURE', 'PROCEDURE Q(BYREF via : %s)' % ty, '  CALL P(via)', '  OUTPUT "q sees ", via', 'ENDPROCEDURE',
                                      'PROCEDURE R(BYREF via2 : %s)' % ty, '  CALL Q(via2)', 'ENDPROCEDURE', 'CALL Q(g)', 'CALL R(arr[2])', 'CALL R(bx.f)'] + show,
            'undeclared': pre + ['PROCEDURE P()'] + body + ['ENDPROCEDURE', 'CALL P()', 'CALL P()'] + show,
            'main-undeclared': pre + [l.strip() for l in body] + show,
        }
        for vname, L in variants.items():
            for ped in ('', '-p'):
                out.append(Case(J(L), pedantic=ped, stdin=b'typed one\ntyped two\ntyped three\n', files={'t.txt': b'line one\nline two\nline three\n', 'r.dat': b'STRING 4 rec1\n'},
                                limits=dict(steps=5000), meta=dict(gen='identifier-target-%s-%s' % (wname, vname), sample=False)))
    return out

def nodes_evaluated_twice(rng):
    """every operator and built-in applied to a literal and a parameter inside a routine that is called several times with other values (and
    inside a loop): a node must not remember anything from its first evaluation"""
    body = ['  OUTPUT a + 1, " ", 1 + a, " ", a - 2, " ", 2 - a, " ", a * 3, " ", 3 * a, " ", a / 4, " ", 4 / (a + 100), " ", a DIV 2, " ", 7 DIV (a + 100), " ", a MOD 3, " ", 10 MOD (a + 100)',
            '  OUTPUT x + 0.5, " ", 0.5 + x, " ", x * 2, " ", 2 * x, " ", x / 2, " ", x - 1, " ", a + x, " ", x + a, " ", -a, " ", -x',
            '  OUTPUT a = 3, " ", 3 = a, " ", a <> 3, " ", a < 3, " ", 3 < a, " ", a <= 3, " ", a > 3, " ", a >= 3, " ", x < 2.5, " ", 2.5 < x, " ", a < x, " ", x = 2',
            '  OUTPUT s & "!", " ", "!" & s, " ", s = "ab", " ", "ab" = s, " ", s <> "b", " ", LENGTH(s), " ", s & a, " ", a & s',
            '  OUTPUT d = 1/2/2003, " ", 1/2/2003 = d, " ", d <> 1/2/2003, " ", d < 1/2/2003, " ", 1/2/2003 < d, " ", d <= 1/2/2003, " ", d > 1/2/2003, " ", 1/2/2003 >= d',
            '  OUTPUT DAY(d), " ", MONTH(d), " ", YEAR(d), " ", DAYINDEX(d), " ", d, " ", SETDATE(1, 2, 2003) = d, " ", d = SETDATE(DAY(d), MONTH(d), YEAR(d))',
            '  OUTPUT b AND TRUE, " ", TRUE AND b, " ", b OR FALSE, " ", NOT b, " ", b = TRUE, " ", (a > 2) AND b',
            '  OUTPUT c = \'k\', " ", \'k\' = c, " ", c < \'m\', " ", ASC(c), " ", c & "x", " ", TO_UPPER(c)',
            '  OUTPUT e = v2, " ", v2 = e, " ", e <> v2, " ", e + 1, " ", e - 1, " ", e',
            '  OUTPUT MID("abcdef", (a + 300) MOD 3 + 1, 2), " ", LEFT(s & "xyz", 2), " ", RIGHT("xyz" & s, 2), " ", INT(x), " ", INT(x + 0.5), " ", NUM_TO_STR(a), " ", STR_TO_NUM("" & a) + 1']
    vals = [('3', '2.5', '"ab"', '1/2/2003', 'TRUE', "'k'", 'v2'), ('0', '0.0', '""', '31/12/1999', 'FALSE', "'a'", 'v1'), ('17', '100.25', '"b"', '2/2/2003', 'TRUE', "'z'", 'v3'),
            ('0 - 5', '0.0 - 1.5', '"ab"', '1/2/2003', 'FALSE', "'k'", 'v2')]
    L = ['TYPE E = (v1, v2, v3)', 'PROCEDURE Ops(BYVAL a : INTEGER, BYVAL x : REAL, BYVAL s : STRING, BYVAL d : DATE, BYVAL b : BOOLEAN, BYVAL c : CHAR, BYVAL e : E)'] + body + ['ENDPROCEDURE']
    order = list(vals); rng.shuffle(order)
    calls = ['CALL Ops(%s)' % ', '.join(v) for v in order + order[:2]]
    out = [Case(J(L + calls), limits=dict(steps=20000), meta=dict(gen='nodes-evaluated-twice', sample=False))]
    # the same statements in a loop over arrays of values
    n = len(vals)
    L2 = ['TYPE E = (v1, v2, v3)', 'DECLARE ia : ARRAY[1:%d] OF INTEGER' % n, 'DECLARE xa : ARRAY[1:%d] OF REAL' % n, 'DECLARE sa : ARRAY[1:%d] OF STRING' % n, 'DECLARE da : ARRAY[1:%d] OF DATE' % n,
          'DECLARE ba : ARRAY[1:%d] OF BOOLEAN' % n, 'DECLARE ca : ARRAY[1:%d] OF CHAR' % n, 'DECLARE ea : ARRAY[1:%d] OF E' % n,
          'DECLARE a : INTEGER', 'DECLARE x : REAL', 'DECLARE s : STRING', 'DECLARE d : DATE', 'DECLARE b : BOOLEAN', 'DECLARE c : CHAR', 'DECLARE e : E']
    for i, v in enumerate(vals):
        for arr, lit in zip(('ia', 'xa', 'sa', 'da', 'ba', 'ca', 'ea'), v):
            L2.append('%s[%d] <- %s' % (arr, i + 1, lit))
    L2 += ['FOR i <- 1 TO %d' % n, '  a <- ia[i]', '  x <- xa[i]', '  s <- sa[i]', '  d <- da[i]', '  b <- ba[i]', '  c <- ca[i]', '  e <- ea[i]'] + body + ['NEXT i']
    out.append(Case(J(L2), limits=dict(steps=20000), meta=dict(gen='nodes-evaluated-twice', sample=False)))
    return out


# ------------------------------------------------------------------ round f
def reentrant_nodes():
    """every node class with two or more operand positions -- operators, comparisons, built-in and user calls, index lists, the OUTPUT list,
    loop headers, the CALL statement -- entered again through one of its own operands: a recursive function whose recursive call stands in
    one operand while another operand depends on the level (depth up to 4), in both orders.  A node may keep nothing between the evaluation of
    its operands that a nested evaluation of the same node can overwrite"""
    exprs = ['{N} + {R}', '{R} + {N}', '{N} - {R}', '{R} - {N}', '{N} * 7 + {R}', '({N} + 100) DIV ({R} MOD 9 + 1)', '({R} + 100) MOD ({N} + 1)', '{N} * {R} MOD 1000',
             'LENGTH(LEFT("abcdefghijklmnopqrstuvwxyz", {R} MOD 5 + {N}))', 'LENGTH(MID("abcdefghijklmnopqrstuvwxyz", {N}, {R} MOD 7 + 1))', 'LENGTH(RIGHT("abcdefghij", {N})) + {R}',
             'LENGTH(MID("abcdefghijklmnopqrstuvwxyz", {R} MOD 7 + 1, {N}))', 'ASC(MID("abcdefghij", {N}, 1)) + {R} MOD 100', 'Pick({N}, {R} MOD 1000)', 'Pick({R} MOD 1000, {N})',
             'Pick3({N}, {R} MOD 100, {N} + 1)', 'INT(({N} + 0.5) * 2) + {R}', 'INT({R} / 2 + {N})', 'tab[{N}, {R} MOD 3 + 1]', 'tab[{R} MOD 4 + 1, {N} MOD 3 + 1]',
             'INT(STR_TO_NUM(NUM_TO_STR({N}) & NUM_TO_STR({R} MOD 10)))', 'LENGTH(NUM_TO_STR({R}) & NUM_TO_STR({N} * 100))', '-({N} + {R})']
    conds = ['{N} > {R}', '{R} > {N}', '{N} = {R}', '{R} = {N}', '{N} <> {R}', '{N} <= {R}', '{R} >= {N}', '{N} < {R}', '({N} > 1) AND ({R} >= 0)', '({R} >= 0) AND ({N} > 1)',
             '({N} > 2) OR ({R} < 0)', 'NOT ({R} < {N})', 'LEFT("abcdef", {N}) = LEFT("abcdef", ({R} + 50) MOD 5)', "MID(\"abcdef\", {N}, 1) = MID(\"abcdef\", ({R} + 50) MOD 5 + 1, 1)"]
    pre = ['DECLARE tab : ARRAY[1:4, 1:3] OF INTEGER', 'FOR i <- 1 TO 4', '  FOR j <- 1 TO 3', '    tab[i, j] <- i * 10 + j', '  NEXT j', 'NEXT i',
           'FUNCTION Pick(a : INTEGER, b : INTEGER) RETURNS INTEGER', '  RETURN a * 1000 + b', 'ENDFUNCTION',
           'FUNCTION Pick3(a : INTEGER, b : INTEGER, c : INTEGER) RETURNS INTEGER', '  RETURN a * 10000 + b * 100 + c', 'ENDFUNCTION']
    out = []
    def prog(fns):
        L = list(pre); calls = []
        for k, body in enumerate(fns):
            nm = 'R%d' % k
            L += ['FUNCTION %s(n : INTEGER) RETURNS INTEGER' % nm, '  IF n = 0 THEN', '    RETURN 1', '  ENDIF'] + [b.replace('{N}', 'n').replace('{R}', '%s(n - 1)' % nm) for b in body] + ['ENDFUNCTION']
            calls.append('OUTPUT "%s ", %s(1), " ", %s(2), " ", %s(3), " ", %s(4)' % (nm, nm, nm, nm, nm))
        return Case(J(L + calls), limits=dict(steps=60000), meta=dict(gen='reentrant-nodes', sample=False))
    for i in range(0, len(exprs), 6):
        out.append(prog([['  RETURN ' + e] for e in exprs[i:i + 6]]))
    for i in range(0, len(conds), 5):
        out.append(prog([['  IF ' + c + ' THEN', '    RETURN n', '  ENDIF', '  RETURN 0 - n'] for c in conds[i:i + 5]]))
    stmts = [['  OUTPUT "<", n, " ", {R}, " ", n, ">"', '  RETURN n'],
             ['  DECLARE t : INTEGER', '  t <- 0', '  FOR q <- n TO {R} MOD 3 + n', '    t <- t + q', '  NEXT q', '  RETURN t'],
             ['  DECLARE t : INTEGER', '  t <- 0', '  FOR q <- 1 TO 6 STEP {R} MOD 2 + n', '    t <- t + q', '  NEXT q', '  RETURN t'],
             ['  DECLARE t : INTEGER', '  t <- 0', '  WHILE t < {R} MOD 3 + n', '    t <- t + 1', '  ENDWHILE', '  RETURN t'],
             ['  DECLARE t : INTEGER', '  t <- 0', '  REPEAT', '    t <- t + 1', '  UNTIL t >= {R} MOD 3 + n', '  RETURN t'],
             ['  DECLARE t : INTEGER', '  t <- {R} MOD 3 + n', '  CASE OF t', '    ({R} + 50) MOD 3 + 1 : t <- 10 + n', '    2 : t <- 20 + n', '    3 TO ({R} + 50) MOD 2 + 4 : t <- 30 + n', '    OTHERWISE : t <- 40 + n', '  ENDCASE', '  RETURN t'],
             ['  DECLARE loc : ARRAY[1:6] OF INTEGER', '  loc[n] <- {R} MOD 50', '  loc[{R} MOD 2 + 5] <- n', '  RETURN loc[n] * 10 + loc[5] + loc[6]'],
             ['  DECLARE t : INTEGER', '  t <- n * 100', '  t <- t + {R} MOD 50', '  RETURN t']]
    for i in range(0, len(stmts), 2):
        out.append(prog(stmts[i:i + 2]))
    # strings and reals
    L = ['FUNCTION S(n : INTEGER) RETURNS STRING', '  IF n = 0 THEN', '    RETURN "."', '  ENDIF', '  RETURN NUM_TO_STR(n) & S(n - 1)', 'ENDFUNCTION',
         'FUNCTION T(n : INTEGER) RETURNS STRING', '  IF n = 0 THEN', '    RETURN "."', '  ENDIF', '  RETURN T(n - 1) & NUM_TO_STR(n)', 'ENDFUNCTION',
         'FUNCTION X(n : INTEGER) RETURNS REAL', '  IF n = 0 THEN', '    RETURN 0.5', '  ENDIF', '  RETURN n / 4 + X(n - 1)', 'ENDFUNCTION',
         'FUNCTION Y(n : INTEGER) RETURNS REAL', '  IF n = 0 THEN', '    RETURN 0.5', '  ENDIF', '  RETURN X(n - 1) * n - Y(n - 1)', 'ENDFUNCTION',
         'FUNCTION U(n : INTEGER) RETURNS STRING', '  IF n = 0 THEN', '    RETURN ""', '  ENDIF', '  RETURN TO_UPPER(LEFT("abcdefghij", LENGTH(U(n - 1)) + 1))', 'ENDFUNCTION',
         'OUTPUT S(4), " ", T(4), " ", X(4), " ", Y(4), " ", U(4), " ", S(2), " ", U(2)']
    out.append(Case(J(L), limits=dict(steps=60000), meta=dict(gen='reentrant-nodes', sample=False)))
    # a CALL statement entered again while its own arguments are being evaluated, BYVAL and BYREF parameters
    for byref in (False, True):
        L = ['DECLARE acc : STRING', 'acc <- ""',
             'PROCEDURE Walk(BYVAL n : INTEGER, %s tag : STRING)' % ('BYREF' if byref else 'BYVAL'), '  OUTPUT "Walk ", n, " ", tag',
             '  IF n > 0 THEN'] + (['    tag <- tag & "a"', '    CALL Walk(Step(n), tag)'] if byref else ['    CALL Walk(Step(n), tag & "a")']) + ['  ENDIF', '  OUTPUT "done ", n, " ", tag', 'ENDPROCEDURE',
             'FUNCTION Step(n : INTEGER) RETURNS INTEGER', '  IF n > 1 THEN'] + (['    acc <- acc & "b"', '    CALL Walk(n - 2, acc)'] if byref else ['    CALL Walk(n - 2, "b")']) + ['  ENDIF', '  RETURN n - 1', 'ENDFUNCTION',
             'DECLARE start : STRING', 'start <- "x"', 'CALL Walk(3, start)', 'OUTPUT start, " ", acc']
        out.append(Case(J(L), limits=dict(steps=60000), meta=dict(gen='reentrant-call', sample=False)))
    return out

def creation_fails_then_probe():
    """REPL sessions, with and without --pedantic: a statement that would bring a name into being fails part-way (array of a record type whose
    body fails, record of such a type, constant or implicit variable with a failing right-hand side, INPUT / assignment / FOR on an undeclared
    name under --pedantic, two names of which the second fails); the name is then probed (echo, assignment, index, redeclaration), the cause is
    repaired and the declaration repeated"""
    out = []
    bad = ['TYPE Node', '  DECLARE value : INTEGER', '  DECLARE next : NodePtr', 'ENDTYPE', '']
    fix = ['TYPE NodePtr = ^Node']
    scen = {
        'array-of-bad': (bad, ['DECLARE a : ARRAY[1:2] OF Node'], ['a[1].value', 'a[1].value <- 3', 'a'], fix, ['DECLARE a : ARRAY[1:2] OF Node', 'a[1].value <- 7', 'a[2].value <- a[1].value + 1', 'a[2].value']),
        'record-of-bad': (bad, ['DECLARE a : Node'], ['a.value', 'a.value <- 3'], fix, ['DECLARE a : Node', 'a.value <- 7', 'a.value']),
        'two-names': (bad, ['DECLARE ok, a : Node'], ['ok.value', 'a.value'], fix, ['DECLARE a : Node', 'DECLARE ok : Node', 'a.value <- 7', 'a.value']),
        'array-two-names': (bad, ['DECLARE p, a : ARRAY[1:2] OF Node'], ['p[1].value', 'a[1].value'], fix, ['DECLARE a : ARRAY[1:2] OF Node', 'DECLARE p : ARRAY[1:2] OF Node', 'a[2].value <- 7', 'a[2].value']),
        'constant-rhs': ([], ['CONSTANT a = 1 DIV 0'], ['a', 'a <- 3'], [], ['CONSTANT a = 4', 'a', 'a <- 5', 'a']),
        'implicit-rhs': ([], ['a <- 1 DIV 0'], ['a', 'a + 1'], [], ['DECLARE a : STRING', 'a <- "s"', 'a']),
        'implicit-rhs-undefined': ([], ['a <- nowhere + 1'], ['a', 'nowhere'], [], ['DECLARE a : REAL', 'a <- 2', 'a']),
        'input-undeclared': ([], ['INPUT a', 'typed line'], ['a', 'a <- "bob"', 'a & "!"'], [], ['DECLARE a : INTEGER', 'a <- 4', 'a']),
        'assign-undeclared': ([], ['a <- 3'], ['a', 'a <- a + 1', 'a'], [], ['DECLARE a : STRING', 'a <- "s"', 'a']),
        'for-undeclared': ([], ['FOR a <- 1 TO 2', '  OUTPUT a', 'NEXT a', ''], ['a', 'a <- 9', 'a'], [], ['DECLARE a : STRING', 'a <- "s"', 'a']),
        'for-bad-bound': ([], ['FOR a <- 1 TO "x"', '  OUTPUT a', 'NEXT a', ''], ['a', 'a <- 9', 'a'], [], ['DECLARE a : STRING', 'a <- "s"', 'a']),
        'bad-bounds': ([], ['DECLARE a : ARRAY[5:1] OF INTEGER'], ['a[1]', 'a[5] <- 2'], [], ['DECLARE a : ARRAY[1:5] OF INTEGER', 'a[5] <- 2', 'a[5]']),
        'bound-fails': ([], ['DECLARE a : ARRAY[1:1 DIV 0] OF INTEGER'], ['a[1]', 'a[1] <- 2'], [], ['DECLARE a : ARRAY[1:2] OF INTEGER', 'a[1] <- 2', 'a[1]']),
        'unknown-type': ([], ['DECLARE a : Missing'], ['a', 'a <- 2', 'a'], [], ['DECLARE a : INTEGER', 'a']),
        'readfile-undeclared': ([], ['READFILE "in.txt", a'], ['a', 'a & "!"'], [], ['OPENFILE "in.txt" FOR READ', 'READFILE "in.txt", a', 'a']),
    }
    for name, (pre, stmt, probes, repair, after) in scen.items():
        ent = pre + ['"start"'] + stmt + probes + repair + after + ['"end"', '1 + 1']
        for ped in ('', '-p'):
            out.append(Case(mode='repl', pedantic=ped, stdin=J(ent), files={'in.txt': b'first\nsecond\n'}, limits=dict(steps=20000), meta=dict(gen='creation-fails-then-probe', sample=False)))
        # the same inside a procedure that is called twice
        body = [l for l in stmt if l != '' and l != 'typed line']
        L = [l for l in pre if l != ''] + ['PROCEDURE Try()'] + ['  ' + l for l in body] + ['  OUTPUT "created"'] + ['ENDPROCEDURE', 'CALL Try()']
        out.append(Case(J(L), stdin=b'typed line\n', files={'in.txt': b'first\nsecond\n'}, limits=dict(steps=20000), meta=dict(gen='creation-fails-in-call', sample=False)))
    return out

ERR_KINDS = {
    'div-zero': 'RETURN 10 DIV (n - n)', 'array-direct-return': 'RETURN Scores', 'array-direct-output': 'OUTPUT Scores', 'undefined': 'RETURN nowhere + n', 'bad-index': 'RETURN Scores[n + 40]',
    'type-mismatch': 'RETURN n + "s"', 'bad-call': 'RETURN Leaf(n, n)', 'string-range': 'RETURN LENGTH(MID("abc", 5, n))', 'assign-mismatch': 'Total <- "s"', 'array-direct-arith': 'RETURN Scores + 1',
    'array-direct-assign-from': 'Total <- Scores', 'condition-type': 'IF n THEN\n    RETURN 1\n  ENDIF',
}
def errors_below_statements():
    """every kind of run-time fault raised one to three calls below every kind of statement that can hold a call (assignment, whole-array
    assignment on the line before, OUTPUT, argument of CALL, condition, index, bound, RETURN): the traceback names the failing line and every
    activation between it and the program"""
    carriers = {'assign': ['t <- Top(k)'], 'output': ['OUTPUT Top(k)'], 'arg': ['CALL Show(Top(k))'], 'if': ['IF Top(k) > 0 THEN', '  OUTPUT "pos"', 'ENDIF'],
                'index-store': ['Scores[Top(k)] <- 1'], 'assign-after-array-copy': ['Copy <- Scores', 't <- Top(k)'], 'for-bound': ['FOR q <- 1 TO Top(k)', '  OUTPUT q', 'NEXT q'],
                'while': ['WHILE Top(k) > 0', '  OUTPUT "loop"', 'ENDWHILE'], 'concat': ['OUTPUT "v" & Top(k)'], 'case': ['CASE OF Top(k)', '  1 : OUTPUT "one"', 'ENDCASE']}
    out = []
    for ek, fault in ERR_KINDS.items():
        for depth in (1, 2, 3):
            for ck, carrier in carriers.items():
                if depth == 3 and ck not in ('assign', 'output', 'arg'):
                    continue
                L = ['DECLARE Scores : ARRAY[1:3] OF INTEGER', 'DECLARE Copy : ARRAY[1:3] OF INTEGER', 'DECLARE Total : INTEGER',
                     'FUNCTION Leaf(n : INTEGER) RETURNS INTEGER', '  OUTPUT "leaf ", n'] + ['  ' + l if not l.startswith(' ') else l for l in fault.split('\n')] + ['  RETURN 0', 'ENDFUNCTION']
                prev = 'Leaf'
                for d in range(depth - 1):
                    nm = 'Mid%d' % d
                    L += ['FUNCTION %s(n : INTEGER) RETURNS INTEGER' % nm, '  DECLARE r : INTEGER', '  r <- %s(n)' % prev, '  RETURN r + 1', 'ENDFUNCTION']; prev = nm
                L += ['FUNCTION Top(n : INTEGER) RETURNS INTEGER', '  RETURN %s(n) + 1' % prev, 'ENDFUNCTION', 'PROCEDURE Show(v : INTEGER)', '  OUTPUT v', 'ENDPROCEDURE',
                      'PROCEDURE Report(k : INTEGER)', '  DECLARE t : INTEGER'] + ['  ' + l for l in carrier] + ['  OUTPUT "unreachable?"', 'ENDPROCEDURE', 'Scores[2] <- 7', 'CALL Report(2)', 'OUTPUT "after"']
                out.append(Case(J(L), limits=dict(steps=20000), meta=dict(gen='errors-below-' + ck, sample=False)))
    return out

def callers_locals_are_invisible():
    """static scoping for every kind of definition: a routine defines a local variable, constant, array, enumerated type (whose value names
    reuse those of a global type), pointer type or record type, and calls a routine that uses the same name -- which must mean the global
    definition (or be undefined when there is none), before, during and after the nested call"""
    out = []
    kinds = {
        'variable': (['DECLARE X : INTEGER', 'X <- 1'], ['DECLARE X : STRING', 'X <- "local"'], ['OUTPUT X', 'X <- X + 1']),
        'constant': (['CONSTANT X = 1'], ['CONSTANT X = "local"'], ['OUTPUT X', 'OUTPUT X + 1']),
        'array': (['DECLARE X : ARRAY[1:3] OF INTEGER', 'X[2] <- 1'], ['DECLARE X : ARRAY[1:2] OF STRING', 'X[2] <- "local"'], ['OUTPUT X[2]', 'X[3] <- X[2] + 1', 'OUTPUT X[3]']),
        'enum-value': (['TYPE Size = (Small, Mid, Large)'], ['TYPE Level = (Low, Mid, High, Top)'], ['OUTPUT Mid + 1, " ", Mid - 1, " ", Mid + 4', 'DECLARE v : Size', 'v <- Mid', 'OUTPUT v', 'OUTPUT v = Mid']),
        'enum-type': (['TYPE Size = (Small, Mid, Large)'], ['TYPE Size = (Low, High)'], ['DECLARE v : Size', 'v <- Large', 'OUTPUT v', 'OUTPUT v + 1']),
        'pointer-type': (['TYPE P = ^INTEGER', 'DECLARE target : INTEGER', 'target <- 4'], ['TYPE P = ^STRING'], ['DECLARE p : P', 'p <- ^target', 'OUTPUT p^']),
        'record-type': (['TYPE Rec', '  DECLARE n : INTEGER', 'ENDTYPE'], ['TYPE Rec', '  DECLARE s : STRING', '  DECLARE m : REAL', 'ENDTYPE'], ['DECLARE r : Rec', 'r.n <- 3', 'OUTPUT r.n']),
        'procedure-local-type-only': ([], ['TYPE OnlyLocal = (A1, A2)'], ['OUTPUT A2']),
        'local-variable-only': ([], ['DECLARE Y : INTEGER', 'Y <- 5'], ['OUTPUT Y']),
    }
    for kname, (glob, loc, use) in kinds.items():
        for with_global in ((True, False) if glob else (False,)):
            for depth in (1, 2):
                L = list(glob) if with_global else []
                L += ['PROCEDURE Callee()'] + ['  ' + l for l in use] + ['ENDPROCEDURE']
                inner = 'Callee'
                if depth == 2:
                    L += ['PROCEDURE Between()', '  OUTPUT "between"', '  CALL Callee()', 'ENDPROCEDURE']; inner = 'Between'
                L += ['PROCEDURE Caller()'] + ['  ' + l for l in loc] + ['  OUTPUT "caller"', '  CALL %s()' % inner, '  OUTPUT "back"', 'ENDPROCEDURE']
                L += ['CALL Callee()', 'CALL Caller()', 'CALL Callee()'] if with_global else ['CALL Caller()']
                out.append(Case(J(L), limits=dict(steps=20000), meta=dict(gen='callers-locals-' + kname, sample=False)))
    return out

def escaping_pointers():
    """a global pointer set inside a routine to each kind of variable the routine can name -- a BYREF parameter (bound to a global, to an array
    element, to a record field, passed on through a second BYREF level), a BYVAL parameter, a local, an element of a local array, a global --
    and dereferenced for reading and for writing while the routine runs, after it has returned, and after another routine has used the stack"""
    out = []
    pre = ['TYPE IntPtr = ^INTEGER', 'TYPE Rec', '  DECLARE n : INTEGER', 'ENDTYPE', 'DECLARE last : IntPtr', 'DECLARE g, h : INTEGER', 'DECLARE arr : ARRAY[1:3] OF INTEGER', 'DECLARE rec : Rec',
           'g <- 40', 'h <- 10', 'arr[2] <- 20', 'rec.n <- 30',
           'PROCEDURE Noise()', '  DECLARE filler : ARRAY[1:8] OF INTEGER', '  DECLARE k : INTEGER', '  FOR k <- 1 TO 8', '    filler[k] <- 900 + k', '  NEXT k', 'ENDPROCEDURE']
    targets = {
        'byref': (['PROCEDURE Take(BYREF c : INTEGER, BYVAL amount : INTEGER)', '  last <- ^c', '  last^ <- last^ + amount', '  OUTPUT "in ", last^, " ", c', 'ENDPROCEDURE'], 'CALL Take({A}, 2)'),
        'byref-twice': (['PROCEDURE Inner(BYREF c : INTEGER)', '  last <- ^c', '  last^ <- last^ + 1', 'ENDPROCEDURE', 'PROCEDURE Take(BYREF d : INTEGER, BYVAL amount : INTEGER)', '  CALL Inner(d)', '  OUTPUT "in ", last^, " ", d', 'ENDPROCEDURE'], 'CALL Take({A}, 2)'),
        'byval': (['PROCEDURE Take(BYVAL c : INTEGER, BYVAL amount : INTEGER)', '  last <- ^c', '  last^ <- last^ + amount', '  OUTPUT "in ", last^, " ", c', 'ENDPROCEDURE'], 'CALL Take({A}, 2)'),
        'local': (['PROCEDURE Take(BYVAL c : INTEGER, BYVAL amount : INTEGER)', '  DECLARE loc : INTEGER', '  loc <- c', '  last <- ^loc', '  last^ <- last^ + amount', '  OUTPUT "in ", last^, " ", loc', 'ENDPROCEDURE'], 'CALL Take({A}, 2)'),
        'local-array': (['PROCEDURE Take(BYVAL c : INTEGER, BYVAL amount : INTEGER)', '  DECLARE loc : ARRAY[1:2] OF INTEGER', '  loc[2] <- c', '  last <- ^loc[2]', '  last^ <- last^ + amount', '  OUTPUT "in ", last^, " ", loc[2]', 'ENDPROCEDURE'], 'CALL Take({A}, 2)'),
        'function-byref': (['FUNCTION Take(BYREF c : INTEGER, BYVAL amount : INTEGER) RETURNS INTEGER', '  last <- ^c', '  last^ <- last^ + amount', '  RETURN last^', 'ENDFUNCTION'], 'OUTPUT Take({A}, 2)'),
    }
    # a field of a record parameter or of a local record (the record passed is `rec`, whatever {A} is)
    for kind in ('PROCEDURE', 'FUNCTION'):
        for mode in ('BYVAL', 'BYREF', 'LOCAL'):
            hdr = '%s TakeR(%s)' % (kind, ('%s r : Rec, BYVAL c : INTEGER' % mode) if mode != 'LOCAL' else 'BYVAL c : INTEGER') + (' RETURNS INTEGER' if kind == 'FUNCTION' else '')
            body = (['  DECLARE r : Rec', '  r.n <- c'] if mode == 'LOCAL' else []) + ['  last <- ^r.n', '  last^ <- last^ + 2', '  OUTPUT "in ", last^, " ", r.n'] + (['  RETURN last^'] if kind == 'FUNCTION' else [])
            call = ('TakeR(rec, {A})' if mode != 'LOCAL' else 'TakeR({A})')
            targets['record-field-%s-%s' % (mode.lower(), kind.lower())] = ([hdr] + body + ['END' + kind], ('CALL ' + call) if kind == 'PROCEDURE' else ('OUTPUT ' + call))
    for tname, (defs, call) in targets.items():
        for arg in ('g', 'arr[2]', 'rec.n'):
            for noise in (False, True):
                L = pre + defs + [call.replace('{A}', arg), 'OUTPUT "g=", g, " arr=", arr[2], " rec=", rec.n, " h=", h']
                L += [call.replace('{A}', 'h'), 'OUTPUT "h=", h']
                if noise:
                    L.append('CALL Noise()')
                L += ['OUTPUT "last = ", last^', 'last^ <- 0', 'OUTPUT "g=", g, " arr=", arr[2], " rec=", rec.n, " h=", h']
                out.append(Case(J(L), limits=dict(steps=20000), meta=dict(gen='escaping-pointer-' + tname, sample=False)))
                ent = sum(gen.to_entries(L[:-3]), []) + ['last^', 'last^ <- 0', 'g', 'h', 'arr[2]', 'rec.n', 'last^ + 1']
                if not noise:
                    out.append(Case(mode='repl', stdin=J(ent), limits=dict(steps=20000), meta=dict(gen='escaping-pointer-repl-' + tname, sample=False)))
    return out

def byref_argument_resolution():
    """a BYREF argument is an expression of the CALLER: array elements whose index names, record fields and pointer targets whose names also
    exist in the callee (as parameter names, declared before or after the BYREF one) or differ between the calling routine's locals and the
    globals; procedures and functions"""
    out = []
    for kind in ('PROCEDURE', 'FUNCTION'):
        for first in (True, False):          # the clashing parameter before / after the BYREF one
            for clash in ('i', 'A', 'none'):
                for where in ('global', 'routine'):
                    pname = {'i': 'i', 'A': 'A', 'none': 'z'}[clash]
                    params = ['%s : INTEGER' % pname, 'BYREF slot : INTEGER']
                    if not first:
                        params.reverse()
                    hdr = '%s Replace(%s)' % (kind, ', '.join(params)) + (' RETURNS INTEGER' if kind == 'FUNCTION' else '')
                    body = ['  DECLARE old : INTEGER', '  old <- slot', '  slot <- %s * 100' % pname, '  OUTPUT "old ", old'] + (['  RETURN old'] if kind == 'FUNCTION' else [])
                    L = ['DECLARE A : ARRAY[1:8] OF INTEGER', 'DECLARE B : ARRAY[1:8] OF INTEGER', 'DECLARE i, prev, k : INTEGER', 'FOR k <- 1 TO 8', '  A[k] <- k', '  B[k] <- 50 + k', 'NEXT k', 'i <- 2',
                         hdr] + body + ['END' + kind]
                    args = ['7', 'A[i]'] if first else ['A[i]', '7']
                    call = ('prev <- Replace(%s)' if kind == 'FUNCTION' else 'CALL Replace(%s)') % ', '.join(args)
                    call2 = call.replace('A[i]', 'A[i + 1]')
                    if where == 'global':
                        L += [call, call2]
                    else:
                        L += ['PROCEDURE Outer()', '  DECLARE A : ARRAY[1:8] OF INTEGER', '  DECLARE i : INTEGER', '  DECLARE prev : INTEGER', '  i <- 5', '  A[5] <- 555', '  A[6] <- 666', '  ' + call, '  ' + call2,
                              '  OUTPUT "local ", A[5], " ", A[6]', 'ENDPROCEDURE', 'CALL Outer()']
                    L += ['FOR k <- 1 TO 8', '  OUTPUT A[k], " ", B[k]', 'NEXT k', 'OUTPUT i']
                    out.append(Case(J(L), limits=dict(steps=20000), meta=dict(gen='byref-argument-resolution', sample=False)))
    return out

def state_dependent_type_bodies():
    """record types whose body depends on the state when it runs (an array bound or an initial value taken from a global): variables declared
    under one state keep their shape when the state changes; whole-record assignment, array-element store, BYVAL, RETURN and file records
    copy what is there, nested one and two levels deep"""
    out = []
    for nest in (0, 1, 2):
        for lower in (True, False):
            L = ['DECLARE Capacity : INTEGER', 'Capacity <- 3', 'TYPE Shelf', '  DECLARE count : INTEGER', '  DECLARE slots : ARRAY[1:Capacity] OF INTEGER', 'ENDTYPE']
            path = ''
            outer = 'Shelf'
            if nest >= 1:
                L += ['TYPE Cabinet', '  DECLARE label : STRING', '  DECLARE top : Shelf', 'ENDTYPE']; outer = 'Cabinet'; path = 'top.'
            if nest >= 2:
                L += ['TYPE Room', '  DECLARE cab : Cabinet', '  DECLARE tag : INTEGER', 'ENDTYPE']; outer = 'Room'; path = 'cab.top.'
            L += ['DECLARE a, b, c, d : %s' % outer, 'DECLARE row : ARRAY[1:2] OF %s' % outer, 'FUNCTION Current() RETURNS %s' % outer, '  RETURN a', 'ENDFUNCTION',
                  'PROCEDURE Show(BYVAL v : %s)' % outer, '  OUTPUT "byval ", v.%sslots[1], " ", v.%sslots[2], " ", v.%sslots[3]' % (path, path, path), 'ENDPROCEDURE',
                  'a.%scount <- 3' % path, 'a.%sslots[1] <- 11' % path, 'a.%sslots[2] <- 22' % path, 'a.%sslots[3] <- 33' % path,
                  'Capacity <- %d' % (2 if lower else 5), 'DECLARE other : %s' % outer, 'other.%sslots[2] <- 5' % path,
                  'b <- a', 'OUTPUT "assign ", b.%sslots[1], " ", b.%sslots[2], " ", b.%sslots[3]' % (path, path, path),
                  'row[2] <- a', 'OUTPUT "element ", row[2].%sslots[1], " ", row[2].%sslots[3]' % (path, path),
                  'c <- Current()', 'OUTPUT "return ", c.%sslots[1], " ", c.%sslots[3]' % (path, path), 'CALL Show(a)',
                  'OPENFILE "r.dat" FOR RANDOM', 'SEEK "r.dat", 1', 'PUTRECORD "r.dat", a', 'SEEK "r.dat", 1', 'GETRECORD "r.dat", d', 'CLOSEFILE "r.dat"',
                  'OUTPUT "file ", d.%sslots[1], " ", d.%sslots[3]' % (path, path),
                  'a.%sslots[3] <- 99' % path, 'b.%sslots[1] <- 7' % path, 'OUTPUT "after ", a.%sslots[3], " ", b.%sslots[3], " ", c.%sslots[3], " ", row[2].%sslots[3]' % (path, path, path, path),
                  'other <- a', 'OUTPUT "into other ", other.%sslots[1], " ", other.%sslots[2]' % (path, path), 'OUTPUT other.%sslots[3]' % path]
            out.append(Case(J(L), limits=dict(steps=20000), meta=dict(gen='state-dependent-type-bodies', sample=False)))
    return out

def loop_counter_rebound():
    """a FOR loop whose counter name comes to mean something else while the loop runs (a local variable of another type, a constant or an
    array of that name declared in the body on some pass; global counter, local counter, BYREF counter): the loop goes on counting with the
    variable it started with, and the new one is left alone"""
    out = []
    hides = {'real': ['DECLARE Index : REAL'], 'string': ['DECLARE Index : STRING'], 'constant': ['CONSTANT Index = 100'], 'array': ['DECLARE Index : ARRAY[1:2] OF INTEGER'], 'integer': ['DECLARE Index : INTEGER']}
    for hname, hide in hides.items():
        for at in (1, 2):
            for counter in ('global', 'byref'):
                L = ['DECLARE Index : INTEGER', 'DECLARE Pass : INTEGER', 'Pass <- 0', 'DECLARE Other : INTEGER',
                     'PROCEDURE Tally(%s)' % ('BYREF Index : INTEGER' if counter == 'byref' else 'BYVAL unused : INTEGER'),
                     '  FOR Index <- 1 TO 3', '    Pass <- Pass + 1', '    IF Pass = %d THEN' % at] + ['      ' + h for h in hide] + ['    ENDIF']
                L += (['    OUTPUT "pass ", Pass'] if hname == 'array' else ['    OUTPUT "pass ", Pass, " Index = ", Index']) + ['  NEXT Index'] + ([] if hname == 'array' else ['  OUTPUT "after the loop ", Index']) + ['ENDPROCEDURE']
                L += ['CALL Tally(%s)' % ('Other' if counter == 'byref' else '0'), 'OUTPUT "passes = ", Pass', 'OUTPUT "global Index = ", Index, " Other = ", Other']
                out.append(Case(J(L), limits=dict(steps=20000), meta=dict(gen='loop-counter-rebound', sample=False)))
    return out

def date_literal_positions():
    """a date literal after every kind of token (each operator, '(', ',', '<-', a keyword, the start of a line), valid and invalid dates,
    with and without blanks: one REPL session of probes and the same as single-statement programs"""
    pre = ['x <- 6', 'DECLARE d : DATE', 'd <- 2/3/2004']
    probes = []
    for date in ('1/2/2003', '31/2/2021', '29/2/2020', '1/13/2020'):
        probes += ['%s' % date, 'x/%s' % date, 'x / %s' % date, 'x /%s' % date, '12/%s' % date, 'x - %s' % date, 'x-%s' % date, 'x * %s' % date, 'd = %s' % date, 'd=%s' % date, 'd < %s' % date, 'd<>%s' % date,
                   '(%s)' % date, 'DAY(%s)' % date, 'DAYINDEX( %s )' % date, 'SETDATE(1,%s, 3)' % date.split('/')[0], 'd <- %s' % date, 'd', 'OUTPUT %s' % date, 'OUTPUT x,%s' % date, '"s" & %s' % date,
                   '%s = %s' % (date, date), '%s/%s' % (date, date), '%s /2' % date, 'NOT %s' % date, 'x/1/%s' % date[2:]]
    out = [Case(mode='repl', stdin=J(pre + probes), limits=dict(steps=60000), meta=dict(gen='date-literal-positions', sample=False))]
    for p in probes[::3]:
        stmt = p if (p.startswith(('d <-', 'OUTPUT')) ) else 'OUTPUT ' + p
        out.append(Case(J(pre + [stmt, 'OUTPUT "after"']), limits=dict(steps=5000), meta=dict(gen='date-literal-positions-file', sample=False)))
    return out

def alias_used_after_value_replaced():
    """a STRING or INTEGER reached through an alias (BYREF parameter, BYREF passed on, pointer target) whose value object is replaced by a
    statement that stores a new value (READFILE, INPUT, GETRECORD, assignment) and is then used through the same alias in every reading
    position: OUTPUT, PUTRECORD, WRITEFILE, built-in and user calls BYVAL and BYREF, comparison, copy; the files are read back afterwards"""
    out = []
    files = {'in.txt': b'alpha\nbeta\ngamma\n', 'seed.dat': b'STRING 6 record\nSTRING 3 two\n', 'seedn.dat': b'INTEGER 41\nINTEGER 42\n'}
    pre = ['DECLARE buf, other : STRING', 'DECLARE num, onum : INTEGER', 'buf <- "start"', 'num <- 1', 'OPENFILE "in.txt" FOR READ', 'OPENFILE "seed.dat" FOR RANDOM', 'OPENFILE "seedn.dat" FOR RANDOM',
           'OPENFILE "out.dat" FOR RANDOM', 'OPENFILE "log.txt" FOR WRITE',
           'PROCEDURE Show(BYVAL v : STRING)', '  OUTPUT "show ", v', 'ENDPROCEDURE', 'PROCEDURE Touch(BYREF v : STRING)', '  v <- v & "!"', 'ENDPROCEDURE',
           'PROCEDURE ShowN(BYVAL v : INTEGER)', '  OUTPUT "show ", v', 'ENDPROCEDURE', 'PROCEDURE TouchN(BYREF v : INTEGER)', '  v <- v + 100', 'ENDPROCEDURE']
    srepl = ['READFILE "in.txt", {A}', 'INPUT {A}', 'GETRECORD "seed.dat", {A}', '{A} <- {A} & "+"', '{A} <- "fresh"']
    nrepl = ['INPUT {A}', 'GETRECORD "seedn.dat", {A}', '{A} <- {A} + 1']
    suses = ['OUTPUT {A}', 'SEEK "out.dat", 1', 'PUTRECORD "out.dat", {A}', 'WRITEFILE "log.txt", {A}', 'OUTPUT LENGTH({A})', 'CALL Show({A})', 'CALL Touch({A})', 'OUTPUT {A} = buf', 'other <- {A}', 'OUTPUT other',
             'SEEK "out.dat", 2', 'PUTRECORD "out.dat", {A}', 'OUTPUT {A} & "|"']
    nuses = ['OUTPUT {A}', 'SEEK "out.dat", 1', 'PUTRECORD "out.dat", {A}', 'WRITEFILE "log.txt", {A}', 'OUTPUT {A} + 1', 'CALL ShowN({A})', 'CALL TouchN({A})', 'OUTPUT {A} = num', 'onum <- {A}', 'OUTPUT onum',
             'SEEK "out.dat", 2', 'PUTRECORD "out.dat", {A}']
    tail = ['CLOSEFILE "out.dat"', 'CLOSEFILE "log.txt"', 'OPENFILE "out.dat" FOR RANDOM', 'SEEK "out.dat", 1', 'GETRECORD "out.dat", {V}', 'OUTPUT "record 1 ", {V}', 'SEEK "out.dat", 2', 'GETRECORD "out.dat", {V}',
            'OUTPUT "record 2 ", {V}', 'OPENFILE "log.txt" FOR READ', 'READFILE "log.txt", other', 'OUTPUT "log ", other']
    for ty, var, repls, uses in (('STRING', 'buf', srepl, suses), ('INTEGER', 'num', nrepl, nuses)):
        for rp in repls:
            for twice in (False, True):
                for alias in ('byref', 'byref-twice', 'pointer', 'function-byref'):
                    body = [rp] + uses + ([rp] + uses[:4] if twice else [])
                    if alias == 'pointer':
                        L = pre + ['TYPE Ptr = ^%s' % ty, 'DECLARE p : Ptr', 'p <- ^%s' % var] + [l.replace('{A}', 'p^') for l in body]
                    elif alias == 'byref':
                        L = pre + ['PROCEDURE Work(BYREF p : %s)' % ty] + ['  ' + l.replace('{A}', 'p') for l in body] + ['ENDPROCEDURE', 'CALL Work(%s)' % var]
                    elif alias == 'function-byref':
                        L = pre + ['FUNCTION Work(BYREF p : %s) RETURNS INTEGER' % ty] + ['  ' + l.replace('{A}', 'p') for l in body] + ['  RETURN 0', 'ENDFUNCTION', 'OUTPUT Work(%s)' % var]
                    else:
                        L = pre + ['PROCEDURE Work(BYREF p : %s)' % ty] + ['  ' + l.replace('{A}', 'p') for l in body] + ['ENDPROCEDURE',
                                   'PROCEDURE Outer(BYREF q : %s)' % ty, '  CALL Work(q)', '  OUTPUT "outer ", q', 'ENDPROCEDURE', 'CALL Outer(%s)' % var]
                    L += ['OUTPUT "variable ", %s' % var] + [l.replace('{V}', var) for l in tail]
                    out.append(Case(J(L), stdin=b'7\n8\n9\n', files=dict(files), limits=dict(steps=20000), meta=dict(gen='alias-after-replace-' + alias, sample=False)))
    return out


# ------------------------------------------------------------------ round g
def parameter_list_shapes():
    """parameter lists of every shape: names sharing a type (a, b : T), the pass mode written once and carried over, the mode changing after a
    shared group, records / arrays-of-record elements / scalars in each position; the body writes to every parameter and the caller prints
    every argument afterwards (BYVAL: unchanged, BYREF: changed); procedures and functions"""
    out = []
    shapes = [
        ['BYREF a, b : Point', 'BYVAL s : Step'],
        ['BYVAL a, b : Point', 'BYREF s : Step'],
        ['BYREF a : Point', 'b : Point', 'BYVAL s : Step'],
        ['a, b : Point', 'BYREF s : Step'],
        ['BYREF a, b : Point', 's : Step'],
        ['BYVAL s : Step', 'BYREF a, b : Point'],
        ['BYREF s : Step', 'BYVAL a, b : Point', 'BYREF n : INTEGER'],
        ['BYREF n, m : INTEGER', 'BYVAL a : Point', 'b : Point', 'BYREF s : Step'],
        ['BYVAL n, m : INTEGER', 'BYREF a, b : Point', 'BYVAL s : Step', 'BYREF k : INTEGER'],
        ['n : INTEGER', 'a, b : Point', 's : Step'],
    ]
    pre = ['TYPE Point', '  DECLARE x : INTEGER', '  DECLARE tags : ARRAY[1:2] OF INTEGER', 'ENDTYPE', 'TYPE Inner', '  DECLARE w : INTEGER', 'ENDTYPE',
           'TYPE Step', '  DECLARE d : INTEGER', '  DECLARE sub : Inner', 'ENDTYPE',
           'DECLARE p, q : Point', 'DECLARE st : Step', 'DECLARE i, j, kk : INTEGER', 'p.x <- 1', 'q.x <- 2', 'p.tags[1] <- 11', 'q.tags[2] <- 22', 'st.d <- 3', 'st.sub.w <- 4', 'i <- 5', 'j <- 6', 'kk <- 7']
    argof = {'a': 'p', 'b': 'q', 's': 'st', 'n': 'i', 'm': 'j', 'k': 'kk'}
    write = {'a': ['a.x <- a.x + 100', 'a.tags[1] <- 111'], 'b': ['b.x <- b.x + 100', 'b.tags[2] <- 222'], 's': ['s.d <- s.d + 100', 's.sub.w <- 444'], 'n': ['n <- n + 100'], 'm': ['m <- m + 100'], 'k': ['k <- k + 100']}
    show = 'OUTPUT p.x, " ", p.tags[1], " ", q.x, " ", q.tags[2], " ", st.d, " ", st.sub.w, " ", i, " ", j, " ", kk'
    import re as _re
    for sh in shapes:
        names = []
        for part in sh:
            names += [x.strip() for x in _re.sub(r'^(BYREF|BYVAL)\s+', '', part).split(':')[0].split(',')]
        for kind in ('PROCEDURE', 'FUNCTION'):
            hdr = '%s Move(%s)' % (kind, ', '.join(sh)) + (' RETURNS INTEGER' if kind == 'FUNCTION' else '')
            body = sum([write[n] for n in names], [])
            L = pre + [hdr] + ['  ' + b for b in body] + (['  RETURN 0'] if kind == 'FUNCTION' else []) + ['END' + kind, show]
            call = 'Move(%s)' % ', '.join(argof[n] for n in names)
            L += [('CALL ' + call) if kind == 'PROCEDURE' else ('OUTPUT ' + call), show, ('CALL ' + call) if kind == 'PROCEDURE' else ('OUTPUT ' + call), show]
            out.append(Case(J(L), limits=dict(steps=20000), meta=dict(gen='parameter-list-shapes', sample=False)))
    return out

def stray_signals_after_legal_ones():
    """a BREAK / CONTINUE / RETURN that is legal is executed first, then another one that is not (outside any loop of its own routine, at the
    top level, in a procedure, in a function called from a loop of the caller, in a loop condition): the diagnostic names the statement that
    failed, and a stray signal never ends or continues a loop of the caller"""
    out = []
    legal = {'BREAK': ['FOR w <- 1 TO 3', '  IF w = 2 THEN', '    BREAK', '  ENDIF', 'NEXT w', 'OUTPUT "warm ", w'],
             'CONTINUE': ['FOR w <- 1 TO 3', '  IF w = 2 THEN', '    CONTINUE', '  ENDIF', '  OUTPUT "warm ", w', 'NEXT w']}
    for sig in ('BREAK', 'CONTINUE'):
        for place in ('top', 'procedure', 'function', 'function-in-loop', 'function-in-condition', 'procedure-in-loop', 'nested-if'):
            for warm in (True, False):
                L = ['DECLARE w, n : INTEGER'] + (legal[sig] if warm else [])
                if place == 'top':
                    L += ['OUTPUT "before"', 'IF n = 0 THEN', '  ' + sig, 'ENDIF', 'OUTPUT "after"']
                elif place == 'nested-if':
                    L += ['OUTPUT "before"', 'IF n = 0 THEN', '  IF n < 1 THEN', '    OUTPUT "inner"', '    ' + sig, '  ENDIF', 'ENDIF', 'OUTPUT "after"']
                elif place == 'procedure':
                    L += ['PROCEDURE Stray()', '  OUTPUT "in"', '  IF n = 0 THEN', '    ' + sig, '  ENDIF', '  OUTPUT "still in"', 'ENDPROCEDURE', 'CALL Stray()', 'OUTPUT "after"']
                elif place == 'procedure-in-loop':
                    L += ['PROCEDURE Stray()', '  OUTPUT "in"', '  ' + sig, 'ENDPROCEDURE', 'FOR n <- 1 TO 3', '  OUTPUT "pass ", n', '  CALL Stray()', '  OUTPUT "rest ", n', 'NEXT n', 'OUTPUT "after"']
                elif place == 'function':
                    L += ['FUNCTION Stray() RETURNS INTEGER', '  IF n = 0 THEN', '    ' + sig, '  ENDIF', '  RETURN 1', 'ENDFUNCTION', 'OUTPUT Stray()', 'OUTPUT "after"']
                elif place == 'function-in-loop':
                    L += ['FUNCTION Stray(v : INTEGER) RETURNS INTEGER', '  IF v = 2 THEN', '    ' + sig, '  ENDIF', '  RETURN v * 10', 'ENDFUNCTION',
                          'FOR n <- 1 TO 3', '  OUTPUT "pass ", n', '  OUTPUT Stray(n)', '  OUTPUT "rest ", n', 'NEXT n', 'OUTPUT "after"']
                else:
                    L += ['FUNCTION Stray(v : INTEGER) RETURNS BOOLEAN', '  IF v = 2 THEN', '    ' + sig, '  ENDIF', '  RETURN v < 3', 'ENDFUNCTION',
                          'n <- 0', 'FOR w <- 1 TO 2', '  n <- 0', '  WHILE Stray(n)', '    n <- n + 1', '    OUTPUT "inner ", n', '  ENDWHILE', '  OUTPUT "outer ", w', 'NEXT w', 'OUTPUT "after"']
                out.append(Case(J(L), limits=dict(steps=20000), meta=dict(gen='stray-signal-' + place, sample=False)))
                if place in ('top', 'procedure', 'function'):
                    ent = sum(gen.to_entries(L), []) + ['"next"', sig, '1 + 1']
                    out.append(Case(mode='repl', stdin=J(ent), limits=dict(steps=20000), meta=dict(gen='stray-signal-repl-' + place, sample=False)))
    for place in ('top', 'procedure'):
        L = ['FUNCTION Ok() RETURNS INTEGER', '  RETURN 1', 'ENDFUNCTION', 'OUTPUT Ok()']
        L += (['OUTPUT "before"', 'RETURN 5', 'OUTPUT "after"'] if place == 'top' else ['PROCEDURE P()', '  OUTPUT "in"', '  RETURN 5', 'ENDPROCEDURE', 'CALL P()', 'OUTPUT "after"'])
        out.append(Case(J(L), limits=dict(steps=20000), meta=dict(gen='stray-return-' + place, sample=False)))
    return out

def input_at_end_of_input_with_files_open():
    """INPUT (and READ) reached when standard input has no line left -- at once, or after the lines that were there -- while WRITE, APPEND
    and RANDOM handles hold data not yet closed, in the main program, in a routine and at the prompt: the program goes on (INPUT yields an
    empty line) and everything written reaches the files"""
    out = []
    for handle in ('write', 'append', 'random', 'two'):
        for where in ('main', 'procedure', 'function'):
            for nlines in (0, 1):
                opens = {'write': ['OPENFILE "j.txt" FOR WRITE', 'WRITEFILE "j.txt", "one"', 'WRITEFILE "j.txt", "two"'],
                         'append': ['OPENFILE "old.txt" FOR APPEND', 'WRITEFILE "old.txt", "added"'],
                         'random': ['OPENFILE "r.dat" FOR RANDOM', 'rec <- "r1"', 'PUTRECORD "r.dat", rec', 'SEEK "r.dat", 2', 'rec <- "r2"', 'PUTRECORD "r.dat", rec'],
                         'two': ['OPENFILE "j.txt" FOR WRITE', 'WRITEFILE "j.txt", "one"', 'OPENFILE "r.dat" FOR RANDOM', 'rec <- "r1"', 'PUTRECORD "r.dat", rec']}[handle]
                ask = ['INPUT Answer', 'OUTPUT "got [", Answer, "]"', 'INPUT Second', 'OUTPUT "got [", Second, "]"']
                L = ['DECLARE Answer, Second, rec : STRING'] + opens + ['OUTPUT "opened"']
                if where == 'main':
                    L += ask
                elif where == 'procedure':
                    L += ['PROCEDURE Ask()'] + ['  ' + a for a in ask] + ['ENDPROCEDURE', 'CALL Ask()']
                else:
                    L += ['FUNCTION Ask() RETURNS INTEGER'] + ['  ' + a for a in ask] + ['  RETURN 1', 'ENDFUNCTION', 'OUTPUT Ask()']
                L += ['OUTPUT "after"'] + (['WRITEFILE "j.txt", "answer=" & Answer'] if handle in ('write', 'two') else [])
                for closes in (True, False):
                    L2 = L + ((['CLOSEFILE "j.txt"'] if handle in ('write', 'two') else []) + (['CLOSEFILE "old.txt"'] if handle == 'append' else []) + (['CLOSEFILE "r.dat"'] if handle in ('random', 'two') else []) if closes else []) + ['OUTPUT "end"']
                    out.append(Case(J(L2), stdin=b'typed\n' * nlines, files={'old.txt': b'kept\n'}, limits=dict(steps=20000), meta=dict(gen='input-at-end-with-files', sample=False)))
                if where == 'main':
                    out.append(Case(mode='repl', stdin=J(L[:-1] if handle not in ('write', 'two') else L[:-2]), files={'old.txt': b'kept\n'}, limits=dict(steps=20000), meta=dict(gen='input-at-end-with-files-repl', sample=False)))
    return out

def continue_and_break_positions():
    """CONTINUE and BREAK in every loop kind, taken on the first, a middle and the LAST pass, after a statement that changes what the loop
    condition reads (a counter, the read position of a file): the condition is tested again after CONTINUE exactly as after a normal pass"""
    out = []
    files = {'lines.txt': b'a\n---\nb\nc\n---\n'}
    for sig in ('CONTINUE', 'BREAK'):
        for at in (1, 2, 3):
            loops = {
                'while': ['n <- 0', 'WHILE n < 3', '  n <- n + 1', '  OUTPUT "pass ", n', '  IF n = %d THEN' % at, '    ' + sig, '  ENDIF', '  OUTPUT "rest ", n', 'ENDWHILE', 'OUTPUT "after ", n'],
                'repeat': ['n <- 0', 'REPEAT', '  n <- n + 1', '  OUTPUT "pass ", n', '  IF n = %d THEN' % at, '    ' + sig, '  ENDIF', '  OUTPUT "rest ", n', 'UNTIL n >= 3', 'OUTPUT "after ", n'],
                'for': ['FOR n <- 1 TO 3', '  OUTPUT "pass ", n', '  IF n = %d THEN' % at, '    ' + sig, '  ENDIF', '  OUTPUT "rest ", n', 'NEXT n', 'OUTPUT "after ", n'],
                'for-down': ['FOR n <- 3 TO 1 STEP -1', '  OUTPUT "pass ", n', '  IF n = %d THEN' % (4 - at), '    ' + sig, '  ENDIF', '  OUTPUT "rest ", n', 'NEXT n', 'OUTPUT "after ", n'],
                'while-nested': ['n <- 0', 'WHILE n < 3', '  n <- n + 1', '  FOR m <- 1 TO 2', '    IF (n = %d) AND (m = 2) THEN' % at, '      ' + sig, '    ENDIF', '    OUTPUT n, " ", m', '  NEXT m', 'ENDWHILE', 'OUTPUT "after ", n'],
            }
            for lname, body in loops.items():
                for where in ('main', 'procedure'):
                    L = ['DECLARE n, m : INTEGER'] + (body if where == 'main' else ['PROCEDURE Run()'] + ['  ' + b for b in body] + ['ENDPROCEDURE', 'CALL Run()', 'CALL Run()'])
                    out.append(Case(J(L), limits=dict(steps=20000), meta=dict(gen='loop-signal-' + lname, sample=False)))
        # the read loop over a file: the signal taken on the pass that consumed the last line
        for last in ('---', 'c'):
            content = b'a\n---\nb\nc\n' + (b'---\n' if last == '---' else b'')
            L = ['DECLARE line : STRING', 'DECLARE fields : INTEGER', 'OPENFILE "lines.txt" FOR READ', 'fields <- 0', 'WHILE NOT EOF("lines.txt")', '  READFILE "lines.txt", line', '  OUTPUT "[", line, "]"',
                 '  IF line = "---" THEN', '    ' + sig, '  ENDIF', '  fields <- fields + 1', 'ENDWHILE', 'OUTPUT "fields=", fields', 'CLOSEFILE "lines.txt"']
            out.append(Case(J(L), files={'lines.txt': content}, limits=dict(steps=20000), meta=dict(gen='loop-signal-read-loop', sample=False)))
            L = ['DECLARE line : STRING', 'DECLARE fields : INTEGER', 'OPENFILE "lines.txt" FOR READ', 'fields <- 0', 'REPEAT', '  READFILE "lines.txt", line', '  OUTPUT "[", line, "]"',
                 '  IF line = "---" THEN', '    ' + sig, '  ENDIF', '  fields <- fields + 1', 'UNTIL EOF("lines.txt")', 'OUTPUT "fields=", fields', 'CLOSEFILE "lines.txt"']
            out.append(Case(J(L), files={'lines.txt': content}, limits=dict(steps=20000), meta=dict(gen='loop-signal-read-loop', sample=False)))
    return out

def history_independence():
    """a block of probes (numeric conversions both ways, REAL output, REAL arithmetic, string and date built-ins) evaluated before and again
    after each operator and built-in has been executed on operands of every accepted type (REAL DIV and MOD, INT, RAND, comparisons, casts,
    failed conversions at the prompt): what an expression yields never depends on what was evaluated before it"""
    probes = ['OUTPUT NUM_TO_STR(0.3), " ", NUM_TO_STR(19.99), " ", NUM_TO_STR(2.675), " ", NUM_TO_STR(1 / 3)',
              'OUTPUT STR_TO_NUM("0.1") = 0.1, " ", STR_TO_NUM("2.7") = 2.7, " ", REAL("19.99") = 19.99, " ", STR_TO_NUM(NUM_TO_STR(19.99)) = 19.99',
              'OUTPUT 0.1 + 0.2, " ", 1 / 3, " ", 2 / 3, " ", 10 / 4, " ", 0.1 * 3, " ", 1.1 * 1.1, " ", 7.0 - 0.7',
              'OUTPUT INT(2.7), " ", INT(0 - 2.7), " ", 7.5 DIV 2, " ", 7 DIV 2, " ", 7.5 MOD 2, " ", INTEGER(2.999999), " ", REAL(3)',
              'OUTPUT MID("abcdef", 2, 3), " ", LENGTH("abc"), " ", TO_UPPER("abc"), " ", 1/2/2003 < 2/2/2003, " ", DAYINDEX(1/2/2003)']
    ops = ['x <- 7.5 DIV 2', 'x <- 7 DIV 2.5', 'x <- 7.5 DIV 2.5', 'x <- DIV(7.5, 2)', 'x <- 7.5 MOD 2', 'x <- MOD(7.5, 2.5)', 'x <- INT(0 - 2.5)', 'r <- RAND(10)', 'r <- 1 / 3', 'r <- 0.1 + 0.2',
           'x <- INTEGER(2.9)', 'r <- REAL("0.3")', 'r <- STR_TO_NUM("0.7")', 's <- NUM_TO_STR(0.7)', 'b <- 0.1 + 0.2 = 0.3', 'b <- 1.5 < 2', 'x <- INTEGER("12")', 'r <- SQRT(2.0)', 's <- STRING(2.5)',
           'r <- 0 - 0.1', 'x <- 9223372036854775807 + 1', 'x <- 7 DIV (0 - 2)', 'r <- 7.5 / 0.3']
    pre = ['DECLARE x : INTEGER', 'DECLARE r : REAL', 'DECLARE s : STRING', 'DECLARE b : BOOLEAN']
    out = []
    for op in ops:
        L = pre + probes + ['OUTPUT "-- after ", "%s"' % op.replace('"', "'"), op] + probes
        out.append(Case(J(L), limits=dict(steps=20000), meta=dict(gen='history-independence', sample=False)))
    # one REPL session: probes, then every operation followed by the probes (echo forms), failed operations included
    ent = list(pre)
    for p in probes:
        ent.append(p)
    for op in ops + ['x <- 1 DIV 0', 'r <- STR_TO_NUM("abc")', 'x <- INTEGER("x")', 'r <- 1.0 / 0']:
        ent += [op, 'NUM_TO_STR(0.3)', 'STR_TO_NUM("0.1") = 0.1', '0.1 + 0.2', '7.5 DIV 2', 'NUM_TO_STR(19.99)', '1 / 3']
    out.append(Case(mode='repl', stdin=J(ent), limits=dict(steps=60000), meta=dict(gen='history-independence-repl', sample=False)))
    return out

def pointer_targets_across_user_types():
    """`p <- ^v` where the pointer type's target is a user type and v is of ANOTHER user type of the same kind (two enumerated types, two
    record types, two pointer types), or of the right one; also through array elements and record fields: always rejected for the other
    type, and p^ afterwards still yields values of the declared type"""
    out = []
    pre = ['TYPE Season = (Spring, Summer, Autumn, Winter)', 'TYPE Day = (Mon, Tue, Wed)', 'TYPE Account', '  DECLARE balance : INTEGER', 'ENDTYPE', 'TYPE Student', '  DECLARE balance : INTEGER', '  DECLARE year : INTEGER', 'ENDTYPE',
           'TYPE IntPtr = ^INTEGER', 'TYPE RealPtr = ^REAL', 'TYPE SeasonPtr = ^Season', 'TYPE AccountPtr = ^Account', 'TYPE IntPtrPtr = ^IntPtr',
           'DECLARE s : Season', 'DECLARE d : Day', 'DECLARE a : Account', 'DECLARE st : Student', 'DECLARE ip : IntPtr', 'DECLARE rp : RealPtr', 'DECLARE n : INTEGER', 'DECLARE x : REAL',
           'DECLARE sp : SeasonPtr', 'DECLARE ap : AccountPtr', 'DECLARE pp : IntPtrPtr', 'DECLARE days : ARRAY[1:2] OF Day', 'DECLARE seasons : ARRAY[1:2] OF Season',
           's <- Summer', 'd <- Tue', 'a.balance <- 10', 'st.balance <- 20', 'st.year <- 3', 'n <- 7', 'x <- 7.5', 'ip <- ^n', 'rp <- ^x', 'days[1] <- Wed', 'seasons[1] <- Winter']
    tries = [('sp', '^s', 'sp^'), ('sp', '^d', 'sp^'), ('sp', '^days[1]', 'sp^'), ('sp', '^seasons[1]', 'sp^'), ('ap', '^a', 'ap^.balance'), ('ap', '^st', 'ap^.balance'),
             ('pp', '^ip', 'pp^^'), ('pp', '^rp', 'pp^^'), ('ip', '^x', 'ip^'), ('ip', '^st.year', 'ip^'), ('sp', '^n', 'sp^')]
    for p, src, rd in tries:
        L = pre + ['%s <- %s' % (p, src), 'OUTPUT "accepted"', 'OUTPUT %s' % rd]
        out.append(Case(J(L), limits=dict(steps=5000), meta=dict(gen='pointer-targets-across-types', sample=False)))
        L = pre + ['PROCEDURE Set()', '  %s <- %s' % (p, src), '  OUTPUT "accepted"', 'ENDPROCEDURE', 'CALL Set()', 'OUTPUT %s' % rd]
        out.append(Case(J(L), limits=dict(steps=5000), meta=dict(gen='pointer-targets-across-types', sample=False)))
    ent = sum(gen.to_entries(pre), [])
    for p, src, rd in tries:
        ent += ['%s <- %s' % (p, src), rd]
    out.append(Case(mode='repl', stdin=J(ent), limits=dict(steps=20000), meta=dict(gen='pointer-targets-across-types-repl', sample=False)))
    return out

def argument_type_errors_by_position():
    """an argument of a wrong type (another enumerated type, another record type, STRING for INTEGER) or of a convertible type (INTEGER for
    REAL, CHAR for STRING) at each position of parameter lists that mix BYREF and BYVAL: the wrong type is rejected before the body runs,
    whatever stands before it in the list; the convertible one is converted for BYVAL and rejected for BYREF"""
    out = []
    pre = ['TYPE Color = (Red, Green, Blue)', 'TYPE Season = (Spring, Summer, Autumn, Winter)', 'TYPE A', '  DECLARE v : INTEGER', 'ENDTYPE', 'TYPE B', '  DECLARE v : INTEGER', 'ENDTYPE',
           'DECLARE count : INTEGER', 'DECLARE ratio : REAL', 'DECLARE shade : Color', 'DECLARE when : Season', 'DECLARE ra : A', 'DECLARE rb : B', 'DECLARE txt : STRING', 'DECLARE ch : CHAR',
           'count <- 1', 'ratio <- 1.5', 'shade <- Green', 'when <- Winter', 'ra.v <- 1', 'rb.v <- 2', 'txt <- "t"', "ch <- 'c'"]
    params = {'INTEGER': ('n', 'count', ['txt', 'ratio', 'shade']), 'REAL': ('x', 'ratio', ['count', 'txt']), 'Color': ('c', 'shade', ['when', 'count']),
              'A': ('r', 'ra', ['rb', 'count']), 'STRING': ('t', 'txt', ['ch', 'count'])}
    import itertools as _it
    for m1, m2 in _it.product(('BYREF', 'BYVAL'), repeat=2):
        for t1, t2 in (('INTEGER', 'Color'), ('Color', 'INTEGER'), ('INTEGER', 'REAL'), ('A', 'STRING'), ('REAL', 'A'), ('STRING', 'Color')):
            n1, ok1, bad1 = params[t1]; n2, ok2, bad2 = params[t2]
            for kind in ('PROCEDURE', 'FUNCTION'):
                hdr = '%s Paint(%s %s : %s, %s %s : %s)' % (kind, m1, n1, t1, m2, n2 + '2', t2) + (' RETURNS INTEGER' if kind == 'FUNCTION' else '')
                body = ['  OUTPUT "body runs"'] + (['  OUTPUT %s2 + 1' % n2] if t2 in ('Color', 'INTEGER', 'REAL') else ['  OUTPUT "second"']) + (['  RETURN 0'] if kind == 'FUNCTION' else [])
                calls = [(ok1, ok2)] + [(ok1, b) for b in bad2] + [(b, ok2) for b in bad1]
                for a1, a2 in calls:
                    call = 'Paint(%s, %s)' % (a1, a2)
                    L = pre + [hdr] + body + ['END' + kind, ('CALL ' + call) if kind == 'PROCEDURE' else ('OUTPUT ' + call), 'OUTPUT "after"']
                    out.append(Case(J(L), limits=dict(steps=5000), meta=dict(gen='argument-type-by-position', sample=False)))
    return out

def names_differing_in_case():
    """identifiers are case sensitive: a name that differs from a declared one only in letter case is another name -- undeclared (an error
    under --pedantic, a new variable otherwise) in assignment, INPUT, FOR, expressions, calls, field and type names, in the main program and
    in routines, with the declared name global or local"""
    out = []
    uses = {'assign': ['total <- 5', 'OUTPUT "t ", total'], 'input': ['INPUT total', 'OUTPUT "t ", total'], 'for': ['FOR total <- 1 TO 2', '  OUTPUT "it"', 'NEXT total'], 'read': ['OUTPUT total + 1'],
            'upper': ['TOTAL <- 6', 'OUTPUT "T ", TOTAL'], 'element': ['list[1] <- 3', 'OUTPUT List[1]'], 'call': ['CALL show()'], 'function': ['OUTPUT twice(2)'], 'field': ['rec.N <- 4', 'OUTPUT rec.n'],
            'type': ['DECLARE z : point', 'OUTPUT "declared"'], 'enum': ['OUTPUT red'], 'constant': ['OUTPUT limit'], 'readfile': ['OPENFILE "in.txt" FOR READ', 'READFILE "in.txt", line', 'OUTPUT Line, "|", line']}
    pre = ['TYPE Point', '  DECLARE n : INTEGER', 'ENDTYPE', 'TYPE Color = (Red, Green)', 'CONSTANT Limit = 9', 'DECLARE Total : INTEGER', 'DECLARE List : ARRAY[1:2] OF INTEGER', 'DECLARE rec : Point', 'DECLARE Line : STRING',
           'Total <- 1', 'List[1] <- 2', 'Line <- "L"', 'PROCEDURE Show()', '  OUTPUT "shown"', 'ENDPROCEDURE', 'FUNCTION Twice(v : INTEGER) RETURNS INTEGER', '  RETURN v * 2', 'ENDFUNCTION']
    for uname, use in uses.items():
        for where in ('main', 'procedure', 'local-decl'):
            for ped in ('', '-p'):
                if where == 'main':
                    L = pre + use
                elif where == 'procedure':
                    L = pre + ['PROCEDURE Work()'] + ['  ' + u for u in use] + ['ENDPROCEDURE', 'CALL Work()']
                else:
                    L = pre + ['PROCEDURE Work()', '  DECLARE Sum : INTEGER', '  Sum <- 1', '  sum <- 2', '  OUTPUT Sum'] + ['  ' + u for u in use] + ['ENDPROCEDURE', 'CALL Work()']
                L += ['OUTPUT "Total=", Total, " List=", List[1], " Line=", Line']
                out.append(Case(J(L), pedantic=ped, stdin=b'8\n', files={'in.txt': b'first\n'}, limits=dict(steps=5000), meta=dict(gen='names-differing-in-case', sample=False)))
    return out

def failing_calls_then_probes():
    """REPL sessions in which a call fails INSIDE the body of a user function or procedure, or inside a built-in, and the session goes on:
    bare expressions are still echoed in the documented form, statements still run, a later call of the same routine still works, with
    arithmetic of every precedence level among the probes"""
    out = []
    defs = ['FUNCTION Inv(x : INTEGER) RETURNS REAL', '  RETURN 1 / x', 'ENDFUNCTION', '', 'PROCEDURE Half(x : INTEGER)', '  OUTPUT 10 DIV x', 'ENDPROCEDURE', '',
            'FUNCTION Deep(x : INTEGER) RETURNS REAL', '  RETURN Inv(x) + 1', 'ENDFUNCTION', '', 'FUNCTION Cut(s : STRING) RETURNS STRING', '  RETURN MID(s, 5, 2)', 'ENDFUNCTION', '',
            'PROCEDURE Loud()', '  1 + 1', '  OUTPUT "loud"', 'ENDPROCEDURE', '']
    fails = ['Inv(0)', 'CALL Half(0)', 'Deep(0)', 'Cut("ab")', 'MID("ab", 5, 1)', 'OUTPUT Inv(0)', 'y <- Inv(0)', 'Inv("x")', 'CALL Half()', 'LENGTH(5)', 'CALL Nowhere()', 'Inv(1 DIV 0)']
    probes = ['7 / 2', '7 DIV 2', '2 + 3 * 4 & "!"', '1 + 2 < 4 AND NOT FALSE', '"s"', "'c'", 'TRUE', '1/2/2003', 'Inv(4)', 'CALL Half(5)', 'CALL Loud()', 'y <- 3', 'y', '-y + 2 * (y - 1)']
    for f in fails:
        ent = list(defs) + ['DECLARE y : REAL', '1 + 1'] + probes[:4] + [f] + probes + [f] + probes[:6]
        out.append(Case(mode='repl', stdin=J(ent), limits=dict(steps=30000), meta=dict(gen='failing-calls-then-probes', sample=False)))
    return out

def single_kind_random_sessions():
    """a RANDOM handle on which every PUTRECORD between OPENFILE and CLOSEFILE (or exit) is of ONE kind of variable -- only whole arrays,
    only records, only scalars of one type, or a single PUTRECORD in all -- replacing an existing record and appending one; the file is
    then observed after CLOSEFILE + OPENFILE, at exit without CLOSEFILE, and by a second program reading it"""
    out = []
    kinds = {
        'array': (['DECLARE v : ARRAY[1:3] OF INTEGER', 'DECLARE w : ARRAY[1:3] OF INTEGER'], ['v[1] <- 1', 'v[2] <- 2', 'v[3] <- 3'], ['v[2] <- 20'], 'OUTPUT w[1], " ", w[2], " ", w[3]'),
        'array-of-strings': (['DECLARE v : ARRAY[1:2] OF STRING', 'DECLARE w : ARRAY[1:2] OF STRING'], ['v[1] <- "a b"', 'v[2] <- ""'], ['v[2] <- "changed"'], 'OUTPUT w[1], "|", w[2]'),
        'record': (['TYPE R', '  DECLARE n : INTEGER', '  DECLARE t : ARRAY[1:2] OF REAL', 'ENDTYPE', 'DECLARE v : R', 'DECLARE w : R'], ['v.n <- 1', 'v.t[2] <- 2.5'], ['v.n <- 10'], 'OUTPUT w.n, " ", w.t[2]'),
        'integer': (['DECLARE v : INTEGER', 'DECLARE w : INTEGER'], ['v <- 1'], ['v <- 10'], 'OUTPUT w'),
        'string': (['DECLARE v : STRING', 'DECLARE w : STRING'], ['v <- "one"'], ['v <- "ten"'], 'OUTPUT w'),
        'array-2d': (['DECLARE v : ARRAY[1:2, 0:1] OF BOOLEAN', 'DECLARE w : ARRAY[1:2, 0:1] OF BOOLEAN'], ['v[1, 0] <- TRUE', 'v[2, 1] <- TRUE'], ['v[1, 0] <- FALSE'], 'OUTPUT w[1, 0], " ", w[2, 1]'),
    }
    for kname, (decl, init, change, show) in kinds.items():
        for seeded in (False, True):
            for ending in ('close-reopen', 'exit', 'single-put'):
                L = decl + init + ['OPENFILE "d.dat" FOR RANDOM']
                if not seeded:
                    L += ['PUTRECORD "d.dat", v', 'SEEK "d.dat", 2', 'PUTRECORD "d.dat", v', 'CLOSEFILE "d.dat"', 'OPENFILE "d.dat" FOR RANDOM']
                # the session under test: one kind only
                L += change + (['SEEK "d.dat", 1', 'PUTRECORD "d.dat", v'] if ending != 'single-put' else []) + ['SEEK "d.dat", 3', 'PUTRECORD "d.dat", v']
                L += ['SEEK "d.dat", 1', 'GETRECORD "d.dat", w', show]
                if ending != 'exit':
                    L += ['CLOSEFILE "d.dat"', 'OPENFILE "d.dat" FOR RANDOM', 'SEEK "d.dat", 1', 'GETRECORD "d.dat", w', show, 'SEEK "d.dat", 3', 'GETRECORD "d.dat", w', show, 'SEEK "d.dat", 4', 'CLOSEFILE "d.dat"']
                files = {}
                if seeded:
                    # a file written by an earlier run of the same declarations: produced by the model/implementation pair through the files comparison of the non-seeded variant
                    continue
                out.append(Case(J(L), limits=dict(steps=20000), meta=dict(gen='single-kind-random-' + kname, sample=False)))
                ent = sum(gen.to_entries(L), [])
                out.append(Case(mode='repl', stdin=J(ent), limits=dict(steps=20000), meta=dict(gen='single-kind-random-repl-' + kname, sample=False)))
    return out

def extra(pid, tier, rng):
    """the families each property's check runs in addition to its own generators"""
    if pid == 'C01':
        c = alias_then_replace() + shadowed_types() + deref_node_reuse() + far_seek() + far_dates_output() + far_dates_files()[0] + pedantic_tail_with_files() \
            + array_cross_types() + redeclared_bounds(rng) + scope_change_in_activation(rng) + empty_comment_faults()[:40] + call_type_matrix()
        c += nodes_evaluated_twice(rng) + identifier_targets_by_binding() + lexer_failure_then_probe(rng) + side_effects_in_subexpressions() + array_scope_matrix()[::3] + scalar_and_array_share_a_name() + pointer_to_implicit_record() + failing_record_creation() + runfile_with_handles() + declaredness_changes_per_activation()[::2] + records_with_array_fields_in_files()
        c += reentrant_nodes() + creation_fails_then_probe() + escaping_pointers() + callers_locals_are_invisible()[::2] + byref_argument_resolution() + state_dependent_type_bodies() + loop_counter_rebound() + errors_below_statements()[::7]
        c += alias_used_after_value_replaced()[::2]
        c += parameter_list_shapes() + stray_signals_after_legal_ones()[::2] + input_at_end_of_input_with_files_open()[::2] + continue_and_break_positions()[::2]
        c += history_independence()[::3]
        c += pointer_targets_across_user_types() + argument_type_errors_by_position()[::9] + names_differing_in_case()[::3] + failing_calls_then_probes()
        c += single_kind_random_sessions()[::2] + deref_node_reuse()
        c += rng.sample(retyped_sites(rng, n_orders=1), 40) + rng.sample(nested_undeclared(rng), 20) + undeclared_field_vs_names()[::3]
        return c
    if pid == 'C02': return nodes_evaluated_twice(rng) + lexer_failure_then_probe(rng) + concat_matrix() + retyped_sites(rng, ['plus', 'minus', 'div', 'concat', 'less', 'not', 'and', 'length', 'mid']) + reentrant_nodes() + history_independence() + failing_calls_then_probes()
    if pid == 'C03': return [c for c in identifier_targets_by_binding() if '-for-' in c.meta['gen']] + retyped_sites(rng, ['while', 'repeat', 'if', 'case', 'for', 'forstep', 'not']) + shadowed_condition(rng) + reentrant_nodes() + loop_counter_rebound() + stray_signals_after_legal_ones() + continue_and_break_positions()
    if pid == 'C04': return identifier_targets_by_binding() + array_scope_matrix() + side_effects_in_subexpressions() + call_type_matrix() + scope_change_in_activation(rng) + nested_undeclared(rng) + alias_then_replace() + reentrant_nodes() + callers_locals_are_invisible() + byref_argument_resolution() + parameter_list_shapes() + argument_type_errors_by_position()[::2] + names_differing_in_case() + scalar_and_array_share_a_name()
    if pid == 'C05': return [c for c in identifier_targets_by_binding() if 'input' in c.meta['gen'] or 'assign' in c.meta['gen']] + call_type_matrix() + array_cross_types() + retyped_sites(rng, ['store', 'byval', 'fn', 'index']) + shadowed_types() + loop_counter_rebound() + creation_fails_then_probe() + pointer_targets_across_user_types() + argument_type_errors_by_position()[::2]
    if pid == 'C06': return array_scope_matrix() + side_effects_in_subexpressions() + redeclared_bounds(rng) + retyped_sites(rng, ['index']) + array_cross_types() + byref_argument_resolution() + state_dependent_type_bodies() + undeclared_field_vs_names()
    if pid == 'C07': return shadowed_types() + alias_then_replace() + undeclared_field_vs_names() + side_effects_in_subexpressions() + state_dependent_type_bodies() + parameter_list_shapes() + deref_node_reuse()
    if pid == 'C08': return scope_change_in_activation(rng) + scalar_and_array_share_a_name() + loop_counter_rebound()
    if pid == 'C09': return deref_node_reuse() + alias_then_replace() + pointer_to_implicit_record() + escaping_pointers() + alias_used_after_value_replaced() + pointer_targets_across_user_types()
    if pid == 'C10':
        c = far_lines() + far_lines(runtime=True)
        for x in c: x.meta['relevant'] = ('stdout', 'exit', 'diags')
        return c
    if pid == 'C11': return far_lines() + far_lines(runtime=True) + empty_comment_faults() + failing_record_creation() + errors_below_statements() + stray_signals_after_legal_ones()
    if pid == 'C12': return lexer_failure_then_probe(rng) + failing_record_creation() + runfile_with_handles() + creation_fails_then_probe() + failing_calls_then_probes()
    if pid == 'C13': return [c for c in identifier_targets_by_binding() if 'getrecord' in c.meta['gen']] + far_dates_files()[0] + records_with_array_fields_in_files() + scalar_and_array_share_a_name() + alias_used_after_value_replaced() + single_kind_random_sessions()
    if pid == 'C14': return far_seek() + records_with_array_fields_in_files() + alias_used_after_value_replaced() + single_kind_random_sessions()
    if pid == 'C15': return far_dates_files()[0] + far_dates_output() + [c for c in identifier_targets_by_binding() if 'readfile' in c.meta['gen']] + runfile_with_handles() + alias_used_after_value_replaced() + continue_and_break_positions() + input_at_end_of_input_with_files_open()[::3]
    if pid == 'C16': return pedantic_tail_with_files() + side_effects_in_subexpressions() + runfile_with_handles() + input_at_end_of_input_with_files_open() + single_kind_random_sessions()
    if pid == 'C17': return lexer_failure_then_probe(rng) + nodes_evaluated_twice(rng) + reentrant_nodes() + history_independence() + failing_calls_then_probes()
    if pid == 'C18': return far_dates_output() + nodes_evaluated_twice(rng) + date_literal_positions() + lexer_failure_then_probe(rng) + history_independence() + deref_node_reuse()
    if pid == 'C19': return array_cross_types() + shadowed_types() + nodes_evaluated_twice(rng) + callers_locals_are_invisible() + pointer_targets_across_user_types() + argument_type_errors_by_position()
    if pid == 'C20': return nested_undeclared(rng) + shadowed_condition(rng) + pedantic_tail_with_files() + declaredness_changes_per_activation() + creation_fails_then_probe() + names_differing_in_case()
    return []
