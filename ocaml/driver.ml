(* driver.ml — reads cases from stdin, runs the extracted model, prints observations.
   No semantics here: only decoding of the case, calls into Pe2model, and encoding of the result.
   Protocol (one item per line; strings are hex):
     case <id> / mode file|repl|lex / pedantic 0|1 / limits steps depth cells strlen / fuel n /
     program <hex> / stdin <hex> / file <hexname> <hexcontent> / rand n n ... / run
   Output per case:  begin <id> ... end <id>  *)
open Pe2model

let rec z_of_int (n : int) : z =
  if n = 0 then Z0 else if n > 0 then Zpos (pos_of_int n) else Zneg (pos_of_int (-n))
and pos_of_int (n : int) : positive =
  if n = 1 then XH else if n land 1 = 0 then XO (pos_of_int (n lsr 1)) else XI (pos_of_int (n lsr 1))

(* decimal text of a Z, via the model-independent route: build an OCaml string by repeated halving is
   awkward; values printed by the driver (lines, columns, exit codes) are small, so go through int *)
let rec int_of_pos (p : positive) : int =
  match p with XH -> 1 | XO q -> 2 * int_of_pos q | XI q -> 2 * int_of_pos q + 1
let int_of_z (z : z) : int = match z with Z0 -> 0 | Zpos p -> int_of_pos p | Zneg p -> - (int_of_pos p)

let rec nat_of_int (n : int) : nat = if n <= 0 then O else S (nat_of_int (n - 1))
let nat_of_int_tail (n : int) : nat =
  let r = ref O in for _ = 1 to n do r := S !r done; !r

let hexdigit c = match c with
  | '0'..'9' -> Char.code c - 48 | 'a'..'f' -> Char.code c - 87 | 'A'..'F' -> Char.code c - 55
  | _ -> failwith "bad hex"
let unhex (s : string) : char list =
  let n = String.length s / 2 in
  let rec go i acc = if i < 0 then acc else go (i - 1) (Char.chr (hexdigit s.[2*i] * 16 + hexdigit s.[2*i+1]) :: acc) in
  go (n - 1) []
let hex (l : char list) : string =
  let b = Buffer.create 64 in
  List.iter (fun c -> Buffer.add_string b (Printf.sprintf "%02x" (Char.code c))) l;
  Buffer.contents b
let str_of_ocaml (s : string) : char list = List.init (String.length s) (String.get s)
let ocaml_of_str (l : char list) : string = String.of_seq (List.to_seq l)

let ttype_name (t : ttype) : string = match t with
  | TINTEGER -> "TT_INTEGER" | TREAL -> "TT_REAL" | TCHAR -> "TT_CHAR" | TSTRING -> "TT_STRING" | TDATE -> "TT_DATE"
  | TRPAREN -> "TT_LPAREN" | TLPAREN -> "TT_RPAREN"   (* the C++ name table has these two swapped *)
  | TPLUS -> "TT_PLUS" | TMINUS -> "TT_MINUS" | TSTAR -> "TT_STAR" | TSLASH -> "TT_SLASH" | TDIV -> "TT_DIV" | TMOD -> "TT_MOD"
  | TAMPERSAND -> "TT_AMPERSAND" | TASSIGNMENT -> "TT_ASSIGNMENT" | TCOLON -> "TT_COLON" | TCOMMA -> "TT_COMMA"
  | TEQUALS -> "TT_EQUALS" | TNOT_EQUALS -> "TT_NOT_EQUALS" | TGREATER -> "TT_GREATER" | TLESSER -> "TT_LESSER"
  | TGREATER_EQUAL -> "TT_GREATER_EQUAL" | TLESSER_EQUAL -> "TT_LESSER_EQUAL"
  | TAND -> "TT_AND" | TOR -> "TT_OR" | TNOT -> "TT_NOT" | TTRUE -> "TT_TRUE" | TFALSE -> "TT_FALSE"
  | TDECLARE -> "TT_DECLARE" | TCONSTANT -> "TT_CONSTANT" | TIDENTIFIER -> "TT_IDENTIFIER"
  | TDATA_TYPE -> "TT_DATA_TYPE" | TARRAY -> "TT_ARRAY" | TLSQRBRACKET -> "TT_LSQRBRACKET" | TRSQRBRACKET -> "TT_RSQRBRACKET"
  | TTYPE -> "TT_TYPE" | TENDTYPE -> "TT_ENDTYPE" | TCARET -> "TT_CARET" | TPERIOD -> "TT_PERIOD"
  | TIF -> "TT_IF" | TTHEN -> "TT_THEN" | TELSE -> "TT_ELSE" | TENDIF -> "TT_ENDIF"
  | TCASE -> "TT_CASE" | TOF -> "TT_OF" | TOTHERWISE -> "TT_OTHERWISE" | TENDCASE -> "TT_ENDCASE"
  | TWHILE -> "TT_WHILE" | TDO -> "TT_DO" | TENDWHILE -> "TT_ENDWHILE" | TREPEAT -> "TT_REPEAT" | TUNTIL -> "TT_UNTIL"
  | TFOR -> "TT_FOR" | TTO -> "TT_TO" | TSTEP -> "TT_STEP" | TNEXT -> "TT_NEXT" | TBREAK -> "TT_BREAK" | TCONTINUE -> "TT_CONTINUE"
  | TPROCEDURE -> "TT_PROCEDURE" | TBYREF -> "TT_BYREF" | TBYVAL -> "TT_BYVAL" | TENDPROCEDURE -> "TT_ENDPROCEDURE" | TCALL -> "TT_CALL"
  | TFUNCTION -> "TT_FUNCTION" | TENDFUNCTION -> "TT_ENDFUNCTION" | TRETURNS -> "TT_RETURNS" | TRETURN -> "TT_RETURN"
  | TOUTPUT -> "TT_OUTPUT" | TINPUT -> "TT_INPUT"
  | TOPENFILE -> "TT_OPENFILE" | TREADFILE -> "TT_READFILE" | TWRITEFILE -> "TT_WRITEFILE" | TCLOSEFILE -> "TT_CLOSEFILE"
  | TREAD -> "TT_READ" | TWRITE -> "TT_WRITE" | TAPPEND -> "TT_APPEND" | TRANDOM -> "TT_RANDOM"
  | TSEEK -> "TT_SEEK" | TGETRECORD -> "TT_GETRECORD" | TPUTRECORD -> "TT_PUTRECORD"
  | TLINE_END -> "TT_LINE_END" | TEXPRESSION_END -> "TT_EXPRESSION_END"

let kind_name = function DSyntax -> "syntax" | DRuntime -> "runtime" | DPedantic -> "pedantic"

let print_obs (o : observation) =
  Printf.printf "out %s\n" (hex o.ob_out);
  List.iter (fun d ->
      let budget = (match d.d_cls with EBudget -> 1 | _ -> 0) in
      Printf.printf "diag %s %d %d %d" (kind_name d.d_kind) (int_of_z d.d_line) (int_of_z d.d_col) budget;
      List.iter (fun ((n, l), c) -> Printf.printf " %s:%d:%d" (hex n) (int_of_z l) (int_of_z c)) d.d_trace;
      print_newline ()) o.ob_diags;
  Printf.printf "exit %d\n" (int_of_z o.ob_exit);
  (match o.ob_status with
   | SDone -> print_string "status done\n"
   | SCrash s -> Printf.printf "status crash %s\n" (ocaml_of_str s)
   | SFuel -> print_string "status fuel\n"
   | SUnsupported s -> Printf.printf "status unsupported %s\n" (ocaml_of_str s));
  List.iter (fun (n, c) -> Printf.printf "file %s %s\n" (hex n) (hex c)) o.ob_fs;
  List.iter (fun m -> Printf.printf "misc %s\n" (hex m)) o.ob_misc

let () =
  let id = ref "" and mode = ref "file" and pedantic = ref false in
  let lim = ref { max_steps = Z0; max_depth = Z0; max_cells = Z0; max_strlen = Z0 } in
  let fuel = ref 100000 and program = ref [] and stdin_ = ref [] and files = ref [] and rnd = ref [] in
  (try
     while true do
       let line = input_line stdin in
       match String.split_on_char ' ' line with
       | ["case"; i] -> id := i; mode := "file"; pedantic := false; program := []; stdin_ := []; files := []; rnd := []
       | ["mode"; m] -> mode := m
       | ["pedantic"; p] -> pedantic := (p = "1")
       | ["limits"; a; b; c; d] ->
         lim := { max_steps = z_of_int (int_of_string a); max_depth = z_of_int (int_of_string b);
                  max_cells = z_of_int (int_of_string c); max_strlen = z_of_int (int_of_string d) }
       | ["fuel"; n] -> fuel := int_of_string n
       | ["program"; h] -> program := unhex h
       | ["program"] -> program := []
       | ["stdin"; h] -> stdin_ := unhex h
       | ["stdin"] -> stdin_ := []
       | ["file"; n; c] -> files := !files @ [(unhex n, unhex c)]
       | ["file"; n] -> files := !files @ [(unhex n, [])]
       | "rand" :: ns -> rnd := List.map (fun x -> z_of_int (int_of_string x)) (List.filter (fun x -> x <> "") ns)
       | ["run"] ->
         Printf.printf "begin %s\n" !id;
         (try
            (match !mode with
             | "lex" ->
               (match lex_tokens !pedantic !program with
                | Inl toks ->
                  List.iter (fun t -> Printf.printf "tok %s %d %d %s\n" (ttype_name t.tt) (int_of_z t.tline) (int_of_z t.tcol) (hex t.tval)) toks
                | Inr e -> Printf.printf "lexerr %s %d %d\n" (match e.le_kind with LexSyntax -> "syntax" | LexPedantic -> "pedantic")
                             (int_of_z e.le_line) (int_of_z e.le_col))
             | "repl" -> print_obs (run_repl !pedantic !lim (nat_of_int_tail !fuel) !stdin_ !files !rnd)
             | _ -> print_obs (run_file !pedantic !lim (nat_of_int_tail !fuel) !program !stdin_ !files !rnd))
          with Stack_overflow -> print_string "status stackoverflow\n"
             | Out_of_memory -> print_string "status outofmemory\n");
         Printf.printf "end %s\n" !id;
         flush stdout
       | [""] | [] -> ()
       | _ -> failwith ("bad line: " ^ line)
     done
   with End_of_file -> ())
