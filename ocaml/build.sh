#!/bin/sh
# builds /verif/ocaml/pe2model from the extracted model; run from anywhere
set -e
cd "$(dirname "$0")"
mkdir -p extracted
cp ../coq/pe2model.ml ../coq/pe2model.mli extracted/
cp driver.ml extracted/
cd extracted
ocamlfind ocamlopt -O3 -w -a -package str pe2model.mli pe2model.ml driver.ml -o ../pe2model 2>/dev/null || ocamlfind ocamlopt -w -a pe2model.mli pe2model.ml driver.ml -o ../pe2model
