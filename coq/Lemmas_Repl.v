(* Lemmas_Repl.v — the REPL loop. *)
From PE2 Require Import Run.
Local Open Scope Z_scope.

Section Repl.
Variable ped : bool.
Variable lim : limits.
Variable fuel : nat.

Definition plain_entry (code : str) : Prop :=
  code <> [] /\ str_eqb code (str_of_string "?") = false /\ str_eqb code (str_of_string "EXIT") = false /\
  starts_with (str_of_string "RUNFILE") code = false /\ first_keyword code multiline_keywords = None.

(* an entry that ends in a diagnostic does not end the session: the loop goes on with the state the
   entry left and the diagnostic recorded *)
Lemma failing_entry_continues k s s1 code d s3 diags misc :
  get_line (str_of_string "> ") s = (code, true, s1) -> plain_entry code ->
  run_source ped lim fuel true code root_id s1 = (EDiag d, s3) ->
  repl_loop ped lim fuel (S k) s diags misc = repl_loop ped lim fuel k s3 (d :: diags) misc.
Proof.
  intros Hg [H0 [H1 [H2 [H3 H4]]]] Hr. cbn [repl_loop]. rewrite Hg. cbn [negb].
  destruct code as [|ch rest0]; [contradiction|]. rewrite H1, H2, H3, H4. rewrite Hr. reflexivity.
Qed.

Lemma successful_entry_continues k s s1 code s3 diags misc :
  get_line (str_of_string "> ") s = (code, true, s1) -> plain_entry code ->
  run_source ped lim fuel true code root_id s1 = (EOk, s3) ->
  repl_loop ped lim fuel (S k) s diags misc = repl_loop ped lim fuel k s3 diags misc.
Proof.
  intros Hg [H0 [H1 [H2 [H3 H4]]]] Hr. cbn [repl_loop]. rewrite Hg. cbn [negb].
  destruct code as [|ch rest0]; [contradiction|]. rewrite H1, H2, H3, H4. rewrite Hr. reflexivity.
Qed.

(* an entry with a lexical or syntax error changes nothing but the output (blank line, warnings) *)
Lemma syntax_error_entry_no_effect code root s e :
  lex ped code = inr e -> exists s', run_source ped lim fuel true code root s = (EDiag (diag_of_lex e), s') /\
  s_cells s' = s_cells s /\ s_arrs s' = s_arrs s /\ s_ctxs s' = s_ctxs s /\ s_procs s' = s_procs s /\ s_funcs s' = s_funcs s /\
  s_fs s' = s_fs s /\ s_files s' = s_files s /\ s_in s' = s_in s.
Proof. intros H. unfold run_source. rewrite H. eexists. split; [reflexivity|]. cbn. repeat split; reflexivity. Qed.
End Repl.
