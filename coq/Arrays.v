(* Arrays.v — array shapes and index linearisation (src/psc/array.cpp:65-77). *)
From PE2 Require Export Base.
Local Open Scope Z_scope.

Definition dim := (Z * Z)%type.                     (* inclusive lower and upper bound *)
Definition dim_size (d : dim) : Z := snd d - fst d + 1.
Definition valid_index (d : dim) (i : Z) : bool := (fst d <=? i) && (i <=? snd d).

Fixpoint total_size (ds : list dim) : Z :=
  match ds with [] => 1 | d :: r => dim_size d * total_size r end.

(* the code's accumulator form: realIndex += (index[i] - lower) * prevSize; prevSize *= size *)
Fixpoint linear_aux (idxs : list Z) (ds : list dim) (prev acc : Z) : Z :=
  match idxs, ds with
  | i :: is', d :: ds' => linear_aux is' ds' (prev * dim_size d) (acc + (i - fst d) * prev)
  | _, _ => acc
  end.
Definition linear (idxs : list Z) (ds : list dim) : Z := linear_aux idxs ds 1 0.

Fixpoint all_valid (idxs : list Z) (ds : list dim) : bool :=
  match idxs, ds with
  | [], [] => true
  | i :: is', d :: ds' => valid_index d i && all_valid is' ds'
  | _, _ => false
  end.

(* vector<ArrayDimension>::operator== : same length, same bounds (the position n is the list index) *)
Fixpoint dims_eqb (a b : list dim) : bool :=
  match a, b with
  | [], [] => true
  | x :: a', y :: b' => (fst x =? fst y) && (snd x =? snd y) && dims_eqb a' b'
  | _, _ => false
  end.

(* ArrayDeclareNode's size test: each dimension size and the running product must be
   representable; sizes are computed modulo 2^64 as the code does *)
Definition max_elements : Z := 2 ^ 60 - 1.
Fixpoint sizes_ok (ds : list dim) (total : Z) : bool :=
  match ds with
  | [] => true
  | d :: r => let n := (dim_size d) mod two64 in
              if (n =? 0) || (max_elements / total <? n) then false else sizes_ok r (total * n)
  end.
