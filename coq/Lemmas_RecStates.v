(* Lemmas_RecStates.v -- what r.f denotes: the variable (or array) named f in the record's own private context, looked up there and
   nowhere else; a field the record does not have, and .f applied to something that is not a record, are runtime errors that leave
   the whole state as it was.  For every state and context; the inner resolution (of r) is any that does not touch the state. *)
From PE2 Require Import Eval Run Lemmas_Copy Lemmas_Out Lemmas_Scope Lemmas_ConstLogic Lemmas_FileStates.
Local Open Scope N_scope.

Section Field.
Variables (ped repl : bool) (lim : limits) (fuel : nat).
Notation rs := (ev_resolve (evs_at ped repl lim (S fuel))).

Ltac start Hr Ec Hk Hv :=
  cbn [evs_at evs_step ev_resolve]; unfold resolve_body; unfold bind at 1; rewrite Hr; cbn [fst snd];
  unfold bind at 1, get_cell at 1; rewrite Ec; cbn [fst snd]; unfold dt_is; rewrite Hk; change (dk_eqb KRec KRec) with true; cbn [negb]; rewrite Hv.

Theorem field_resolves_to_the_records_own_variable t r' m c s id cl tn rc fid :
  ev_resolve (evs_at ped repl lim fuel) r' c s = (Ok (HVar id), s) -> nm_get id (s_cells s) = Some cl ->
  dk (c_type cl) = KRec -> c_val cl = PRec tn rc -> lookup_var rc (tval m) false s = (Ok (Some fid), s) ->
  rs (RField t r' m) c s = (Ok (HVar fid), s).
Proof. intros Hr Ec Hk Hv Hl. start Hr Ec Hk Hv. unfold bind at 1. rewrite Hl. cbn [fst snd]. reflexivity. Qed.

Theorem field_resolves_to_the_records_own_array t r' m c s id cl tn rc aid :
  ev_resolve (evs_at ped repl lim fuel) r' c s = (Ok (HVar id), s) -> nm_get id (s_cells s) = Some cl ->
  dk (c_type cl) = KRec -> c_val cl = PRec tn rc -> lookup_var rc (tval m) false s = (Ok None, s) -> lookup_arr rc (tval m) false s = (Ok (Some aid), s) ->
  rs (RField t r' m) c s = (Ok (HArr aid), s).
Proof. intros Hr Ec Hk Hv Hl Ha. start Hr Ec Hk Hv. unfold bind at 1. rewrite Hl. cbn [fst snd]. unfold bind at 1. rewrite Ha. cbn [fst snd]. reflexivity. Qed.

Theorem undeclared_field_is_an_error t r' m c s id cl tn rc :
  ev_resolve (evs_at ped repl lim fuel) r' c s = (Ok (HVar id), s) -> nm_get id (s_cells s) = Some cl ->
  dk (c_type cl) = KRec -> c_val cl = PRec tn rc -> lookup_var rc (tval m) false s = (Ok None, s) -> lookup_arr rc (tval m) false s = (Ok None, s) ->
  exists f, rs (RField t r' m) c s = (Fail f, s).
Proof. intros Hr Ec Hk Hv Hl Ha. start Hr Ec Hk Hv. unfold bind at 1. rewrite Hl. cbn [fst snd]. unfold bind at 1. rewrite Ha. cbn [fst snd]. apply rt_error_pure. Qed.

Theorem field_of_a_non_record_is_an_error t r' m c s id cl :
  ev_resolve (evs_at ped repl lim fuel) r' c s = (Ok (HVar id), s) -> nm_get id (s_cells s) = Some cl -> dk (c_type cl) <> KRec ->
  exists f, rs (RField t r' m) c s = (Fail f, s).
Proof.
  intros Hr Ec Hk. cbn [evs_at evs_step ev_resolve]. unfold resolve_body. unfold bind at 1. rewrite Hr. cbn [fst snd].
  unfold bind at 1, get_cell at 1. rewrite Ec. cbn [fst snd]. unfold dt_is. destruct (dk_eqb (dk (c_type cl)) KRec) eqn:E; [apply dk_eqb_eq in E; contradiction|]. cbn [negb]. apply rt_error_pure.
Qed.
Theorem field_of_an_array_is_an_error t r' m c s aid :
  ev_resolve (evs_at ped repl lim fuel) r' c s = (Ok (HArr aid), s) -> exists f, rs (RField t r' m) c s = (Fail f, s).
Proof. intros Hr. cbn [evs_at evs_step ev_resolve]. unfold resolve_body. unfold bind at 1. rewrite Hr. cbn [fst snd]. apply rt_error_pure. Qed.
End Field.
