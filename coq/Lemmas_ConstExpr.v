(* Lemmas_ConstExpr.v -- the program logic carried through eval_body (one case per node class). *)
From PE2 Require Import Eval Lemmas_Copy Lemmas_DeepCopy Lemmas_Out Lemmas_ConstLogic Lemmas_ConstEval.
Require Import Lia.
Local Open Scope N_scope.

Lemma own_from_newvar name ty cst c id s cx : newvar_post name ty cst c id s -> nm_get c (s_ctxs s) = Some cx -> x_isrec cx = true -> ownrec id s.
Proof. intros [p [H _]] E F. eapply cellmeta_ownrec; [exact H|]. cbn. exists cx. auto. Qed.
Lemma own_from_cellmeta id cl c s cx : cellmeta id cl s -> c_owner cl = c -> nm_get c (s_ctxs s) = Some cx -> x_isrec cx = true -> ownrec id s.
Proof. intros H <- E F. eapply cellmeta_ownrec; [exact H|]. exists cx. auto. Qed.
Lemma wr_nonconst_meta id cl s : cellmeta id cl s -> c_const cl = false -> wr id s.
Proof. intros H C. eapply cellmeta_wr; eauto. Qed.
Lemma wr_ptr_meta id cl s : cellmeta id cl s -> negb (dt_is (c_type cl) KPtr) = false -> wr id s.
Proof.
  intros H C. eapply cellmeta_wr; [exact H|]. right. unfold dt_is in C. apply negb_false_iff in C. apply dk_eqb_eq in C. rewrite C. reflexivity.
Qed.
Lemma resok_payload r p s : resok r s -> r_val r = Some p -> valok p s.
Proof. intros H E. apply H. exact E. Qed.
Lemma resok_kind r p s : resok r s -> r_val r = Some p -> payload_kind p = dk (r_type r).
Proof. intros H E. apply H. exact E. Qed.
Lemma resok_named r p s : resok r s -> r_val r = Some p -> named_ok p (r_type r).
Proof. intros H E. apply H. exact E. Qed.
Lemma newvar_wr0 name ty owner id s : newvar_post name ty false owner id s -> wr id s.
Proof. intros [p [H _]]. eapply cellmeta_wr; [exact H|left; reflexivity]. Qed.
Lemma newvar_fits name ty cst owner id v s : newvar_post name ty cst owner id s -> payload_kind v = dk ty -> named_ok v ty -> fits id v s.
Proof. intros [p [H _]] E Hn. eapply cellmeta_fits; [exact H|exact E|exact Hn]. Qed.

Section Level3.
Variables (ped repl : bool) (lim : limits) (self : evs).
Hypothesis He : forall (P : st -> Prop) n c, stable P -> tr P (ev_eval self n c) (fun r s => resok r s).
Hypothesis Hr : forall (P : st -> Prop) r c, stable P -> tr P (ev_resolve self r c) (fun _ _ => True).
Hypothesis Hce : forall (P : st -> Prop) v e c, stable P -> tr P (ev_case_equals self v e c) (fun _ _ => True).
Hypothesis Hcr : forall (P : st -> Prop) v lo hi c, stable P -> tr P (ev_case_range self v lo hi c) (fun _ _ => True).
Hypothesis Hb : forall (P : st -> Prop) bl c, stable P -> tr P (ev_run_block self bl c) (fun _ _ => True).
Hypothesis Hv : forall (P : st -> Prop) name ty cst owner, stable P -> tr P (ev_new_var self name ty cst owner) (newvar_post name ty cst owner).
Hypothesis Ha : forall (P : st -> Prop) name ty dims owner, stable P -> tr P (ev_new_array self name ty dims owner) (fun _ _ => True).
Hypothesis Hba : forall (P : st -> Prop) t params args vals c fc, stable P ->
  (forall s, P s -> ctxkind fc false s /\ Forall (fun v => resok v s) vals) -> tr P (ev_bind_args self t params args vals c fc) (fun _ _ => True).
Hypothesis Hp : forall (P : st -> Prop) t name args c, stable P -> tr P (ev_call_procedure self t name args c) (fun r s => resok r s).
Hypothesis Hf : forall (P : st -> Prop) t args c, stable P -> tr P (ev_call_function self t args c) (fun r s => resok r s).

Lemma hn_lookup_def {D} (table : ctx -> list (str * D)) c name global : hn (lookup_def table c name global).
Proof. unfold lookup_def. hnt ltac:(apply hn_lookup_def_aux). Qed.
Lemma hn_root_of id : hn (root_of id).
Proof. unfold root_of. hnt ltac:(apply hn_root_of_aux). Qed.

Ltac hknown := first [ apply hn_lookup_def | apply hn_lookup_def_aux | apply hn_root_of | apply hn_root_of_aux | apply hn_on_chain_aux | apply hn_nonrec_ancestor_aux | apply hn_abs_val
                     | (apply hn_mapM; intros ?) | (apply hn_iterM; intros ?) ].


Ltac kind_facts :=
  unfold dt_is in *;
  repeat match goal with
         | H : negb _ = false |- _ => apply negb_false_iff in H
         | H : dk_eqb _ _ = true |- _ => apply dk_eqb_eq in H
         | H : _ && _ = true |- _ => apply andb_prop in H; destruct H
         | H : _ || _ = false |- _ => apply orb_false_elim in H; destruct H
         end.
Ltac kind_tac := cbn; first [ reflexivity | assumption | congruence | (eapply resok_kind; eassumption)
                            | (kind_facts; cbn in *; first [assumption | congruence | (symmetry; assumption)]) ].
Ltac name_tac := cbn; first [ assumption | (eapply resok_named; eassumption) | (eapply named_ok_pname; [eassumption | eassumption])
                            | (apply named_ok_prim; first [reflexivity | assumption])
                            | (let tn := fresh "tn" in let Hn := fresh "Hn" in intros tn Hn; cbn in *; first [discriminate Hn | congruence | (inversion Hn; subst; first [reflexivity | assumption | congruence])]) ].
Ltac resok_leaf :=
  let a := fresh "a" in let s := fresh "s" in let HPs := fresh "HPs" in let p := fresh "p" in let E := fresh "E" in
  intros a s [-> HPs] p E; cbn in E;
  first [ discriminate E
        | (decompose [and] HPs; match goal with H : resok _ _ |- _ => exact (H _ E) end)
        | (inversion E; subst; decompose [and] HPs; split; [ first [ (apply valok_nonrec; intros; discriminate) | eauto ] | split; [ kind_tac | name_tac ] ]) ].

Ltac ht known :=
  repeat first
    [ (apply tr_failm; okf) | apply tr_rt_error | apply tr_error_cls | (eapply tr_true; apply tr_ret)
    | match goal with |- tr _ (ret _) (fun r s => resok r s) => eapply tr_post; [apply tr_ret | try solve [resok_leaf]] end
    | known
    | (apply tr_hn_true; [stab2 | solve [hnt hknown]])
    | match goal with
      | |- tr _ (assign_val _ _ _) _ => apply tr_assign_val; [stab2 | ]
      | |- tr _ (set_cell_val _ _) _ => apply tr_set_cell_val
      | |- tr _ (add_var _ _ _) _ => eapply tr_true; apply tr_add_var; [stab2 | ]
      | |- tr _ (add_arr _ _ _) _ => unfold add_arr; eapply tr_true; apply tr_upd_ctx_keepvars; [stab2 | intros ?; repeat split]
      | |- tr _ (store_tree _ _ _) _ => apply tr_store_tree; [stab2 | ]
      | |- tr _ (copy_array_data _ _ _) _ => apply tr_copy_array_data; stab2
      | |- tr _ (upd_ctx _ (ctx_with_retval _)) _ => eapply tr_true; apply tr_set_retval; [stab2 | ]
      | |- tr _ (upd_ctx _ _) _ => eapply tr_true; apply tr_upd_ctx_keepvars; [stab2 | intros ?; repeat split]
      | |- tr _ (copy_val _ _) _ => eapply tr_true; apply (proj1 (copy_tr _)); [stab2 | ]
      | |- tr _ (bind (get_cell _) _) _ => eapply tr_bind; [stab2 | apply tr_get_cell | intros ?]
      | |- tr _ (bind (get_arr _) _) _ => eapply tr_bind; [stab2 | apply tr_get_arr | intros ?]
      | |- tr _ (bind (get_ctx _) _) _ => eapply tr_bind; [stab2 | apply tr_get_ctx | intros ?]
      | |- tr _ (bind (new_ctx _ _ _ _ _) _) _ => eapply tr_bind; [stab2 | apply tr_new_ctx; stab2 | intros ?]
      | |- tr _ (bind (ev_new_var self _ _ _ _) _) _ => eapply tr_bind; [stab2 | apply Hv; stab2 | intros ?]
      | |- tr _ (bind (ev_eval self _ _) _) _ => eapply tr_bind; [stab2 | apply He; stab2 | intros ?]
      | |- tr _ (bind (ev_call_function self _ _ _) _) _ => eapply tr_bind; [stab2 | apply Hf; stab2 | intros ?]
      | |- tr _ (bind (copy_val _ _) _) _ => eapply tr_bind; [stab2 | apply (proj1 (copy_tr _)); [stab2 | ] | intros ?]
      | |- tr _ (bind _ _) _ => eapply tr_bind with (Q := fun _ _ => True); [stab2 | | intros ?]
      | |- tr _ (if ?c then _ else _) _ => destruct c eqn:?
      | |- tr _ (match ?x with _ => _ end) _ => destruct x eqn:?
      | |- tr _ (let _ := _ in _) _ => cbv zeta
      | |- tr _ ?m _ => let h := head_of m in unfold h
      end ].
Ltac evk :=
  first [ (eapply tr_true; apply He; stab2) | (apply Hr; stab2) | (apply Hce; stab2) | (apply Hcr; stab2) | (apply Hb; stab2) | (eapply tr_true; apply Hv; stab2) | (apply Ha; stab2)
        | (eapply tr_true; apply Hp; stab2) | (eapply tr_true; apply Hf; stab2)
        | (apply trT_eval_indices; [intros ? ? ?; eapply tr_true; apply He; assumption | stab2])
        | (apply trT_eval_bounds; [intros ? ? ?; eapply tr_true; apply He; assumption | stab2]) ].


Lemma tr_eval_arith (P : st -> Prop) t c l r : stable P -> tr P (eval_arith t c l r) (fun r s => resok r s).
Proof. intros SP. unfold eval_arith. cbv zeta. ht evk. Qed.
Lemma tr_eval_cmp (P : st -> Prop) t c l r : stable P -> tr P (eval_cmp t c l r) (fun r s => resok r s).
Proof. intros SP. unfold eval_cmp. cbv zeta. ht evk. Qed.


Lemma tr_cast_prim (P : st -> Prop) t c p target : stable P -> tr P (cast_prim t c p target) (fun p' s => (forall tn k, p' <> PRec tn k) /\ payload_kind p' = target /\ pname p' = None).
Proof.
  intros SP. unfold cast_prim.
  repeat first [ apply tr_rt_error | (apply tr_failm; okf)
               | match goal with
                 | |- tr _ (ret _) _ => eapply tr_post; [apply tr_ret | intros ? ? [-> _]; split; [intros ? ?; discriminate|split; reflexivity]]
                 | |- tr _ (bind _ _) _ => eapply tr_bind with (Q := fun _ _ => True); [stab2 | apply tr_hn_true; [stab2 | unfold prim_to_string; hnt hknown] | intros ?]
                 | |- tr _ (match ?x with _ => _ end) _ => destruct x
                 end ].
Qed.
Lemma tr_implicit_cast (P : st -> Prop) ty r : stable P -> (forall s, P s -> resok r s) -> tr P (implicit_cast ty r) (fun r' s => resok r' s).
Proof.
  intros SP HR. unfold implicit_cast, as_int, as_str, as_char.
  repeat first [ (apply tr_failm; okf) | (apply tr_ret_prim; reflexivity)
               | match goal with
                 | |- tr _ (ret r) _ => eapply tr_post; [apply tr_ret | intros ? ? [-> Hs]; apply HR; tauto]
                 | |- tr _ (bind _ _) _ => eapply tr_bind with (Q := fun _ _ => True); [stab2 | apply tr_hn_true; [stab2 | hnt hknown] | intros ?]
                 | |- tr _ (if ?c then _ else _) _ => destruct c
                 | |- tr _ (match ?x with _ => _ end) _ => destruct x
                 end ].
Qed.
Lemma tr_as_payload (P : st -> Prop) r : tr P (as_payload r) (fun p s => r_val r = Some p).
Proof. unfold as_payload. destruct (r_val r) as [p|]; [eapply tr_post; [apply tr_ret|]; intros a s [-> _]; reflexivity|(apply tr_failm; okf)]. Qed.
End Level3.
