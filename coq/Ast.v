(* Ast.v — one constructor per Node class of src/nodes (statements and expressions are both
   nodes in the code, and an assignment may appear inside an expression, so there is one type). *)
From PE2 Require Export Lexer.

Inductive dkind := KNone | KInt | KReal | KBool | KChar | KStr | KDate | KEnum | KPtr | KRec.
Definition dkind_eq_dec : forall a b : dkind, {a = b} + {a <> b}.
Proof. decide equality. Defined.
Definition dk_eqb (a b : dkind) : bool := if dkind_eq_dec a b then true else false.
Lemma dk_eqb_eq a b : dk_eqb a b = true <-> a = b.
Proof. unfold dk_eqb; destruct (dkind_eq_dec a b); split; congruence. Qed.

Local Open Scope Z_scope.
Definition psc_type_of_word (w : str) : option dkind :=
  if str_eqb w (str_of_string "INTEGER") then Some KInt
  else if str_eqb w (str_of_string "REAL") then Some KReal
  else if str_eqb w (str_of_string "BOOLEAN") then Some KBool
  else if str_eqb w (str_of_string "CHAR") then Some KChar
  else if str_eqb w (str_of_string "STRING") then Some KStr
  else if str_eqb w (str_of_string "DATE") then Some KDate
  else None.


Inductive fmode := FRead | FWrite | FAppend | FRandom.

Inductive node :=
 | NInt (t : token) | NReal (t : token) | NBool (t : token) | NChar (t : token) | NStr (t : token) | NDate (t : token)
 | NNeg (t : token) (e : node)
 | NArith (t : token) (l r : node)
 | NCmp (t : token) (l r : node)
 | NLogic (t : token) (l r : node)
 | NNot (t : token) (e : node)
 | NCat (t : token) (l r : node)
 | NCast (t : token) (e : node) (target : dkind)
 | NAccess (t : token) (r : resolver)
 | NAssign (t : token) (e : node) (r : resolver)
 | NPtrAssign (t : token) (p v : resolver)
 | NFnCall (t : token) (args : list node)
 | NDeclare (t : token) (ids : list token) (ty : token)
 | NConst (t : token) (v : node) (id : token)
 | NArrDeclare (t : token) (ids : list token) (ty : token) (bounds : list node)
 | NEnumDef (t : token) (name : token) (vals : list str)
 | NPtrDef (t : token) (name : token) (ty : token)
 | NCompDef (t : token) (name : token) (body : list node)
 | NIf (t : token) (comps : list (option node * list node))
 | NCase (t : token) (sel : node) (cases : list casecomp)
 | NWhile (t : token) (c : node) (body : list node)
 | NRepeat (t : token) (c : node) (body : list node)
 | NFor (t : token) (id : token) (start stop : node) (step : option node) (body : list node)
 | NBreak (t : token) | NContinue (t : token)
 | NProc (t : token) (name : str) (params : list (str * token * bool)) (body : list node)
 | NFunc (t : token) (name : str) (params : list (str * token * bool)) (body : list node) (ret : token)
 | NCall (t : token) (name : str) (args : list node)
 | NReturn (t : token) (e : node)
 | NOutput (t : token) (es : list node)
 | NInput (t : token) (r : resolver)
 | NOpenFile (t : token) (f : node) (m : fmode)
 | NReadFile (t : token) (f : node) (id : token)
 | NWriteFile (t : token) (f : node) (d : node)
 | NCloseFile (t : token) (f : node)
 | NSeek (t : token) (f : node) (a : node)
 | NGetRecord (t : token) (f : node) (id : token)
 | NPutRecord (t : token) (f : node) (id : token)
with resolver :=
 | RSimple (t : token)
 | RField (t : token) (r : resolver) (m : token)
 | RDeref (t : token) (r : resolver)
 | RIndex (t : token) (r : resolver) (idx : list node)
with casecomp :=
 | CEq (body : list node) (e : node)
 | CRange (body : list node) (lo hi : node)
 | COther (body : list node).

Definition block := list node.

Definition node_token (n : node) : token :=
  match n with
  | NInt t | NReal t | NBool t | NChar t | NStr t | NDate t | NNeg t _ | NArith t _ _ | NCmp t _ _
  | NLogic t _ _ | NNot t _ | NCat t _ _ | NCast t _ _ | NAccess t _ | NAssign t _ _ | NPtrAssign t _ _
  | NFnCall t _ | NDeclare t _ _ | NConst t _ _ | NArrDeclare t _ _ _ | NEnumDef t _ _ | NPtrDef t _ _
  | NCompDef t _ _ | NIf t _ | NCase t _ _ | NWhile t _ _ | NRepeat t _ _ | NFor t _ _ _ _ _
  | NBreak t | NContinue t | NProc t _ _ _ | NFunc t _ _ _ _ | NCall t _ _ | NReturn t _
  | NOutput t _ | NInput t _ | NOpenFile t _ _ | NReadFile t _ _ | NWriteFile t _ _
  | NCloseFile t _ | NSeek t _ _ | NGetRecord t _ _ | NPutRecord t _ _ => t
  end.
