(* Properties_C17.v — string, character and conversion built-ins meet their contracts. *)
From PE2 Require Import Builtins Lemmas_Builtins Codec Lemmas_Numerals.
Local Open Scope Z_scope.

Theorem C17_left_right : forall s n l r,
  0 <= n <= slen s -> bi_left s n = Some l -> bi_right s (slen s - n) = Some r -> l ++ r = s.
Proof. exact left_right_concat. Qed.
Print Assumptions C17_left_right.

Theorem C17_left_in_range : forall s n, 0 <= n <= slen s -> bi_left s n = Some (firstn (Z.to_nat n) s).
Proof. exact bi_left_some. Qed.
Print Assumptions C17_left_in_range.

Theorem C17_right_in_range : forall s n, 0 <= n <= slen s -> bi_right s n = Some (skipn (Z.to_nat (slen s - n)) s).
Proof. exact bi_right_some. Qed.
Print Assumptions C17_right_in_range.

(* MID(s, i, n) is characters i .. i+n-1 *)
Theorem C17_mid : forall s i n, 1 <= i -> 0 <= n -> i <= slen s -> i - 1 + n <= slen s ->
  bi_mid s i n = Some (firstn (Z.to_nat n) (skipn (Z.to_nat (i - 1)) s)).
Proof. exact bi_mid_some. Qed.
Print Assumptions C17_mid.

(* a position or length outside the string is an error (None = the runtime error), exactly then *)
Theorem C17_left_range_error : forall s n, (n < 0 \/ slen s < n) <-> bi_left s n = None.
Proof. exact bi_left_error. Qed.
Print Assumptions C17_left_range_error.
Theorem C17_right_range_error : forall s n, (n < 0 \/ slen s < n) <-> bi_right s n = None.
Proof. exact bi_right_error. Qed.
Print Assumptions C17_right_range_error.
Theorem C17_mid_range_error : forall s i n, (i < 1 \/ slen s < i \/ n < 0 \/ slen s < i - 1 + n) <-> bi_mid s i n = None.
Proof. exact bi_mid_error. Qed.
Print Assumptions C17_mid_range_error.

Theorem C17_mid_never_reads_outside : forall s i n r, bi_mid s i n = Some r -> slen r = n.
Proof. exact bi_mid_length. Qed.
Print Assumptions C17_mid_never_reads_outside.

Theorem C17_asc_chr : forall n, 0 <= n <= 127 -> bi_asc (bi_chr n) = n.
Proof. exact asc_chr. Qed.
Print Assumptions C17_asc_chr.

Theorem C17_case_maps : forall n, 0 <= n <= 255 ->
  zcode (to_upper (ascii_of_z n)) = upper_spec n /\ zcode (to_lower (ascii_of_z n)) = lower_spec n.
Proof. exact case_maps. Qed.
Print Assumptions C17_case_maps.

Theorem C17_is_num_accepts_numerals : forall s, numeral_chars s -> (count_points s <= 1)%nat -> bi_is_num s = true.
Proof. exact is_num_accepts. Qed.
Print Assumptions C17_is_num_accepts_numerals.

(* every non-empty string of decimal digits is converted to the number it denotes (INTEGER("..."), INPUT into an
   INTEGER variable); beyond the 64-bit range the conversion saturates, as strtol does *)
Theorem C17_digits_to_integer : forall ds, ds <> [] -> forallb is_digit ds = true ->
  string_to_int ds = (let v := digits_to_z ds in if v <? int64_min then int64_min else if int64_max <? v then int64_max else v).
Proof. exact string_to_int_digits. Qed.
Print Assumptions C17_digits_to_integer.

(* NUM_TO_STR / OUTPUT of an INTEGER followed by INTEGER(...) is the identity on the whole 64-bit range *)
Theorem C17_integer_text_roundtrip : forall z, int64_min <= z <= int64_max -> string_to_int (z_to_str z) = z.
Proof. exact string_to_int_z_to_str. Qed.
Print Assumptions C17_integer_text_roundtrip.

Theorem C17_printed_integer_is_digits : forall n, 0 <= n ->
  nat_digits n <> [] /\ forallb is_digit (nat_digits n) = true /\ digits_to_z (nat_digits n) = n.
Proof. exact nat_digits_spec. Qed.
Print Assumptions C17_printed_integer_is_digits.

Example C17_examples : bi_mid (str_of_string "abcd") 3 4 = None /\ bi_mid (str_of_string "abcd") 2 2 = Some (str_of_string "bc") /\
  bi_left (str_of_string "ab") 1 = Some (str_of_string "a").
Proof. vm_compute. repeat split; reflexivity. Qed.
