(* Lemmas_Frame.v — a state relation I preserved by every state update of the model is preserved by every
   computation of the evaluator, whatever the program, the fuel and the outcome (success, diagnostic, signal,
   fuel exhaustion).  I is a section variable: reflexive, transitive, and closed under each primitive update
   the model performs.  Instances: Lemmas_Out.v (standard output is append-only). *)
From PE2 Require Import Eval Lemmas_Ped.
Local Open Scope Z_scope.

Section Frame.
Variable I : st -> st -> Prop.
Hypothesis I_refl : forall s, I s s.
Hypothesis I_trans : forall a b c, I a b -> I b c -> I a c.
Hypothesis I_next : forall s, I s (set_next (N.succ (s_next s)) s).        (* the only use: fresh *)
(* cells are written in exactly two ways: a new cell under the identifier just taken from the counter, and a new
   payload for an existing cell (name, type, constant flag and owner kept) *)
Hypothesis I_alloc : forall c s, I s (set_cells (nm_put (s_next s) c (s_cells s)) (set_next (N.succ (s_next s)) s)).
Hypothesis I_setval : forall id v c s, nm_get id (s_cells s) = Some c ->
  I s (set_cells (nm_put id (mkCell (c_name c) (c_type c) (c_const c) (c_owner c) v) (s_cells s)) s).
(* arrays are written in one way: a new array under the identifier just taken from the counter; contexts in two: a new context
   under the identifier just taken from the counter, and a new record for a context that exists *)
Hypothesis I_alloc_arr : forall a s, I s (set_arrs (nm_put (s_next s) a (s_arrs s)) (set_next (N.succ (s_next s)) s)).
Hypothesis I_alloc_ctx : forall c s, I s (set_ctxs (nm_put (s_next s) c (s_ctxs s)) (set_next (N.succ (s_next s)) s)).
Hypothesis I_upd_ctx : forall id c c' s, nm_get id (s_ctxs s) = Some c -> I s (set_ctxs (nm_put id c' (s_ctxs s)) s).
Hypothesis I_procs : forall v s, I s (set_procs v s).
Hypothesis I_funcs : forall v s, I s (set_funcs v s).
Hypothesis I_emit : forall x s, I s (set_out (x :: s_out s) s).
Hypothesis I_in : forall v s, I s (set_in v s).
Hypothesis I_fs : forall v s, I s (set_fs v s).
Hypothesis I_files : forall v s, I s (set_files v s).
Hypothesis I_steps : forall s, I s (set_steps (s_steps s + 1) s).          (* the only use: tick *)
Hypothesis I_cellcount : forall v s, I s (set_cellcount v s).
Hypothesis I_depth : forall v s, I s (set_depth v s).
Hypothesis I_rand : forall v s, I s (set_rand v s).

Definition Pr {A} (m : M A) : Prop := forall s, I s (snd (m s)).

Lemma Pr_ret {A} (a : A) : Pr (ret a).
Proof. intros s. apply I_refl. Qed.
Lemma Pr_failm {A} f : Pr (@failm A f).
Proof. intros s. apply I_refl. Qed.
Lemma Pr_gets {A} (f : st -> A) : Pr (gets f).
Proof. intros s. apply I_refl. Qed.
Lemma Pr_same {A} (m : M A) : (forall s, snd (m s) = s) -> Pr m.
Proof. intros H s. rewrite H. apply I_refl. Qed.
Lemma Pr_modify f : (forall s, I s (f s)) -> Pr (modify f).
Proof. intros H s. apply H. Qed.
Lemma Pr_bind {A B} (m : M A) (k : A -> M B) : Pr m -> (forall a, Pr (k a)) -> Pr (bind m k).
Proof.
  intros Hm Hk s. unfold bind. specialize (Hm s). destruct (m s) as [[a|f] s1]; cbn [snd] in *; [|exact Hm].
  eapply I_trans; [exact Hm|apply Hk].
Qed.
Lemma Pr_catch {A} (m : M A) h : Pr m -> (forall f m', h f = Some m' -> Pr m') -> Pr (catch m h).
Proof.
  intros Hm Hh s. unfold catch. specialize (Hm s). destruct (m s) as [[a|f] s1]; cbn [snd] in *; [exact Hm|].
  destruct (h f) as [m'|] eqn:E; [|exact Hm]. eapply I_trans; [exact Hm|]. apply (Hh f m' E).
Qed.
Lemma Pr_catch_cls {A} (m : M A) want h : Pr m -> (forall f, Pr (h f)) -> Pr (catch_cls m want h).
Proof.
  intros Hm Hh. unfold catch_cls. apply Pr_catch; [exact Hm|]. intros f m' E.
  destruct f; try discriminate. destruct (want (d_cls d)); [|discriminate]. inversion E; subst. apply Hh.
Qed.
Lemma Pr_mapM {A B} (f : A -> M B) l : (forall x, Pr (f x)) -> Pr (mapM f l).
Proof.
  intros H. induction l as [|x r IH]; cbn [mapM]; [apply Pr_ret|].
  apply Pr_bind; [apply H|]. intros y. apply Pr_bind; [exact IH|]. intros ys. apply Pr_ret.
Qed.
Lemma Pr_iterM {A} (f : A -> M unit) l : (forall x, Pr (f x)) -> Pr (iterM f l).
Proof.
  intros H. induction l as [|x r IH]; cbn [iterM]; [apply Pr_ret|]. apply Pr_bind; [apply H|]. intros _. exact IH.
Qed.
Lemma Pr_zipM {A B} (f : A -> B -> M unit) l1 l2 : (forall x y, Pr (f x y)) -> Pr (zipM f l1 l2).
Proof.
  intros H. revert l2. induction l1 as [|x r IH]; intros l2; cbn [zipM]; [apply Pr_ret|].
  destruct l2 as [|y r2]; [apply Pr_failm|]. apply Pr_bind; [apply H|]. intros _. apply IH.
Qed.
Lemma Pr_repeatM {A} k (m : M A) : Pr m -> Pr (repeatM k m).
Proof.
  intros H. induction k as [|k IH]; cbn [repeatM]; [apply Pr_ret|].
  apply Pr_bind; [exact H|]. intros x. apply Pr_bind; [exact IH|]. intros xs. apply Pr_ret.
Qed.

Lemma Pr_fresh : Pr fresh.
Proof. intros s. apply I_next. Qed.
Lemma Pr_get_cell id : Pr (get_cell id).
Proof. apply Pr_same. intros s. unfold get_cell. destruct (nm_get id (s_cells s)); reflexivity. Qed.
Lemma Pr_get_arr id : Pr (get_arr id).
Proof. apply Pr_same. intros s. unfold get_arr. destruct (nm_get id (s_arrs s)); reflexivity. Qed.
Lemma Pr_get_ctx id : Pr (get_ctx id).
Proof. apply Pr_same. intros s. unfold get_ctx. destruct (nm_get id (s_ctxs s)); reflexivity. Qed.
Lemma Pr_alloc {B} (c : cell) (k : N -> M B) : (forall id, Pr (k id)) -> Pr (id <- fresh ;; put_cell id c ;;; k id).
Proof.
  intros Hk s. unfold bind, fresh, put_cell, modify. cbn [fst snd].
  eapply I_trans; [apply (I_alloc c s)|]. apply Hk.
Qed.
Lemma Pr_set_cell_val id v : Pr (set_cell_val id v).
Proof.
  intros s. unfold set_cell_val, bind, get_cell. destruct (nm_get id (s_cells s)) as [c|] eqn:E; cbn [snd]; [|apply I_refl].
  unfold put_cell, modify. cbn [snd]. apply I_setval. exact E.
Qed.
Lemma Pr_alloc_arr {B} (a : arr) (k : N -> M B) : (forall id, Pr (k id)) -> Pr (id <- fresh ;; put_arr id a ;;; k id).
Proof.
  intros Hk s. unfold bind, fresh, put_arr, modify. cbn [fst snd].
  eapply I_trans; [apply (I_alloc_arr a s)|]. apply Hk.
Qed.
Lemma Pr_alloc_ctx {B} (c : ctx) (k : N -> M B) : (forall id, Pr (k id)) -> Pr (id <- fresh ;; put_ctx id c ;;; k id).
Proof.
  intros Hk s. unfold bind, fresh, put_ctx, modify. cbn [fst snd].
  eapply I_trans; [apply (I_alloc_ctx c s)|]. apply Hk.
Qed.
Lemma Pr_upd_ctx id f : Pr (upd_ctx id f).
Proof.
  intros s. unfold upd_ctx, bind, get_ctx. destruct (nm_get id (s_ctxs s)) as [c|] eqn:E; cbn [snd]; [|apply I_refl].
  unfold put_ctx, modify. cbn [snd]. eapply I_upd_ctx. exact E.
Qed.
Lemma Pr_emit x : Pr (emit x).
Proof. apply Pr_modify. intros s. apply I_emit. Qed.

Lemma Pr_root_of_aux fuel : forall id, Pr (root_of_aux fuel id).
Proof.
  induction fuel as [|f IH]; intros id; cbn [root_of_aux]; [apply Pr_failm|].
  apply Pr_bind; [apply Pr_get_ctx|]. intros c. destruct (x_parent c); [apply IH|apply Pr_ret].
Qed.
Lemma Pr_nonrec_ancestor_aux fuel : forall id, Pr (nonrec_ancestor_aux fuel id).
Proof.
  induction fuel as [|f IH]; intros id; cbn [nonrec_ancestor_aux]; [apply Pr_failm|].
  apply Pr_bind; [apply Pr_get_ctx|]. intros c. destruct (x_isrec c); [|apply Pr_ret]. destruct (x_parent c); [apply IH|apply Pr_failm].
Qed.
Lemma Pr_on_chain_aux fuel : forall id target, Pr (on_chain_aux fuel id target).
Proof.
  induction fuel as [|f IH]; intros id target; cbn [on_chain_aux]; [apply Pr_failm|].
  destruct (N.eqb id target); [apply Pr_ret|]. apply Pr_bind; [apply Pr_get_ctx|]. intros c. destruct (x_parent c); [apply IH|apply Pr_ret].
Qed.
Lemma Pr_trace_aux fuel : forall id, Pr (trace_aux fuel id).
Proof.
  induction fuel as [|f IH]; intros id; cbn [trace_aux]; [apply Pr_ret|].
  destruct id as [i|]; [|apply Pr_ret]. apply Pr_bind; [apply Pr_get_ctx|]. intros c. apply Pr_bind; [apply IH|]. intros r. apply Pr_ret.
Qed.
Lemma Pr_runtime_error_cls {A} cls t c : Pr (@runtime_error_cls A cls t c).
Proof.
  intros s. unfold runtime_error_cls.
  assert (H : Pr (cx <- get_ctx c ;; rest <- trace_aux (S (x_depth cx)) (x_parent cx) ;;
                  ret (mkDiag DRuntime (tline t) (tcol t) cls ((x_name cx, tline t, tcol t) :: rest)))).
  { apply Pr_bind; [apply Pr_get_ctx|]. intros cx. apply Pr_bind; [apply Pr_trace_aux|]. intros r. apply Pr_ret. }
  specialize (H s). destruct ((cx <- get_ctx c ;; _) s) as [[d|f] s1]; exact H.
Qed.

Lemma Pr_root_of id : Pr (root_of id).
Proof. unfold root_of. apply Pr_bind; [apply Pr_get_ctx|]. intros c. apply Pr_root_of_aux. Qed.
Lemma Pr_lookup_def_aux {D} (table : ctx -> list (str * D)) fuel : forall c name global, Pr (lookup_def_aux table fuel c name global).
Proof.
  induction fuel as [|f IH]; intros c name global; cbn [lookup_def_aux]; [apply Pr_failm|].
  apply Pr_bind; [apply Pr_get_ctx|]. intros cx. destruct (assoc_str name (table cx)); [apply Pr_ret|].
  destruct (x_isrec cx), (x_parent cx); try apply IH; try apply Pr_ret;
  (destruct global; [|apply Pr_ret]; apply Pr_bind; [apply Pr_root_of|]; intros r; apply Pr_bind; [apply Pr_get_ctx|]; intros rc; apply Pr_ret).
Qed.
Lemma Pr_lookup_def {D} (table : ctx -> list (str * D)) c name global : Pr (lookup_def table c name global).
Proof. unfold lookup_def. apply Pr_bind; [apply Pr_get_ctx|]. intros cx. apply Pr_lookup_def_aux. Qed.

Lemma Pr_call_body d cc ab m : Pr m -> Pr (call_body d cc ab m).
Proof.
  intros Hm s. unfold call_body. specialize (Hm s). destruct (m s) as [[a|f] s1]; cbn [snd] in *.
  - eapply I_trans; [exact Hm|apply I_depth].
  - destruct f; try (eapply I_trans; [exact Hm|apply I_depth]).
    + eapply I_trans; [exact Hm|]. eapply I_trans; [apply (I_depth d)|]. apply (@Pr_runtime_error_cls unit).
    + eapply I_trans; [exact Hm|]. eapply I_trans; [apply (I_depth d)|]. apply (@Pr_runtime_error_cls unit).
    + destruct ab; (eapply I_trans; [exact Hm|apply I_depth]).
Qed.

Lemma Pr_run_body br : Pr br -> Pr (run_body br).
Proof.
  intros H. unfold run_body. apply Pr_catch; [apply Pr_bind; [exact H|intros _; apply Pr_ret]|].
  intros f m' E. destruct f; inversion E; subst; apply Pr_ret.
Qed.

Ltac solve_I :=
  cbv beta;
  first [ apply I_refl | apply I_next | apply I_procs | apply I_funcs | apply I_emit
        | apply I_in | apply I_fs | apply I_files | apply I_steps | apply I_cellcount | apply I_depth | apply I_rand
        | (eapply I_trans; [ | first [ apply I_next | apply I_procs | apply I_funcs | apply I_emit
                                     | apply I_in | apply I_fs | apply I_files | apply I_steps | apply I_cellcount | apply I_depth | apply I_rand ] ]; solve_I) ].

Ltac head_of t := match t with ?f _ => head_of f | _ => t end.

(* decomposition of a computation into the combinators above; [known] closes goals about recursive functions *)
Ltac pr_with known :=
  repeat first
    [ apply Pr_ret | apply Pr_failm | apply Pr_gets | apply Pr_fresh | apply Pr_get_cell | apply Pr_get_arr | apply Pr_get_ctx
    | apply Pr_set_cell_val | apply Pr_upd_ctx | apply Pr_emit | apply Pr_runtime_error_cls
    | apply Pr_lookup_def | apply Pr_root_of_aux | apply Pr_nonrec_ancestor_aux | apply Pr_on_chain_aux | apply Pr_trace_aux
    | known
    | match goal with
      | |- Pr (bind fresh (fun id => bind (put_cell id _) _)) => apply Pr_alloc; intros ?
      | |- Pr (bind fresh (fun id => bind (put_arr id _) _)) => apply Pr_alloc_arr; intros ?
      | |- Pr (bind fresh (fun id => bind (put_ctx id _) _)) => apply Pr_alloc_ctx; intros ?
      | |- Pr (bind _ _) => apply Pr_bind; [ | intros ? ]
      | |- Pr (modify _) => apply Pr_modify; intros ?; solve_I
      | |- Pr (catch_cls _ _ _) => apply Pr_catch_cls; [ | intros ? ]
      | |- Pr (run_body _) => apply Pr_run_body
      | |- Pr (call_body _ _ _ _) => apply Pr_call_body
      | |- Pr (mapM _ _) => apply Pr_mapM; intros ?
      | |- Pr (iterM _ _) => apply Pr_iterM; intros ?
      | |- Pr (zipM _ _ _) => apply Pr_zipM; intros ? ?
      | |- Pr (repeatM _ _) => apply Pr_repeatM
      | |- Pr (if ?c then _ else _) => destruct c
      | |- Pr (match ?x with _ => _ end) => destruct x
      | |- Pr (let _ := _ in _) => cbv zeta
      | |- Pr (fst (match ?x with _ => _ end)) => destruct x; cbn [fst snd]
      | |- Pr (snd (match ?x with _ => _ end)) => destruct x; cbn [fst snd]
      | |- Pr ?m => let h := head_of m in unfold h
      end ].
Ltac pr := pr_with fail.

(* ---- Heap.v ---- *)
Lemma Pr_copy fuel : (forall p, Pr (copy_val fuel p)) /\ (forall c, Pr (copy_ctx fuel c)).
Proof.
  induction fuel as [|f [IHv IHc]].
  - split; [intros p; destruct p; cbn [copy_val]; pr|intros c; cbn [copy_ctx]; pr].
  - assert (Hc : forall c, Pr (copy_ctx (S f) c)).
    { intros c. cbn [copy_ctx]. pr_with ltac:(first [apply IHv | apply IHc]). }
    split; [|exact Hc]. intros p. destruct p; cbn [copy_val]; pr_with ltac:(first [apply IHv | apply IHc]).
Qed.
Lemma Pr_copy_val fuel p : Pr (copy_val fuel p).
Proof. apply Pr_copy. Qed.
Lemma Pr_copy_ctx fuel c : Pr (copy_ctx fuel c).
Proof. apply Pr_copy. Qed.

Lemma Pr_copy_go (sc : N -> payload -> M unit) : (forall d p, Pr (sc d p)) -> forall l1 l2,
  Pr ((fix go (l1 l2 : list N) : M unit :=
         match l1, l2 with
         | e1 :: r1, e2 :: r2 => s <- get_cell e2 ;; sc e1 (c_val s) ;;; go r1 r2
         | _, _ => ret Datatypes.tt
         end) l1 l2).
Proof.
  intros H. induction l1 as [|e1 r1 IH]; intros l2; [destruct l2; apply Pr_ret|].
  destruct l2 as [|e2 r2]; [apply Pr_ret|].
  apply Pr_bind; [apply Pr_get_cell|]. intros s. apply Pr_bind; [apply H|]. intros _. apply IH.
Qed.

Lemma Pr_all2M {A B} (f : A -> B -> M bool) l1 l2 : (forall x y, Pr (f x y)) -> Pr (all2M f l1 l2).
Proof.
  intros H. revert l2. induction l1 as [|x r IH]; intros l2; cbn [all2M]; [apply Pr_ret|].
  destruct l2 as [|y r2]; [apply Pr_ret|]. apply Pr_bind; [apply H|]. intros ok. destruct ok; [apply IH|apply Pr_ret].
Qed.
Lemma Pr_rec_pair_layout sl e1 e2 : (forall x y, Pr (sl x y)) -> Pr (rec_pair_layout sl e1 e2).
Proof.
  intros H. unfold rec_pair_layout. apply Pr_bind; [apply Pr_get_cell|]. intros c1. apply Pr_bind; [apply Pr_get_cell|]. intros c2.
  destruct (c_val c1); try apply Pr_failm. destruct (c_val c2); try apply Pr_failm. apply H.
Qed.
Lemma Pr_arr_layout sl a1 a2 : (forall x y, Pr (sl x y)) -> Pr (arr_layout sl a1 a2).
Proof.
  intros H. unfold arr_layout. destruct (negb _); [apply Pr_ret|]. destruct (negb _); [apply Pr_ret|].
  apply Pr_all2M. intros x y. apply Pr_rec_pair_layout. exact H.
Qed.
Lemma Pr_same_layout fuel : forall dc sc, Pr (same_layout fuel dc sc).
Proof.
  induction fuel as [|f IH]; intros dc sc; cbn [same_layout]; [apply Pr_failm|].
  apply Pr_bind; [apply Pr_get_ctx|]. intros dx. apply Pr_bind; [apply Pr_get_ctx|]. intros sx.
  destruct (_ || _); [apply Pr_ret|]. apply Pr_bind.
  - apply Pr_all2M. intros dv sv. apply Pr_bind; [apply Pr_get_cell|]. intros d. apply Pr_bind; [apply Pr_get_cell|]. intros s0.
    destruct (negb _); [apply Pr_ret|]. destruct (dt_is _ _); [|apply Pr_ret].
    destruct (c_val d); try apply Pr_failm. destruct (c_val s0); try apply Pr_failm. apply IH.
  - intros ok. destruct (negb ok); [apply Pr_ret|]. apply Pr_all2M. intros da sa.
    apply Pr_bind; [apply Pr_get_arr|]. intros a1. apply Pr_bind; [apply Pr_get_arr|]. intros a2. apply Pr_arr_layout. exact IH.
Qed.
Lemma Pr_composite_assign cvd fuel tn0 dc tn sc : (forall a b, Pr (cvd a b)) -> Pr (composite_assign cvd fuel tn0 dc tn sc).
Proof.
  intros H. unfold composite_assign. destruct (str_eqb tn0 tn); [|apply Pr_failm].
  apply Pr_bind; [apply Pr_same_layout|]. intros ok. destruct ok; [apply H|apply Pr_runtime_error_cls].
Qed.

Lemma Pr_set_copy_both fuel : (forall d p, Pr (set_copy fuel d p)) /\ (forall dc sc, Pr (copy_var_data fuel dc sc)).
Proof.
  induction fuel as [|f [IHs IHc]].
  - split; intros; [cbn [set_copy]|cbn [copy_var_data]]; apply Pr_failm.
  - split.
    + intros d p. cbn [set_copy]. pr_with ltac:(first [apply IHs | apply IHc | apply Pr_copy_val | apply Pr_set_cell_val | (apply Pr_composite_assign; exact IHc)]).
    + intros dc sc. cbn [copy_var_data].
      pr_with ltac:(first [apply IHs | apply IHc | apply Pr_copy_val | apply Pr_set_cell_val | apply (Pr_copy_go (set_copy f) IHs)]).
Qed.
Lemma Pr_set_copy fuel d p : Pr (set_copy fuel d p).
Proof. apply Pr_set_copy_both. Qed.
Lemma Pr_copy_var_data fuel dc sc : Pr (copy_var_data fuel dc sc).
Proof. apply Pr_set_copy_both. Qed.

Lemma Pr_copy_array_data fuel d s0 : Pr (copy_array_data fuel d s0).
Proof.
  unfold copy_array_data. destruct (N.eqb d s0); [apply Pr_ret|].
  apply Pr_bind; [apply Pr_get_arr|]. intros a1. apply Pr_bind; [apply Pr_get_arr|]. intros a2.
  apply (Pr_copy_go (set_copy fuel)). intros. apply Pr_set_copy.
Qed.

Ltac heap_known := first [ apply Pr_copy_val | apply Pr_copy_ctx | apply Pr_set_cell_val | apply Pr_set_copy | apply Pr_copy_var_data | apply Pr_copy_array_data
                         | apply Pr_same_layout | (apply Pr_arr_layout; intros; apply Pr_same_layout)
                         | (apply Pr_composite_assign; intros; apply Pr_copy_var_data) ].

Lemma Pr_assign_val fuel dst v : Pr (assign_val fuel dst v).
Proof. unfold assign_val. pr_with heap_known. Qed.

Lemma Pr_abs_val fuel : forall c p, Pr (abs_val fuel c p).
Proof.
  induction fuel as [|f IH]; intros c p; destruct p; cbn [abs_val]; pr_with ltac:(first [apply IH | heap_known]).
Qed.

Lemma Pr_store_tree fuel : forall id t, Pr (store_tree fuel id t).
Proof.
  induction fuel as [|f IH]; intros id t; cbn [store_tree]; pr_with ltac:(first [apply IH | heap_known]).
Qed.

(* ---- Control.v ---- *)
Lemma Pr_eval_bounds ev c bs : (forall n, Pr (ev n)) -> forall total, Pr (eval_bounds ev c bs total).
Proof.
  intros H. remember (List.length bs) as n eqn:Hn. revert bs Hn.
  induction n as [n IH] using lt_wf_ind. intros bs Hn total.
  destruct bs as [|lo [|hi rest]]; cbn [eval_bounds]; try apply Pr_ret.
  pr_with ltac:(first [apply H | (eapply IH; [|reflexivity]; subst n; cbn [List.length]; lia)]).
Qed.
Lemma Pr_eval_indices ev c es : (forall n, Pr (ev n)) -> forall ds, Pr (eval_indices ev c es ds).
Proof.
  intros H. induction es as [|e er IH]; intros ds; cbn [eval_indices]; [apply Pr_ret|].
  destruct ds as [|d dr]; [apply Pr_ret|]. pr_with ltac:(first [apply H | apply IH]).
Qed.

Section Ctl.
Variable lim : limits.
Lemma Pr_tick t c : Pr (tick lim t c).
Proof.
  intros s. unfold tick, bind, gets. cbn [fst snd].
  destruct ((0 <? max_steps lim) && (max_steps lim <? s_steps s + 1)); [apply (@Pr_runtime_error_cls unit)|].
  unfold modify. cbn [snd]. apply I_steps.
Qed.
Lemma Pr_cond_bool t c ce : Pr ce -> Pr (cond_bool t c ce).
Proof. intros H. unfold cond_bool. pr_with ltac:(exact H). Qed.
Lemma Pr_if_chain t c comps : Forall (fun p => (forall ce, fst p = Some ce -> Pr ce) /\ Pr (snd p)) comps -> Pr (if_chain t c comps).
Proof.
  induction comps as [|[o b] rest IH]; intros HF; cbn [if_chain]; [apply Pr_ret|].
  inversion HF as [|? ? [Hc Hb] Hr]; subst. cbn [fst snd] in *. destruct o as [ce|].
  - apply Pr_bind; [apply Pr_cond_bool; apply Hc; reflexivity|]. intros v. destruct v; [|apply IH; exact Hr].
    apply Pr_bind; [exact Hb|]. intros _. apply Pr_ret.
  - apply Pr_bind; [exact Hb|]. intros _. apply Pr_ret.
Qed.
Lemma Pr_case_chain clauses : Forall (fun p => Pr (fst p) /\ Pr (snd p)) clauses -> Pr (case_chain clauses).
Proof.
  induction clauses as [|[m b] rest IH]; intros HF; cbn [case_chain]; [apply Pr_ret|].
  inversion HF as [|? ? [Hm Hb] Hr]; subst. cbn [fst snd] in *.
  apply Pr_bind; [exact Hm|]. intros v. destruct v; [|apply IH; exact Hr]. apply Pr_bind; [exact Hb|]. intros _. apply Pr_ret.
Qed.
Lemma Pr_while k t c ce br : Pr ce -> Pr br -> Pr (while_loop lim k t c ce br).
Proof.
  intros Hc Hb. induction k as [|k IH]; cbn [while_loop]; [apply Pr_failm|].
  pr_with ltac:(first [apply Pr_tick | apply Pr_cond_bool; exact Hc | exact Hb | exact IH]).
Qed.
Lemma Pr_repeat k t c ce br : Pr ce -> Pr br -> Pr (repeat_loop lim k t c ce br).
Proof.
  intros Hc Hb. induction k as [|k IH]; cbn [repeat_loop]; [apply Pr_failm|].
  pr_with ltac:(first [apply Pr_tick | apply Pr_cond_bool; exact Hc | exact Hb | exact IH]).
Qed.
Lemma Pr_for k t c it stepv stop br : Pr br -> Pr (for_loop lim k t c it stepv stop br).
Proof.
  intros Hb. induction k as [|k IH]; cbn [for_loop]; [apply Pr_failm|].
  pr_with ltac:(first [apply Pr_tick | apply Pr_set_cell_val | exact Hb | exact IH]).
Qed.
Lemma Pr_if_chain_map ev rb t c comps : (forall n, Pr (ev n)) -> (forall b, Pr (rb b)) -> Pr (if_chain t c (map (if_comp ev rb) comps)).
Proof.
  intros He Hb. apply Pr_if_chain. apply Forall_forall. intros p Hin. apply in_map_iff in Hin. destruct Hin as [q [Hq _]]. subst p.
  unfold if_comp. cbn [fst snd]. split; [|apply Hb]. intros ce E. destruct (fst q); inversion E; subst. apply He.
Qed.
Lemma Pr_case_chain_map {A} (f : A -> M bool * M unit) l : (forall x, Pr (fst (f x)) /\ Pr (snd (f x))) -> Pr (case_chain (map f l)).
Proof. intros H. apply Pr_case_chain. apply Forall_forall. intros p Hin. apply in_map_iff in Hin. destruct Hin as [q [Hq _]]. subst p. apply H. Qed.
End Ctl.

Lemma Pr_builtin_args t c ks : forall vs, Pr (builtin_args t c ks vs).
Proof.
  induction ks as [|k kr IH]; intros vs; cbn [builtin_args]; [apply Pr_ret|]. destruct vs as [|v vr]; [apply Pr_ret|].
  pr_with ltac:(first [apply IH | heap_known]).
Qed.

(* ---- Eval.v: one level of the evaluator preserves I if the level beneath does ---- *)
Section Bodies.
Variables (ped repl : bool) (lim : limits) (self : evs).
Hypothesis He : forall n c, Pr (ev_eval self n c).
Hypothesis Hr : forall r c, Pr (ev_resolve self r c).
Hypothesis Hce : forall v e c, Pr (ev_case_equals self v e c).
Hypothesis Hcr : forall v lo hi c, Pr (ev_case_range self v lo hi c).
Hypothesis Hb : forall bl c, Pr (ev_run_block self bl c).
Hypothesis Hv : forall name ty cst owner, Pr (ev_new_var self name ty cst owner).
Hypothesis Ha : forall name ty dims owner, Pr (ev_new_array self name ty dims owner).
Hypothesis Hba : forall t params args vals c fc, Pr (ev_bind_args self t params args vals c fc).
Hypothesis Hp : forall t name args c, Pr (ev_call_procedure self t name args c).
Hypothesis Hf : forall t args c, Pr (ev_call_function self t args c).

Ltac ev_known :=
  first [ apply He | apply Hr | apply Hce | apply Hcr | apply Hb | apply Hv | apply Ha | apply Hba | apply Hp | apply Hf
        | heap_known | apply Pr_assign_val | apply Pr_abs_val | apply Pr_store_tree | apply Pr_builtin_args | apply Pr_tick
        | match goal with
          | |- Pr (eval_bounds _ _ _ _) => apply Pr_eval_bounds; intros ?
          | |- Pr (eval_indices _ _ _ _) => apply Pr_eval_indices; intros ?
          | |- Pr (if_chain _ _ (map (if_comp _ _) _)) => apply Pr_if_chain_map; intros ?
          | |- Pr (case_chain (map _ _)) => apply Pr_case_chain_map; intros ?; split
          | |- Pr (while_loop _ _ _ _ _ _) => apply Pr_while
          | |- Pr (repeat_loop _ _ _ _ _ _) => apply Pr_repeat
          | |- Pr (for_loop _ _ _ _ _ _ _ _) => apply Pr_for
          end ].

Lemma Pr_eval_body n c : Pr (eval_body ped lim self n c).
Proof. destruct n; unfold eval_body; pr_with ev_known. Qed.
Lemma Pr_resolve_body r c : Pr (resolve_body self r c).
Proof. destruct r; unfold resolve_body; pr_with ev_known. Qed.
Lemma Pr_case_equals_body v e c : Pr (case_equals_body self v e c).
Proof. unfold case_equals_body; pr_with ev_known. Qed.
Lemma Pr_case_range_body v lo hi c : Pr (case_range_body self v lo hi c).
Proof. unfold case_range_body; pr_with ev_known. Qed.
Lemma Pr_run_block_body bl c : Pr (run_block_body repl lim self bl c).
Proof. unfold run_block_body; pr_with ev_known. Qed.
Lemma Pr_new_var_body name ty cst owner : Pr (new_var_body self name ty cst owner).
Proof. unfold new_var_body; pr_with ev_known. Qed.
Lemma Pr_new_array_body name ty dims owner : Pr (new_array_body lim self name ty dims owner).
Proof. unfold new_array_body; pr_with ev_known. Qed.
Lemma Pr_bind_args_body t params args vals c fc : Pr (bind_args_body self t params args vals c fc).
Proof. unfold bind_args_body; pr_with ev_known. Qed.
Lemma Pr_call_procedure_body t name args c : Pr (call_procedure_body lim self t name args c).
Proof. unfold call_procedure_body; pr_with ev_known. Qed.
Lemma Pr_call_function_body t args c : Pr (call_function_body lim self t args c).
Proof. unfold call_function_body; pr_with ev_known. Qed.
End Bodies.

Definition evs_Pr (e : evs) : Prop :=
  (forall n c, Pr (ev_eval e n c)) /\ (forall r c, Pr (ev_resolve e r c)) /\
  (forall v x c, Pr (ev_case_equals e v x c)) /\ (forall v lo hi c, Pr (ev_case_range e v lo hi c)) /\
  (forall bl c, Pr (ev_run_block e bl c)) /\ (forall name ty cst owner, Pr (ev_new_var e name ty cst owner)) /\
  (forall name ty dims owner, Pr (ev_new_array e name ty dims owner)) /\
  (forall t params args vals c fc, Pr (ev_bind_args e t params args vals c fc)) /\
  (forall t name args c, Pr (ev_call_procedure e t name args c)) /\ (forall t args c, Pr (ev_call_function e t args c)).

Lemma evs_at_Pr ped repl lim fuel : evs_Pr (evs_at ped repl lim fuel).
Proof.
  induction fuel as [|f IH]; cbn [evs_at].
  - unfold evs_Pr, evs_zero. cbn. repeat split; intros; apply Pr_failm.
  - destruct IH as [H1 [H2 [H3 [H4 [H5 [H6 [H7 [H8 [H9 H10]]]]]]]]]. unfold evs_Pr, evs_step. cbn.
    split; [intros; apply Pr_eval_body; assumption|].
    split; [intros; apply Pr_resolve_body; assumption|].
    split; [intros; apply Pr_case_equals_body; assumption|].
    split; [intros; apply Pr_case_range_body; assumption|].
    split; [intros; apply Pr_run_block_body; assumption|].
    split; [intros; apply Pr_new_var_body; assumption|].
    split; [intros; apply Pr_new_array_body; assumption|].
    split; [intros; apply Pr_bind_args_body; assumption|].
    split; [intros; apply Pr_call_procedure_body; assumption|].
    intros; apply Pr_call_function_body; assumption.
Qed.

Theorem Pr_eval ped repl lim fuel n c : Pr (eval ped repl lim fuel n c).
Proof. unfold eval. apply (evs_at_Pr ped repl lim fuel). Qed.
Theorem Pr_run_block ped repl lim fuel bl c : Pr (run_block ped repl lim fuel bl c).
Proof. unfold run_block. apply (evs_at_Pr ped repl lim fuel). Qed.

(* ================= --pedantic, relationally, with the frame =================
   RI: the two runs end in the same outcome and state, or the pedantic one stopped with a pedantic Error in a
   state from which the other run's final state is I-reachable (for I = "output extends": what the pedantic
   run printed is a prefix of what the other run prints). *)
Section PedRel.
Hypothesis I_depth_mono : forall d a b, I a b -> I (set_depth d a) (set_depth d b).

Definition RI {A} (x y : outcome A * st) : Prop := x = y \/ (ped_fail x /\ I (snd x) (snd y)).
Definition RMI {A} (m1 m2 : M A) : Prop := (forall s, RI (m1 s) (m2 s)) /\ Pr m2.

Lemma RMI_refl {A} (m : M A) : Pr m -> RMI m m.
Proof. intros H. split; [intros s; left; reflexivity|exact H]. Qed.

Lemma RMI_bind {A B} (m1 m2 : M A) (k1 k2 : A -> M B) :
  RMI m1 m2 -> (forall a, RMI (k1 a) (k2 a)) -> RMI (bind m1 k1) (bind m2 k2).
Proof.
  intros [Hm Pm] Hk. split; [|apply Pr_bind; [exact Pm|intros a; apply (proj2 (Hk a))]].
  intros s. unfold bind. destruct (Hm s) as [E|[[d [s' [E Hd]]] HI]].
  - rewrite E. destruct (m2 s) as [[a|f] s1]; [apply (proj1 (Hk a))|left; reflexivity].
  - rewrite E in *. cbn [snd] in HI. right. split; [exists d, s'; split; [reflexivity|exact Hd]|]. cbn [snd].
    destruct (m2 s) as [[a|f] s2]; cbn [snd] in *; [|exact HI]. eapply I_trans; [exact HI|apply (proj2 (Hk a))].
Qed.

Lemma RMI_ped_guard t : RMI (ped_guard true t) (ped_guard false t).
Proof.
  split; [|unfold ped_guard; apply Pr_ret]. intros s. right. split; [|apply I_refl].
  unfold ped_guard, pedantic_error, failm. eexists. eexists. split; [reflexivity|split; reflexivity].
Qed.

Lemma RMI_catch_cls {A} (m1 m2 : M A) want (h1 h2 : fail -> M A) :
  RMI m1 m2 -> (forall fl, RMI (h1 fl) (h2 fl)) -> want EOther = false -> RMI (catch_cls m1 want h1) (catch_cls m2 want h2).
Proof.
  intros [Hm Pm] Hh Hw. split; [|apply Pr_catch_cls; [exact Pm|intros f; apply (proj2 (Hh f))]].
  intros s. unfold catch_cls, catch. destruct (Hm s) as [E|[[d [s' [E [Hk Hc]]]] HI]].
  - rewrite E. destruct (m2 s) as [[a|f] s1]; [left; reflexivity|]. destruct f; try (left; reflexivity).
    destruct (want (d_cls d)); [apply (proj1 (Hh (FErr d)))|left; reflexivity].
  - rewrite E in *. cbn [snd] in HI. rewrite Hc, Hw. right. split; [exists d, s'; repeat split; assumption|]. cbn [snd].
    destruct (m2 s) as [[a|f] s2]; cbn [snd] in *; [exact HI|]. destruct f; try exact HI.
    destruct (want (d_cls d0)); [|exact HI]. eapply I_trans; [exact HI|apply (proj2 (Hh (FErr d0)))].
Qed.

Lemma RMI_run_body br1 br2 : RMI br1 br2 -> RMI (run_body br1) (run_body br2).
Proof.
  intros [Hm Pm]. split; [|apply Pr_run_body; exact Pm]. intros s. unfold run_body, catch, bind.
  destruct (Hm s) as [E|[[d [s' [E Hd]]] HI]].
  - rewrite E. left. reflexivity.
  - rewrite E in *. cbn [snd] in HI. right. split; [exists d, s'; split; [reflexivity|exact Hd]|]. cbn [snd].
    destruct (br2 s) as [[a|f] s2]; cbn [snd] in *; [exact HI|]. destruct f; exact HI.
Qed.

Lemma RMI_call_body d cc ab (m1 m2 : M unit) : RMI m1 m2 -> RMI (call_body d cc ab m1) (call_body d cc ab m2).
Proof.
  intros [Hm Pm]. split; [|apply Pr_call_body; exact Pm]. intros s. unfold call_body.
  destruct (Hm s) as [E|[[dg [s' [E Hd]]] HI]].
  - rewrite E. left. reflexivity.
  - rewrite E in *. cbn [snd] in HI. right. split; [exists dg, (set_depth d s'); split; [reflexivity|exact Hd]|]. cbn [snd].
    destruct (m2 s) as [[a|f] s2]; cbn [snd] in *; [apply I_depth_mono; exact HI|].
    destruct f; try (apply I_depth_mono; exact HI).
    + eapply I_trans; [apply I_depth_mono; exact HI|apply (@Pr_runtime_error_cls unit)].
    + eapply I_trans; [apply I_depth_mono; exact HI|apply (@Pr_runtime_error_cls unit)].
    + destruct ab; apply I_depth_mono; exact HI.
Qed.

Lemma RMI_mapM {A B} (f1 f2 : A -> M B) l : (forall x, RMI (f1 x) (f2 x)) -> RMI (mapM f1 l) (mapM f2 l).
Proof.
  intros H. induction l as [|x r IH]; cbn [mapM]; [apply RMI_refl; apply Pr_ret|].
  apply RMI_bind; [apply H|]. intros y. apply RMI_bind; [exact IH|]. intros ys. apply RMI_refl. apply Pr_ret.
Qed.
Lemma RMI_iterM {A} (f1 f2 : A -> M unit) l : (forall x, RMI (f1 x) (f2 x)) -> RMI (iterM f1 l) (iterM f2 l).
Proof.
  intros H. induction l as [|x r IH]; cbn [iterM]; [apply RMI_refl; apply Pr_ret|]. apply RMI_bind; [apply H|]. intros _. exact IH.
Qed.
Lemma RMI_repeatM {A} k (m1 m2 : M A) : RMI m1 m2 -> RMI (repeatM k m1) (repeatM k m2).
Proof.
  intros H. induction k as [|k IH]; cbn [repeatM]; [apply RMI_refl; apply Pr_ret|].
  apply RMI_bind; [exact H|]. intros x. apply RMI_bind; [exact IH|]. intros r. apply RMI_refl. apply Pr_ret.
Qed.

(* relational decomposition; [leaf] proves Pr of syntactically equal sides, [known] the recursive calls *)
Ltac rmi_with known :=
  repeat first
    [ match goal with |- RMI ?x ?y => constr_eq x y; apply RMI_refl; solve [pr_with ltac:(first [heap_known | apply Pr_assign_val | apply Pr_abs_val | apply Pr_store_tree | apply Pr_builtin_args | apply Pr_tick])] end
    | apply RMI_ped_guard
    | known
    | match goal with
      | |- RMI (bind _ _) (bind _ _) => apply RMI_bind; [ | intros ? ]
      | |- RMI (if ?c then _ else _) (if ?c then _ else _) => destruct c
      | |- RMI (match ?x with _ => _ end) (match ?x with _ => _ end) => destruct x
      | |- RMI (catch_cls _ _ _) (catch_cls _ _ _) => apply RMI_catch_cls; [ | intros ? | reflexivity ]
      | |- RMI (mapM _ _) (mapM _ _) => apply RMI_mapM; intros ?
      | |- RMI (iterM _ _) (iterM _ _) => apply RMI_iterM; intros ?
      | |- RMI (repeatM _ _) (repeatM _ _) => apply RMI_repeatM
      | |- RMI (call_body _ _ _ _) (call_body _ _ _ _) => apply RMI_call_body
      | |- RMI (run_body _) (run_body _) => apply RMI_run_body
      | |- _ /\ _ => split
      | |- RMI (fst (match ?x with _ => _ end)) _ => destruct x; cbn [fst snd]
      | |- RMI (snd (match ?x with _ => _ end)) _ => destruct x; cbn [fst snd]
      end ].

Lemma RMI_eval_bounds (ev1 ev2 : node -> M result) c bs : (forall e, RMI (ev1 e) (ev2 e)) ->
  forall total, RMI (eval_bounds ev1 c bs total) (eval_bounds ev2 c bs total).
Proof.
  intros H. remember (List.length bs) as n eqn:Hn. revert bs Hn.
  induction n as [n IH] using lt_wf_ind. intros bs Hn total.
  destruct bs as [|lo [|hi rest]]; cbn [eval_bounds]; try (apply RMI_refl; apply Pr_ret).
  rmi_with ltac:(first [apply H | (eapply IH; [|reflexivity]; subst n; cbn [List.length]; lia)]).
Qed.
Lemma RMI_eval_indices (ev1 ev2 : node -> M result) c es : (forall e, RMI (ev1 e) (ev2 e)) ->
  forall ds, RMI (eval_indices ev1 c es ds) (eval_indices ev2 c es ds).
Proof.
  intros H. induction es as [|e er IH]; intros ds; cbn [eval_indices]; [apply RMI_refl; apply Pr_ret|].
  destruct ds as [|d dr]; [apply RMI_refl; apply Pr_ret|]. rmi_with ltac:(first [apply H | apply IH]).
Qed.

Section RLoops.
Variable lim : limits.
Variables (t : token) (c : N).
Lemma RMI_cond_bool ce1 ce2 : RMI ce1 ce2 -> RMI (cond_bool t c ce1) (cond_bool t c ce2).
Proof. intros H. unfold cond_bool. rmi_with ltac:(exact H). Qed.
Lemma RMI_while k ce1 ce2 br1 br2 : RMI ce1 ce2 -> RMI br1 br2 -> RMI (while_loop lim k t c ce1 br1) (while_loop lim k t c ce2 br2).
Proof.
  intros Hc Hb. induction k as [|k IH]; cbn [while_loop]; [apply RMI_refl; apply Pr_failm|].
  rmi_with ltac:(first [apply RMI_cond_bool; exact Hc | exact Hb | exact IH]).
Qed.
Lemma RMI_repeat k ce1 ce2 br1 br2 : RMI ce1 ce2 -> RMI br1 br2 -> RMI (repeat_loop lim k t c ce1 br1) (repeat_loop lim k t c ce2 br2).
Proof.
  intros Hc Hb. induction k as [|k IH]; cbn [repeat_loop]; [apply RMI_refl; apply Pr_failm|].
  rmi_with ltac:(first [apply RMI_cond_bool; exact Hc | exact Hb | exact IH]).
Qed.
Lemma RMI_for k it stepv stop br1 br2 : RMI br1 br2 -> RMI (for_loop lim k t c it stepv stop br1) (for_loop lim k t c it stepv stop br2).
Proof.
  intros Hb. induction k as [|k IH]; cbn [for_loop]; [apply RMI_refl; apply Pr_failm|].
  rmi_with ltac:(first [exact Hb | exact IH]).
Qed.
Lemma RMI_if_chain_map (ev1 ev2 : node -> M result) (rb1 rb2 : list node -> M unit) comps :
  (forall e, RMI (ev1 e) (ev2 e)) -> (forall b, RMI (rb1 b) (rb2 b)) ->
  RMI (if_chain t c (map (if_comp ev1 rb1) comps)) (if_chain t c (map (if_comp ev2 rb2) comps)).
Proof.
  intros He Hb. induction comps as [|[[e|] b] r IH]; cbn [map if_comp if_chain fst snd]; [apply RMI_refl; apply Pr_ret| |].
  - rmi_with ltac:(first [apply RMI_cond_bool; apply He | apply Hb | exact IH]).
  - rmi_with ltac:(first [apply Hb]).
Qed.
Lemma RMI_case_chain_map {X} (f g : X -> M bool * M unit) l :
  (forall x, RMI (fst (f x)) (fst (g x)) /\ RMI (snd (f x)) (snd (g x))) -> RMI (case_chain (map f l)) (case_chain (map g l)).
Proof.
  intros H. induction l as [|x r IH]; cbn [map case_chain]; [apply RMI_refl; apply Pr_ret|].
  destruct (H x) as [Hm Hb]. destruct (f x) as [m1 b1], (g x) as [m2 b2]. cbn [fst snd] in *.
  rmi_with ltac:(first [exact Hm | exact Hb | exact IH]).
Qed.
End RLoops.

Section RBodies.
Variables (repl : bool) (lim : limits) (a b : evs).
Hypothesis Hfuel : ev_fuel a = ev_fuel b.
Hypothesis He : forall n c, RMI (ev_eval a n c) (ev_eval b n c).
Hypothesis Hr : forall r c, RMI (ev_resolve a r c) (ev_resolve b r c).
Hypothesis Hce : forall v e c, RMI (ev_case_equals a v e c) (ev_case_equals b v e c).
Hypothesis Hcr : forall v lo hi c, RMI (ev_case_range a v lo hi c) (ev_case_range b v lo hi c).
Hypothesis Hb : forall bl c, RMI (ev_run_block a bl c) (ev_run_block b bl c).
Hypothesis Hv : forall name ty cst owner, RMI (ev_new_var a name ty cst owner) (ev_new_var b name ty cst owner).
Hypothesis Ha : forall name ty dims owner, RMI (ev_new_array a name ty dims owner) (ev_new_array b name ty dims owner).
Hypothesis Hba : forall t params args vals c fc, RMI (ev_bind_args a t params args vals c fc) (ev_bind_args b t params args vals c fc).
Hypothesis Hp : forall t name args c, RMI (ev_call_procedure a t name args c) (ev_call_procedure b t name args c).
Hypothesis Hf : forall t args c, RMI (ev_call_function a t args c) (ev_call_function b t args c).

Ltac rev_known :=
  first [ apply He | apply Hr | apply Hce | apply Hcr | apply Hb | apply Hv | apply Ha | apply Hba | apply Hp | apply Hf
        | match goal with
          | |- RMI (eval_bounds _ _ _ _) (eval_bounds _ _ _ _) => apply RMI_eval_bounds; intros ?
          | |- RMI (eval_indices _ _ _ _) (eval_indices _ _ _ _) => apply RMI_eval_indices; intros ?
          | |- RMI (if_chain _ _ (map (if_comp _ _) _)) (if_chain _ _ (map (if_comp _ _) _)) => apply RMI_if_chain_map; intros ?
          | |- RMI (case_chain (map _ _)) (case_chain (map _ _)) => apply RMI_case_chain_map; intros ?
          | |- RMI (while_loop _ _ _ _ _ _) (while_loop _ _ _ _ _ _) => apply RMI_while
          | |- RMI (repeat_loop _ _ _ _ _ _) (repeat_loop _ _ _ _ _ _) => apply RMI_repeat
          | |- RMI (for_loop _ _ _ _ _ _ _ _) (for_loop _ _ _ _ _ _ _ _) => apply RMI_for
          end ].

Lemma R_eval_body n c : RMI (eval_body true lim a n c) (eval_body false lim b n c).
Proof. destruct n; unfold eval_body; rewrite <- ?Hfuel; rmi_with rev_known. Qed.
Lemma R_resolve_body r c : RMI (resolve_body a r c) (resolve_body b r c).
Proof. destruct r; unfold resolve_body; rmi_with rev_known. Qed.
Lemma R_case_equals_body v e c : RMI (case_equals_body a v e c) (case_equals_body b v e c).
Proof. unfold case_equals_body; rmi_with rev_known. Qed.
Lemma R_case_range_body v lo hi c : RMI (case_range_body a v lo hi c) (case_range_body b v lo hi c).
Proof. unfold case_range_body; rmi_with rev_known. Qed.
Lemma R_run_block_body bl c : RMI (run_block_body repl lim a bl c) (run_block_body repl lim b bl c).
Proof. unfold run_block_body; rmi_with rev_known. Qed.
Lemma R_new_var_body name ty cst owner : RMI (new_var_body a name ty cst owner) (new_var_body b name ty cst owner).
Proof. unfold new_var_body; rmi_with rev_known. Qed.
Lemma R_new_array_body name ty dims owner : RMI (new_array_body lim a name ty dims owner) (new_array_body lim b name ty dims owner).
Proof. unfold new_array_body; rmi_with rev_known. Qed.
Lemma R_bind_args_body t params args vals c fc : RMI (bind_args_body a t params args vals c fc) (bind_args_body b t params args vals c fc).
Proof. unfold bind_args_body; rmi_with rev_known. Qed.
Lemma R_call_procedure_body t name args c : RMI (call_procedure_body lim a t name args c) (call_procedure_body lim b t name args c).
Proof. unfold call_procedure_body; rmi_with rev_known. Qed.
Lemma R_call_function_body t args c : RMI (call_function_body lim a t args c) (call_function_body lim b t args c).
Proof. unfold call_function_body; rmi_with rev_known. Qed.
End RBodies.

Definition evs_RMI (a b : evs) : Prop :=
  ev_fuel a = ev_fuel b /\
  (forall n c, RMI (ev_eval a n c) (ev_eval b n c)) /\ (forall r c, RMI (ev_resolve a r c) (ev_resolve b r c)) /\
  (forall v e c, RMI (ev_case_equals a v e c) (ev_case_equals b v e c)) /\
  (forall v lo hi c, RMI (ev_case_range a v lo hi c) (ev_case_range b v lo hi c)) /\
  (forall bl c, RMI (ev_run_block a bl c) (ev_run_block b bl c)) /\
  (forall name ty cst owner, RMI (ev_new_var a name ty cst owner) (ev_new_var b name ty cst owner)) /\
  (forall name ty dims owner, RMI (ev_new_array a name ty dims owner) (ev_new_array b name ty dims owner)) /\
  (forall t params args vals c fc, RMI (ev_bind_args a t params args vals c fc) (ev_bind_args b t params args vals c fc)) /\
  (forall t name args c, RMI (ev_call_procedure a t name args c) (ev_call_procedure b t name args c)) /\
  (forall t args c, RMI (ev_call_function a t args c) (ev_call_function b t args c)).

Lemma evs_at_RMI repl lim fuel : evs_RMI (evs_at true repl lim fuel) (evs_at false repl lim fuel).
Proof.
  induction fuel as [|f IH]; cbn [evs_at].
  - unfold evs_RMI, evs_zero. cbn. repeat split; intros; try (left; reflexivity); apply Pr_failm.
  - destruct IH as [H0 [H1 [H2 [H3 [H4 [H5 [H6 [H7 [H8 [H9 H10]]]]]]]]]]. unfold evs_RMI, evs_step. cbn.
    split; [rewrite H0; reflexivity|].
    split; [intros; apply R_eval_body; assumption|].
    split; [intros; apply R_resolve_body; assumption|].
    split; [intros; apply R_case_equals_body; assumption|].
    split; [intros; apply R_case_range_body; assumption|].
    split; [intros; apply R_run_block_body; assumption|].
    split; [intros; apply R_new_var_body; assumption|].
    split; [intros; apply R_new_array_body; assumption|].
    split; [intros; apply R_bind_args_body; assumption|].
    split; [intros; apply R_call_procedure_body; assumption|].
    intros; apply R_call_function_body; assumption.
Qed.

(* with --pedantic the block either does exactly what it does without the option, or stops with a pedantic
   Error in a state from which the final state of the other run is I-reachable *)
Theorem run_block_ped_frame repl lim fuel bl c s :
  RI (run_block true repl lim fuel bl c s) (run_block false repl lim fuel bl c s).
Proof. unfold run_block. destruct (evs_at_RMI repl lim fuel) as [_ [_ [_ [_ [_ [H _]]]]]]. apply (proj1 (H bl c)). Qed.
End PedRel.
End Frame.
