(* Lemmas_Frame.v — a state relation I preserved by every state update of the model is preserved by every
   computation of the evaluator, whatever the program, the fuel and the outcome (success, diagnostic, signal,
   fuel exhaustion).  I is a section variable: reflexive, transitive, and closed under each primitive update
   the model performs.  Instances: Lemmas_Out.v (standard output is append-only). *)
From PE2 Require Import Eval.
Local Open Scope Z_scope.

Section Frame.
Variable I : st -> st -> Prop.
Hypothesis I_refl : forall s, I s s.
Hypothesis I_trans : forall a b c, I a b -> I b c -> I a c.
Hypothesis I_next : forall v s, I s (set_next v s).
Hypothesis I_cells : forall v s, I s (set_cells v s).
Hypothesis I_arrs : forall v s, I s (set_arrs v s).
Hypothesis I_ctxs : forall v s, I s (set_ctxs v s).
Hypothesis I_procs : forall v s, I s (set_procs v s).
Hypothesis I_funcs : forall v s, I s (set_funcs v s).
Hypothesis I_emit : forall x s, I s (set_out (x :: s_out s) s).
Hypothesis I_in : forall v s, I s (set_in v s).
Hypothesis I_fs : forall v s, I s (set_fs v s).
Hypothesis I_files : forall v s, I s (set_files v s).
Hypothesis I_steps : forall v s, I s (set_steps v s).
Hypothesis I_cellcount : forall v s, I s (set_cellcount v s).
Hypothesis I_depth : forall v s, I s (set_depth v s).
Hypothesis I_rand : forall v s, I s (set_rand v s).

Definition Pr {A} (m : M A) : Prop := forall s, I s (snd (m s)).

Lemma Pr_ret {A} (a : A) : Pr (ret a).
Proof. intros s. apply I_refl. Qed.
Lemma Pr_failm {A} f : Pr (@failm A f).
Proof. intros s. apply I_refl. Qed.
Lemma Pr_gets {A} (f : st -> A) : Pr (gets f).
Proof. intros s. apply I_refl. Qed.
Lemma Pr_same {A} (m : M A) : (forall s, snd (m s) = s) -> Pr m.
Proof. intros H s. rewrite H. apply I_refl. Qed.
Lemma Pr_modify f : (forall s, I s (f s)) -> Pr (modify f).
Proof. intros H s. apply H. Qed.
Lemma Pr_bind {A B} (m : M A) (k : A -> M B) : Pr m -> (forall a, Pr (k a)) -> Pr (bind m k).
Proof.
  intros Hm Hk s. unfold bind. specialize (Hm s). destruct (m s) as [[a|f] s1]; cbn [snd] in *; [|exact Hm].
  eapply I_trans; [exact Hm|apply Hk].
Qed.
Lemma Pr_catch {A} (m : M A) h : Pr m -> (forall f m', h f = Some m' -> Pr m') -> Pr (catch m h).
Proof.
  intros Hm Hh s. unfold catch. specialize (Hm s). destruct (m s) as [[a|f] s1]; cbn [snd] in *; [exact Hm|].
  destruct (h f) as [m'|] eqn:E; [|exact Hm]. eapply I_trans; [exact Hm|]. apply (Hh f m' E).
Qed.
Lemma Pr_catch_cls {A} (m : M A) want h : Pr m -> (forall f, Pr (h f)) -> Pr (catch_cls m want h).
Proof.
  intros Hm Hh. unfold catch_cls. apply Pr_catch; [exact Hm|]. intros f m' E.
  destruct f; try discriminate. destruct (want (d_cls d)); [|discriminate]. inversion E; subst. apply Hh.
Qed.
Lemma Pr_mapM {A B} (f : A -> M B) l : (forall x, Pr (f x)) -> Pr (mapM f l).
Proof.
  intros H. induction l as [|x r IH]; cbn [mapM]; [apply Pr_ret|].
  apply Pr_bind; [apply H|]. intros y. apply Pr_bind; [exact IH|]. intros ys. apply Pr_ret.
Qed.
Lemma Pr_iterM {A} (f : A -> M unit) l : (forall x, Pr (f x)) -> Pr (iterM f l).
Proof.
  intros H. induction l as [|x r IH]; cbn [iterM]; [apply Pr_ret|]. apply Pr_bind; [apply H|]. intros _. exact IH.
Qed.
Lemma Pr_zipM {A B} (f : A -> B -> M unit) l1 l2 : (forall x y, Pr (f x y)) -> Pr (zipM f l1 l2).
Proof.
  intros H. revert l2. induction l1 as [|x r IH]; intros l2; cbn [zipM]; [apply Pr_ret|].
  destruct l2 as [|y r2]; [apply Pr_failm|]. apply Pr_bind; [apply H|]. intros _. apply IH.
Qed.
Lemma Pr_repeatM {A} k (m : M A) : Pr m -> Pr (repeatM k m).
Proof.
  intros H. induction k as [|k IH]; cbn [repeatM]; [apply Pr_ret|].
  apply Pr_bind; [exact H|]. intros x. apply Pr_bind; [exact IH|]. intros xs. apply Pr_ret.
Qed.

Lemma Pr_fresh : Pr fresh.
Proof. intros s. apply I_next. Qed.
Lemma Pr_get_cell id : Pr (get_cell id).
Proof. apply Pr_same. intros s. unfold get_cell. destruct (nm_get id (s_cells s)); reflexivity. Qed.
Lemma Pr_get_arr id : Pr (get_arr id).
Proof. apply Pr_same. intros s. unfold get_arr. destruct (nm_get id (s_arrs s)); reflexivity. Qed.
Lemma Pr_get_ctx id : Pr (get_ctx id).
Proof. apply Pr_same. intros s. unfold get_ctx. destruct (nm_get id (s_ctxs s)); reflexivity. Qed.
Lemma Pr_put_cell id c : Pr (put_cell id c).
Proof. apply Pr_modify. intros s. apply I_cells. Qed.
Lemma Pr_put_arr id c : Pr (put_arr id c).
Proof. apply Pr_modify. intros s. apply I_arrs. Qed.
Lemma Pr_put_ctx id c : Pr (put_ctx id c).
Proof. apply Pr_modify. intros s. apply I_ctxs. Qed.
Lemma Pr_emit x : Pr (emit x).
Proof. apply Pr_modify. intros s. apply I_emit. Qed.

Lemma Pr_root_of_aux fuel : forall id, Pr (root_of_aux fuel id).
Proof.
  induction fuel as [|f IH]; intros id; cbn [root_of_aux]; [apply Pr_failm|].
  apply Pr_bind; [apply Pr_get_ctx|]. intros c. destruct (x_parent c); [apply IH|apply Pr_ret].
Qed.
Lemma Pr_nonrec_ancestor_aux fuel : forall id, Pr (nonrec_ancestor_aux fuel id).
Proof.
  induction fuel as [|f IH]; intros id; cbn [nonrec_ancestor_aux]; [apply Pr_failm|].
  apply Pr_bind; [apply Pr_get_ctx|]. intros c. destruct (x_isrec c); [|apply Pr_ret]. destruct (x_parent c); [apply IH|apply Pr_failm].
Qed.
Lemma Pr_on_chain_aux fuel : forall id target, Pr (on_chain_aux fuel id target).
Proof.
  induction fuel as [|f IH]; intros id target; cbn [on_chain_aux]; [apply Pr_failm|].
  destruct (N.eqb id target); [apply Pr_ret|]. apply Pr_bind; [apply Pr_get_ctx|]. intros c. destruct (x_parent c); [apply IH|apply Pr_ret].
Qed.
Lemma Pr_trace_aux fuel : forall id, Pr (trace_aux fuel id).
Proof.
  induction fuel as [|f IH]; intros id; cbn [trace_aux]; [apply Pr_ret|].
  destruct id as [i|]; [|apply Pr_ret]. apply Pr_bind; [apply Pr_get_ctx|]. intros c. apply Pr_bind; [apply IH|]. intros r. apply Pr_ret.
Qed.
Lemma Pr_runtime_error_cls {A} cls t c : Pr (@runtime_error_cls A cls t c).
Proof.
  intros s. unfold runtime_error_cls.
  assert (H : Pr (cx <- get_ctx c ;; rest <- trace_aux (S (x_depth cx)) (x_parent cx) ;;
                  ret (mkDiag DRuntime (tline t) (tcol t) cls ((x_name cx, tline t, tcol t) :: rest)))).
  { apply Pr_bind; [apply Pr_get_ctx|]. intros cx. apply Pr_bind; [apply Pr_trace_aux|]. intros r. apply Pr_ret. }
  specialize (H s). destruct ((cx <- get_ctx c ;; _) s) as [[d|f] s1]; exact H.
Qed.

Lemma Pr_call_body d cc ab m : Pr m -> Pr (call_body d cc ab m).
Proof.
  intros Hm s. unfold call_body. specialize (Hm s). destruct (m s) as [[a|f] s1]; cbn [snd] in *.
  - eapply I_trans; [exact Hm|apply I_depth].
  - destruct f; try (eapply I_trans; [exact Hm|apply I_depth]).
    + eapply I_trans; [exact Hm|]. eapply I_trans; [apply (I_depth d)|]. apply (@Pr_runtime_error_cls unit).
    + eapply I_trans; [exact Hm|]. eapply I_trans; [apply (I_depth d)|]. apply (@Pr_runtime_error_cls unit).
    + destruct ab; (eapply I_trans; [exact Hm|apply I_depth]).
Qed.
End Frame.
