(* Properties_C04.v — calls: passing modes and parameter types.
   PARTIAL: the parameter-list algorithm of the parser (sticky BYREF/BYVAL modes, types shared by
   `a, b : T` groups) is proved equal to its documented meaning for every parameter list of up to 4
   parameters (exhaustively: 1555 lists, 6 written forms per parameter, with and without --pedantic).
   On the functions the evaluator uses (Lemmas_Scope.v): a name is looked up in the activation's own table first and otherwise
   in the table of the root (global) context, never in a caller's; a call runs in a context under a never-used identifier with
   empty tables whose parent is the caller; a BYREF parameter is entered in the callee's table with the identifier of the
   caller's own cell, a BYVAL parameter with the identifier of a cell allocated by the call; a wrong argument count, a BYREF
   argument of another type and a BYREF argument that is not a variable never produce a value.
   PARTIAL: that a function call yields the value of the RETURN it executed, and the lifetime of locals, are compared with the
   implementation by the correspondence, under the sanitizer build too. *)
From PE2 Require Import Parser Eval Lemmas_Calls Lemmas_DeepCopy Lemmas_Scope Run Lemmas_CallStates.
Local Open Scope N_scope.

Theorem C04_sticky_modes_and_type_groups : forall ps ped,
  In ps (lists_upto 4) -> well_formed_list ps = true -> check_params ped ps = true.
Proof. exact sticky_modes. Qed.
Print Assumptions C04_sticky_modes_and_type_groups.

(* the swept domain is not empty or degenerate *)
Example C04_examples :
  carry false [(MRef, true); (MNone, true); (MVal, false); (MNone, true)] = [true; true; false; false] /\
  group_types [(MRef, false); (MNone, true); (MVal, true)] 0 = [Some 1%nat; Some 1%nat; Some 2%nat] /\
  In [(MRef, false); (MNone, true); (MVal, true)] (lists_upto 4).
Proof. vm_compute. repeat split; try reflexivity. tauto. Qed.

(* name resolution: own locals first, otherwise the global table; no context in between is consulted *)
Theorem C04_names_resolve_locally_then_globally : forall c name global s r s', lookup_var c name global s = (Ok r, s') ->
  s' = s /\ exists cx, nm_get c (s_ctxs s) = Some cx /\
  match assoc_str name (x_vars cx) with
  | Some id => r = Some id
  | None => (r = None /\ (global = false \/ x_parent cx = None)) \/
            (global = true /\ exists root rc, nm_get root (s_ctxs s) = Some rc /\ x_parent rc = None /\ r = assoc_str name (x_vars rc))
  end.
Proof. exact lookup_var_spec. Qed.
Print Assumptions C04_names_resolve_locally_then_globally.

Theorem C04_a_local_hides_the_global : forall c name global s cx id, nm_get c (s_ctxs s) = Some cx -> assoc_str name (x_vars cx) = Some id ->
  lookup_var c name global s = (Ok (Some id), s).
Proof. exact local_first. Qed.
Print Assumptions C04_a_local_hides_the_global.

(* every activation has its own, initially empty, tables under an identifier no context ever had *)
Theorem C04_activation_is_fresh : forall parent name isfun rett s id s', hb s -> new_ctx (Some parent) name isfun false rett s = (Ok id, s') ->
  id = s_next s /\ nm_get id (s_ctxs s) = None /\
  exists d, nm_get id (s_ctxs s') = Some (mkCtx (Some parent) name [] [] [] [] [] isfun false rett None None d) /\
  (forall j x, nm_get j (s_ctxs s) = Some x -> nm_get j (s_ctxs s') = Some x) /\ s_cells s' = s_cells s /\ s_arrs s' = s_arrs s.
Proof. exact activation_is_fresh. Qed.
Print Assumptions C04_activation_is_fresh.

(* BYREF: the callee's name denotes the caller's cell itself *)
Theorem C04_byref_binds_the_callers_cell : forall self t pn pty pr ta rs ar v vr c fc s id s1,
  dt_eq pty (r_type v) = true -> ev_resolve self rs c s = (Ok (HVar id), s1) ->
  bind_args_body self t ((pn, pty, true) :: pr) (NAccess ta rs :: ar) (v :: vr) c fc s =
  (add_var fc pn id ;;; ev_bind_args self t pr ar vr c fc) s1.
Proof. exact byref_binds_the_callers_cell. Qed.
Print Assumptions C04_byref_binds_the_callers_cell.

(* BYVAL: the callee's name denotes a cell allocated by this call, holding the converted value *)
Theorem C04_byval_binds_a_new_cell : forall self t pn pty pr a ar v vr c fc s v' s1 p0,
  implicit_cast pty v s = (Ok v', s1) -> dt_eq pty (r_type v') = true -> default_prim (r_type v') = Some p0 ->
  ev_new_var self = new_var_body self ->
  bind_args_body self t ((pn, pty, false) :: pr) (a :: ar) (v :: vr) c fc s =
  ((assign_val hfuel (s_next s1) v' ;;; add_var fc pn (s_next s1)) ;;; ev_bind_args self t pr ar vr c fc)
    (alloc_cell (mkCell pn (r_type v') false fc p0) s1).
Proof. exact byval_binds_a_new_cell. Qed.
Print Assumptions C04_byval_binds_a_new_cell.

(* the premise on the evaluator record holds at every fuel level above zero *)
Example C04_new_var_is_the_body : forall ped repl lim f, ev_new_var (evs_at ped repl lim (S f)) = new_var_body (evs_at ped repl lim f).
Proof. reflexivity. Qed.

(* call errors never produce a value *)
Theorem C04_wrong_argument_count_procedure : forall lim self t name args c s pd,
  assoc_str name (s_procs s) = Some pd -> List.length args <> List.length (pd_params pd) ->
  exists f s', call_procedure_body lim self t name args c s = (Fail f, s').
Proof. exact wrong_argument_count_procedure. Qed.
Print Assumptions C04_wrong_argument_count_procedure.
Theorem C04_wrong_argument_count_function : forall lim self t args c s fd,
  builtin_sig (tval t) = None -> assoc_str (tval t) (s_funcs s) = Some fd -> List.length args <> List.length (fd_params fd) ->
  exists f s', call_function_body lim self t args c s = (Fail f, s').
Proof. exact wrong_argument_count_function. Qed.
Print Assumptions C04_wrong_argument_count_function.
Theorem C04_wrong_byref_argument_type : forall self t pn pty pr a ar v vr c fc s, dt_eq pty (r_type v) = false ->
  exists f s', bind_args_body self t ((pn, pty, true) :: pr) (a :: ar) (v :: vr) c fc s = (Fail f, s').
Proof. exact wrong_argument_type_byref. Qed.
Print Assumptions C04_wrong_byref_argument_type.
Theorem C04_byref_argument_must_be_a_variable : forall self t pn pty pr a ar v vr c fc s,
  dt_eq pty (r_type v) = true -> (forall ta rs, a <> NAccess ta rs) ->
  exists f s', bind_args_body self t ((pn, pty, true) :: pr) (a :: ar) (v :: vr) c fc s = (Fail f, s').
Proof. exact byref_argument_must_be_a_variable. Qed.
Print Assumptions C04_byref_argument_must_be_a_variable.

(* ---- RETURN, statement by statement, in every state (the returned expression any that evaluates without touching the state) ---- *)
(* outside a function: a runtime error, the whole state as it was *)
Theorem C04_return_outside_a_function_is_an_error : forall ped repl lim fuel t e c s cx,
  nm_get c (s_ctxs s) = Some cx -> x_isfun cx = false -> exists f, ev_eval (evs_at ped repl lim (S fuel)) (NReturn t e) c s = (Fail f, s).
Proof. exact return_outside_a_function_is_an_error. Qed.
Print Assumptions C04_return_outside_a_function_is_an_error.

(* inside a function: the value, converted to the declared return type, is recorded in the function's own context -- no variable,
   array, file or output changes -- and the body ends with the return signal; the call then yields exactly that recorded value *)
Theorem C04_return_records_the_converted_value : forall ped repl lim fuel t e c s cx r r',
  nm_get c (s_ctxs s) = Some cx -> x_isfun cx = true ->
  ev_eval (evs_at ped repl lim fuel) e c s = (Ok r, s) ->
  (forall s0, implicit_cast (x_rettype cx) r s0 = (Ok r', s0)) -> dt_eq (r_type r') (x_rettype cx) = true ->
  let s1 := set_ctxs (nm_put c (ctx_with_retval (Some r) cx) (s_ctxs s)) s in
  let s2 := set_ctxs (nm_put c (ctx_with_retval (Some r') (ctx_with_retval (Some r) cx)) (s_ctxs s1)) s1 in
  ev_eval (evs_at ped repl lim (S fuel)) (NReturn t e) c s = (Fail FReturn, s2).
Proof. exact return_records_the_converted_value. Qed.
Print Assumptions C04_return_records_the_converted_value.

(* a value whose type, after the implicit conversions, is not the declared return type: the runtime error raised at the RETURN *)
Theorem C04_return_of_another_type_is_an_error : forall ped repl lim fuel t e c s cx r r',
  nm_get c (s_ctxs s) = Some cx -> x_isfun cx = true ->
  ev_eval (evs_at ped repl lim fuel) e c s = (Ok r, s) ->
  (forall s0, implicit_cast (x_rettype cx) r s0 = (Ok r', s0)) -> dt_eq (r_type r') (x_rettype cx) = false ->
  let s1 := set_ctxs (nm_put c (ctx_with_retval (Some r) cx) (s_ctxs s)) s in
  let s2 := set_ctxs (nm_put c (ctx_with_retval (Some r') (ctx_with_retval (Some r) cx)) (s_ctxs s1)) s1 in
  ev_eval (evs_at ped repl lim (S fuel)) (NReturn t e) c s = rt_error t c s2.
Proof. exact return_of_a_value_of_another_type_is_an_error. Qed.
Print Assumptions C04_return_of_another_type_is_an_error.
