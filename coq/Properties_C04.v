(* Properties_C04.v — calls: passing modes and parameter types.
   PARTIAL: the parameter-list algorithm of the parser (sticky BYREF/BYVAL modes, types shared by
   `a, b : T` groups) is proved equal to its documented meaning for every parameter list of up to 4
   parameters (exhaustively: 1555 lists, 6 written forms per parameter, with and without --pedantic).
   BYVAL isolation, BYREF aliasing and per-activation locals are properties of Eval.v's binding code
   (fresh cell for BYVAL, the argument's own cell id for BYREF, a fresh context per call) that are
   compared with the implementation by the correspondence, under the sanitizer build too. *)
From PE2 Require Import Parser Lemmas_Calls.

Theorem C04_sticky_modes_and_type_groups : forall ps ped,
  In ps (lists_upto 4) -> well_formed_list ps = true -> check_params ped ps = true.
Proof. exact sticky_modes. Qed.
Print Assumptions C04_sticky_modes_and_type_groups.

(* the swept domain is not empty or degenerate *)
Example C04_examples :
  carry false [(MRef, true); (MNone, true); (MVal, false); (MNone, true)] = [true; true; false; false] /\
  group_types [(MRef, false); (MNone, true); (MVal, true)] 0 = [Some 1%nat; Some 1%nat; Some 2%nat] /\
  In [(MRef, false); (MNone, true); (MVal, true)] (lists_upto 4).
Proof. vm_compute. repeat split; try reflexivity. tauto. Qed.
