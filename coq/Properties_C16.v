(* Properties_C16.v — file statements obey the handle state machine and never lose data silently.
   Proved: OPENFILE against the disk (refusals, truncation, append, handle table); what CLOSEFILE writes; and the legality table
   of the statements -- READFILE, WRITEFILE, CLOSEFILE, OPENFILE, SEEK, GETRECORD, PUTRECORD used on a name that is not open
   (or, for OPENFILE, is open) or on a handle of the wrong mode are runtime errors that leave the WHOLE state as it was, in every
   state (file name a string literal).  PARTIAL: EOF (a built-in) and names computed by expressions are compared only, step by
   step, against an explicit handle-state spec on exhaustive short and random long histories; real operating-system refusals are
   exercised only through the listed fault sequences. *)
From PE2 Require Import Files Lemmas_Handles Eval Run Lemmas_FileStates.

Theorem C16_open_unusable_name_reported : forall name mode s, os_name_ok name = false -> create_file name mode s = (Ok false, s).
Proof. exact open_bad_name_fails. Qed.
Print Assumptions C16_open_unusable_name_reported.

Theorem C16_open_missing_for_read_or_append_reported : forall name mode s,
  os_name_ok name = true -> fs_get name (s_fs s) = None -> (mode = FRead \/ mode = FAppend) ->
  create_file name mode s = (Ok false, s).
Proof. exact open_missing_for_read_or_append_fails. Qed.
Print Assumptions C16_open_missing_for_read_or_append_reported.

Theorem C16_open_for_write_starts_empty : forall name s, os_name_ok name = true ->
  exists s', create_file name FWrite s = (Ok true, s') /\ fs_get name (s_fs s') = Some [] /\
             (forall m, str_eqb m name = false -> fs_get m (s_fs s') = fs_get m (s_fs s)) /\
             s_files s' = s_files s ++ [mkOfile name FWrite [] [] 0 false].
Proof. exact open_for_write. Qed.
Print Assumptions C16_open_for_write_starts_empty.

Theorem C16_open_for_append_keeps_content : forall name content s, os_name_ok name = true -> fs_get name (s_fs s) = Some content ->
  exists s', create_file name FAppend s = (Ok true, s') /\ s_fs s' = s_fs s.
Proof. exact open_for_append. Qed.
Print Assumptions C16_open_for_append_keeps_content.

Theorem C16_close_flushes_random_file : forall f s, of_mode f = FRandom -> of_modified f = true ->
  exists s', close_file_effect f s = (Ok Datatypes.tt, s') /\ fs_get (of_name f) (s_fs s') = Some (store_records (of_recs f)).
Proof. exact close_random_flushes. Qed.
Print Assumptions C16_close_flushes_random_file.

Theorem C16_close_of_unmodified_handle_keeps_disk : forall f s, (of_mode f <> FRandom \/ of_modified f = false) ->
  close_file_effect f s = (Ok Datatypes.tt, s).
Proof. exact close_unmodified_keeps_disk. Qed.
Print Assumptions C16_close_of_unmodified_handle_keeps_disk.

(* ---- the handle state machine: a statement used in a state in which it is not legal is a runtime error and leaves the WHOLE
   state -- every file's contents, every handle, every variable, the output -- exactly as it was.  For every state, context, fuel
   and option setting; the file name is a string literal (the error is raised before anything else is evaluated). ---- *)
Theorem C16_readfile_needs_a_read_handle : forall ped repl lim fuel t name id c s,
  (find_file (tval name) (s_files s) = None \/ exists fh, find_file (tval name) (s_files s) = Some fh /\ of_mode fh <> FRead) ->
  exists f, ev_eval (evs_at ped repl lim (S (S fuel))) (NReadFile t (NStr name) id) c s = (Fail f, s).
Proof. exact readfile_needs_a_read_handle. Qed.
Print Assumptions C16_readfile_needs_a_read_handle.

Theorem C16_writefile_needs_a_write_or_append_handle : forall ped repl lim fuel t name d c s,
  (find_file (tval name) (s_files s) = None \/ exists fh, find_file (tval name) (s_files s) = Some fh /\ (of_mode fh = FRead \/ of_mode fh = FRandom)) ->
  exists f, ev_eval (evs_at ped repl lim (S (S fuel))) (NWriteFile t (NStr name) d) c s = (Fail f, s).
Proof. exact writefile_needs_a_write_or_append_handle. Qed.
Print Assumptions C16_writefile_needs_a_write_or_append_handle.

Theorem C16_closefile_needs_an_open_handle : forall ped repl lim fuel t name c s,
  find_file (tval name) (s_files s) = None -> exists f, ev_eval (evs_at ped repl lim (S (S fuel))) (NCloseFile t (NStr name)) c s = (Fail f, s).
Proof. exact closefile_needs_an_open_handle. Qed.
Print Assumptions C16_closefile_needs_an_open_handle.

Theorem C16_openfile_needs_a_closed_name : forall ped repl lim fuel t name mode c s fh,
  find_file (tval name) (s_files s) = Some fh -> exists f, ev_eval (evs_at ped repl lim (S (S fuel))) (NOpenFile t (NStr name) mode) c s = (Fail f, s).
Proof. exact openfile_needs_a_closed_name. Qed.
Print Assumptions C16_openfile_needs_a_closed_name.

Theorem C16_getrecord_needs_a_random_handle : forall ped repl lim fuel t name id c s,
  (find_file (tval name) (s_files s) = None \/ exists fh, find_file (tval name) (s_files s) = Some fh /\ of_mode fh <> FRandom) ->
  exists f, ev_eval (evs_at ped repl lim (S (S fuel))) (NGetRecord t (NStr name) id) c s = (Fail f, s).
Proof. exact getrecord_needs_a_random_handle. Qed.
Print Assumptions C16_getrecord_needs_a_random_handle.

Theorem C16_putrecord_needs_a_random_handle : forall ped repl lim fuel t name id c s,
  (find_file (tval name) (s_files s) = None \/ exists fh, find_file (tval name) (s_files s) = Some fh /\ of_mode fh <> FRandom) ->
  exists f, ev_eval (evs_at ped repl lim (S (S fuel))) (NPutRecord t (NStr name) id) c s = (Fail f, s).
Proof. exact putrecord_needs_a_random_handle. Qed.
Print Assumptions C16_putrecord_needs_a_random_handle.

(* SEEK evaluates the address first: for any address expression that yields an INTEGER >= 1 without touching the state, a handle
   that is not RANDOM, a name that is not open, or an address beyond the end is an error with the state unchanged *)
Theorem C16_seek_needs_a_random_handle_and_an_address_in_range : forall ped repl lim fuel t name a c s ar addr,
  ev_eval (evs_at ped repl lim (S fuel)) a c s = (Ok ar, s) -> dk (r_type ar) = KInt -> r_val ar = Some (PInt addr) -> (1 <= addr)%Z ->
  (find_file (tval name) (s_files s) = None \/ exists fh, find_file (tval name) (s_files s) = Some fh /\ (of_mode fh <> FRandom \/ rf_seek fh addr = None)) ->
  exists f, ev_eval (evs_at ped repl lim (S (S fuel))) (NSeek t (NStr name) a) c s = (Fail f, s).
Proof. exact seek_needs_a_random_handle. Qed.
Print Assumptions C16_seek_needs_a_random_handle_and_an_address_in_range.
