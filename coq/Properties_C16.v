(* Properties_C16.v — file statements obey the handle state machine and never lose data silently.
   PARTIAL: proved for OPENFILE against the disk (refusals, truncation, append, handle table) and for
   what CLOSEFILE writes.  The per-statement legality table (which statement is accepted in which handle
   state) lives in Eval.v's file cases and is compared with the implementation, step by step, against an
   explicit handle-state spec on exhaustive short and random long histories; real operating-system
   refusals are exercised only through the listed fault sequences. *)
From PE2 Require Import Files Lemmas_Handles.

Theorem C16_open_unusable_name_reported : forall name mode s, os_name_ok name = false -> create_file name mode s = (Ok false, s).
Proof. exact open_bad_name_fails. Qed.
Print Assumptions C16_open_unusable_name_reported.

Theorem C16_open_missing_for_read_or_append_reported : forall name mode s,
  os_name_ok name = true -> fs_get name (s_fs s) = None -> (mode = FRead \/ mode = FAppend) ->
  create_file name mode s = (Ok false, s).
Proof. exact open_missing_for_read_or_append_fails. Qed.
Print Assumptions C16_open_missing_for_read_or_append_reported.

Theorem C16_open_for_write_starts_empty : forall name s, os_name_ok name = true ->
  exists s', create_file name FWrite s = (Ok true, s') /\ fs_get name (s_fs s') = Some [] /\
             (forall m, str_eqb m name = false -> fs_get m (s_fs s') = fs_get m (s_fs s)) /\
             s_files s' = s_files s ++ [mkOfile name FWrite [] [] 0 false].
Proof. exact open_for_write. Qed.
Print Assumptions C16_open_for_write_starts_empty.

Theorem C16_open_for_append_keeps_content : forall name content s, os_name_ok name = true -> fs_get name (s_fs s) = Some content ->
  exists s', create_file name FAppend s = (Ok true, s') /\ s_fs s' = s_fs s.
Proof. exact open_for_append. Qed.
Print Assumptions C16_open_for_append_keeps_content.

Theorem C16_close_flushes_random_file : forall f s, of_mode f = FRandom -> of_modified f = true ->
  exists s', close_file_effect f s = (Ok Datatypes.tt, s') /\ fs_get (of_name f) (s_fs s') = Some (store_records (of_recs f)).
Proof. exact close_random_flushes. Qed.
Print Assumptions C16_close_flushes_random_file.

Theorem C16_close_of_unmodified_handle_keeps_disk : forall f s, (of_mode f <> FRandom \/ of_modified f = false) ->
  close_file_effect f s = (Ok Datatypes.tt, s).
Proof. exact close_unmodified_keeps_disk. Qed.
Print Assumptions C16_close_of_unmodified_handle_keeps_disk.
