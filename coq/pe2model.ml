
let __ = let rec f _ = Obj.repr f in Obj.repr f

(** val xorb : bool -> bool -> bool **)

let xorb b1 b2 =
  if b1 then if b2 then false else true else b2

(** val negb : bool -> bool **)

let negb = function
| true -> false
| false -> true

type nat =
| O
| S of nat

type ('a, 'b) sum =
| Inl of 'a
| Inr of 'b

(** val fst : ('a1 * 'a2) -> 'a1 **)

let fst = function
| (x, _) -> x

(** val snd : ('a1 * 'a2) -> 'a2 **)

let snd = function
| (_, y) -> y

(** val length : 'a1 list -> nat **)

let rec length = function
| [] -> O
| _ :: l' -> S (length l')

(** val app : 'a1 list -> 'a1 list -> 'a1 list **)

let rec app l m0 =
  match l with
  | [] -> m0
  | a :: l1 -> a :: (app l1 m0)

type comparison =
| Eq
| Lt
| Gt

(** val compOpp : comparison -> comparison **)

let compOpp = function
| Eq -> Eq
| Lt -> Gt
| Gt -> Lt

module Coq__1 = struct
 (** val add : nat -> nat -> nat **)
 let rec add n0 m0 =
   match n0 with
   | O -> m0
   | S p0 -> S (add p0 m0)
end
include Coq__1

(** val mul : nat -> nat -> nat **)

let rec mul n0 m0 =
  match n0 with
  | O -> O
  | S p0 -> add m0 (mul p0 m0)

(** val sub : nat -> nat -> nat **)

let rec sub n0 m0 =
  match n0 with
  | O -> n0
  | S k -> (match m0 with
            | O -> n0
            | S l -> sub k l)

(** val eqb : bool -> bool -> bool **)

let eqb b1 b2 =
  if b1 then b2 else if b2 then false else true

type positive =
| XI of positive
| XO of positive
| XH

type n =
| N0
| Npos of positive

type z =
| Z0
| Zpos of positive
| Zneg of positive

module Nat =
 struct
  (** val eqb : nat -> nat -> bool **)

  let rec eqb n0 m0 =
    match n0 with
    | O -> (match m0 with
            | O -> true
            | S _ -> false)
    | S n' -> (match m0 with
               | O -> false
               | S m' -> eqb n' m')

  (** val leb : nat -> nat -> bool **)

  let rec leb n0 m0 =
    match n0 with
    | O -> true
    | S n' -> (match m0 with
               | O -> false
               | S m' -> leb n' m')

  (** val ltb : nat -> nat -> bool **)

  let ltb n0 m0 =
    leb (S n0) m0

  (** val even : nat -> bool **)

  let rec even = function
  | O -> true
  | S n1 -> (match n1 with
             | O -> false
             | S n' -> even n')
 end

module Pos =
 struct
  type mask =
  | IsNul
  | IsPos of positive
  | IsNeg
 end

module Coq_Pos =
 struct
  (** val succ : positive -> positive **)

  let rec succ = function
  | XI p0 -> XO (succ p0)
  | XO p0 -> XI p0
  | XH -> XO XH

  (** val add : positive -> positive -> positive **)

  let rec add x y =
    match x with
    | XI p0 ->
      (match y with
       | XI q -> XO (add_carry p0 q)
       | XO q -> XI (add p0 q)
       | XH -> XO (succ p0))
    | XO p0 ->
      (match y with
       | XI q -> XI (add p0 q)
       | XO q -> XO (add p0 q)
       | XH -> XI p0)
    | XH -> (match y with
             | XI q -> XO (succ q)
             | XO q -> XI q
             | XH -> XO XH)

  (** val add_carry : positive -> positive -> positive **)

  and add_carry x y =
    match x with
    | XI p0 ->
      (match y with
       | XI q -> XI (add_carry p0 q)
       | XO q -> XO (add_carry p0 q)
       | XH -> XI (succ p0))
    | XO p0 ->
      (match y with
       | XI q -> XO (add_carry p0 q)
       | XO q -> XI (add p0 q)
       | XH -> XO (succ p0))
    | XH ->
      (match y with
       | XI q -> XI (succ q)
       | XO q -> XO (succ q)
       | XH -> XI XH)

  (** val pred_double : positive -> positive **)

  let rec pred_double = function
  | XI p0 -> XI (XO p0)
  | XO p0 -> XI (pred_double p0)
  | XH -> XH

  type mask = Pos.mask =
  | IsNul
  | IsPos of positive
  | IsNeg

  (** val succ_double_mask : mask -> mask **)

  let succ_double_mask = function
  | IsNul -> IsPos XH
  | IsPos p0 -> IsPos (XI p0)
  | IsNeg -> IsNeg

  (** val double_mask : mask -> mask **)

  let double_mask = function
  | IsPos p0 -> IsPos (XO p0)
  | x0 -> x0

  (** val double_pred_mask : positive -> mask **)

  let double_pred_mask = function
  | XI p0 -> IsPos (XO (XO p0))
  | XO p0 -> IsPos (XO (pred_double p0))
  | XH -> IsNul

  (** val sub_mask : positive -> positive -> mask **)

  let rec sub_mask x y =
    match x with
    | XI p0 ->
      (match y with
       | XI q -> double_mask (sub_mask p0 q)
       | XO q -> succ_double_mask (sub_mask p0 q)
       | XH -> IsPos (XO p0))
    | XO p0 ->
      (match y with
       | XI q -> succ_double_mask (sub_mask_carry p0 q)
       | XO q -> double_mask (sub_mask p0 q)
       | XH -> IsPos (pred_double p0))
    | XH -> (match y with
             | XH -> IsNul
             | _ -> IsNeg)

  (** val sub_mask_carry : positive -> positive -> mask **)

  and sub_mask_carry x y =
    match x with
    | XI p0 ->
      (match y with
       | XI q -> succ_double_mask (sub_mask_carry p0 q)
       | XO q -> double_mask (sub_mask p0 q)
       | XH -> IsPos (pred_double p0))
    | XO p0 ->
      (match y with
       | XI q -> double_mask (sub_mask_carry p0 q)
       | XO q -> succ_double_mask (sub_mask_carry p0 q)
       | XH -> double_pred_mask p0)
    | XH -> IsNeg

  (** val mul : positive -> positive -> positive **)

  let rec mul x y =
    match x with
    | XI p0 -> add y (XO (mul p0 y))
    | XO p0 -> XO (mul p0 y)
    | XH -> y

  (** val iter : ('a1 -> 'a1) -> 'a1 -> positive -> 'a1 **)

  let rec iter f x = function
  | XI n' -> f (iter f (iter f x n') n')
  | XO n' -> iter f (iter f x n') n'
  | XH -> f x

  (** val div2 : positive -> positive **)

  let div2 = function
  | XI p1 -> p1
  | XO p1 -> p1
  | XH -> XH

  (** val div2_up : positive -> positive **)

  let div2_up = function
  | XI p1 -> succ p1
  | XO p1 -> p1
  | XH -> XH

  (** val size : positive -> positive **)

  let rec size = function
  | XI p1 -> succ (size p1)
  | XO p1 -> succ (size p1)
  | XH -> XH

  (** val compare_cont : comparison -> positive -> positive -> comparison **)

  let rec compare_cont r x y =
    match x with
    | XI p0 ->
      (match y with
       | XI q -> compare_cont r p0 q
       | XO q -> compare_cont Gt p0 q
       | XH -> Gt)
    | XO p0 ->
      (match y with
       | XI q -> compare_cont Lt p0 q
       | XO q -> compare_cont r p0 q
       | XH -> Gt)
    | XH -> (match y with
             | XH -> r
             | _ -> Lt)

  (** val compare : positive -> positive -> comparison **)

  let compare =
    compare_cont Eq

  (** val eqb : positive -> positive -> bool **)

  let rec eqb p0 q =
    match p0 with
    | XI p1 -> (match q with
                | XI q0 -> eqb p1 q0
                | _ -> false)
    | XO p1 -> (match q with
                | XO q0 -> eqb p1 q0
                | _ -> false)
    | XH -> (match q with
             | XH -> true
             | _ -> false)

  (** val leb : positive -> positive -> bool **)

  let leb x y =
    match compare x y with
    | Gt -> false
    | _ -> true

  (** val sqrtrem_step :
      (positive -> positive) -> (positive -> positive) -> (positive * mask)
      -> positive * mask **)

  let sqrtrem_step f g = function
  | (s, y) ->
    (match y with
     | IsPos r ->
       let s' = XI (XO s) in
       let r' = g (f r) in
       if leb s' r' then ((XI s), (sub_mask r' s')) else ((XO s), (IsPos r'))
     | _ -> ((XO s), (sub_mask (g (f XH)) (XO (XO XH)))))

  (** val sqrtrem : positive -> positive * mask **)

  let rec sqrtrem = function
  | XI p1 ->
    (match p1 with
     | XI p2 -> sqrtrem_step (fun x -> XI x) (fun x -> XI x) (sqrtrem p2)
     | XO p2 -> sqrtrem_step (fun x -> XO x) (fun x -> XI x) (sqrtrem p2)
     | XH -> (XH, (IsPos (XO XH))))
  | XO p1 ->
    (match p1 with
     | XI p2 -> sqrtrem_step (fun x -> XI x) (fun x -> XO x) (sqrtrem p2)
     | XO p2 -> sqrtrem_step (fun x -> XO x) (fun x -> XO x) (sqrtrem p2)
     | XH -> (XH, (IsPos XH)))
  | XH -> (XH, IsNul)

  (** val iter_op : ('a1 -> 'a1 -> 'a1) -> positive -> 'a1 -> 'a1 **)

  let rec iter_op op p0 a =
    match p0 with
    | XI p1 -> op a (iter_op op p1 (op a a))
    | XO p1 -> iter_op op p1 (op a a)
    | XH -> a

  (** val to_nat : positive -> nat **)

  let to_nat x =
    iter_op Coq__1.add x (S O)

  (** val of_succ_nat : nat -> positive **)

  let rec of_succ_nat = function
  | O -> XH
  | S x -> succ (of_succ_nat x)
 end

module N =
 struct
  (** val succ_double : n -> n **)

  let succ_double = function
  | N0 -> Npos XH
  | Npos p0 -> Npos (XI p0)

  (** val double : n -> n **)

  let double = function
  | N0 -> N0
  | Npos p0 -> Npos (XO p0)

  (** val succ : n -> n **)

  let succ = function
  | N0 -> Npos XH
  | Npos p0 -> Npos (Coq_Pos.succ p0)

  (** val succ_pos : n -> positive **)

  let succ_pos = function
  | N0 -> XH
  | Npos p0 -> Coq_Pos.succ p0

  (** val add : n -> n -> n **)

  let add n0 m0 =
    match n0 with
    | N0 -> m0
    | Npos p0 -> (match m0 with
                  | N0 -> n0
                  | Npos q -> Npos (Coq_Pos.add p0 q))

  (** val sub : n -> n -> n **)

  let sub n0 m0 =
    match n0 with
    | N0 -> N0
    | Npos n' ->
      (match m0 with
       | N0 -> n0
       | Npos m' ->
         (match Coq_Pos.sub_mask n' m' with
          | Coq_Pos.IsPos p0 -> Npos p0
          | _ -> N0))

  (** val mul : n -> n -> n **)

  let mul n0 m0 =
    match n0 with
    | N0 -> N0
    | Npos p0 -> (match m0 with
                  | N0 -> N0
                  | Npos q -> Npos (Coq_Pos.mul p0 q))

  (** val compare : n -> n -> comparison **)

  let compare n0 m0 =
    match n0 with
    | N0 -> (match m0 with
             | N0 -> Eq
             | Npos _ -> Lt)
    | Npos n' -> (match m0 with
                  | N0 -> Gt
                  | Npos m' -> Coq_Pos.compare n' m')

  (** val eqb : n -> n -> bool **)

  let eqb n0 m0 =
    match n0 with
    | N0 -> (match m0 with
             | N0 -> true
             | Npos _ -> false)
    | Npos p0 -> (match m0 with
                  | N0 -> false
                  | Npos q -> Coq_Pos.eqb p0 q)

  (** val leb : n -> n -> bool **)

  let leb x y =
    match compare x y with
    | Gt -> false
    | _ -> true

  (** val pos_div_eucl : positive -> n -> n * n **)

  let rec pos_div_eucl a b =
    match a with
    | XI a' ->
      let (q, r) = pos_div_eucl a' b in
      let r' = succ_double r in
      if leb b r' then ((succ_double q), (sub r' b)) else ((double q), r')
    | XO a' ->
      let (q, r) = pos_div_eucl a' b in
      let r' = double r in
      if leb b r' then ((succ_double q), (sub r' b)) else ((double q), r')
    | XH ->
      (match b with
       | N0 -> (N0, (Npos XH))
       | Npos p0 ->
         (match p0 with
          | XH -> ((Npos XH), N0)
          | _ -> (N0, (Npos XH))))

  (** val of_nat : nat -> n **)

  let of_nat = function
  | O -> N0
  | S n' -> Npos (Coq_Pos.of_succ_nat n')
 end

(** val zero : char **)

let zero = '\000'

(** val one : char **)

let one = '\001'

(** val shift : bool -> char -> char **)

let shift = fun b c -> Char.chr (((Char.code c) lsl 1) land 255 + if b then 1 else 0)

(** val ascii_of_pos : positive -> char **)

let ascii_of_pos =
  let rec loop n0 p0 =
    match n0 with
    | O -> zero
    | S n' ->
      (match p0 with
       | XI p' -> shift true (loop n' p')
       | XO p' -> shift false (loop n' p')
       | XH -> one)
  in loop (S (S (S (S (S (S (S (S O))))))))

(** val ascii_of_N : n -> char **)

let ascii_of_N = function
| N0 -> zero
| Npos p0 -> ascii_of_pos p0

(** val ascii_of_nat : nat -> char **)

let ascii_of_nat a =
  ascii_of_N (N.of_nat a)

(** val n_of_digits : bool list -> n **)

let rec n_of_digits = function
| [] -> N0
| b :: l' ->
  N.add (if b then Npos XH else N0) (N.mul (Npos (XO XH)) (n_of_digits l'))

(** val n_of_ascii : char -> n **)

let n_of_ascii a =
  (* If this appears, you're using Ascii internals. Please don't *)
 (fun f c ->
  let n = Char.code c in
  let h i = (n land (1 lsl i)) <> 0 in
  f (h 0) (h 1) (h 2) (h 3) (h 4) (h 5) (h 6) (h 7))
    (fun a0 a1 a2 a3 a4 a5 a6 a7 ->
    n_of_digits
      (a0 :: (a1 :: (a2 :: (a3 :: (a4 :: (a5 :: (a6 :: (a7 :: [])))))))))
    a

(** val hd : 'a1 -> 'a1 list -> 'a1 **)

let hd default = function
| [] -> default
| x :: _ -> x

(** val tl : 'a1 list -> 'a1 list **)

let tl = function
| [] -> []
| _ :: m0 -> m0

(** val nth : nat -> 'a1 list -> 'a1 -> 'a1 **)

let rec nth n0 l default =
  match n0 with
  | O -> (match l with
          | [] -> default
          | x :: _ -> x)
  | S m0 -> (match l with
             | [] -> default
             | _ :: t0 -> nth m0 t0 default)

(** val nth_error : 'a1 list -> nat -> 'a1 option **)

let rec nth_error l = function
| O -> (match l with
        | [] -> None
        | x :: _ -> Some x)
| S n1 -> (match l with
           | [] -> None
           | _ :: l0 -> nth_error l0 n1)

(** val rev : 'a1 list -> 'a1 list **)

let rec rev = function
| [] -> []
| x :: l' -> app (rev l') (x :: [])

(** val concat : 'a1 list list -> 'a1 list **)

let rec concat = function
| [] -> []
| x :: l0 -> app x (concat l0)

(** val map : ('a1 -> 'a2) -> 'a1 list -> 'a2 list **)

let rec map f = function
| [] -> []
| a :: t0 -> (f a) :: (map f t0)

(** val fold_left : ('a1 -> 'a2 -> 'a1) -> 'a2 list -> 'a1 -> 'a1 **)

let rec fold_left f l a0 =
  match l with
  | [] -> a0
  | b :: t0 -> fold_left f t0 (f a0 b)

(** val existsb : ('a1 -> bool) -> 'a1 list -> bool **)

let rec existsb f = function
| [] -> false
| a :: l0 -> (||) (f a) (existsb f l0)

(** val forallb : ('a1 -> bool) -> 'a1 list -> bool **)

let rec forallb f = function
| [] -> true
| a :: l0 -> (&&) (f a) (forallb f l0)

(** val filter : ('a1 -> bool) -> 'a1 list -> 'a1 list **)

let rec filter f = function
| [] -> []
| x :: l0 -> if f x then x :: (filter f l0) else filter f l0

(** val combine : 'a1 list -> 'a2 list -> ('a1 * 'a2) list **)

let rec combine l l' =
  match l with
  | [] -> []
  | x :: tl0 ->
    (match l' with
     | [] -> []
     | y :: tl' -> (x, y) :: (combine tl0 tl'))

(** val firstn : nat -> 'a1 list -> 'a1 list **)

let rec firstn n0 l =
  match n0 with
  | O -> []
  | S n1 -> (match l with
             | [] -> []
             | a :: l0 -> a :: (firstn n1 l0))

(** val skipn : nat -> 'a1 list -> 'a1 list **)

let rec skipn n0 l =
  match n0 with
  | O -> l
  | S n1 -> (match l with
             | [] -> []
             | _ :: l0 -> skipn n1 l0)

module Z =
 struct
  (** val double : z -> z **)

  let double = function
  | Z0 -> Z0
  | Zpos p0 -> Zpos (XO p0)
  | Zneg p0 -> Zneg (XO p0)

  (** val succ_double : z -> z **)

  let succ_double = function
  | Z0 -> Zpos XH
  | Zpos p0 -> Zpos (XI p0)
  | Zneg p0 -> Zneg (Coq_Pos.pred_double p0)

  (** val pred_double : z -> z **)

  let pred_double = function
  | Z0 -> Zneg XH
  | Zpos p0 -> Zpos (Coq_Pos.pred_double p0)
  | Zneg p0 -> Zneg (XI p0)

  (** val pos_sub : positive -> positive -> z **)

  let rec pos_sub x y =
    match x with
    | XI p0 ->
      (match y with
       | XI q -> double (pos_sub p0 q)
       | XO q -> succ_double (pos_sub p0 q)
       | XH -> Zpos (XO p0))
    | XO p0 ->
      (match y with
       | XI q -> pred_double (pos_sub p0 q)
       | XO q -> double (pos_sub p0 q)
       | XH -> Zpos (Coq_Pos.pred_double p0))
    | XH ->
      (match y with
       | XI q -> Zneg (XO q)
       | XO q -> Zneg (Coq_Pos.pred_double q)
       | XH -> Z0)

  (** val add : z -> z -> z **)

  let add x y =
    match x with
    | Z0 -> y
    | Zpos x' ->
      (match y with
       | Z0 -> x
       | Zpos y' -> Zpos (Coq_Pos.add x' y')
       | Zneg y' -> pos_sub x' y')
    | Zneg x' ->
      (match y with
       | Z0 -> x
       | Zpos y' -> pos_sub y' x'
       | Zneg y' -> Zneg (Coq_Pos.add x' y'))

  (** val opp : z -> z **)

  let opp = function
  | Z0 -> Z0
  | Zpos x0 -> Zneg x0
  | Zneg x0 -> Zpos x0

  (** val sub : z -> z -> z **)

  let sub m0 n0 =
    add m0 (opp n0)

  (** val mul : z -> z -> z **)

  let mul x y =
    match x with
    | Z0 -> Z0
    | Zpos x' ->
      (match y with
       | Z0 -> Z0
       | Zpos y' -> Zpos (Coq_Pos.mul x' y')
       | Zneg y' -> Zneg (Coq_Pos.mul x' y'))
    | Zneg x' ->
      (match y with
       | Z0 -> Z0
       | Zpos y' -> Zneg (Coq_Pos.mul x' y')
       | Zneg y' -> Zpos (Coq_Pos.mul x' y'))

  (** val pow_pos : z -> positive -> z **)

  let pow_pos z0 =
    Coq_Pos.iter (mul z0) (Zpos XH)

  (** val pow : z -> z -> z **)

  let pow x = function
  | Z0 -> Zpos XH
  | Zpos p0 -> pow_pos x p0
  | Zneg _ -> Z0

  (** val compare : z -> z -> comparison **)

  let compare x y =
    match x with
    | Z0 -> (match y with
             | Z0 -> Eq
             | Zpos _ -> Lt
             | Zneg _ -> Gt)
    | Zpos x' -> (match y with
                  | Zpos y' -> Coq_Pos.compare x' y'
                  | _ -> Gt)
    | Zneg x' ->
      (match y with
       | Zneg y' -> compOpp (Coq_Pos.compare x' y')
       | _ -> Lt)

  (** val leb : z -> z -> bool **)

  let leb x y =
    match compare x y with
    | Gt -> false
    | _ -> true

  (** val ltb : z -> z -> bool **)

  let ltb x y =
    match compare x y with
    | Lt -> true
    | _ -> false

  (** val eqb : z -> z -> bool **)

  let eqb x y =
    match x with
    | Z0 -> (match y with
             | Z0 -> true
             | _ -> false)
    | Zpos p0 -> (match y with
                  | Zpos q -> Coq_Pos.eqb p0 q
                  | _ -> false)
    | Zneg p0 -> (match y with
                  | Zneg q -> Coq_Pos.eqb p0 q
                  | _ -> false)

  (** val max : z -> z -> z **)

  let max n0 m0 =
    match compare n0 m0 with
    | Lt -> m0
    | _ -> n0

  (** val min : z -> z -> z **)

  let min n0 m0 =
    match compare n0 m0 with
    | Gt -> m0
    | _ -> n0

  (** val abs : z -> z **)

  let abs = function
  | Zneg p0 -> Zpos p0
  | x -> x

  (** val to_nat : z -> nat **)

  let to_nat = function
  | Zpos p0 -> Coq_Pos.to_nat p0
  | _ -> O

  (** val to_N : z -> n **)

  let to_N = function
  | Zpos p0 -> Npos p0
  | _ -> N0

  (** val of_nat : nat -> z **)

  let of_nat = function
  | O -> Z0
  | S n1 -> Zpos (Coq_Pos.of_succ_nat n1)

  (** val of_N : n -> z **)

  let of_N = function
  | N0 -> Z0
  | Npos p0 -> Zpos p0

  (** val pos_div_eucl : positive -> z -> z * z **)

  let rec pos_div_eucl a b =
    match a with
    | XI a' ->
      let (q, r) = pos_div_eucl a' b in
      let r' = add (mul (Zpos (XO XH)) r) (Zpos XH) in
      if ltb r' b
      then ((mul (Zpos (XO XH)) q), r')
      else ((add (mul (Zpos (XO XH)) q) (Zpos XH)), (sub r' b))
    | XO a' ->
      let (q, r) = pos_div_eucl a' b in
      let r' = mul (Zpos (XO XH)) r in
      if ltb r' b
      then ((mul (Zpos (XO XH)) q), r')
      else ((add (mul (Zpos (XO XH)) q) (Zpos XH)), (sub r' b))
    | XH -> if leb (Zpos (XO XH)) b then (Z0, (Zpos XH)) else ((Zpos XH), Z0)

  (** val div_eucl : z -> z -> z * z **)

  let div_eucl a b =
    match a with
    | Z0 -> (Z0, Z0)
    | Zpos a' ->
      (match b with
       | Z0 -> (Z0, a)
       | Zpos _ -> pos_div_eucl a' b
       | Zneg b' ->
         let (q, r) = pos_div_eucl a' (Zpos b') in
         (match r with
          | Z0 -> ((opp q), Z0)
          | _ -> ((opp (add q (Zpos XH))), (add b r))))
    | Zneg a' ->
      (match b with
       | Z0 -> (Z0, a)
       | Zpos _ ->
         let (q, r) = pos_div_eucl a' b in
         (match r with
          | Z0 -> ((opp q), Z0)
          | _ -> ((opp (add q (Zpos XH))), (sub b r)))
       | Zneg b' -> let (q, r) = pos_div_eucl a' (Zpos b') in (q, (opp r)))

  (** val div : z -> z -> z **)

  let div a b =
    let (q, _) = div_eucl a b in q

  (** val modulo : z -> z -> z **)

  let modulo a b =
    let (_, r) = div_eucl a b in r

  (** val quotrem : z -> z -> z * z **)

  let quotrem a b =
    match a with
    | Z0 -> (Z0, Z0)
    | Zpos a0 ->
      (match b with
       | Z0 -> (Z0, a)
       | Zpos b0 ->
         let (q, r) = N.pos_div_eucl a0 (Npos b0) in ((of_N q), (of_N r))
       | Zneg b0 ->
         let (q, r) = N.pos_div_eucl a0 (Npos b0) in
         ((opp (of_N q)), (of_N r)))
    | Zneg a0 ->
      (match b with
       | Z0 -> (Z0, a)
       | Zpos b0 ->
         let (q, r) = N.pos_div_eucl a0 (Npos b0) in
         ((opp (of_N q)), (opp (of_N r)))
       | Zneg b0 ->
         let (q, r) = N.pos_div_eucl a0 (Npos b0) in
         ((of_N q), (opp (of_N r))))

  (** val quot : z -> z -> z **)

  let quot a b =
    fst (quotrem a b)

  (** val rem : z -> z -> z **)

  let rem a b =
    snd (quotrem a b)

  (** val even : z -> bool **)

  let even = function
  | Z0 -> true
  | Zpos p0 -> (match p0 with
                | XO _ -> true
                | _ -> false)
  | Zneg p0 -> (match p0 with
                | XO _ -> true
                | _ -> false)

  (** val odd : z -> bool **)

  let odd = function
  | Z0 -> false
  | Zpos p0 -> (match p0 with
                | XO _ -> false
                | _ -> true)
  | Zneg p0 -> (match p0 with
                | XO _ -> false
                | _ -> true)

  (** val div2 : z -> z **)

  let div2 = function
  | Z0 -> Z0
  | Zpos p0 -> (match p0 with
                | XH -> Z0
                | _ -> Zpos (Coq_Pos.div2 p0))
  | Zneg p0 -> Zneg (Coq_Pos.div2_up p0)

  (** val log2 : z -> z **)

  let log2 = function
  | Zpos p0 ->
    (match p0 with
     | XI p1 -> Zpos (Coq_Pos.size p1)
     | XO p1 -> Zpos (Coq_Pos.size p1)
     | XH -> Z0)
  | _ -> Z0

  (** val sqrtrem : z -> z * z **)

  let sqrtrem = function
  | Zpos p0 ->
    let (s, m0) = Coq_Pos.sqrtrem p0 in
    (match m0 with
     | Coq_Pos.IsPos r -> ((Zpos s), (Zpos r))
     | _ -> ((Zpos s), Z0))
  | _ -> (Z0, Z0)

  (** val shiftl : z -> z -> z **)

  let shiftl a = function
  | Z0 -> a
  | Zpos p0 -> Coq_Pos.iter (mul (Zpos (XO XH))) a p0
  | Zneg p0 -> Coq_Pos.iter div2 a p0
 end

(** val zeq_bool : z -> z -> bool **)

let zeq_bool x y =
  match Z.compare x y with
  | Eq -> true
  | _ -> false

(** val eqb0 : char list -> char list -> bool **)

let rec eqb0 s1 s2 =
  match s1 with
  | [] -> (match s2 with
           | [] -> true
           | _::_ -> false)
  | c1::s1' ->
    (match s2 with
     | [] -> false
     | c2::s2' -> if (=) c1 c2 then eqb0 s1' s2' else false)

(** val shift_pos : positive -> positive -> positive **)

let shift_pos n0 z0 =
  Coq_Pos.iter (fun x -> XO x) z0 n0

(** val zcode : char -> z **)

let zcode c =
  Z.of_N (n_of_ascii c)

(** val ascii_of_z : z -> char **)

let ascii_of_z z0 =
  ascii_of_N
    (Z.to_N (Z.modulo z0 (Zpos (XO (XO (XO (XO (XO (XO (XO (XO XH)))))))))))

(** val schar_of_ascii : char -> z **)

let schar_of_ascii c =
  let z0 = zcode c in
  if Z.ltb z0 (Zpos (XO (XO (XO (XO (XO (XO (XO XH))))))))
  then z0
  else Z.sub z0 (Zpos (XO (XO (XO (XO (XO (XO (XO (XO XH)))))))))

(** val is_digit : char -> bool **)

let is_digit c =
  let z0 = zcode c in
  (&&) (Z.leb (Zpos (XO (XO (XO (XO (XI XH)))))) z0)
    (Z.leb z0 (Zpos (XI (XO (XO (XI (XI XH)))))))

(** val is_upper : char -> bool **)

let is_upper c =
  let z0 = zcode c in
  (&&) (Z.leb (Zpos (XI (XO (XO (XO (XO (XO XH))))))) z0)
    (Z.leb z0 (Zpos (XO (XI (XO (XI (XI (XO XH))))))))

(** val is_lower : char -> bool **)

let is_lower c =
  let z0 = zcode c in
  (&&) (Z.leb (Zpos (XI (XO (XO (XO (XO (XI XH))))))) z0)
    (Z.leb z0 (Zpos (XO (XI (XO (XI (XI (XI XH))))))))

(** val is_alpha : char -> bool **)

let is_alpha c =
  (||) (is_upper c) (is_lower c)

(** val is_alnum : char -> bool **)

let is_alnum c =
  (||) (is_alpha c) (is_digit c)

(** val is_cspace : char -> bool **)

let is_cspace c =
  let z0 = zcode c in
  (||) (Z.eqb z0 (Zpos (XO (XO (XO (XO (XO XH)))))))
    ((&&) (Z.leb (Zpos (XI (XO (XO XH)))) z0)
      (Z.leb z0 (Zpos (XI (XO (XI XH))))))

(** val to_upper : char -> char **)

let to_upper c =
  if is_lower c
  then ascii_of_z (Z.sub (zcode c) (Zpos (XO (XO (XO (XO (XO XH)))))))
  else c

(** val to_lower : char -> char **)

let to_lower c =
  if is_upper c
  then ascii_of_z (Z.add (zcode c) (Zpos (XO (XO (XO (XO (XO XH)))))))
  else c

(** val digit_val : char -> z **)

let digit_val c =
  Z.sub (zcode c) (Zpos (XO (XO (XO (XO (XI XH))))))

(** val ch_nl : char **)

let ch_nl =
  ascii_of_nat (S (S (S (S (S (S (S (S (S (S O))))))))))

(** val ch_tab : char **)

let ch_tab =
  ascii_of_nat (S (S (S (S (S (S (S (S (S O)))))))))

(** val ch_cr : char **)

let ch_cr =
  ascii_of_nat (S (S (S (S (S (S (S (S (S (S (S (S (S O)))))))))))))

(** val ch_nul : char **)

let ch_nul =
  ascii_of_nat O

(** val ch_quote : char **)

let ch_quote =
  ascii_of_nat (S (S (S (S (S (S (S (S (S (S (S (S (S (S (S (S (S (S (S (S (S
    (S (S (S (S (S (S (S (S (S (S (S (S (S (S (S (S (S (S
    O)))))))))))))))))))))))))))))))))))))))

(** val ch_dquote : char **)

let ch_dquote =
  ascii_of_nat (S (S (S (S (S (S (S (S (S (S (S (S (S (S (S (S (S (S (S (S (S
    (S (S (S (S (S (S (S (S (S (S (S (S (S O))))))))))))))))))))))))))))))))))

(** val ch_bslash : char **)

let ch_bslash =
  ascii_of_nat (S (S (S (S (S (S (S (S (S (S (S (S (S (S (S (S (S (S (S (S (S
    (S (S (S (S (S (S (S (S (S (S (S (S (S (S (S (S (S (S (S (S (S (S (S (S
    (S (S (S (S (S (S (S (S (S (S (S (S (S (S (S (S (S (S (S (S (S (S (S (S
    (S (S (S (S (S (S (S (S (S (S (S (S (S (S (S (S (S (S (S (S (S (S (S
    O))))))))))))))))))))))))))))))))))))))))))))))))))))))))))))))))))))))))))))))))))))))))))))

(** val ch_hash : char **)

let ch_hash =
  '#'

(** val ch_space : char **)

let ch_space =
  ' '

(** val aeqb : char -> char -> bool **)

let aeqb =
  (=)

type str = char list

(** val str_of_string : char list -> str **)

let rec str_of_string = function
| [] -> []
| c::r -> c :: (str_of_string r)

(** val str_eqb : str -> str -> bool **)

let rec str_eqb a b =
  match a with
  | [] -> (match b with
           | [] -> true
           | _ :: _ -> false)
  | x :: a' ->
    (match b with
     | [] -> false
     | y :: b' -> (&&) (aeqb x y) (str_eqb a' b'))

(** val starts_with : str -> str -> bool **)

let rec starts_with p0 s =
  match p0 with
  | [] -> true
  | x :: p' ->
    (match s with
     | [] -> false
     | y :: s' -> (&&) (aeqb x y) (starts_with p' s'))

(** val pos_digits_aux : nat -> z -> str -> str **)

let rec pos_digits_aux fuel n0 acc =
  match fuel with
  | O -> acc
  | S f ->
    if Z.ltb n0 (Zpos (XO (XI (XO XH))))
    then (ascii_of_z (Z.add (Zpos (XO (XO (XO (XO (XI XH)))))) n0)) :: acc
    else pos_digits_aux f (Z.div n0 (Zpos (XO (XI (XO XH)))))
           ((ascii_of_z
              (Z.add (Zpos (XO (XO (XO (XO (XI XH))))))
                (Z.modulo n0 (Zpos (XO (XI (XO XH))))))) :: acc)

(** val nat_digits : z -> str **)

let nat_digits n0 =
  pos_digits_aux (S (Z.to_nat (Z.add (Z.log2 n0) (Zpos XH)))) n0 []

(** val z_to_str : z -> str **)

let z_to_str z0 =
  if Z.ltb z0 Z0 then '-' :: (nat_digits (Z.opp z0)) else nat_digits z0

(** val digits_to_z_aux : str -> z -> z **)

let rec digits_to_z_aux s acc =
  match s with
  | [] -> acc
  | c :: r ->
    digits_to_z_aux r
      (Z.add (Z.mul acc (Zpos (XO (XI (XO XH))))) (digit_val c))

(** val digits_to_z : str -> z **)

let digits_to_z s =
  digits_to_z_aux s Z0

(** val two63 : z **)

let two63 =
  Zpos (XO (XO (XO (XO (XO (XO (XO (XO (XO (XO (XO (XO (XO (XO (XO (XO (XO
    (XO (XO (XO (XO (XO (XO (XO (XO (XO (XO (XO (XO (XO (XO (XO (XO (XO (XO
    (XO (XO (XO (XO (XO (XO (XO (XO (XO (XO (XO (XO (XO (XO (XO (XO (XO (XO
    (XO (XO (XO (XO (XO (XO (XO (XO (XO (XO
    XH)))))))))))))))))))))))))))))))))))))))))))))))))))))))))))))))

(** val two64 : z **)

let two64 =
  Zpos (XO (XO (XO (XO (XO (XO (XO (XO (XO (XO (XO (XO (XO (XO (XO (XO (XO
    (XO (XO (XO (XO (XO (XO (XO (XO (XO (XO (XO (XO (XO (XO (XO (XO (XO (XO
    (XO (XO (XO (XO (XO (XO (XO (XO (XO (XO (XO (XO (XO (XO (XO (XO (XO (XO
    (XO (XO (XO (XO (XO (XO (XO (XO (XO (XO (XO
    XH))))))))))))))))))))))))))))))))))))))))))))))))))))))))))))))))

(** val int64_min : z **)

let int64_min =
  Z.opp two63

(** val int64_max : z **)

let int64_max =
  Z.sub two63 (Zpos XH)

(** val in_int64 : z -> bool **)

let in_int64 z0 =
  (&&) (Z.leb int64_min z0) (Z.leb z0 int64_max)

(** val wrap64 : z -> z **)

let wrap64 z0 =
  Z.sub (Z.modulo (Z.add z0 two63) two64) two63

(** val assoc_str : str -> (str * 'a1) list -> 'a1 option **)

let rec assoc_str k = function
| [] -> None
| p0 :: r ->
  let (k', v) = p0 in if str_eqb k k' then Some v else assoc_str k r

(** val nth_z : 'a1 list -> z -> 'a1 option **)

let rec nth_z l i =
  match l with
  | [] -> None
  | x :: r ->
    if Z.eqb i Z0
    then Some x
    else if Z.ltb i Z0 then None else nth_z r (Z.sub i (Zpos XH))

(** val replicate : nat -> 'a1 -> 'a1 list **)

let rec replicate n0 x =
  match n0 with
  | O -> []
  | S k -> x :: (replicate k x)

type ttype =
| TINTEGER
| TREAL
| TCHAR
| TSTRING
| TDATE
| TRPAREN
| TLPAREN
| TPLUS
| TMINUS
| TSTAR
| TSLASH
| TDIV
| TMOD
| TAMPERSAND
| TASSIGNMENT
| TCOLON
| TCOMMA
| TEQUALS
| TNOT_EQUALS
| TGREATER
| TLESSER
| TGREATER_EQUAL
| TLESSER_EQUAL
| TAND
| TOR
| TNOT
| TTRUE
| TFALSE
| TDECLARE
| TCONSTANT
| TIDENTIFIER
| TDATA_TYPE
| TARRAY
| TLSQRBRACKET
| TRSQRBRACKET
| TTYPE
| TENDTYPE
| TCARET
| TPERIOD
| TIF
| TTHEN
| TELSE
| TENDIF
| TCASE
| TOF
| TOTHERWISE
| TENDCASE
| TWHILE
| TDO
| TENDWHILE
| TREPEAT
| TUNTIL
| TFOR
| TTO
| TSTEP
| TNEXT
| TBREAK
| TCONTINUE
| TPROCEDURE
| TBYREF
| TBYVAL
| TENDPROCEDURE
| TCALL
| TFUNCTION
| TENDFUNCTION
| TRETURNS
| TRETURN
| TOUTPUT
| TINPUT
| TOPENFILE
| TREADFILE
| TWRITEFILE
| TCLOSEFILE
| TREAD
| TWRITE
| TAPPEND
| TRANDOM
| TSEEK
| TGETRECORD
| TPUTRECORD
| TLINE_END
| TEXPRESSION_END

(** val ttype_eq_dec : ttype -> ttype -> bool **)

let ttype_eq_dec a b =
  match a with
  | TINTEGER -> (match b with
                 | TINTEGER -> true
                 | _ -> false)
  | TREAL -> (match b with
              | TREAL -> true
              | _ -> false)
  | TCHAR -> (match b with
              | TCHAR -> true
              | _ -> false)
  | TSTRING -> (match b with
                | TSTRING -> true
                | _ -> false)
  | TDATE -> (match b with
              | TDATE -> true
              | _ -> false)
  | TRPAREN -> (match b with
                | TRPAREN -> true
                | _ -> false)
  | TLPAREN -> (match b with
                | TLPAREN -> true
                | _ -> false)
  | TPLUS -> (match b with
              | TPLUS -> true
              | _ -> false)
  | TMINUS -> (match b with
               | TMINUS -> true
               | _ -> false)
  | TSTAR -> (match b with
              | TSTAR -> true
              | _ -> false)
  | TSLASH -> (match b with
               | TSLASH -> true
               | _ -> false)
  | TDIV -> (match b with
             | TDIV -> true
             | _ -> false)
  | TMOD -> (match b with
             | TMOD -> true
             | _ -> false)
  | TAMPERSAND -> (match b with
                   | TAMPERSAND -> true
                   | _ -> false)
  | TASSIGNMENT -> (match b with
                    | TASSIGNMENT -> true
                    | _ -> false)
  | TCOLON -> (match b with
               | TCOLON -> true
               | _ -> false)
  | TCOMMA -> (match b with
               | TCOMMA -> true
               | _ -> false)
  | TEQUALS -> (match b with
                | TEQUALS -> true
                | _ -> false)
  | TNOT_EQUALS -> (match b with
                    | TNOT_EQUALS -> true
                    | _ -> false)
  | TGREATER -> (match b with
                 | TGREATER -> true
                 | _ -> false)
  | TLESSER -> (match b with
                | TLESSER -> true
                | _ -> false)
  | TGREATER_EQUAL -> (match b with
                       | TGREATER_EQUAL -> true
                       | _ -> false)
  | TLESSER_EQUAL -> (match b with
                      | TLESSER_EQUAL -> true
                      | _ -> false)
  | TAND -> (match b with
             | TAND -> true
             | _ -> false)
  | TOR -> (match b with
            | TOR -> true
            | _ -> false)
  | TNOT -> (match b with
             | TNOT -> true
             | _ -> false)
  | TTRUE -> (match b with
              | TTRUE -> true
              | _ -> false)
  | TFALSE -> (match b with
               | TFALSE -> true
               | _ -> false)
  | TDECLARE -> (match b with
                 | TDECLARE -> true
                 | _ -> false)
  | TCONSTANT -> (match b with
                  | TCONSTANT -> true
                  | _ -> false)
  | TIDENTIFIER -> (match b with
                    | TIDENTIFIER -> true
                    | _ -> false)
  | TDATA_TYPE -> (match b with
                   | TDATA_TYPE -> true
                   | _ -> false)
  | TARRAY -> (match b with
               | TARRAY -> true
               | _ -> false)
  | TLSQRBRACKET -> (match b with
                     | TLSQRBRACKET -> true
                     | _ -> false)
  | TRSQRBRACKET -> (match b with
                     | TRSQRBRACKET -> true
                     | _ -> false)
  | TTYPE -> (match b with
              | TTYPE -> true
              | _ -> false)
  | TENDTYPE -> (match b with
                 | TENDTYPE -> true
                 | _ -> false)
  | TCARET -> (match b with
               | TCARET -> true
               | _ -> false)
  | TPERIOD -> (match b with
                | TPERIOD -> true
                | _ -> false)
  | TIF -> (match b with
            | TIF -> true
            | _ -> false)
  | TTHEN -> (match b with
              | TTHEN -> true
              | _ -> false)
  | TELSE -> (match b with
              | TELSE -> true
              | _ -> false)
  | TENDIF -> (match b with
               | TENDIF -> true
               | _ -> false)
  | TCASE -> (match b with
              | TCASE -> true
              | _ -> false)
  | TOF -> (match b with
            | TOF -> true
            | _ -> false)
  | TOTHERWISE -> (match b with
                   | TOTHERWISE -> true
                   | _ -> false)
  | TENDCASE -> (match b with
                 | TENDCASE -> true
                 | _ -> false)
  | TWHILE -> (match b with
               | TWHILE -> true
               | _ -> false)
  | TDO -> (match b with
            | TDO -> true
            | _ -> false)
  | TENDWHILE -> (match b with
                  | TENDWHILE -> true
                  | _ -> false)
  | TREPEAT -> (match b with
                | TREPEAT -> true
                | _ -> false)
  | TUNTIL -> (match b with
               | TUNTIL -> true
               | _ -> false)
  | TFOR -> (match b with
             | TFOR -> true
             | _ -> false)
  | TTO -> (match b with
            | TTO -> true
            | _ -> false)
  | TSTEP -> (match b with
              | TSTEP -> true
              | _ -> false)
  | TNEXT -> (match b with
              | TNEXT -> true
              | _ -> false)
  | TBREAK -> (match b with
               | TBREAK -> true
               | _ -> false)
  | TCONTINUE -> (match b with
                  | TCONTINUE -> true
                  | _ -> false)
  | TPROCEDURE -> (match b with
                   | TPROCEDURE -> true
                   | _ -> false)
  | TBYREF -> (match b with
               | TBYREF -> true
               | _ -> false)
  | TBYVAL -> (match b with
               | TBYVAL -> true
               | _ -> false)
  | TENDPROCEDURE -> (match b with
                      | TENDPROCEDURE -> true
                      | _ -> false)
  | TCALL -> (match b with
              | TCALL -> true
              | _ -> false)
  | TFUNCTION -> (match b with
                  | TFUNCTION -> true
                  | _ -> false)
  | TENDFUNCTION -> (match b with
                     | TENDFUNCTION -> true
                     | _ -> false)
  | TRETURNS -> (match b with
                 | TRETURNS -> true
                 | _ -> false)
  | TRETURN -> (match b with
                | TRETURN -> true
                | _ -> false)
  | TOUTPUT -> (match b with
                | TOUTPUT -> true
                | _ -> false)
  | TINPUT -> (match b with
               | TINPUT -> true
               | _ -> false)
  | TOPENFILE -> (match b with
                  | TOPENFILE -> true
                  | _ -> false)
  | TREADFILE -> (match b with
                  | TREADFILE -> true
                  | _ -> false)
  | TWRITEFILE -> (match b with
                   | TWRITEFILE -> true
                   | _ -> false)
  | TCLOSEFILE -> (match b with
                   | TCLOSEFILE -> true
                   | _ -> false)
  | TREAD -> (match b with
              | TREAD -> true
              | _ -> false)
  | TWRITE -> (match b with
               | TWRITE -> true
               | _ -> false)
  | TAPPEND -> (match b with
                | TAPPEND -> true
                | _ -> false)
  | TRANDOM -> (match b with
                | TRANDOM -> true
                | _ -> false)
  | TSEEK -> (match b with
              | TSEEK -> true
              | _ -> false)
  | TGETRECORD -> (match b with
                   | TGETRECORD -> true
                   | _ -> false)
  | TPUTRECORD -> (match b with
                   | TPUTRECORD -> true
                   | _ -> false)
  | TLINE_END -> (match b with
                  | TLINE_END -> true
                  | _ -> false)
  | TEXPRESSION_END -> (match b with
                        | TEXPRESSION_END -> true
                        | _ -> false)

(** val tt_eqb : ttype -> ttype -> bool **)

let tt_eqb a b =
  if ttype_eq_dec a b then true else false

type token = { tt : ttype; tline : z; tcol : z; tval : str }

type lexkind =
| LexSyntax
| LexPedantic

type lexerr = { le_kind : lexkind; le_line : z; le_col : z }

type lst = { rest : str; stale : char; line : z; col : z; prevc : char option }

(** val curc : lst -> char **)

let curc s =
  match s.rest with
  | [] -> s.stale
  | c :: _ -> c

(** val at_end : lst -> bool **)

let at_end s =
  match s.rest with
  | [] -> true
  | _ :: _ -> false

(** val advance : lst -> lst **)

let advance s =
  let cc = curc s in
  let l = if aeqb cc ch_nl then Z.add s.line (Zpos XH) else s.line in
  let c = if aeqb cc ch_nl then Z0 else s.col in
  (match s.rest with
   | [] -> { rest = []; stale = cc; line = l; col = c; prevc = s.prevc }
   | x :: r ->
     (match r with
      | [] -> { rest = []; stale = x; line = l; col = c; prevc = (Some x) }
      | _ :: _ ->
        { rest = r; stale = x; line = l; col = (Z.add c (Zpos XH)); prevc =
          (Some x) }))

(** val advance_n : nat -> lst -> lst **)

let rec advance_n n0 s =
  match n0 with
  | O -> s
  | S k -> advance_n k (advance s)

(** val remove_cr : str -> str **)

let remove_cr s =
  filter (fun c -> negb (aeqb c ch_cr)) s

(** val init_lst : str -> lst **)

let init_lst input = match input with
| [] ->
  { rest = []; stale = ch_nul; line = (Zpos XH); col = Z0; prevc = None }
| c :: _ ->
  { rest = input; stale = c; line = (Zpos XH); col = (Zpos XH); prevc = None }

(** val get_next_char : lst -> nat -> char **)

let get_next_char s n0 =
  nth n0 s.rest ch_nul

(** val keywords : (char list * ttype) list **)

let keywords =
  (('D'::('I'::('V'::[]))), TDIV) :: ((('M'::('O'::('D'::[]))),
    TMOD) :: ((('A'::('N'::('D'::[]))), TAND) :: ((('O'::('R'::[])),
    TOR) :: ((('N'::('O'::('T'::[]))),
    TNOT) :: ((('T'::('R'::('U'::('E'::[])))),
    TTRUE) :: ((('F'::('A'::('L'::('S'::('E'::[]))))),
    TFALSE) :: ((('D'::('E'::('C'::('L'::('A'::('R'::('E'::[]))))))),
    TDECLARE) :: ((('C'::('O'::('N'::('S'::('T'::('A'::('N'::('T'::[])))))))),
    TCONSTANT) :: ((('A'::('R'::('R'::('A'::('Y'::[]))))),
    TARRAY) :: ((('T'::('Y'::('P'::('E'::[])))),
    TTYPE) :: ((('E'::('N'::('D'::('T'::('Y'::('P'::('E'::[]))))))),
    TENDTYPE) :: ((('I'::('F'::[])),
    TIF) :: ((('T'::('H'::('E'::('N'::[])))),
    TTHEN) :: ((('E'::('L'::('S'::('E'::[])))),
    TELSE) :: ((('E'::('N'::('D'::('I'::('F'::[]))))),
    TENDIF) :: ((('C'::('A'::('S'::('E'::[])))),
    TCASE) :: ((('O'::('F'::[])),
    TOF) :: ((('O'::('T'::('H'::('E'::('R'::('W'::('I'::('S'::('E'::[]))))))))),
    TOTHERWISE) :: ((('E'::('N'::('D'::('C'::('A'::('S'::('E'::[]))))))),
    TENDCASE) :: ((('W'::('H'::('I'::('L'::('E'::[]))))),
    TWHILE) :: ((('D'::('O'::[])),
    TDO) :: ((('E'::('N'::('D'::('W'::('H'::('I'::('L'::('E'::[])))))))),
    TENDWHILE) :: ((('R'::('E'::('P'::('E'::('A'::('T'::[])))))),
    TREPEAT) :: ((('U'::('N'::('T'::('I'::('L'::[]))))),
    TUNTIL) :: ((('F'::('O'::('R'::[]))), TFOR) :: ((('T'::('O'::[])),
    TTO) :: ((('S'::('T'::('E'::('P'::[])))),
    TSTEP) :: ((('N'::('E'::('X'::('T'::[])))),
    TNEXT) :: ((('B'::('R'::('E'::('A'::('K'::[]))))),
    TBREAK) :: ((('C'::('O'::('N'::('T'::('I'::('N'::('U'::('E'::[])))))))),
    TCONTINUE) :: ((('P'::('R'::('O'::('C'::('E'::('D'::('U'::('R'::('E'::[]))))))))),
    TPROCEDURE) :: ((('B'::('Y'::('R'::('E'::('F'::[]))))),
    TBYREF) :: ((('B'::('Y'::('V'::('A'::('L'::[]))))),
    TBYVAL) :: ((('E'::('N'::('D'::('P'::('R'::('O'::('C'::('E'::('D'::('U'::('R'::('E'::[])))))))))))),
    TENDPROCEDURE) :: ((('C'::('A'::('L'::('L'::[])))),
    TCALL) :: ((('F'::('U'::('N'::('C'::('T'::('I'::('O'::('N'::[])))))))),
    TFUNCTION) :: ((('E'::('N'::('D'::('F'::('U'::('N'::('C'::('T'::('I'::('O'::('N'::[]))))))))))),
    TENDFUNCTION) :: ((('R'::('E'::('T'::('U'::('R'::('N'::('S'::[]))))))),
    TRETURNS) :: ((('R'::('E'::('T'::('U'::('R'::('N'::[])))))),
    TRETURN) :: ((('O'::('U'::('T'::('P'::('U'::('T'::[])))))),
    TOUTPUT) :: ((('P'::('R'::('I'::('N'::('T'::[]))))),
    TOUTPUT) :: ((('I'::('N'::('P'::('U'::('T'::[]))))),
    TINPUT) :: ((('O'::('P'::('E'::('N'::('F'::('I'::('L'::('E'::[])))))))),
    TOPENFILE) :: ((('R'::('E'::('A'::('D'::('F'::('I'::('L'::('E'::[])))))))),
    TREADFILE) :: ((('W'::('R'::('I'::('T'::('E'::('F'::('I'::('L'::('E'::[]))))))))),
    TWRITEFILE) :: ((('C'::('L'::('O'::('S'::('E'::('F'::('I'::('L'::('E'::[]))))))))),
    TCLOSEFILE) :: ((('R'::('E'::('A'::('D'::[])))),
    TREAD) :: ((('W'::('R'::('I'::('T'::('E'::[]))))),
    TWRITE) :: ((('A'::('P'::('P'::('E'::('N'::('D'::[])))))),
    TAPPEND) :: ((('R'::('A'::('N'::('D'::('O'::('M'::[])))))),
    TRANDOM) :: ((('S'::('E'::('E'::('K'::[])))),
    TSEEK) :: ((('G'::('E'::('T'::('R'::('E'::('C'::('O'::('R'::('D'::[]))))))))),
    TGETRECORD) :: ((('P'::('U'::('T'::('R'::('E'::('C'::('O'::('R'::('D'::[]))))))))),
    TPUTRECORD) :: [])))))))))))))))))))))))))))))))))))))))))))))))))))))

(** val data_type_words : char list list **)

let data_type_words =
  ('I'::('N'::('T'::('E'::('G'::('E'::('R'::[]))))))) :: (('R'::('E'::('A'::('L'::[])))) :: (('B'::('O'::('O'::('L'::('E'::('A'::('N'::[]))))))) :: (('C'::('H'::('A'::('R'::[])))) :: (('S'::('T'::('R'::('I'::('N'::('G'::[])))))) :: (('D'::('A'::('T'::('E'::[])))) :: [])))))

(** val lookup_kw : str -> (char list * ttype) list -> ttype option **)

let rec lookup_kw w = function
| [] -> None
| p0 :: r ->
  let (k, t0) = p0 in
  if str_eqb w (str_of_string k) then Some t0 else lookup_kw w r

(** val is_data_type_word : str -> bool **)

let is_data_type_word w =
  existsb (fun k -> str_eqb w (str_of_string k)) data_type_words

type lres =
| LOk of lst * token list
| LErr of lexerr

(** val word_loop : nat -> lst -> str -> lst * str **)

let rec word_loop fuel s acc =
  match fuel with
  | O -> (s, (rev acc))
  | S f ->
    if at_end s
    then (s, (rev acc))
    else let c = curc s in
         if (||) (is_alnum c) (aeqb c '_')
         then word_loop f (advance s) (c :: acc)
         else (s, (rev acc))

(** val make_word : bool -> lst -> token list -> lres **)

let make_word pedantic s toks =
  let startcol = s.col in
  let (s', w) = word_loop (S (length s.rest)) s [] in
  let mk = fun t0 v -> { tt = t0; tline = s'.line; tcol = startcol; tval = v }
  in
  (match lookup_kw w keywords with
   | Some t0 ->
     (match t0 with
      | TINTEGER -> LOk (s', ((mk t0 []) :: toks))
      | TREAL -> LOk (s', ((mk t0 []) :: toks))
      | TCHAR -> LOk (s', ((mk t0 []) :: toks))
      | TSTRING -> LOk (s', ((mk t0 []) :: toks))
      | TDATE -> LOk (s', ((mk t0 []) :: toks))
      | TRPAREN -> LOk (s', ((mk t0 []) :: toks))
      | TLPAREN -> LOk (s', ((mk t0 []) :: toks))
      | TPLUS -> LOk (s', ((mk t0 []) :: toks))
      | TMINUS -> LOk (s', ((mk t0 []) :: toks))
      | TSTAR -> LOk (s', ((mk t0 []) :: toks))
      | TSLASH -> LOk (s', ((mk t0 []) :: toks))
      | TDIV -> LOk (s', ((mk t0 []) :: toks))
      | TMOD -> LOk (s', ((mk t0 []) :: toks))
      | TAMPERSAND -> LOk (s', ((mk t0 []) :: toks))
      | TASSIGNMENT -> LOk (s', ((mk t0 []) :: toks))
      | TCOLON -> LOk (s', ((mk t0 []) :: toks))
      | TCOMMA -> LOk (s', ((mk t0 []) :: toks))
      | TEQUALS -> LOk (s', ((mk t0 []) :: toks))
      | TNOT_EQUALS -> LOk (s', ((mk t0 []) :: toks))
      | TGREATER -> LOk (s', ((mk t0 []) :: toks))
      | TLESSER -> LOk (s', ((mk t0 []) :: toks))
      | TGREATER_EQUAL -> LOk (s', ((mk t0 []) :: toks))
      | TLESSER_EQUAL -> LOk (s', ((mk t0 []) :: toks))
      | TAND -> LOk (s', ((mk t0 []) :: toks))
      | TOR -> LOk (s', ((mk t0 []) :: toks))
      | TNOT -> LOk (s', ((mk t0 []) :: toks))
      | TTRUE -> LOk (s', ((mk t0 []) :: toks))
      | TFALSE -> LOk (s', ((mk t0 []) :: toks))
      | TDECLARE -> LOk (s', ((mk t0 []) :: toks))
      | TCONSTANT -> LOk (s', ((mk t0 []) :: toks))
      | TIDENTIFIER -> LOk (s', ((mk t0 []) :: toks))
      | TDATA_TYPE -> LOk (s', ((mk t0 []) :: toks))
      | TARRAY -> LOk (s', ((mk t0 []) :: toks))
      | TLSQRBRACKET -> LOk (s', ((mk t0 []) :: toks))
      | TRSQRBRACKET -> LOk (s', ((mk t0 []) :: toks))
      | TTYPE -> LOk (s', ((mk t0 []) :: toks))
      | TENDTYPE -> LOk (s', ((mk t0 []) :: toks))
      | TCARET -> LOk (s', ((mk t0 []) :: toks))
      | TPERIOD -> LOk (s', ((mk t0 []) :: toks))
      | TIF -> LOk (s', ((mk t0 []) :: toks))
      | TTHEN -> LOk (s', ((mk t0 []) :: toks))
      | TELSE -> LOk (s', ((mk t0 []) :: toks))
      | TENDIF -> LOk (s', ((mk t0 []) :: toks))
      | TCASE -> LOk (s', ((mk t0 []) :: toks))
      | TOF -> LOk (s', ((mk t0 []) :: toks))
      | TOTHERWISE -> LOk (s', ((mk t0 []) :: toks))
      | TENDCASE -> LOk (s', ((mk t0 []) :: toks))
      | TWHILE -> LOk (s', ((mk t0 []) :: toks))
      | TDO -> LOk (s', ((mk t0 []) :: toks))
      | TENDWHILE -> LOk (s', ((mk t0 []) :: toks))
      | TREPEAT -> LOk (s', ((mk t0 []) :: toks))
      | TUNTIL -> LOk (s', ((mk t0 []) :: toks))
      | TFOR -> LOk (s', ((mk t0 []) :: toks))
      | TTO -> LOk (s', ((mk t0 []) :: toks))
      | TSTEP -> LOk (s', ((mk t0 []) :: toks))
      | TNEXT -> LOk (s', ((mk t0 []) :: toks))
      | TBREAK ->
        if pedantic
        then LErr { le_kind = LexPedantic; le_line = s'.line; le_col =
               startcol }
        else LOk (s', ((mk TBREAK []) :: toks))
      | TCONTINUE ->
        if pedantic
        then LErr { le_kind = LexPedantic; le_line = s'.line; le_col =
               startcol }
        else LOk (s', ((mk TCONTINUE []) :: toks))
      | TPROCEDURE -> LOk (s', ((mk t0 []) :: toks))
      | TBYREF -> LOk (s', ((mk t0 []) :: toks))
      | TBYVAL -> LOk (s', ((mk t0 []) :: toks))
      | TENDPROCEDURE -> LOk (s', ((mk t0 []) :: toks))
      | TCALL -> LOk (s', ((mk t0 []) :: toks))
      | TFUNCTION -> LOk (s', ((mk t0 []) :: toks))
      | TENDFUNCTION -> LOk (s', ((mk t0 []) :: toks))
      | TRETURNS -> LOk (s', ((mk t0 []) :: toks))
      | TRETURN -> LOk (s', ((mk t0 []) :: toks))
      | TOUTPUT -> LOk (s', ((mk t0 []) :: toks))
      | TINPUT -> LOk (s', ((mk t0 []) :: toks))
      | TOPENFILE -> LOk (s', ((mk t0 []) :: toks))
      | TREADFILE -> LOk (s', ((mk t0 []) :: toks))
      | TWRITEFILE -> LOk (s', ((mk t0 []) :: toks))
      | TCLOSEFILE -> LOk (s', ((mk t0 []) :: toks))
      | TREAD -> LOk (s', ((mk t0 []) :: toks))
      | TWRITE -> LOk (s', ((mk t0 []) :: toks))
      | TAPPEND -> LOk (s', ((mk t0 []) :: toks))
      | TRANDOM -> LOk (s', ((mk t0 []) :: toks))
      | TSEEK -> LOk (s', ((mk t0 []) :: toks))
      | TGETRECORD -> LOk (s', ((mk t0 []) :: toks))
      | TPUTRECORD -> LOk (s', ((mk t0 []) :: toks))
      | TLINE_END -> LOk (s', ((mk t0 []) :: toks))
      | TEXPRESSION_END -> LOk (s', ((mk t0 []) :: toks)))
   | None ->
     if is_data_type_word w
     then LOk (s', ((mk TDATA_TYPE w) :: toks))
     else LOk (s', ((mk TIDENTIFIER w) :: toks)))

(** val number_loop : nat -> lst -> bool -> str -> (lst * bool) * str **)

let rec number_loop fuel s decimal acc =
  match fuel with
  | O -> ((s, decimal), (rev acc))
  | S f ->
    if at_end s
    then ((s, decimal), (rev acc))
    else let c = curc s in
         if (&&) (aeqb c '.') (negb decimal)
         then number_loop f (advance s) true (c :: acc)
         else if is_digit c
              then number_loop f (advance s) decimal (c :: acc)
              else ((s, decimal), (rev acc))

(** val count_digits_from : str -> nat **)

let rec count_digits_from = function
| [] -> O
| c :: r -> if is_digit c then S (count_digits_from r) else O

(** val digits_loop : nat -> lst -> str -> lst * str **)

let rec digits_loop fuel s acc =
  match fuel with
  | O -> (s, acc)
  | S f ->
    if (&&) (negb (at_end s)) (is_digit (curc s))
    then digits_loop f (advance s) ((curc s) :: acc)
    else (s, acc)

(** val make_number : lst -> token list -> lres **)

let make_number s toks =
  let startcol = s.col in
  let (p0, txt) = number_loop (S (length s.rest)) s false [] in
  let (s1, decimal) = p0 in
  let numtok = { tt = (if decimal then TREAL else TINTEGER); tline = s1.line;
    tcol = startcol; tval = txt }
  in
  if (||) (negb (aeqb (curc s1) '/')) decimal
  then LOk (s1, (numtok :: toks))
  else let k = count_digits_from (tl s1.rest) in
       let i = S k in
       if (||)
            ((||) (Nat.ltb i (S (S O)))
              (negb (aeqb (get_next_char s1 i) '/')))
            (negb (is_digit (get_next_char s1 (S i))))
       then LOk (s1, (numtok :: toks))
       else let mid = firstn (S i) s1.rest in
            let s2 = advance_n (S i) s1 in
            let (s3, yrev) = digits_loop (S (length s2.rest)) s2 [] in
            LOk (s3, ({ tt = TDATE; tline = s3.line; tcol = startcol; tval =
            (app txt (app mid (rev yrev))) } :: toks))

(** val esc_seq : char -> char option **)

let esc_seq c =
  if aeqb c 'n'
  then Some ch_nl
  else if aeqb c 't'
       then Some ch_tab
       else if aeqb c ch_quote
            then Some ch_quote
            else if aeqb c ch_dquote
                 then Some ch_dquote
                 else if aeqb c ch_bslash then Some ch_bslash else None

(** val make_char : lst -> token list -> lres **)

let make_char s toks =
  if Nat.ltb (length s.rest) (S (S (S O)))
  then LErr { le_kind = LexSyntax; le_line = s.line; le_col = s.col }
  else let startcol = s.col in
       let s1 = advance s in
       let body =
         if aeqb (curc s1) ch_bslash
         then let s2 = advance s1 in
              (match esc_seq (curc s2) with
               | Some c -> Inl (s2, c)
               | None ->
                 Inr { le_kind = LexSyntax; le_line = s2.line; le_col =
                   s2.col })
         else if aeqb (curc s1) ch_quote
              then Inr { le_kind = LexSyntax; le_line = s1.line; le_col =
                     s1.col }
              else Inl (s1, (curc s1))
       in
       (match body with
        | Inl p0 ->
          let (s2, c) = p0 in
          (match s2.rest with
           | [] ->
             LErr { le_kind = LexSyntax; le_line = s2.line; le_col = s2.col }
           | _ :: l ->
             (match l with
              | [] ->
                LErr { le_kind = LexSyntax; le_line = s2.line; le_col =
                  s2.col }
              | q :: _ ->
                if aeqb q ch_quote
                then let s3 = advance (advance s2) in
                     LOk (s3, ({ tt = TCHAR; tline = s3.line; tcol =
                     startcol; tval = (c :: []) } :: toks))
                else LErr { le_kind = LexSyntax; le_line = s2.line; le_col =
                       s2.col }))
        | Inr e -> LErr e)

(** val string_loop : nat -> lst -> str -> (lst * str, lexerr) sum **)

let rec string_loop fuel s acc =
  match fuel with
  | O -> Inl (s, acc)
  | S f ->
    if (||) (aeqb (curc s) ch_dquote) (at_end s)
    then Inl (s, acc)
    else if aeqb (curc s) ch_bslash
         then let s1 = advance s in
              (match esc_seq (curc s1) with
               | Some c -> string_loop f (advance s1) (c :: acc)
               | None ->
                 Inr { le_kind = LexSyntax; le_line = s1.line; le_col =
                   s1.col })
         else string_loop f (advance s) ((curc s) :: acc)

(** val make_string : lst -> token list -> lres **)

let make_string s toks =
  let startcol = s.col in
  let s1 = advance s in
  (match string_loop (S (length s1.rest)) s1 [] with
   | Inl p0 ->
     let (s2, acc) = p0 in
     if (||) (at_end s2) (negb (aeqb (curc s2) ch_dquote))
     then LErr { le_kind = LexSyntax; le_line = s2.line; le_col = s2.col }
     else let s3 = advance s2 in
          LOk (s3, ({ tt = TSTRING; tline = s3.line; tcol = startcol; tval =
          (rev acc) } :: toks))
   | Inr e -> LErr e)

(** val io_keyword : ttype -> bool **)

let io_keyword = function
| TOUTPUT -> true
| TINPUT -> true
| TOPENFILE -> true
| TREADFILE -> true
| TWRITEFILE -> true
| TCLOSEFILE -> true
| _ -> false

(** val skip_comment : nat -> lst -> lst **)

let rec skip_comment fuel s =
  match fuel with
  | O -> s
  | S f ->
    if (&&) (negb (at_end s)) (negb (aeqb (curc s) ch_nl))
    then skip_comment f (advance s)
    else s

(** val simple_tok : char -> ttype option **)

let simple_tok c =
  if aeqb c '+'
  then Some TPLUS
  else if aeqb c '-'
       then Some TMINUS
       else if aeqb c '*'
            then Some TSTAR
            else if aeqb c ')'
                 then Some TRPAREN
                 else if aeqb c '['
                      then Some TLSQRBRACKET
                      else if aeqb c ']'
                           then Some TRSQRBRACKET
                           else if aeqb c ':'
                                then Some TCOLON
                                else if aeqb c ','
                                     then Some TCOMMA
                                     else if aeqb c '&'
                                          then Some TAMPERSAND
                                          else if aeqb c '^'
                                               then Some TCARET
                                               else if aeqb c '.'
                                                    then Some TPERIOD
                                                    else if aeqb c ch_nl
                                                         then Some TLINE_END
                                                         else None

(** val lex_step : bool -> lst -> token list -> lres **)

let lex_step pedantic s toks =
  let c = curc s in
  let here = fun t0 -> { tt = t0; tline = s.line; tcol = s.col; tval = [] } in
  (match simple_tok c with
   | Some t0 -> LOk ((advance s), ((here t0) :: toks))
   | None ->
     if aeqb c '/'
     then let s1 = advance s in
          if (||) (at_end s1) (negb (aeqb (curc s1) '/'))
          then LOk (s1, ({ tt = TSLASH; tline = s1.line; tcol = s1.col;
                 tval = [] } :: toks))
          else LOk ((skip_comment (S (length s1.rest)) s1), toks)
     else if aeqb c '('
          then let blocked =
                 match s.prevc with
                 | Some p0 ->
                   (match toks with
                    | [] -> false
                    | t0 :: _ ->
                      (&&)
                        ((&&) (negb (aeqb p0 ch_space))
                          (negb (aeqb p0 ch_tab))) (io_keyword t0.tt))
                 | None -> false
               in
               if blocked
               then LErr { le_kind = LexSyntax; le_line = s.line; le_col =
                      s.col }
               else LOk ((advance s), ((here TLPAREN) :: toks))
          else if aeqb c '='
               then let s1 = advance s in
                    if (||) (at_end s1) (negb (aeqb (curc s1) '='))
                    then LOk (s1, ({ tt = TEQUALS; tline = s1.line; tcol =
                           (Z.sub s1.col (Zpos XH)); tval = [] } :: toks))
                    else LErr { le_kind = LexSyntax; le_line = s1.line;
                           le_col = (Z.sub s1.col (Zpos XH)) }
               else if aeqb c ch_quote
                    then make_char s toks
                    else if aeqb c ch_dquote
                         then make_string s toks
                         else if aeqb c '>'
                              then let s1 = advance s in
                                   if (||) (at_end s1)
                                        (negb (aeqb (curc s1) '='))
                                   then LOk (s1, ({ tt = TGREATER; tline =
                                          s1.line; tcol = s1.col; tval =
                                          [] } :: toks))
                                   else LOk ((advance s1), ({ tt =
                                          TGREATER_EQUAL; tline = s1.line;
                                          tcol = s1.col; tval = [] } :: toks))
                              else if aeqb c '<'
                                   then let s1 = advance s in
                                        let c1 = curc s1 in
                                        if (||) (at_end s1)
                                             ((&&)
                                               ((&&) (negb (aeqb c1 '='))
                                                 (negb (aeqb c1 '>')))
                                               (negb (aeqb c1 '-')))
                                        then LOk (s1, ({ tt = TLESSER;
                                               tline = s1.line; tcol =
                                               s1.col; tval = [] } :: toks))
                                        else if aeqb c1 '='
                                             then LOk ((advance s1), ({ tt =
                                                    TLESSER_EQUAL; tline =
                                                    s1.line; tcol = s1.col;
                                                    tval = [] } :: toks))
                                             else if aeqb c1 '>'
                                                  then LOk ((advance s1),
                                                         ({ tt = TNOT_EQUALS;
                                                         tline = s1.line;
                                                         tcol = s1.col;
                                                         tval = [] } :: toks))
                                                  else LOk ((advance s1),
                                                         ({ tt = TASSIGNMENT;
                                                         tline = s1.line;
                                                         tcol = s1.col;
                                                         tval = [] } :: toks))
                                   else if is_alpha c
                                        then make_word pedantic s toks
                                        else if is_digit c
                                             then make_number s toks
                                             else if (||) (aeqb c ch_space)
                                                       (aeqb c ch_tab)
                                                  then LOk ((advance s), toks)
                                                  else LErr { le_kind =
                                                         LexSyntax; le_line =
                                                         s.line; le_col =
                                                         s.col })

(** val lex_loop : nat -> bool -> lst -> token list -> lres **)

let rec lex_loop fuel pedantic s toks =
  match fuel with
  | O -> LOk (s, toks)
  | S f ->
    if at_end s
    then LOk (s, toks)
    else (match lex_step pedantic s toks with
          | LOk (s', toks') -> lex_loop f pedantic s' toks'
          | LErr e -> LErr e)

(** val lex : bool -> str -> (token list, lexerr) sum **)

let lex pedantic input =
  let src = remove_cr input in
  (match lex_loop (S (length src)) pedantic (init_lst src) [] with
   | LOk (s, toks) ->
     Inl
       (rev ({ tt = TEXPRESSION_END; tline = s.line; tcol = s.col; tval =
         [] } :: toks))
   | LErr e -> Inr e)

type dkind =
| KNone
| KInt
| KReal
| KBool
| KChar
| KStr
| KDate
| KEnum
| KPtr
| KRec

(** val dkind_eq_dec : dkind -> dkind -> bool **)

let dkind_eq_dec a b =
  match a with
  | KNone -> (match b with
              | KNone -> true
              | _ -> false)
  | KInt -> (match b with
             | KInt -> true
             | _ -> false)
  | KReal -> (match b with
              | KReal -> true
              | _ -> false)
  | KBool -> (match b with
              | KBool -> true
              | _ -> false)
  | KChar -> (match b with
              | KChar -> true
              | _ -> false)
  | KStr -> (match b with
             | KStr -> true
             | _ -> false)
  | KDate -> (match b with
              | KDate -> true
              | _ -> false)
  | KEnum -> (match b with
              | KEnum -> true
              | _ -> false)
  | KPtr -> (match b with
             | KPtr -> true
             | _ -> false)
  | KRec -> (match b with
             | KRec -> true
             | _ -> false)

(** val dk_eqb : dkind -> dkind -> bool **)

let dk_eqb a b =
  if dkind_eq_dec a b then true else false

(** val psc_type_of_word : str -> dkind option **)

let psc_type_of_word w =
  if str_eqb w
       (str_of_string ('I'::('N'::('T'::('E'::('G'::('E'::('R'::[]))))))))
  then Some KInt
  else if str_eqb w (str_of_string ('R'::('E'::('A'::('L'::[])))))
       then Some KReal
       else if str_eqb w
                 (str_of_string
                   ('B'::('O'::('O'::('L'::('E'::('A'::('N'::[]))))))))
            then Some KBool
            else if str_eqb w (str_of_string ('C'::('H'::('A'::('R'::[])))))
                 then Some KChar
                 else if str_eqb w
                           (str_of_string
                             ('S'::('T'::('R'::('I'::('N'::('G'::[])))))))
                      then Some KStr
                      else if str_eqb w
                                (str_of_string ('D'::('A'::('T'::('E'::[])))))
                           then Some KDate
                           else None

type fmode =
| FRead
| FWrite
| FAppend
| FRandom

type node =
| NInt of token
| NReal of token
| NBool of token
| NChar of token
| NStr of token
| NDate of token
| NNeg of token * node
| NArith of token * node * node
| NCmp of token * node * node
| NLogic of token * node * node
| NNot of token * node
| NCat of token * node * node
| NCast of token * node * dkind
| NAccess of token * resolver
| NAssign of token * node * resolver
| NPtrAssign of token * resolver * resolver
| NFnCall of token * node list
| NDeclare of token * token list * token
| NConst of token * node * token
| NArrDeclare of token * token list * token * node list
| NEnumDef of token * token * str list
| NPtrDef of token * token * token
| NCompDef of token * token * node list
| NIf of token * (node option * node list) list
| NCase of token * node * casecomp list
| NWhile of token * node * node list
| NRepeat of token * node * node list
| NFor of token * token * node * node * node option * node list
| NBreak of token
| NContinue of token
| NProc of token * str * ((str * token) * bool) list * node list
| NFunc of token * str * ((str * token) * bool) list * node list * token
| NCall of token * str * node list
| NReturn of token * node
| NOutput of token * node list
| NInput of token * resolver
| NOpenFile of token * node * fmode
| NReadFile of token * node * token
| NWriteFile of token * node * node
| NCloseFile of token * node
| NSeek of token * node * node
| NGetRecord of token * node * token
| NPutRecord of token * node * token
and resolver =
| RSimple of token
| RField of token * resolver * token
| RDeref of token * resolver
| RIndex of token * resolver * node list
and casecomp =
| CEq of node list * node
| CRange of node list * node * node
| COther of node list

type block = node list

(** val node_token : node -> token **)

let node_token = function
| NInt t0 -> t0
| NReal t0 -> t0
| NBool t0 -> t0
| NChar t0 -> t0
| NStr t0 -> t0
| NDate t0 -> t0
| NNeg (t0, _) -> t0
| NArith (t0, _, _) -> t0
| NCmp (t0, _, _) -> t0
| NLogic (t0, _, _) -> t0
| NNot (t0, _) -> t0
| NCat (t0, _, _) -> t0
| NCast (t0, _, _) -> t0
| NAccess (t0, _) -> t0
| NAssign (t0, _, _) -> t0
| NPtrAssign (t0, _, _) -> t0
| NFnCall (t0, _) -> t0
| NDeclare (t0, _, _) -> t0
| NConst (t0, _, _) -> t0
| NArrDeclare (t0, _, _, _) -> t0
| NEnumDef (t0, _, _) -> t0
| NPtrDef (t0, _, _) -> t0
| NCompDef (t0, _, _) -> t0
| NIf (t0, _) -> t0
| NCase (t0, _, _) -> t0
| NWhile (t0, _, _) -> t0
| NRepeat (t0, _, _) -> t0
| NFor (t0, _, _, _, _, _) -> t0
| NBreak t0 -> t0
| NContinue t0 -> t0
| NProc (t0, _, _, _) -> t0
| NFunc (t0, _, _, _, _) -> t0
| NCall (t0, _, _) -> t0
| NReturn (t0, _) -> t0
| NOutput (t0, _) -> t0
| NInput (t0, _) -> t0
| NOpenFile (t0, _, _) -> t0
| NReadFile (t0, _, _) -> t0
| NWriteFile (t0, _, _) -> t0
| NCloseFile (t0, _) -> t0
| NSeek (t0, _, _) -> t0
| NGetRecord (t0, _, _) -> t0
| NPutRecord (t0, _, _) -> t0

type spec_float =
| S754_zero of bool
| S754_infinity of bool
| S754_nan
| S754_finite of bool * positive * z

(** val emin : z -> z -> z **)

let emin prec0 emax0 =
  Z.sub (Z.sub (Zpos (XI XH)) emax0) prec0

(** val fexp : z -> z -> z -> z **)

let fexp prec0 emax0 e =
  Z.max (Z.sub e prec0) (emin prec0 emax0)

(** val digits2_pos : positive -> positive **)

let rec digits2_pos = function
| XI p0 -> Coq_Pos.succ (digits2_pos p0)
| XO p0 -> Coq_Pos.succ (digits2_pos p0)
| XH -> XH

(** val zdigits2 : z -> z **)

let zdigits2 n0 = match n0 with
| Z0 -> n0
| Zpos p0 -> Zpos (digits2_pos p0)
| Zneg p0 -> Zpos (digits2_pos p0)

(** val iter_pos : ('a1 -> 'a1) -> positive -> 'a1 -> 'a1 **)

let rec iter_pos f n0 x =
  match n0 with
  | XI n' -> iter_pos f n' (iter_pos f n' (f x))
  | XO n' -> iter_pos f n' (iter_pos f n' x)
  | XH -> f x

type location =
| Loc_Exact
| Loc_Inexact of comparison

type shr_record = { shr_m : z; shr_r : bool; shr_s : bool }

(** val shr_1 : shr_record -> shr_record **)

let shr_1 mrs =
  let { shr_m = m0; shr_r = r; shr_s = s } = mrs in
  let s0 = (||) r s in
  (match m0 with
   | Z0 -> { shr_m = Z0; shr_r = false; shr_s = s0 }
   | Zpos p0 ->
     (match p0 with
      | XI p1 -> { shr_m = (Zpos p1); shr_r = true; shr_s = s0 }
      | XO p1 -> { shr_m = (Zpos p1); shr_r = false; shr_s = s0 }
      | XH -> { shr_m = Z0; shr_r = true; shr_s = s0 })
   | Zneg p0 ->
     (match p0 with
      | XI p1 -> { shr_m = (Zneg p1); shr_r = true; shr_s = s0 }
      | XO p1 -> { shr_m = (Zneg p1); shr_r = false; shr_s = s0 }
      | XH -> { shr_m = Z0; shr_r = true; shr_s = s0 }))

(** val loc_of_shr_record : shr_record -> location **)

let loc_of_shr_record mrs =
  let { shr_m = _; shr_r = shr_r0; shr_s = shr_s0 } = mrs in
  if shr_r0
  then if shr_s0 then Loc_Inexact Gt else Loc_Inexact Eq
  else if shr_s0 then Loc_Inexact Lt else Loc_Exact

(** val shr_record_of_loc : z -> location -> shr_record **)

let shr_record_of_loc m0 = function
| Loc_Exact -> { shr_m = m0; shr_r = false; shr_s = false }
| Loc_Inexact c ->
  (match c with
   | Eq -> { shr_m = m0; shr_r = true; shr_s = false }
   | Lt -> { shr_m = m0; shr_r = false; shr_s = true }
   | Gt -> { shr_m = m0; shr_r = true; shr_s = true })

(** val shr : shr_record -> z -> z -> shr_record * z **)

let shr mrs e n0 = match n0 with
| Zpos p0 -> ((iter_pos shr_1 p0 mrs), (Z.add e n0))
| _ -> (mrs, e)

(** val shr_fexp : z -> z -> z -> z -> location -> shr_record * z **)

let shr_fexp prec0 emax0 m0 e l =
  shr (shr_record_of_loc m0 l) e
    (Z.sub (fexp prec0 emax0 (Z.add (zdigits2 m0) e)) e)

(** val round_nearest_even : z -> location -> z **)

let round_nearest_even mx = function
| Loc_Exact -> mx
| Loc_Inexact c ->
  (match c with
   | Eq -> if Z.even mx then mx else Z.add mx (Zpos XH)
   | Lt -> mx
   | Gt -> Z.add mx (Zpos XH))

(** val binary_round_aux :
    z -> z -> bool -> z -> z -> location -> spec_float **)

let binary_round_aux prec0 emax0 sx mx ex lx =
  let (mrs', e') = shr_fexp prec0 emax0 mx ex lx in
  let (mrs'', e'') =
    shr_fexp prec0 emax0
      (round_nearest_even mrs'.shr_m (loc_of_shr_record mrs')) e' Loc_Exact
  in
  (match mrs''.shr_m with
   | Z0 -> S754_zero sx
   | Zpos m0 ->
     if Z.leb e'' (Z.sub emax0 prec0)
     then S754_finite (sx, m0, e'')
     else S754_infinity sx
   | Zneg _ -> S754_nan)

(** val shl_align : positive -> z -> z -> positive * z **)

let shl_align mx ex ex' =
  match Z.sub ex' ex with
  | Zneg d -> ((shift_pos d mx), ex')
  | _ -> (mx, ex)

(** val binary_round : z -> z -> bool -> positive -> z -> spec_float **)

let binary_round prec0 emax0 sx mx ex =
  let (mz, ez) =
    shl_align mx ex (fexp prec0 emax0 (Z.add (Zpos (digits2_pos mx)) ex))
  in
  binary_round_aux prec0 emax0 sx (Zpos mz) ez Loc_Exact

(** val binary_normalize : z -> z -> z -> z -> bool -> spec_float **)

let binary_normalize prec0 emax0 m0 e szero =
  match m0 with
  | Z0 -> S754_zero szero
  | Zpos m1 -> binary_round prec0 emax0 false m1 e
  | Zneg m1 -> binary_round prec0 emax0 true m1 e

(** val sFopp : spec_float -> spec_float **)

let sFopp = function
| S754_zero sx -> S754_zero (negb sx)
| S754_infinity sx -> S754_infinity (negb sx)
| S754_nan -> S754_nan
| S754_finite (sx, mx, ex) -> S754_finite ((negb sx), mx, ex)

(** val sFcompare : spec_float -> spec_float -> comparison option **)

let sFcompare f1 f2 =
  match f1 with
  | S754_zero _ ->
    (match f2 with
     | S754_zero _ -> Some Eq
     | S754_infinity s -> Some (if s then Gt else Lt)
     | S754_nan -> None
     | S754_finite (s, _, _) -> Some (if s then Gt else Lt))
  | S754_infinity s ->
    (match f2 with
     | S754_infinity s0 ->
       Some (if s then if s0 then Eq else Lt else if s0 then Gt else Eq)
     | S754_nan -> None
     | _ -> Some (if s then Lt else Gt))
  | S754_nan -> None
  | S754_finite (s1, m1, e1) ->
    (match f2 with
     | S754_zero _ -> Some (if s1 then Lt else Gt)
     | S754_infinity s -> Some (if s then Gt else Lt)
     | S754_nan -> None
     | S754_finite (s2, m2, e2) ->
       Some
         (if s1
          then if s2
               then (match Z.compare e1 e2 with
                     | Eq -> compOpp (Coq_Pos.compare_cont Eq m1 m2)
                     | Lt -> Gt
                     | Gt -> Lt)
               else Lt
          else if s2
               then Gt
               else (match Z.compare e1 e2 with
                     | Eq -> Coq_Pos.compare_cont Eq m1 m2
                     | x -> x)))

(** val sFmul : z -> z -> spec_float -> spec_float -> spec_float **)

let sFmul prec0 emax0 x y =
  match x with
  | S754_zero sx ->
    (match y with
     | S754_zero sy -> S754_zero (xorb sx sy)
     | S754_finite (sy, _, _) -> S754_zero (xorb sx sy)
     | _ -> S754_nan)
  | S754_infinity sx ->
    (match y with
     | S754_infinity sy -> S754_infinity (xorb sx sy)
     | S754_finite (sy, _, _) -> S754_infinity (xorb sx sy)
     | _ -> S754_nan)
  | S754_nan -> S754_nan
  | S754_finite (sx, mx, ex) ->
    (match y with
     | S754_zero sy -> S754_zero (xorb sx sy)
     | S754_infinity sy -> S754_infinity (xorb sx sy)
     | S754_nan -> S754_nan
     | S754_finite (sy, my, ey) ->
       binary_round_aux prec0 emax0 (xorb sx sy) (Zpos (Coq_Pos.mul mx my))
         (Z.add ex ey) Loc_Exact)

(** val cond_Zopp : bool -> z -> z **)

let cond_Zopp b m0 =
  if b then Z.opp m0 else m0

(** val sFadd : z -> z -> spec_float -> spec_float -> spec_float **)

let sFadd prec0 emax0 x y =
  match x with
  | S754_zero sx ->
    (match y with
     | S754_zero sy -> if eqb sx sy then x else S754_zero false
     | S754_nan -> S754_nan
     | _ -> y)
  | S754_infinity sx ->
    (match y with
     | S754_infinity sy -> if eqb sx sy then x else S754_nan
     | S754_nan -> S754_nan
     | _ -> x)
  | S754_nan -> S754_nan
  | S754_finite (sx, mx, ex) ->
    (match y with
     | S754_zero _ -> x
     | S754_infinity _ -> y
     | S754_nan -> S754_nan
     | S754_finite (sy, my, ey) ->
       let ez = Z.min ex ey in
       binary_normalize prec0 emax0
         (Z.add (cond_Zopp sx (Zpos (fst (shl_align mx ex ez))))
           (cond_Zopp sy (Zpos (fst (shl_align my ey ez))))) ez false)

(** val sFsub : z -> z -> spec_float -> spec_float -> spec_float **)

let sFsub prec0 emax0 x y =
  match x with
  | S754_zero sx ->
    (match y with
     | S754_zero sy -> if eqb sx (negb sy) then x else S754_zero false
     | S754_infinity sy -> S754_infinity (negb sy)
     | S754_nan -> S754_nan
     | S754_finite (sy, my, ey) -> S754_finite ((negb sy), my, ey))
  | S754_infinity sx ->
    (match y with
     | S754_infinity sy -> if eqb sx (negb sy) then x else S754_nan
     | S754_nan -> S754_nan
     | _ -> x)
  | S754_nan -> S754_nan
  | S754_finite (sx, mx, ex) ->
    (match y with
     | S754_zero _ -> x
     | S754_infinity sy -> S754_infinity (negb sy)
     | S754_nan -> S754_nan
     | S754_finite (sy, my, ey) ->
       let ez = Z.min ex ey in
       binary_normalize prec0 emax0
         (Z.sub (cond_Zopp sx (Zpos (fst (shl_align mx ex ez))))
           (cond_Zopp sy (Zpos (fst (shl_align my ey ez))))) ez false)

(** val new_location_even : z -> z -> location **)

let new_location_even nb_steps k =
  if zeq_bool k Z0
  then Loc_Exact
  else Loc_Inexact (Z.compare (Z.mul (Zpos (XO XH)) k) nb_steps)

(** val new_location_odd : z -> z -> location **)

let new_location_odd nb_steps k =
  if zeq_bool k Z0
  then Loc_Exact
  else Loc_Inexact
         (match Z.compare (Z.add (Z.mul (Zpos (XO XH)) k) (Zpos XH)) nb_steps with
          | Eq -> Lt
          | x -> x)

(** val new_location : z -> z -> location **)

let new_location nb_steps =
  if Z.even nb_steps
  then new_location_even nb_steps
  else new_location_odd nb_steps

(** val sFdiv_core_binary :
    z -> z -> z -> z -> z -> z -> (z * z) * location **)

let sFdiv_core_binary prec0 emax0 m1 e1 m2 e2 =
  let d1 = zdigits2 m1 in
  let d2 = zdigits2 m2 in
  let e' =
    Z.min (fexp prec0 emax0 (Z.sub (Z.add d1 e1) (Z.add d2 e2))) (Z.sub e1 e2)
  in
  let s = Z.sub (Z.sub e1 e2) e' in
  let m' = match s with
           | Z0 -> m1
           | Zpos _ -> Z.shiftl m1 s
           | Zneg _ -> Z0 in
  let (q, r) = Z.div_eucl m' m2 in ((q, e'), (new_location m2 r))

(** val sFdiv : z -> z -> spec_float -> spec_float -> spec_float **)

let sFdiv prec0 emax0 x y =
  match x with
  | S754_zero sx ->
    (match y with
     | S754_infinity sy -> S754_zero (xorb sx sy)
     | S754_finite (sy, _, _) -> S754_zero (xorb sx sy)
     | _ -> S754_nan)
  | S754_infinity sx ->
    (match y with
     | S754_zero sy -> S754_infinity (xorb sx sy)
     | S754_finite (sy, _, _) -> S754_infinity (xorb sx sy)
     | _ -> S754_nan)
  | S754_nan -> S754_nan
  | S754_finite (sx, mx, ex) ->
    (match y with
     | S754_zero sy -> S754_infinity (xorb sx sy)
     | S754_infinity sy -> S754_zero (xorb sx sy)
     | S754_nan -> S754_nan
     | S754_finite (sy, my, ey) ->
       let (p0, lz) = sFdiv_core_binary prec0 emax0 (Zpos mx) ex (Zpos my) ey
       in
       let (mz, ez) = p0 in binary_round_aux prec0 emax0 (xorb sx sy) mz ez lz)

(** val sFsqrt_core_binary : z -> z -> z -> z -> (z * z) * location **)

let sFsqrt_core_binary prec0 emax0 m0 e =
  let d = zdigits2 m0 in
  let e' =
    Z.min (fexp prec0 emax0 (Z.div2 (Z.add (Z.add d e) (Zpos XH)))) (Z.div2 e)
  in
  let s = Z.sub e (Z.mul (Zpos (XO XH)) e') in
  let m' = match s with
           | Z0 -> m0
           | Zpos _ -> Z.shiftl m0 s
           | Zneg _ -> Z0 in
  let (q, r) = Z.sqrtrem m' in
  let l =
    if zeq_bool r Z0
    then Loc_Exact
    else Loc_Inexact (if Z.leb r q then Lt else Gt)
  in
  ((q, e'), l)

(** val sFsqrt : z -> z -> spec_float -> spec_float **)

let sFsqrt prec0 emax0 x = match x with
| S754_zero _ -> x
| S754_infinity s -> if s then S754_nan else x
| S754_nan -> S754_nan
| S754_finite (sx, mx, ex) ->
  if sx
  then S754_nan
  else let (p0, lz) = sFsqrt_core_binary prec0 emax0 (Zpos mx) ex in
       let (mz, ez) = p0 in binary_round_aux prec0 emax0 false mz ez lz

type real = spec_float

(** val prec : z **)

let prec =
  Zpos (XI (XO (XI (XO (XI XH)))))

(** val emax : z **)

let emax =
  Zpos (XO (XO (XO (XO (XO (XO (XO (XO (XO (XO XH))))))))))

(** val rzero : real **)

let rzero =
  S754_zero false

(** val radd : spec_float -> spec_float -> spec_float **)

let radd =
  sFadd prec emax

(** val rsub : spec_float -> spec_float -> spec_float **)

let rsub =
  sFsub prec emax

(** val rmul : spec_float -> spec_float -> spec_float **)

let rmul =
  sFmul prec emax

(** val rdiv : spec_float -> spec_float -> spec_float **)

let rdiv =
  sFdiv prec emax

(** val rsqrt : spec_float -> spec_float **)

let rsqrt =
  sFsqrt prec emax

(** val ropp : spec_float -> spec_float **)

let ropp =
  sFopp

(** val rcompare : real -> real -> comparison option **)

let rcompare =
  sFcompare

(** val real_of_z : z -> real **)

let real_of_z z0 =
  binary_normalize prec emax z0 Z0 false

(** val is_inf : real -> bool **)

let is_inf = function
| S754_infinity _ -> true
| _ -> false

(** val is_rzero : real -> bool **)

let is_rzero = function
| S754_zero _ -> true
| _ -> false

(** val req : real -> real -> bool **)

let req a b =
  match rcompare a b with
  | Some c -> (match c with
               | Eq -> true
               | _ -> false)
  | None -> false

(** val rlt : real -> real -> bool **)

let rlt a b =
  match rcompare a b with
  | Some c -> (match c with
               | Lt -> true
               | _ -> false)
  | None -> false

(** val rle : real -> real -> bool **)

let rle a b =
  match rcompare a b with
  | Some c -> (match c with
               | Gt -> false
               | _ -> true)
  | None -> false

(** val rgt : real -> real -> bool **)

let rgt a b =
  match rcompare a b with
  | Some c -> (match c with
               | Gt -> true
               | _ -> false)
  | None -> false

(** val rge : real -> real -> bool **)

let rge a b =
  match rcompare a b with
  | Some c -> (match c with
               | Lt -> false
               | _ -> true)
  | None -> false

(** val rne : real -> real -> bool **)

let rne a b =
  negb (req a b)

(** val frac_of : positive -> z -> z * z **)

let frac_of m0 e =
  if Z.leb Z0 e
  then ((Z.mul (Zpos m0) (Z.pow (Zpos (XO XH)) e)), (Zpos XH))
  else ((Zpos m0), (Z.pow (Zpos (XO XH)) (Z.opp e)))

(** val rfloor : real -> real **)

let rfloor x = match x with
| S754_finite (s, m0, e) ->
  let (n0, d) = frac_of m0 e in
  let q = Z.div n0 d in
  if s
  then let q' = if Z.eqb (Z.modulo n0 d) Z0 then q else Z.add q (Zpos XH) in
       if Z.eqb q' Z0
       then S754_zero true
       else binary_normalize prec emax (Z.opp q') Z0 false
  else if Z.eqb q Z0
       then S754_zero false
       else binary_normalize prec emax q Z0 false
| _ -> x

(** val real_to_int64 : real -> z **)

let real_to_int64 = function
| S754_zero _ -> Z0
| S754_finite (s, m0, e) ->
  let (n0, d) = frac_of m0 e in
  let q = Z.div n0 d in
  let v = if s then Z.opp q else q in if in_int64 v then v else int64_min
| _ -> int64_min

(** val is_integral : real -> bool **)

let is_integral = function
| S754_nan -> false
| S754_finite (_, m0, e) ->
  let (n0, d) = frac_of m0 e in Z.eqb (Z.modulo n0 d) Z0
| _ -> true

(** val real_of_ratio : bool -> z -> z -> real **)

let real_of_ratio neg n0 d =
  if Z.eqb n0 Z0
  then S754_zero neg
  else let sh =
         Z.max Z0
           (Z.sub (Zpos (XO (XO (XI (XI (XI XH))))))
             (Z.sub (Z.log2 n0) (Z.log2 d)))
       in
       let n' = Z.mul n0 (Z.pow (Zpos (XO XH)) sh) in
       let q = Z.div n' d in
       let sticky = if Z.eqb (Z.modulo n' d) Z0 then Z0 else Zpos XH in
       let m0 = Z.add (Z.mul (Zpos (XO XH)) q) sticky in
       let r =
         binary_normalize prec emax m0 (Z.sub (Z.opp sh) (Zpos XH)) false
       in
       if neg then ropp r else r

(** val ratio_exact : real -> z -> z -> bool **)

let ratio_exact x n0 d =
  match x with
  | S754_zero _ -> Z.eqb n0 Z0
  | S754_finite (_, m0, e) ->
    let (a, b) = frac_of m0 e in Z.eqb (Z.mul a d) (Z.mul n0 b)
  | _ -> false

(** val is_subnormal : real -> bool **)

let is_subnormal = function
| S754_finite (_, m0, e) ->
  (&&) (Z.eqb e (Z.sub (Z.sub (Zpos (XI XH)) emax) prec))
    (Z.ltb (Z.add (Z.log2 (Zpos m0)) (Zpos XH)) prec)
| _ -> false

(** val ge_pow10 : z -> z -> z -> bool **)

let ge_pow10 n0 d k =
  if Z.leb Z0 k
  then Z.leb (Z.mul d (Z.pow (Zpos (XO (XI (XO XH)))) k)) n0
  else Z.leb d (Z.mul n0 (Z.pow (Zpos (XO (XI (XO XH)))) (Z.opp k)))

(** val adj_up : nat -> z -> z -> z -> z **)

let rec adj_up fuel n0 d k =
  match fuel with
  | O -> k
  | S f ->
    if ge_pow10 n0 d (Z.add k (Zpos XH))
    then adj_up f n0 d (Z.add k (Zpos XH))
    else k

(** val adj_down : nat -> z -> z -> z -> z **)

let rec adj_down fuel n0 d k =
  match fuel with
  | O -> k
  | S f -> if ge_pow10 n0 d k then k else adj_down f n0 d (Z.sub k (Zpos XH))

(** val log10_floor : z -> z -> z **)

let log10_floor n0 d =
  let l = Z.sub (Z.log2 n0) (Z.log2 d) in
  let k0 =
    Z.div
      (Z.mul (Z.sub l (Zpos XH)) (Zpos (XI (XI (XI (XO (XI (XO (XO (XI (XI
        (XO (XI (XO (XI (XI XH)))))))))))))))) (Zpos (XO (XO (XO (XO (XO (XI
      (XO (XI (XO (XI (XI (XO (XO (XO (XO (XI XH)))))))))))))))))
  in
  adj_down (S (S (S (S (S (S (S (S O)))))))) n0 d
    (adj_up (S (S (S (S (S (S (S (S O)))))))) n0 d k0)

(** val div_half_even : z -> z -> z **)

let div_half_even n0 d =
  let q = Z.div n0 d in
  let r = Z.modulo n0 d in
  if (||) (Z.ltb d (Z.mul (Zpos (XO XH)) r))
       ((&&) (Z.eqb (Z.mul (Zpos (XO XH)) r) d) (Z.odd q))
  then Z.add q (Zpos XH)
  else q

(** val strip_trailing_zeros_rev : str -> str **)

let rec strip_trailing_zeros_rev r = match r with
| [] -> []
| c :: t0 -> if aeqb c '0' then strip_trailing_zeros_rev t0 else r

(** val rstrip0 : str -> str **)

let rstrip0 s =
  rev (strip_trailing_zeros_rev (rev s))

(** val pad2 : str -> str **)

let pad2 s = match s with
| [] -> s
| c :: l -> (match l with
             | [] -> '0' :: (c :: [])
             | _ :: _ -> s)

(** val fmt_g : z -> real -> str option **)

let fmt_g p0 = function
| S754_zero s ->
  Some (if s then str_of_string ('-'::('0'::[])) else str_of_string ('0'::[]))
| S754_infinity s ->
  Some
    (if s
     then str_of_string ('-'::('i'::('n'::('f'::[]))))
     else str_of_string ('i'::('n'::('f'::[]))))
| S754_nan -> None
| S754_finite (s, m0, e) ->
  let (n0, d) = frac_of m0 e in
  let k = log10_floor n0 d in
  let sh = Z.add (Z.sub k p0) (Zpos XH) in
  let d0 =
    if Z.leb Z0 sh
    then div_half_even n0 (Z.mul d (Z.pow (Zpos (XO (XI (XO XH)))) sh))
    else div_half_even (Z.mul n0 (Z.pow (Zpos (XO (XI (XO XH)))) (Z.opp sh)))
           d
  in
  if Z.eqb d0 (Z.pow (Zpos (XO (XI (XO XH)))) p0)
  then let d1 = Z.div d0 (Zpos (XO (XI (XO XH)))) in
       let k0 = Z.add k (Zpos XH) in
       let ds = nat_digits d1 in
       let sgn = if s then '-' :: [] else [] in
       Some
       (app sgn
         (if (||) (Z.ltb k0 (Zneg (XO (XO XH)))) (Z.leb p0 k0)
          then let mant =
                 match ds with
                 | [] -> []
                 | c :: r ->
                   let fr = rstrip0 r in
                   c :: (match fr with
                         | [] -> []
                         | _ :: _ -> '.' :: fr)
               in
               app mant
                 (app ('e' :: ((if Z.ltb k0 Z0 then '-' else '+') :: []))
                   (pad2 (nat_digits (Z.abs k0))))
          else if Z.leb Z0 k0
               then let ip = firstn (Z.to_nat (Z.add k0 (Zpos XH))) ds in
                    let fp =
                      rstrip0 (skipn (Z.to_nat (Z.add k0 (Zpos XH))) ds)
                    in
                    app ip (match fp with
                            | [] -> []
                            | _ :: _ -> '.' :: fp)
               else let fp =
                      rstrip0
                        (app
                          (replicate (Z.to_nat (Z.sub (Z.opp k0) (Zpos XH)))
                            '0') ds)
                    in
                    '0' :: (match fp with
                            | [] -> []
                            | _ :: _ -> '.' :: fp)))
  else let ds = nat_digits d0 in
       let sgn = if s then '-' :: [] else [] in
       Some
       (app sgn
         (if (||) (Z.ltb k (Zneg (XO (XO XH)))) (Z.leb p0 k)
          then let mant =
                 match ds with
                 | [] -> []
                 | c :: r ->
                   let fr = rstrip0 r in
                   c :: (match fr with
                         | [] -> []
                         | _ :: _ -> '.' :: fr)
               in
               app mant
                 (app ('e' :: ((if Z.ltb k Z0 then '-' else '+') :: []))
                   (pad2 (nat_digits (Z.abs k))))
          else if Z.leb Z0 k
               then let ip = firstn (Z.to_nat (Z.add k (Zpos XH))) ds in
                    let fp = rstrip0 (skipn (Z.to_nat (Z.add k (Zpos XH))) ds)
                    in
                    app ip (match fp with
                            | [] -> []
                            | _ :: _ -> '.' :: fp)
               else let fp =
                      rstrip0
                        (app
                          (replicate (Z.to_nat (Z.sub (Z.opp k) (Zpos XH)))
                            '0') ds)
                    in
                    '0' :: (match fp with
                            | [] -> []
                            | _ :: _ -> '.' :: fp)))

(** val lpad0 : nat -> str -> str **)

let lpad0 n0 s =
  if Nat.ltb (length s) n0
  then app (replicate (sub n0 (length s)) '0') s
  else s

(** val fmt_f6 : real -> str option **)

let fmt_f6 = function
| S754_zero s ->
  Some
    (app (if s then '-' :: [] else [])
      (str_of_string
        ('0'::('.'::('0'::('0'::('0'::('0'::('0'::('0'::[]))))))))))
| S754_infinity s ->
  Some
    (if s
     then str_of_string ('-'::('i'::('n'::('f'::[]))))
     else str_of_string ('i'::('n'::('f'::[]))))
| S754_nan -> None
| S754_finite (s, m0, e) ->
  let (n0, d) = frac_of m0 e in
  let d0 =
    div_half_even
      (Z.mul n0 (Zpos (XO (XO (XO (XO (XO (XO (XI (XO (XO (XI (XO (XO (XO (XO
        (XI (XO (XI (XI (XI XH))))))))))))))))))))) d
  in
  let ds = lpad0 (S (S (S (S (S (S (S O))))))) (nat_digits d0) in
  let ip = firstn (sub (length ds) (S (S (S (S (S (S O))))))) ds in
  let fp = skipn (sub (length ds) (S (S (S (S (S (S O))))))) ds in
  Some (app (if s then '-' :: [] else []) (app ip ('.' :: fp)))

(** val real_to_string : real -> str option **)

let real_to_string x =
  match fmt_f6 x with
  | Some s ->
    let t0 = rstrip0 s in
    Some
    (match rev t0 with
     | [] -> t0
     | c :: r -> if aeqb c '.' then rev r else t0)
  | None -> None

(** val real_output : real -> str option **)

let real_output x =
  match fmt_g (Zpos (XO (XI (XO XH)))) x with
  | Some s ->
    Some (if is_integral x then app s (str_of_string ('.'::('0'::[]))) else s)
  | None -> None

(** val take_digits : str -> str -> str * str **)

let rec take_digits s acc =
  match s with
  | [] -> ((rev acc), [])
  | c :: r -> if is_digit c then take_digits r (c :: acc) else ((rev acc), s)

(** val skip_space : str -> str **)

let rec skip_space s = match s with
| [] -> []
| c :: r -> if is_cspace c then skip_space r else s

(** val lower_str : str -> str **)

let lower_str s =
  map to_lower s

(** val hex_val : char -> z option **)

let hex_val c =
  if is_digit c
  then Some (digit_val c)
  else let z0 = zcode (to_lower c) in
       if (&&) (Z.leb (Zpos (XI (XO (XO (XO (XO (XI XH))))))) z0)
            (Z.leb z0 (Zpos (XO (XI (XI (XO (XO (XI XH))))))))
       then Some (Z.sub z0 (Zpos (XI (XI (XI (XO (XI (XO XH))))))))
       else None

(** val take_hex : str -> z -> z -> (z * z) * str **)

let rec take_hex s acc cnt =
  match s with
  | [] -> ((acc, cnt), [])
  | c :: r ->
    (match hex_val c with
     | Some v ->
       take_hex r (Z.add (Z.mul acc (Zpos (XO (XO (XO (XO XH)))))) v)
         (Z.add cnt (Zpos XH))
     | None -> ((acc, cnt), s))

(** val take_exponent : str -> (z * str) option **)

let take_exponent s = match s with
| [] ->
  let neg = false in
  let s1 = [] in
  let (ds, s2) = take_digits s1 [] in
  (match ds with
   | [] -> None
   | _ :: _ ->
     let ds' = firstn (S (S (S (S (S (S (S (S (S O))))))))) ds in
     let v =
       if Nat.ltb (S (S (S (S (S (S (S (S O)))))))) (length ds)
       then Zpos (XI (XI (XI (XI (XI (XI (XI (XI (XI (XO (XO (XI (XO (XO (XI
              (XI (XO (XI (XO (XI (XI (XO (XO (XI (XI (XI (XO (XI (XI
              XH)))))))))))))))))))))))))))))
       else digits_to_z ds'
     in
     Some ((if neg then Z.opp v else v), s2))
| c :: r ->
  if aeqb c '-'
  then let neg = true in
       let (ds, s2) = take_digits r [] in
       (match ds with
        | [] -> None
        | _ :: _ ->
          let ds' = firstn (S (S (S (S (S (S (S (S (S O))))))))) ds in
          let v =
            if Nat.ltb (S (S (S (S (S (S (S (S O)))))))) (length ds)
            then Zpos (XI (XI (XI (XI (XI (XI (XI (XI (XI (XO (XO (XI (XO (XO
                   (XI (XI (XO (XI (XO (XI (XI (XO (XO (XI (XI (XI (XO (XI
                   (XI XH)))))))))))))))))))))))))))))
            else digits_to_z ds'
          in
          Some ((if neg then Z.opp v else v), s2))
  else if aeqb c '+'
       then let neg = false in
            let (ds, s2) = take_digits r [] in
            (match ds with
             | [] -> None
             | _ :: _ ->
               let ds' = firstn (S (S (S (S (S (S (S (S (S O))))))))) ds in
               let v =
                 if Nat.ltb (S (S (S (S (S (S (S (S O)))))))) (length ds)
                 then Zpos (XI (XI (XI (XI (XI (XI (XI (XI (XI (XO (XO (XI
                        (XO (XO (XI (XI (XO (XI (XO (XI (XI (XO (XO (XI (XI
                        (XI (XO (XI (XI XH)))))))))))))))))))))))))))))
                 else digits_to_z ds'
               in
               Some ((if neg then Z.opp v else v), s2))
       else let neg = false in
            let (ds, s2) = take_digits s [] in
            (match ds with
             | [] -> None
             | _ :: _ ->
               let ds' = firstn (S (S (S (S (S (S (S (S (S O))))))))) ds in
               let v =
                 if Nat.ltb (S (S (S (S (S (S (S (S O)))))))) (length ds)
                 then Zpos (XI (XI (XI (XI (XI (XI (XI (XI (XI (XO (XO (XI
                        (XO (XO (XI (XI (XO (XI (XO (XI (XI (XO (XO (XI (XI
                        (XI (XO (XI (XI XH)))))))))))))))))))))))))))))
                 else digits_to_z ds'
               in
               Some ((if neg then Z.opp v else v), s2))

type strtod_res = { sr_val : real; sr_rest : str; sr_erange : bool;
                    sr_conv : bool }

(** val scale_dec : bool -> z -> z -> real * bool **)

let scale_dec neg mant e10 =
  if Z.eqb mant Z0
  then ((S754_zero neg), false)
  else let nd = Z.of_nat (length (nat_digits mant)) in
       if Z.ltb (Zpos (XO (XO (XO (XO (XI (XO (XO (XI XH)))))))))
            (Z.add e10 nd)
       then ((S754_infinity neg), true)
       else if Z.ltb (Z.add e10 nd) (Zneg (XO (XO (XO (XO (XI (XO (XO (XI
                 XH)))))))))
            then ((S754_zero neg), true)
            else if Z.leb Z0 e10
                 then let n0 = Z.mul mant (Z.pow (Zpos (XO (XI (XO XH)))) e10)
                      in
                      let d = Zpos XH in
                      let r = real_of_ratio neg n0 d in
                      let er =
                        (||) ((||) (is_inf r) (is_rzero r))
                          ((&&) (is_subnormal r) (negb (ratio_exact r n0 d)))
                      in
                      (r, er)
                 else let d = Z.pow (Zpos (XO (XI (XO XH)))) (Z.opp e10) in
                      let r = real_of_ratio neg mant d in
                      let er =
                        (||) ((||) (is_inf r) (is_rzero r))
                          ((&&) (is_subnormal r)
                            (negb (ratio_exact r mant d)))
                      in
                      (r, er)

(** val strtod_pfx : str -> strtod_res **)

let strtod_pfx s0 =
  let s = skip_space s0 in
  (match s with
   | [] ->
     let neg = false in
     let s1 = [] in
     let low = lower_str s1 in
     if starts_with
          (str_of_string
            ('i'::('n'::('f'::('i'::('n'::('i'::('t'::('y'::[]))))))))) low
     then { sr_val = (S754_infinity neg); sr_rest =
            (skipn (S (S (S (S (S (S (S (S O)))))))) s1); sr_erange = false;
            sr_conv = true }
     else if starts_with (str_of_string ('i'::('n'::('f'::[])))) low
          then { sr_val = (S754_infinity neg); sr_rest =
                 (skipn (S (S (S O))) s1); sr_erange = false; sr_conv = true }
          else if starts_with (str_of_string ('n'::('a'::('n'::[])))) low
               then let r = skipn (S (S (S O))) s1 in
                    let r' =
                      match r with
                      | [] -> None
                      | c :: t0 ->
                        if aeqb c '('
                        then let rec go fuel u =
                               match fuel with
                               | O -> None
                               | S f ->
                                 (match u with
                                  | [] -> None
                                  | x :: v ->
                                    if aeqb x ')'
                                    then Some v
                                    else if (||) (is_alnum x) (aeqb x '_')
                                         then go f v
                                         else None)
                             in go (S (length t0)) t0
                        else None
                    in
                    { sr_val = S754_nan; sr_rest =
                    (match r' with
                     | Some v -> v
                     | None -> r); sr_erange = false; sr_conv = true }
               else let is_hex =
                      match low with
                      | [] -> false
                      | z0 :: l ->
                        (match l with
                         | [] -> false
                         | x :: r ->
                           (&&) ((&&) (aeqb z0 '0') (aeqb x 'x'))
                             (match r with
                              | [] -> false
                              | h :: _ ->
                                (match hex_val h with
                                 | Some _ -> true
                                 | None ->
                                   (&&) (aeqb h '.')
                                     (match r with
                                      | [] -> false
                                      | _ :: l0 ->
                                        (match l0 with
                                         | [] -> false
                                         | h2 :: _ ->
                                           (match hex_val h2 with
                                            | Some _ -> true
                                            | None -> false))))))
                    in
                    if is_hex
                    then let body = skipn (S (S O)) s1 in
                         let (p0, r1) = take_hex body Z0 Z0 in
                         let (m1, c1) = p0 in
                         let (p1, r2) =
                           match r1 with
                           | [] -> ((m1, Z0), r1)
                           | c :: t0 ->
                             if aeqb c '.'
                             then take_hex t0 m1 Z0
                             else ((m1, Z0), r1)
                         in
                         let (m2, c2) = p1 in
                         let (e2, r3) =
                           match r2 with
                           | [] -> (Z0, r2)
                           | c :: t0 ->
                             if aeqb (to_lower c) 'p'
                             then (match take_exponent t0 with
                                   | Some p2 -> p2
                                   | None -> (Z0, r2))
                             else (Z0, r2)
                         in
                         let ex = Z.sub e2 (Z.mul (Zpos (XO (XO XH))) c2) in
                         let v =
                           if Z.eqb m2 Z0
                           then S754_zero neg
                           else if Z.ltb (Zpos (XO (XO (XO (XI (XO (XO (XO
                                     (XI (XI (XI (XO (XO XH)))))))))))))
                                     (Z.add ex
                                       (Z.mul (Zpos (XO (XO XH)))
                                         (Z.add c1 c2)))
                                then S754_infinity neg
                                else if Z.ltb
                                          (Z.add ex
                                            (Z.mul (Zpos (XO (XO XH)))
                                              (Z.add c1 c2))) (Zneg (XO (XO
                                          (XO (XI (XO (XO (XO (XI (XI (XI (XO
                                          (XO XH)))))))))))))
                                     then S754_zero neg
                                     else let r =
                                            binary_normalize prec emax m2 ex
                                              false
                                          in
                                          if neg then ropp r else r
                         in
                         { sr_val = v; sr_rest = r3; sr_erange =
                         ((||) (is_inf v)
                           ((&&) (is_rzero v) (negb (Z.eqb m2 Z0))));
                         sr_conv = true }
                    else let (ip, r1) = take_digits s1 [] in
                         let (fp, r2) =
                           match r1 with
                           | [] -> ([], r1)
                           | c :: t0 ->
                             if aeqb c '.'
                             then take_digits t0 []
                             else ([], r1)
                         in
                         (match ip with
                          | [] ->
                            (match fp with
                             | [] ->
                               { sr_val = rzero; sr_rest = s0; sr_erange =
                                 false; sr_conv = false }
                             | _ :: _ ->
                               let (e10, r3) =
                                 match r2 with
                                 | [] -> (Z0, r2)
                                 | c :: t0 ->
                                   if aeqb (to_lower c) 'e'
                                   then (match take_exponent t0 with
                                         | Some p0 -> p0
                                         | None -> (Z0, r2))
                                   else (Z0, r2)
                               in
                               let mant = digits_to_z (app ip fp) in
                               let (v, er) =
                                 scale_dec neg mant
                                   (Z.sub e10 (Z.of_nat (length fp)))
                               in
                               { sr_val = v; sr_rest = r3; sr_erange = er;
                               sr_conv = true })
                          | _ :: _ ->
                            let (e10, r3) =
                              match r2 with
                              | [] -> (Z0, r2)
                              | c :: t0 ->
                                if aeqb (to_lower c) 'e'
                                then (match take_exponent t0 with
                                      | Some p0 -> p0
                                      | None -> (Z0, r2))
                                else (Z0, r2)
                            in
                            let mant = digits_to_z (app ip fp) in
                            let (v, er) =
                              scale_dec neg mant
                                (Z.sub e10 (Z.of_nat (length fp)))
                            in
                            { sr_val = v; sr_rest = r3; sr_erange = er;
                            sr_conv = true })
   | c :: r ->
     if aeqb c '-'
     then let neg = true in
          let low = lower_str r in
          if starts_with
               (str_of_string
                 ('i'::('n'::('f'::('i'::('n'::('i'::('t'::('y'::[])))))))))
               low
          then { sr_val = (S754_infinity neg); sr_rest =
                 (skipn (S (S (S (S (S (S (S (S O)))))))) r); sr_erange =
                 false; sr_conv = true }
          else if starts_with (str_of_string ('i'::('n'::('f'::[])))) low
               then { sr_val = (S754_infinity neg); sr_rest =
                      (skipn (S (S (S O))) r); sr_erange = false; sr_conv =
                      true }
               else if starts_with (str_of_string ('n'::('a'::('n'::[])))) low
                    then let r0 = skipn (S (S (S O))) r in
                         let r' =
                           match r0 with
                           | [] -> None
                           | c0 :: t0 ->
                             if aeqb c0 '('
                             then let rec go fuel u =
                                    match fuel with
                                    | O -> None
                                    | S f ->
                                      (match u with
                                       | [] -> None
                                       | x :: v ->
                                         if aeqb x ')'
                                         then Some v
                                         else if (||) (is_alnum x)
                                                   (aeqb x '_')
                                              then go f v
                                              else None)
                                  in go (S (length t0)) t0
                             else None
                         in
                         { sr_val = S754_nan; sr_rest =
                         (match r' with
                          | Some v -> v
                          | None -> r0); sr_erange = false; sr_conv = true }
                    else let is_hex =
                           match low with
                           | [] -> false
                           | z0 :: l ->
                             (match l with
                              | [] -> false
                              | x :: r0 ->
                                (&&) ((&&) (aeqb z0 '0') (aeqb x 'x'))
                                  (match r0 with
                                   | [] -> false
                                   | h :: _ ->
                                     (match hex_val h with
                                      | Some _ -> true
                                      | None ->
                                        (&&) (aeqb h '.')
                                          (match r0 with
                                           | [] -> false
                                           | _ :: l0 ->
                                             (match l0 with
                                              | [] -> false
                                              | h2 :: _ ->
                                                (match hex_val h2 with
                                                 | Some _ -> true
                                                 | None -> false))))))
                         in
                         if is_hex
                         then let body = skipn (S (S O)) r in
                              let (p0, r1) = take_hex body Z0 Z0 in
                              let (m1, c1) = p0 in
                              let (p1, r2) =
                                match r1 with
                                | [] -> ((m1, Z0), r1)
                                | c0 :: t0 ->
                                  if aeqb c0 '.'
                                  then take_hex t0 m1 Z0
                                  else ((m1, Z0), r1)
                              in
                              let (m2, c2) = p1 in
                              let (e2, r3) =
                                match r2 with
                                | [] -> (Z0, r2)
                                | c0 :: t0 ->
                                  if aeqb (to_lower c0) 'p'
                                  then (match take_exponent t0 with
                                        | Some p2 -> p2
                                        | None -> (Z0, r2))
                                  else (Z0, r2)
                              in
                              let ex = Z.sub e2 (Z.mul (Zpos (XO (XO XH))) c2)
                              in
                              let v =
                                if Z.eqb m2 Z0
                                then S754_zero neg
                                else if Z.ltb (Zpos (XO (XO (XO (XI (XO (XO
                                          (XO (XI (XI (XI (XO (XO
                                          XH)))))))))))))
                                          (Z.add ex
                                            (Z.mul (Zpos (XO (XO XH)))
                                              (Z.add c1 c2)))
                                     then S754_infinity neg
                                     else if Z.ltb
                                               (Z.add ex
                                                 (Z.mul (Zpos (XO (XO XH)))
                                                   (Z.add c1 c2))) (Zneg (XO
                                               (XO (XO (XI (XO (XO (XO (XI
                                               (XI (XI (XO (XO XH)))))))))))))
                                          then S754_zero neg
                                          else let r0 =
                                                 binary_normalize prec emax
                                                   m2 ex false
                                               in
                                               if neg then ropp r0 else r0
                              in
                              { sr_val = v; sr_rest = r3; sr_erange =
                              ((||) (is_inf v)
                                ((&&) (is_rzero v) (negb (Z.eqb m2 Z0))));
                              sr_conv = true }
                         else let (ip, r1) = take_digits r [] in
                              let (fp, r2) =
                                match r1 with
                                | [] -> ([], r1)
                                | c0 :: t0 ->
                                  if aeqb c0 '.'
                                  then take_digits t0 []
                                  else ([], r1)
                              in
                              (match ip with
                               | [] ->
                                 (match fp with
                                  | [] ->
                                    { sr_val = rzero; sr_rest = s0;
                                      sr_erange = false; sr_conv = false }
                                  | _ :: _ ->
                                    let (e10, r3) =
                                      match r2 with
                                      | [] -> (Z0, r2)
                                      | c0 :: t0 ->
                                        if aeqb (to_lower c0) 'e'
                                        then (match take_exponent t0 with
                                              | Some p0 -> p0
                                              | None -> (Z0, r2))
                                        else (Z0, r2)
                                    in
                                    let mant = digits_to_z (app ip fp) in
                                    let (v, er) =
                                      scale_dec neg mant
                                        (Z.sub e10 (Z.of_nat (length fp)))
                                    in
                                    { sr_val = v; sr_rest = r3; sr_erange =
                                    er; sr_conv = true })
                               | _ :: _ ->
                                 let (e10, r3) =
                                   match r2 with
                                   | [] -> (Z0, r2)
                                   | c0 :: t0 ->
                                     if aeqb (to_lower c0) 'e'
                                     then (match take_exponent t0 with
                                           | Some p0 -> p0
                                           | None -> (Z0, r2))
                                     else (Z0, r2)
                                 in
                                 let mant = digits_to_z (app ip fp) in
                                 let (v, er) =
                                   scale_dec neg mant
                                     (Z.sub e10 (Z.of_nat (length fp)))
                                 in
                                 { sr_val = v; sr_rest = r3; sr_erange = er;
                                 sr_conv = true })
     else if aeqb c '+'
          then let neg = false in
               let low = lower_str r in
               if starts_with
                    (str_of_string
                      ('i'::('n'::('f'::('i'::('n'::('i'::('t'::('y'::[])))))))))
                    low
               then { sr_val = (S754_infinity neg); sr_rest =
                      (skipn (S (S (S (S (S (S (S (S O)))))))) r);
                      sr_erange = false; sr_conv = true }
               else if starts_with (str_of_string ('i'::('n'::('f'::[])))) low
                    then { sr_val = (S754_infinity neg); sr_rest =
                           (skipn (S (S (S O))) r); sr_erange = false;
                           sr_conv = true }
                    else if starts_with
                              (str_of_string ('n'::('a'::('n'::[])))) low
                         then let r0 = skipn (S (S (S O))) r in
                              let r' =
                                match r0 with
                                | [] -> None
                                | c0 :: t0 ->
                                  if aeqb c0 '('
                                  then let rec go fuel u =
                                         match fuel with
                                         | O -> None
                                         | S f ->
                                           (match u with
                                            | [] -> None
                                            | x :: v ->
                                              if aeqb x ')'
                                              then Some v
                                              else if (||) (is_alnum x)
                                                        (aeqb x '_')
                                                   then go f v
                                                   else None)
                                       in go (S (length t0)) t0
                                  else None
                              in
                              { sr_val = S754_nan; sr_rest =
                              (match r' with
                               | Some v -> v
                               | None -> r0); sr_erange = false; sr_conv =
                              true }
                         else let is_hex =
                                match low with
                                | [] -> false
                                | z0 :: l ->
                                  (match l with
                                   | [] -> false
                                   | x :: r0 ->
                                     (&&) ((&&) (aeqb z0 '0') (aeqb x 'x'))
                                       (match r0 with
                                        | [] -> false
                                        | h :: _ ->
                                          (match hex_val h with
                                           | Some _ -> true
                                           | None ->
                                             (&&) (aeqb h '.')
                                               (match r0 with
                                                | [] -> false
                                                | _ :: l0 ->
                                                  (match l0 with
                                                   | [] -> false
                                                   | h2 :: _ ->
                                                     (match hex_val h2 with
                                                      | Some _ -> true
                                                      | None -> false))))))
                              in
                              if is_hex
                              then let body = skipn (S (S O)) r in
                                   let (p0, r1) = take_hex body Z0 Z0 in
                                   let (m1, c1) = p0 in
                                   let (p1, r2) =
                                     match r1 with
                                     | [] -> ((m1, Z0), r1)
                                     | c0 :: t0 ->
                                       if aeqb c0 '.'
                                       then take_hex t0 m1 Z0
                                       else ((m1, Z0), r1)
                                   in
                                   let (m2, c2) = p1 in
                                   let (e2, r3) =
                                     match r2 with
                                     | [] -> (Z0, r2)
                                     | c0 :: t0 ->
                                       if aeqb (to_lower c0) 'p'
                                       then (match take_exponent t0 with
                                             | Some p2 -> p2
                                             | None -> (Z0, r2))
                                       else (Z0, r2)
                                   in
                                   let ex =
                                     Z.sub e2 (Z.mul (Zpos (XO (XO XH))) c2)
                                   in
                                   let v =
                                     if Z.eqb m2 Z0
                                     then S754_zero neg
                                     else if Z.ltb (Zpos (XO (XO (XO (XI (XO
                                               (XO (XO (XI (XI (XI (XO (XO
                                               XH)))))))))))))
                                               (Z.add ex
                                                 (Z.mul (Zpos (XO (XO XH)))
                                                   (Z.add c1 c2)))
                                          then S754_infinity neg
                                          else if Z.ltb
                                                    (Z.add ex
                                                      (Z.mul (Zpos (XO (XO
                                                        XH))) (Z.add c1 c2)))
                                                    (Zneg (XO (XO (XO (XI (XO
                                                    (XO (XO (XI (XI (XI (XO
                                                    (XO XH)))))))))))))
                                               then S754_zero neg
                                               else let r0 =
                                                      binary_normalize prec
                                                        emax m2 ex false
                                                    in
                                                    if neg
                                                    then ropp r0
                                                    else r0
                                   in
                                   { sr_val = v; sr_rest = r3; sr_erange =
                                   ((||) (is_inf v)
                                     ((&&) (is_rzero v) (negb (Z.eqb m2 Z0))));
                                   sr_conv = true }
                              else let (ip, r1) = take_digits r [] in
                                   let (fp, r2) =
                                     match r1 with
                                     | [] -> ([], r1)
                                     | c0 :: t0 ->
                                       if aeqb c0 '.'
                                       then take_digits t0 []
                                       else ([], r1)
                                   in
                                   (match ip with
                                    | [] ->
                                      (match fp with
                                       | [] ->
                                         { sr_val = rzero; sr_rest = s0;
                                           sr_erange = false; sr_conv =
                                           false }
                                       | _ :: _ ->
                                         let (e10, r3) =
                                           match r2 with
                                           | [] -> (Z0, r2)
                                           | c0 :: t0 ->
                                             if aeqb (to_lower c0) 'e'
                                             then (match take_exponent t0 with
                                                   | Some p0 -> p0
                                                   | None -> (Z0, r2))
                                             else (Z0, r2)
                                         in
                                         let mant = digits_to_z (app ip fp) in
                                         let (v, er) =
                                           scale_dec neg mant
                                             (Z.sub e10
                                               (Z.of_nat (length fp)))
                                         in
                                         { sr_val = v; sr_rest = r3;
                                         sr_erange = er; sr_conv = true })
                                    | _ :: _ ->
                                      let (e10, r3) =
                                        match r2 with
                                        | [] -> (Z0, r2)
                                        | c0 :: t0 ->
                                          if aeqb (to_lower c0) 'e'
                                          then (match take_exponent t0 with
                                                | Some p0 -> p0
                                                | None -> (Z0, r2))
                                          else (Z0, r2)
                                      in
                                      let mant = digits_to_z (app ip fp) in
                                      let (v, er) =
                                        scale_dec neg mant
                                          (Z.sub e10 (Z.of_nat (length fp)))
                                      in
                                      { sr_val = v; sr_rest = r3; sr_erange =
                                      er; sr_conv = true })
          else let neg = false in
               let low = lower_str s in
               if starts_with
                    (str_of_string
                      ('i'::('n'::('f'::('i'::('n'::('i'::('t'::('y'::[])))))))))
                    low
               then { sr_val = (S754_infinity neg); sr_rest =
                      (skipn (S (S (S (S (S (S (S (S O)))))))) s);
                      sr_erange = false; sr_conv = true }
               else if starts_with (str_of_string ('i'::('n'::('f'::[])))) low
                    then { sr_val = (S754_infinity neg); sr_rest =
                           (skipn (S (S (S O))) s); sr_erange = false;
                           sr_conv = true }
                    else if starts_with
                              (str_of_string ('n'::('a'::('n'::[])))) low
                         then let r0 = skipn (S (S (S O))) s in
                              let r' =
                                match r0 with
                                | [] -> None
                                | c0 :: t0 ->
                                  if aeqb c0 '('
                                  then let rec go fuel u =
                                         match fuel with
                                         | O -> None
                                         | S f ->
                                           (match u with
                                            | [] -> None
                                            | x :: v ->
                                              if aeqb x ')'
                                              then Some v
                                              else if (||) (is_alnum x)
                                                        (aeqb x '_')
                                                   then go f v
                                                   else None)
                                       in go (S (length t0)) t0
                                  else None
                              in
                              { sr_val = S754_nan; sr_rest =
                              (match r' with
                               | Some v -> v
                               | None -> r0); sr_erange = false; sr_conv =
                              true }
                         else let is_hex =
                                match low with
                                | [] -> false
                                | z0 :: l ->
                                  (match l with
                                   | [] -> false
                                   | x :: r0 ->
                                     (&&) ((&&) (aeqb z0 '0') (aeqb x 'x'))
                                       (match r0 with
                                        | [] -> false
                                        | h :: _ ->
                                          (match hex_val h with
                                           | Some _ -> true
                                           | None ->
                                             (&&) (aeqb h '.')
                                               (match r0 with
                                                | [] -> false
                                                | _ :: l0 ->
                                                  (match l0 with
                                                   | [] -> false
                                                   | h2 :: _ ->
                                                     (match hex_val h2 with
                                                      | Some _ -> true
                                                      | None -> false))))))
                              in
                              if is_hex
                              then let body = skipn (S (S O)) s in
                                   let (p0, r1) = take_hex body Z0 Z0 in
                                   let (m1, c1) = p0 in
                                   let (p1, r2) =
                                     match r1 with
                                     | [] -> ((m1, Z0), r1)
                                     | c0 :: t0 ->
                                       if aeqb c0 '.'
                                       then take_hex t0 m1 Z0
                                       else ((m1, Z0), r1)
                                   in
                                   let (m2, c2) = p1 in
                                   let (e2, r3) =
                                     match r2 with
                                     | [] -> (Z0, r2)
                                     | c0 :: t0 ->
                                       if aeqb (to_lower c0) 'p'
                                       then (match take_exponent t0 with
                                             | Some p2 -> p2
                                             | None -> (Z0, r2))
                                       else (Z0, r2)
                                   in
                                   let ex =
                                     Z.sub e2 (Z.mul (Zpos (XO (XO XH))) c2)
                                   in
                                   let v =
                                     if Z.eqb m2 Z0
                                     then S754_zero neg
                                     else if Z.ltb (Zpos (XO (XO (XO (XI (XO
                                               (XO (XO (XI (XI (XI (XO (XO
                                               XH)))))))))))))
                                               (Z.add ex
                                                 (Z.mul (Zpos (XO (XO XH)))
                                                   (Z.add c1 c2)))
                                          then S754_infinity neg
                                          else if Z.ltb
                                                    (Z.add ex
                                                      (Z.mul (Zpos (XO (XO
                                                        XH))) (Z.add c1 c2)))
                                                    (Zneg (XO (XO (XO (XI (XO
                                                    (XO (XO (XI (XI (XI (XO
                                                    (XO XH)))))))))))))
                                               then S754_zero neg
                                               else let r0 =
                                                      binary_normalize prec
                                                        emax m2 ex false
                                                    in
                                                    if neg
                                                    then ropp r0
                                                    else r0
                                   in
                                   { sr_val = v; sr_rest = r3; sr_erange =
                                   ((||) (is_inf v)
                                     ((&&) (is_rzero v) (negb (Z.eqb m2 Z0))));
                                   sr_conv = true }
                              else let (ip, r1) = take_digits s [] in
                                   let (fp, r2) =
                                     match r1 with
                                     | [] -> ([], r1)
                                     | c0 :: t0 ->
                                       if aeqb c0 '.'
                                       then take_digits t0 []
                                       else ([], r1)
                                   in
                                   (match ip with
                                    | [] ->
                                      (match fp with
                                       | [] ->
                                         { sr_val = rzero; sr_rest = s0;
                                           sr_erange = false; sr_conv =
                                           false }
                                       | _ :: _ ->
                                         let (e10, r3) =
                                           match r2 with
                                           | [] -> (Z0, r2)
                                           | c0 :: t0 ->
                                             if aeqb (to_lower c0) 'e'
                                             then (match take_exponent t0 with
                                                   | Some p0 -> p0
                                                   | None -> (Z0, r2))
                                             else (Z0, r2)
                                         in
                                         let mant = digits_to_z (app ip fp) in
                                         let (v, er) =
                                           scale_dec neg mant
                                             (Z.sub e10
                                               (Z.of_nat (length fp)))
                                         in
                                         { sr_val = v; sr_rest = r3;
                                         sr_erange = er; sr_conv = true })
                                    | _ :: _ ->
                                      let (e10, r3) =
                                        match r2 with
                                        | [] -> (Z0, r2)
                                        | c0 :: t0 ->
                                          if aeqb (to_lower c0) 'e'
                                          then (match take_exponent t0 with
                                                | Some p0 -> p0
                                                | None -> (Z0, r2))
                                          else (Z0, r2)
                                      in
                                      let mant = digits_to_z (app ip fp) in
                                      let (v, er) =
                                        scale_dec neg mant
                                          (Z.sub e10 (Z.of_nat (length fp)))
                                      in
                                      { sr_val = v; sr_rest = r3; sr_erange =
                                      er; sr_conv = true }))

(** val cstr : str -> str **)

let rec cstr = function
| [] -> []
| c :: r -> if aeqb c ch_nul then [] else c :: (cstr r)

(** val string_to_real : str -> real **)

let string_to_real s =
  let c = cstr s in
  (match c with
   | [] -> rzero
   | _ :: _ ->
     let r = strtod_pfx c in
     (match r.sr_rest with
      | [] -> if r.sr_conv then r.sr_val else rzero
      | _ :: _ -> rzero))

(** val stod_literal : str -> real option **)

let stod_literal s =
  let r = strtod_pfx s in if r.sr_erange then None else Some r.sr_val

(** val string_to_int : str -> z **)

let string_to_int s =
  let c = cstr s in
  (match c with
   | [] -> Z0
   | _ :: _ ->
     let s1 = skip_space c in
     (match s1 with
      | [] ->
        let neg = false in
        let s2 = [] in
        let (ds, r) = take_digits s2 [] in
        (match ds with
         | [] -> Z0
         | _ :: _ ->
           (match r with
            | [] ->
              let v = digits_to_z ds in
              let v0 = if neg then Z.opp v else v in
              if Z.ltb v0 int64_min
              then int64_min
              else if Z.ltb int64_max v0 then int64_max else v0
            | _ :: _ -> Z0))
      | x :: r ->
        if aeqb x '-'
        then let neg = true in
             let (ds, r0) = take_digits r [] in
             (match ds with
              | [] -> Z0
              | _ :: _ ->
                (match r0 with
                 | [] ->
                   let v = digits_to_z ds in
                   let v0 = if neg then Z.opp v else v in
                   if Z.ltb v0 int64_min
                   then int64_min
                   else if Z.ltb int64_max v0 then int64_max else v0
                 | _ :: _ -> Z0))
        else if aeqb x '+'
             then let neg = false in
                  let (ds, r0) = take_digits r [] in
                  (match ds with
                   | [] -> Z0
                   | _ :: _ ->
                     (match r0 with
                      | [] ->
                        let v = digits_to_z ds in
                        let v0 = if neg then Z.opp v else v in
                        if Z.ltb v0 int64_min
                        then int64_min
                        else if Z.ltb int64_max v0 then int64_max else v0
                      | _ :: _ -> Z0))
             else let neg = false in
                  let (ds, r0) = take_digits s1 [] in
                  (match ds with
                   | [] -> Z0
                   | _ :: _ ->
                     (match r0 with
                      | [] ->
                        let v = digits_to_z ds in
                        let v0 = if neg then Z.opp v else v in
                        if Z.ltb v0 int64_min
                        then int64_min
                        else if Z.ltb int64_max v0 then int64_max else v0
                      | _ :: _ -> Z0))))

type pst = { p_toks : token list; p_warns : (z * z) list }

type 'a pres =
| POk of 'a * pst
| PFail of lexkind * token * pst
| PFuel

type 'a p = pst -> 'a pres

(** val eof_tok : token **)

let eof_tok =
  { tt = TEXPRESSION_END; tline = Z0; tcol = Z0; tval = [] }

(** val cur : pst -> token **)

let cur s =
  hd eof_tok s.p_toks

(** val adv : pst -> pst **)

let adv s =
  match s.p_toks with
  | [] -> s
  | _ :: r ->
    (match r with
     | [] -> s
     | _ :: _ -> { p_toks = r; p_warns = s.p_warns })

(** val next_is : pst -> nat -> ttype -> bool **)

let next_is s n0 ty =
  match nth_error s.p_toks n0 with
  | Some t0 -> tt_eqb t0.tt ty
  | None -> false

(** val is_t : pst -> ttype -> bool **)

let is_t s ty =
  tt_eqb (cur s).tt ty

(** val pbind : 'a1 p -> ('a1 -> 'a2 p) -> 'a2 p **)

let pbind m0 k s =
  match m0 s with
  | POk (a, s') -> k a s'
  | PFail (kd, t0, s') -> PFail (kd, t0, s')
  | PFuel -> PFuel

(** val pret : 'a1 -> 'a1 p **)

let pret a s =
  POk (a, s)

(** val perr : 'a1 p **)

let perr s =
  PFail (LexSyntax, (cur s), s)

(** val pped : token -> 'a1 p **)

let pped t0 s =
  PFail (LexPedantic, t0, s)

(** val padv : unit p **)

let padv s =
  POk ((), (adv s))

(** val pcur : token p **)

let pcur s =
  POk ((cur s), s)

(** val pfuel : 'a1 p **)

let pfuel _ =
  PFuel

(** val expect : ttype -> unit p **)

let expect ty s =
  if is_t s ty then POk ((), (adv s)) else PFail (LexSyntax, (cur s), s)

(** val skip_line_ends : nat -> unit p **)

let rec skip_line_ends n0 s =
  match n0 with
  | O -> POk ((), s)
  | S k -> if is_t s TLINE_END then skip_line_ends k (adv s) else POk ((), s)

(** val skip_nl : unit p **)

let skip_nl s =
  skip_line_ends (length s.p_toks) s

(** val binloop :
    nat -> (ttype -> bool) -> node p -> (token -> node -> node -> node) ->
    node -> node p **)

let rec binloop n0 isop sub0 mk left s =
  match n0 with
  | O -> PFuel
  | S k ->
    let t0 = cur s in
    if isop t0.tt
    then (match sub0 (adv s) with
          | POk (r, s') -> binloop k isop sub0 mk (mk t0 left r) s'
          | x -> x)
    else POk (left, s)

(** val op_eq : ttype -> bool **)

let op_eq = function
| TEQUALS -> true
| TNOT_EQUALS -> true
| _ -> false

(** val op_logic : ttype -> bool **)

let op_logic = function
| TAND -> true
| TOR -> true
| _ -> false

(** val op_cmp : ttype -> bool **)

let op_cmp = function
| TEQUALS -> true
| TNOT_EQUALS -> true
| TGREATER -> true
| TLESSER -> true
| TGREATER_EQUAL -> true
| TLESSER_EQUAL -> true
| _ -> false

(** val op_cat : ttype -> bool **)

let op_cat = function
| TAMPERSAND -> true
| _ -> false

(** val op_add : ttype -> bool **)

let op_add = function
| TPLUS -> true
| TMINUS -> true
| _ -> false

(** val op_mul : ttype -> bool **)

let op_mul = function
| TSTAR -> true
| TSLASH -> true
| TDIV -> true
| TMOD -> true
| _ -> false

(** val int_literal_ok : token -> bool **)

let int_literal_ok t0 =
  Z.leb (digits_to_z t0.tval) int64_max

(** val real_literal_ok : token -> bool **)

let real_literal_ok t0 =
  match stod_literal t0.tval with
  | Some _ -> true
  | None -> false

(** val is_type_tok : pst -> bool **)

let is_type_tok s =
  (||) (is_t s TDATA_TYPE) (is_t s TIDENTIFIER)

(** val block_terminator : ttype -> bool **)

let block_terminator = function
| TELSE -> true
| TENDIF -> true
| TOTHERWISE -> true
| TENDCASE -> true
| TENDWHILE -> true
| TUNTIL -> true
| TNEXT -> true
| TENDPROCEDURE -> true
| TENDFUNCTION -> true
| TEXPRESSION_END -> true
| _ -> false

(** val colon_on_line : token list -> bool **)

let rec colon_on_line = function
| [] -> false
| t0 :: r ->
  if tt_eqb t0.tt TCOLON
  then true
  else if tt_eqb t0.tt TLINE_END then false else colon_on_line r

type btype =
| BMain
| BCase
| BOther

type pacc = { pa_names : str list; pa_types : token list;
              pa_pass : bool list; pa_byref : bool; pa_tc : nat; pa_pc : 
              nat }

(** val literal_node : pst -> node pres option **)

let literal_node s =
  let t0 = cur s in
  (match t0.tt with
   | TINTEGER ->
     Some
       (if int_literal_ok t0
        then POk ((NInt t0), (adv s))
        else PFail (LexSyntax, t0, s))
   | TREAL ->
     Some
       (if real_literal_ok t0
        then POk ((NReal t0), (adv s))
        else PFail (LexSyntax, t0, s))
   | TCHAR -> Some (POk ((NChar t0), (adv s)))
   | TSTRING -> Some (POk ((NStr t0), (adv s)))
   | TTRUE -> Some (POk ((NBool t0), (adv s)))
   | TFALSE -> Some (POk ((NBool t0), (adv s)))
   | _ -> None)

type prs = { pr_fuel : nat; pr_parse_eval : node p;
             pr_parse_logical : node p; pr_parse_comparison : node p;
             pr_parse_strexpr : node p; pr_parse_arith : node p;
             pr_parse_term : node p; pr_parse_factor : node p;
             pr_parse_atom : node p; pr_parse_moddiv : node p;
             pr_parse_cast : node p;
             pr_parse_args : (node list -> node list p);
             pr_parse_arglist : node list p; pr_parse_fncall : node p;
             pr_parse_indices : (node list -> node list p);
             pr_parse_resolver_tail : (resolver -> resolver p);
             pr_parse_resolver : resolver p;
             pr_parse_ids : (token list -> token list p);
             pr_parse_bounds : (node list -> node list p);
             pr_parse_declare : node p; pr_parse_const : node p;
             pr_parse_enum_vals : (str list -> str list p);
             pr_parse_comp_body : (node list -> node list p);
             pr_parse_type : node p;
             pr_parse_if_tail : ((node option * node list) list -> (node
                                option * node list) list p);
             pr_parse_if : node p;
             pr_parse_case_clauses : (casecomp list -> casecomp list p);
             pr_parse_case : node p; pr_parse_while : node p;
             pr_parse_repeat : node p; pr_parse_for : node p;
             pr_parse_params : (pacc -> pacc p);
             pr_parse_paramlist : ((str * token) * bool) list p;
             pr_parse_procedure : node p; pr_parse_function : node p;
             pr_parse_call : node p;
             pr_parse_output_tail : (node list -> node list p);
             pr_parse_statement : node p;
             pr_parse_block_loop : (btype -> node list -> node list p);
             pr_parse_block : (btype -> node list p) }

(** val parse_eval_body : prs -> node p **)

let parse_eval_body self =
  pbind self.pr_parse_logical (fun l ->
    binloop self.pr_fuel op_eq self.pr_parse_logical (fun x x0 x1 -> NCmp (x,
      x0, x1)) l)

(** val parse_logical_body : prs -> node p **)

let parse_logical_body self =
  pbind self.pr_parse_comparison (fun l ->
    binloop self.pr_fuel op_logic self.pr_parse_comparison (fun x x0 x1 ->
      NLogic (x, x0, x1)) l)

(** val parse_comparison_body : prs -> node p **)

let parse_comparison_body self s =
  if is_t s TNOT
  then let t0 = cur s in
       pbind padv (fun _ ->
         pbind self.pr_parse_comparison (fun e -> pret (NNot (t0, e)))) s
  else pbind self.pr_parse_strexpr (fun l ->
         binloop self.pr_fuel op_cmp self.pr_parse_strexpr (fun x x0 x1 ->
           NCmp (x, x0, x1)) l) s

(** val parse_strexpr_body : prs -> node p **)

let parse_strexpr_body self =
  pbind self.pr_parse_arith (fun l ->
    binloop self.pr_fuel op_cat self.pr_parse_arith (fun x x0 x1 -> NCat (x,
      x0, x1)) l)

(** val parse_arith_body : prs -> node p **)

let parse_arith_body self =
  pbind self.pr_parse_term (fun l ->
    binloop self.pr_fuel op_add self.pr_parse_term (fun x x0 x1 -> NArith (x,
      x0, x1)) l)

(** val parse_term_body : prs -> node p **)

let parse_term_body self =
  pbind self.pr_parse_factor (fun l ->
    binloop self.pr_fuel op_mul self.pr_parse_factor (fun x x0 x1 -> NArith
      (x, x0, x1)) l)

(** val parse_factor_body : prs -> node p **)

let parse_factor_body self s =
  if is_t s TMINUS
  then let t0 = cur s in
       pbind padv (fun _ ->
         pbind self.pr_parse_atom (fun a -> pret (NNeg (t0, a)))) s
  else self.pr_parse_atom s

(** val parse_atom_body : prs -> node p **)

let parse_atom_body self s =
  let t0 = cur s in
  (match literal_node s with
   | Some r -> r
   | None ->
     (match t0.tt with
      | TDATE -> POk ((NDate t0), (adv s))
      | TLPAREN ->
        pbind padv (fun _ ->
          pbind self.pr_parse_eval (fun e ->
            pbind (expect TRPAREN) (fun _ -> pret e))) s
      | TDIV ->
        if next_is s (S O) TLPAREN then self.pr_parse_moddiv s else perr s
      | TMOD ->
        if next_is s (S O) TLPAREN then self.pr_parse_moddiv s else perr s
      | TIDENTIFIER ->
        if next_is s (S O) TLPAREN
        then self.pr_parse_fncall s
        else pbind self.pr_parse_resolver (fun r s1 ->
               if is_t s1 TASSIGNMENT
               then let at_ = cur s1 in
                    let s2 = adv s1 in
                    if is_t s2 TCARET
                    then let rt = cur s2 in
                         let s3 = adv s2 in
                         if is_t s3 TIDENTIFIER
                         then pbind self.pr_parse_resolver (fun v ->
                                pret (NPtrAssign (rt, r, v))) s3
                         else perr s3
                    else pbind self.pr_parse_eval (fun e ->
                           pret (NAssign (at_, e, r))) s2
               else POk ((NAccess (t0, r)), s1)) s
      | TDATA_TYPE -> self.pr_parse_cast s
      | _ -> perr s))

(** val parse_moddiv_body : prs -> node p **)

let parse_moddiv_body self =
  pbind pcur (fun t0 ->
    pbind padv (fun _ ->
      pbind padv (fun _ ->
        pbind self.pr_parse_eval (fun a ->
          pbind (expect TCOMMA) (fun _ ->
            pbind self.pr_parse_eval (fun b ->
              pbind (expect TRPAREN) (fun _ -> pret (NArith (t0, a, b)))))))))

(** val parse_cast_body : bool -> prs -> node p **)

let parse_cast_body pedantic self =
  pbind pcur (fun t0 ->
    if pedantic
    then pped t0
    else (match psc_type_of_word t0.tval with
          | Some k ->
            pbind padv (fun _ ->
              pbind (expect TLPAREN) (fun _ ->
                pbind self.pr_parse_eval (fun e ->
                  pbind (expect TRPAREN) (fun _ -> pret (NCast (t0, e, k))))))
          | None -> perr))

(** val parse_args_body : prs -> node list -> node list p **)

let parse_args_body self acc s =
  if is_t s TCOMMA
  then pbind padv (fun _ ->
         pbind self.pr_parse_eval (fun e -> self.pr_parse_args (e :: acc))) s
  else pbind (expect TRPAREN) (fun _ -> pret (rev acc)) s

(** val parse_arglist_body : prs -> node list p **)

let parse_arglist_body self s =
  if is_t s TRPAREN
  then POk ([], (adv s))
  else pbind self.pr_parse_eval (fun e -> self.pr_parse_args (e :: [])) s

(** val parse_fncall_body : prs -> node p **)

let parse_fncall_body self =
  pbind pcur (fun t0 ->
    pbind padv (fun _ ->
      pbind padv (fun _ ->
        pbind self.pr_parse_arglist (fun args -> pret (NFnCall (t0, args))))))

(** val parse_indices_body : prs -> node list -> node list p **)

let parse_indices_body self acc =
  pbind self.pr_parse_arith (fun e s ->
    if is_t s TCOMMA
    then self.pr_parse_indices (e :: acc) (adv s)
    else pbind (expect TRSQRBRACKET) (fun _ -> pret (rev (e :: acc))) s)

(** val parse_resolver_tail_body : prs -> resolver -> resolver p **)

let parse_resolver_tail_body self r s =
  let t0 = cur s in
  (match t0.tt with
   | TLSQRBRACKET ->
     pbind (self.pr_parse_indices []) (fun idx ->
       self.pr_parse_resolver_tail (RIndex (t0, r, idx))) (adv s)
   | TCARET -> self.pr_parse_resolver_tail (RDeref (t0, r)) (adv s)
   | TPERIOD ->
     let s1 = adv s in
     self.pr_parse_resolver_tail (RField (t0, r, (cur s1))) (adv s1)
   | _ -> POk (r, s))

(** val parse_resolver_body : prs -> resolver p **)

let parse_resolver_body self =
  pbind pcur (fun t0 ->
    pbind padv (fun _ -> self.pr_parse_resolver_tail (RSimple t0)))

(** val parse_ids_body : prs -> token list -> token list p **)

let parse_ids_body self acc s =
  if is_t s TIDENTIFIER
  then let t0 = cur s in
       let s1 = adv s in
       if is_t s1 TCOMMA
       then self.pr_parse_ids (t0 :: acc) (adv s1)
       else POk ((rev (t0 :: acc)), s1)
  else perr s

(** val parse_bounds_body : prs -> node list -> node list p **)

let parse_bounds_body self acc =
  pbind self.pr_parse_arith (fun lo ->
    pbind (expect TCOLON) (fun _ ->
      pbind self.pr_parse_arith (fun hi s ->
        if is_t s TCOMMA
        then self.pr_parse_bounds (hi :: (lo :: acc)) (adv s)
        else POk ((rev (hi :: (lo :: acc))), s))))

(** val parse_declare_body : prs -> node p **)

let parse_declare_body self =
  pbind pcur (fun op ->
    pbind padv (fun _ ->
      pbind (self.pr_parse_ids []) (fun ids ->
        pbind (expect TCOLON) (fun _ s ->
          if is_t s TARRAY
          then pbind padv (fun _ ->
                 pbind (expect TLSQRBRACKET) (fun _ ->
                   pbind (self.pr_parse_bounds []) (fun bs ->
                     pbind (expect TRSQRBRACKET) (fun _ ->
                       pbind (expect TOF) (fun _ s1 ->
                         if is_type_tok s1
                         then POk ((NArrDeclare (op, ids, (cur s1), bs)),
                                (adv s1))
                         else perr s1))))) s
          else if is_type_tok s
               then POk ((NDeclare (op, ids, (cur s))), (adv s))
               else perr s))))

(** val parse_const_body : prs -> node p **)

let parse_const_body _ =
  pbind pcur (fun op ->
    pbind padv (fun _ s ->
      if negb (is_t s TIDENTIFIER)
      then perr s
      else let id = cur s in
           let s1 = adv s in
           if negb ((||) (is_t s1 TEQUALS) (is_t s1 TASSIGNMENT))
           then perr s1
           else let s2 = adv s1 in
                let mt = cur s2 in
                let neg = is_t s2 TMINUS in
                let s3 = if neg then adv s2 else s2 in
                (match literal_node s3 with
                 | Some p0 ->
                   (match p0 with
                    | POk (v, s4) ->
                      POk ((NConst (op, (if neg then NNeg (mt, v) else v),
                        id)), s4)
                    | x -> x)
                 | None -> perr s3)))

(** val parse_enum_vals_body : prs -> str list -> str list p **)

let parse_enum_vals_body self acc s =
  if negb (is_t s TIDENTIFIER)
  then perr s
  else let v = (cur s).tval in
       let s1 = adv s in
       if is_t s1 TCOMMA
       then self.pr_parse_enum_vals (v :: acc) (adv s1)
       else if is_t s1 TRPAREN
            then POk ((rev (v :: acc)), (adv s1))
            else perr s1

(** val parse_comp_body_body : prs -> node list -> node list p **)

let parse_comp_body_body self acc s =
  if is_t s TDECLARE
  then pbind self.pr_parse_declare (fun d ->
         pbind (expect TLINE_END) (fun _ ->
           pbind skip_nl (fun _ -> self.pr_parse_comp_body (d :: acc)))) s
  else pbind (expect TENDTYPE) (fun _ -> pret (rev acc)) s

(** val parse_type_body : prs -> node p **)

let parse_type_body self =
  pbind pcur (fun t0 ->
    pbind padv (fun _ ->
      pbind skip_nl (fun _ s ->
        if negb (is_t s TIDENTIFIER)
        then perr s
        else let id = cur s in
             let s1 = adv s in
             if negb (is_t s1 TEQUALS)
             then if negb (is_t s1 TLINE_END)
                  then perr s1
                  else pbind skip_nl (fun _ ->
                         pbind (self.pr_parse_comp_body []) (fun body ->
                           pret (NCompDef (t0, id, body)))) (adv s1)
             else let s2 = adv s1 in
                  if is_t s2 TCARET
                  then let s3 = adv s2 in
                       if is_type_tok s3
                       then POk ((NPtrDef (t0, id, (cur s3))), (adv s3))
                       else perr s3
                  else if is_t s2 TLPAREN
                       then pbind (self.pr_parse_enum_vals []) (fun vs ->
                              pret (NEnumDef (t0, id, vs))) (adv s2)
                       else perr s2)))

(** val parse_if_tail_body :
    bool -> prs -> (node option * node list) list -> (node option * node
    list) list p **)

let parse_if_tail_body pedantic self acc s =
  if is_t s TELSE
  then let s1 = adv s in
       if is_t s1 TIF
       then if pedantic
            then PFail (LexPedantic, (cur s1), s1)
            else pbind self.pr_parse_eval (fun c ->
                   pbind skip_nl (fun _ ->
                     pbind (expect TTHEN) (fun _ ->
                       pbind (self.pr_parse_block BOther) (fun b ->
                         self.pr_parse_if_tail (((Some c), b) :: acc)))))
                   (adv s1)
       else pbind (self.pr_parse_block BOther) (fun b ->
              pbind (expect TENDIF) (fun _ -> pret (rev ((None, b) :: acc))))
              s1
  else pbind (expect TENDIF) (fun _ -> pret (rev acc)) s

(** val parse_if_body : prs -> node p **)

let parse_if_body self =
  pbind pcur (fun t0 ->
    pbind padv (fun _ ->
      pbind self.pr_parse_eval (fun c ->
        pbind skip_nl (fun _ ->
          pbind (expect TTHEN) (fun _ ->
            pbind (self.pr_parse_block BOther) (fun b ->
              pbind (self.pr_parse_if_tail (((Some c), b) :: []))
                (fun comps -> pret (NIf (t0, comps)))))))))

(** val parse_case_clauses_body : prs -> casecomp list -> casecomp list p **)

let parse_case_clauses_body self acc s =
  if is_t s TENDCASE
  then POk ((rev acc), (adv s))
  else if is_t s TOTHERWISE
       then pbind padv (fun _ ->
              pbind (expect TCOLON) (fun _ ->
                pbind (self.pr_parse_block BCase) (fun b ->
                  pbind (expect TENDCASE) (fun _ ->
                    pret (rev ((COther b) :: acc)))))) s
       else pbind self.pr_parse_eval (fun e s1 ->
              if is_t s1 TTO
              then pbind padv (fun _ ->
                     pbind self.pr_parse_eval (fun hi ->
                       pbind (expect TCOLON) (fun _ ->
                         pbind (self.pr_parse_block BCase) (fun b ->
                           self.pr_parse_case_clauses ((CRange (b, e,
                             hi)) :: acc))))) s1
              else pbind (expect TCOLON) (fun _ ->
                     pbind (self.pr_parse_block BCase) (fun b ->
                       self.pr_parse_case_clauses ((CEq (b, e)) :: acc))) s1)
              s

(** val parse_case_body : prs -> node p **)

let parse_case_body self =
  pbind pcur (fun t0 ->
    pbind padv (fun _ ->
      pbind (expect TOF) (fun _ s ->
        if negb (is_t s TIDENTIFIER)
        then perr s
        else let id = cur s in
             pbind padv (fun _ ->
               pbind skip_nl (fun _ ->
                 pbind (self.pr_parse_case_clauses []) (fun cs ->
                   pret (NCase (t0, (NAccess (id, (RSimple id))), cs))))) s)))

(** val parse_while_body : prs -> node p **)

let parse_while_body self =
  pbind pcur (fun t0 ->
    pbind padv (fun _ ->
      pbind self.pr_parse_eval (fun c ->
        pbind skip_nl (fun _ ->
          pbind (fun s -> POk ((), (if is_t s TDO then adv s else s)))
            (fun _ ->
            pbind (self.pr_parse_block BOther) (fun b ->
              pbind (expect TENDWHILE) (fun _ -> pret (NWhile (t0, c, b)))))))))

(** val parse_repeat_body : prs -> node p **)

let parse_repeat_body self =
  pbind pcur (fun t0 ->
    pbind padv (fun _ ->
      pbind (self.pr_parse_block BOther) (fun b ->
        pbind (expect TUNTIL) (fun _ ->
          pbind self.pr_parse_eval (fun c -> pret (NRepeat (t0, c, b)))))))

(** val parse_for_body : prs -> node p **)

let parse_for_body self =
  pbind pcur (fun t0 ->
    pbind padv (fun _ s ->
      if negb (is_t s TIDENTIFIER)
      then perr s
      else let it = cur s in
           pbind padv (fun _ ->
             pbind (expect TASSIGNMENT) (fun _ ->
               pbind self.pr_parse_arith (fun a ->
                 pbind (expect TTO) (fun _ ->
                   pbind self.pr_parse_arith (fun b ->
                     pbind (fun s1 ->
                       if is_t s1 TSTEP
                       then pbind padv (fun _ ->
                              pbind self.pr_parse_arith (fun e ->
                                pret (Some e))) s1
                       else POk (None, s1)) (fun st0 ->
                       pbind (self.pr_parse_block BOther) (fun body ->
                         pbind (expect TNEXT) (fun _ s2 ->
                           if is_t s2 TIDENTIFIER
                           then if str_eqb (cur s2).tval it.tval
                                then POk ((NFor (t0, it, a, b, st0, body)),
                                       (adv s2))
                                else perr s2
                           else POk ((NFor (t0, it, a, b, st0, body)), s2)))))))))
             s))

(** val parse_params_body : prs -> pacc -> pacc p **)

let parse_params_body self a s =
  if is_t s TRPAREN
  then if negb (Nat.eqb a.pa_tc (S O))
       then perr s
       else POk ({ pa_names = a.pa_names; pa_types = a.pa_types; pa_pass =
              (app a.pa_pass (replicate a.pa_pc a.pa_byref)); pa_byref =
              a.pa_byref; pa_tc = a.pa_tc; pa_pc = a.pa_pc }, (adv s))
  else let comma_ok =
         match a.pa_names with
         | [] -> Some s
         | _ :: _ -> if is_t s TCOMMA then Some (adv s) else None
       in
       (match comma_ok with
        | Some s1 ->
          let (a1, s2) =
            if (||) (is_t s1 TBYREF) (is_t s1 TBYVAL)
            then let cur_is_ref = is_t s1 TBYREF in
                 if negb (eqb cur_is_ref a.pa_byref)
                 then ({ pa_names = a.pa_names; pa_types = a.pa_types;
                        pa_pass =
                        (app a.pa_pass (replicate a.pa_pc a.pa_byref));
                        pa_byref = (negb a.pa_byref); pa_tc = a.pa_tc;
                        pa_pc = (S O) }, (adv s1))
                 else ({ pa_names = a.pa_names; pa_types = a.pa_types;
                        pa_pass = a.pa_pass; pa_byref = a.pa_byref; pa_tc =
                        a.pa_tc; pa_pc = (S a.pa_pc) }, (adv s1))
            else ({ pa_names = a.pa_names; pa_types = a.pa_types; pa_pass =
                   a.pa_pass; pa_byref = a.pa_byref; pa_tc = a.pa_tc; pa_pc =
                   (S a.pa_pc) }, s1)
          in
          if negb (is_t s2 TIDENTIFIER)
          then perr s2
          else let nm = (cur s2).tval in
               let s3 = adv s2 in
               if is_t s3 TCOLON
               then let s4 = adv s3 in
                    if negb (is_type_tok s4)
                    then perr s4
                    else let ty = cur s4 in
                         self.pr_parse_params { pa_names =
                           (app a1.pa_names (nm :: [])); pa_types =
                           (app a1.pa_types (replicate a1.pa_tc ty));
                           pa_pass = a1.pa_pass; pa_byref = a1.pa_byref;
                           pa_tc = (S O); pa_pc = a1.pa_pc } (adv s4)
               else if is_t s3 TCOMMA
                    then self.pr_parse_params { pa_names =
                           (app a1.pa_names (nm :: [])); pa_types =
                           a1.pa_types; pa_pass = a1.pa_pass; pa_byref =
                           a1.pa_byref; pa_tc = (S a1.pa_tc); pa_pc =
                           a1.pa_pc } s3
                    else perr s3
        | None -> perr s)

(** val parse_paramlist_body : prs -> ((str * token) * bool) list p **)

let parse_paramlist_body self s =
  if is_t s TLPAREN
  then pbind
         (self.pr_parse_params { pa_names = []; pa_types = []; pa_pass = [];
           pa_byref = false; pa_tc = (S O); pa_pc = O }) (fun a ->
         pret (combine (combine a.pa_names a.pa_types) a.pa_pass)) (adv s)
  else POk ([], s)

(** val parse_procedure_body : prs -> node p **)

let parse_procedure_body self =
  pbind pcur (fun t0 ->
    pbind padv (fun _ s ->
      if negb (is_t s TIDENTIFIER)
      then perr s
      else let nm = (cur s).tval in
           pbind padv (fun _ ->
             pbind self.pr_parse_paramlist (fun ps ->
               pbind (self.pr_parse_block BOther) (fun b ->
                 pbind (expect TENDPROCEDURE) (fun _ ->
                   pret (NProc (t0, nm, ps, b)))))) s))

(** val parse_function_body : prs -> node p **)

let parse_function_body self =
  pbind pcur (fun t0 ->
    pbind padv (fun _ s ->
      if negb (is_t s TIDENTIFIER)
      then perr s
      else let nm = (cur s).tval in
           pbind padv (fun _ ->
             pbind self.pr_parse_paramlist (fun ps ->
               pbind skip_nl (fun _ ->
                 pbind (expect TRETURNS) (fun _ s1 ->
                   if negb (is_type_tok s1)
                   then perr s1
                   else let rt = cur s1 in
                        pbind padv (fun _ ->
                          pbind (self.pr_parse_block BOther) (fun b ->
                            pbind (expect TENDFUNCTION) (fun _ ->
                              pret (NFunc (t0, nm, ps, b, rt))))) s1)))) s))

(** val parse_call_body : prs -> node p **)

let parse_call_body self =
  pbind pcur (fun t0 ->
    pbind padv (fun _ s ->
      if negb (is_t s TIDENTIFIER)
      then perr s
      else let nm = (cur s).tval in
           let s1 = adv s in
           if is_t s1 TLPAREN
           then pbind self.pr_parse_arglist (fun args ->
                  pret (NCall (t0, nm, args))) (adv s1)
           else POk ((NCall (t0, nm, [])), s1)))

(** val parse_output_tail_body : prs -> node list -> node list p **)

let parse_output_tail_body self acc s =
  if is_t s TCOMMA
  then pbind padv (fun _ ->
         pbind self.pr_parse_eval (fun e ->
           self.pr_parse_output_tail (e :: acc))) s
  else POk ((rev acc), s)

(** val parse_statement_body : prs -> node p **)

let parse_statement_body self s =
  let t0 = cur s in
  (match t0.tt with
   | TDECLARE -> self.pr_parse_declare s
   | TCONSTANT -> self.pr_parse_const s
   | TTYPE -> self.pr_parse_type s
   | TIF -> self.pr_parse_if s
   | TCASE -> self.pr_parse_case s
   | TWHILE -> self.pr_parse_while s
   | TREPEAT -> self.pr_parse_repeat s
   | TFOR -> self.pr_parse_for s
   | TBREAK -> POk ((NBreak t0), (adv s))
   | TCONTINUE -> POk ((NContinue t0), (adv s))
   | TCALL -> self.pr_parse_call s
   | TRETURN ->
     pbind padv (fun _ ->
       pbind self.pr_parse_eval (fun e -> pret (NReturn (t0, e)))) s
   | TOUTPUT ->
     pbind padv (fun _ ->
       pbind self.pr_parse_eval (fun e ->
         pbind (self.pr_parse_output_tail (e :: [])) (fun es ->
           pret (NOutput (t0, es))))) s
   | TINPUT ->
     pbind padv (fun _ s1 ->
       if is_t s1 TIDENTIFIER
       then pbind self.pr_parse_resolver (fun r -> pret (NInput (t0, r))) s1
       else perr s1) s
   | TOPENFILE ->
     pbind padv (fun _ ->
       pbind self.pr_parse_strexpr (fun fn ->
         pbind (expect TFOR) (fun _ s1 ->
           match (cur s1).tt with
           | TREAD -> POk ((NOpenFile (t0, fn, FRead)), (adv s1))
           | TWRITE -> POk ((NOpenFile (t0, fn, FWrite)), (adv s1))
           | TAPPEND -> POk ((NOpenFile (t0, fn, FAppend)), (adv s1))
           | TRANDOM -> POk ((NOpenFile (t0, fn, FRandom)), (adv s1))
           | _ -> perr s1))) s
   | TREADFILE ->
     pbind padv (fun _ ->
       pbind self.pr_parse_strexpr (fun fn ->
         pbind (expect TCOMMA) (fun _ s1 ->
           if is_t s1 TIDENTIFIER
           then POk ((NReadFile (t0, fn, (cur s1))), (adv s1))
           else perr s1))) s
   | TWRITEFILE ->
     pbind padv (fun _ ->
       pbind self.pr_parse_strexpr (fun fn ->
         pbind (expect TCOMMA) (fun _ ->
           pbind self.pr_parse_eval (fun d -> pret (NWriteFile (t0, fn, d))))))
       s
   | TCLOSEFILE ->
     pbind padv (fun _ ->
       pbind self.pr_parse_strexpr (fun fn -> pret (NCloseFile (t0, fn)))) s
   | TREAD ->
     pbind padv (fun _ s1 ->
       if is_t s1 TIDENTIFIER
       then pbind self.pr_parse_resolver (fun r -> pret (NInput (t0, r))) s1
       else perr s1) s
   | TSEEK ->
     pbind padv (fun _ ->
       pbind self.pr_parse_strexpr (fun fn ->
         pbind (expect TCOMMA) (fun _ ->
           pbind self.pr_parse_eval (fun a -> pret (NSeek (t0, fn, a)))))) s
   | TGETRECORD ->
     pbind padv (fun _ ->
       pbind self.pr_parse_strexpr (fun fn ->
         pbind (expect TCOMMA) (fun _ s1 ->
           if is_t s1 TIDENTIFIER
           then POk ((NGetRecord (t0, fn, (cur s1))), (adv s1))
           else perr s1))) s
   | TPUTRECORD ->
     pbind padv (fun _ ->
       pbind self.pr_parse_strexpr (fun fn ->
         pbind (expect TCOMMA) (fun _ s1 ->
           if is_t s1 TIDENTIFIER
           then POk ((NPutRecord (t0, fn, (cur s1))), (adv s1))
           else perr s1))) s
   | _ -> self.pr_parse_eval s)

(** val parse_block_loop_body : prs -> btype -> node list -> node list p **)

let parse_block_loop_body self bt acc =
  pbind skip_nl (fun _ s ->
    let t0 = cur s in
    if block_terminator t0.tt
    then POk ((rev acc), s)
    else if match bt with
            | BCase ->
              (&&) (negb (is_t s TDECLARE)) (colon_on_line (tl s.p_toks))
            | _ -> false
         then POk ((rev acc), s)
         else let pn =
                match t0.tt with
                | TPROCEDURE ->
                  (match bt with
                   | BMain -> self.pr_parse_procedure
                   | _ -> perr)
                | TFUNCTION ->
                  (match bt with
                   | BMain -> self.pr_parse_function
                   | _ -> perr)
                | _ ->
                  pbind self.pr_parse_statement (fun n0 s1 ->
                    match n0 with
                    | NCmp (ct, l, _) ->
                      (match l with
                       | NAccess (_, _) ->
                         POk (n0, { p_toks = s1.p_toks; p_warns = ((ct.tline,
                           ct.tcol) :: s1.p_warns) })
                       | _ -> POk (n0, s1))
                    | _ -> POk (n0, s1))
              in
              pbind pn (fun n0 s1 ->
                if (||) (is_t s1 TLINE_END) (is_t s1 TEXPRESSION_END)
                then self.pr_parse_block_loop bt (n0 :: acc) s1
                else perr s1) s)

(** val parse_block_body : prs -> btype -> node list p **)

let parse_block_body self bt =
  self.pr_parse_block_loop bt []

(** val prs_zero : prs **)

let prs_zero =
  { pr_fuel = O; pr_parse_eval = pfuel; pr_parse_logical = pfuel;
    pr_parse_comparison = pfuel; pr_parse_strexpr = pfuel; pr_parse_arith =
    pfuel; pr_parse_term = pfuel; pr_parse_factor = pfuel; pr_parse_atom =
    pfuel; pr_parse_moddiv = pfuel; pr_parse_cast = pfuel; pr_parse_args =
    (fun _ -> pfuel); pr_parse_arglist = pfuel; pr_parse_fncall = pfuel;
    pr_parse_indices = (fun _ -> pfuel); pr_parse_resolver_tail = (fun _ ->
    pfuel); pr_parse_resolver = pfuel; pr_parse_ids = (fun _ -> pfuel);
    pr_parse_bounds = (fun _ -> pfuel); pr_parse_declare = pfuel;
    pr_parse_const = pfuel; pr_parse_enum_vals = (fun _ -> pfuel);
    pr_parse_comp_body = (fun _ -> pfuel); pr_parse_type = pfuel;
    pr_parse_if_tail = (fun _ -> pfuel); pr_parse_if = pfuel;
    pr_parse_case_clauses = (fun _ -> pfuel); pr_parse_case = pfuel;
    pr_parse_while = pfuel; pr_parse_repeat = pfuel; pr_parse_for = pfuel;
    pr_parse_params = (fun _ -> pfuel); pr_parse_paramlist = pfuel;
    pr_parse_procedure = pfuel; pr_parse_function = pfuel; pr_parse_call =
    pfuel; pr_parse_output_tail = (fun _ -> pfuel); pr_parse_statement =
    pfuel; pr_parse_block_loop = (fun _ _ -> pfuel); pr_parse_block =
    (fun _ -> pfuel) }

(** val prs_step : bool -> prs -> prs **)

let prs_step pedantic self =
  { pr_fuel = (S self.pr_fuel); pr_parse_eval = (parse_eval_body self);
    pr_parse_logical = (parse_logical_body self); pr_parse_comparison =
    (parse_comparison_body self); pr_parse_strexpr =
    (parse_strexpr_body self); pr_parse_arith = (parse_arith_body self);
    pr_parse_term = (parse_term_body self); pr_parse_factor =
    (parse_factor_body self); pr_parse_atom = (parse_atom_body self);
    pr_parse_moddiv = (parse_moddiv_body self); pr_parse_cast =
    (parse_cast_body pedantic self); pr_parse_args = (parse_args_body self);
    pr_parse_arglist = (parse_arglist_body self); pr_parse_fncall =
    (parse_fncall_body self); pr_parse_indices = (parse_indices_body self);
    pr_parse_resolver_tail = (parse_resolver_tail_body self);
    pr_parse_resolver = (parse_resolver_body self); pr_parse_ids =
    (parse_ids_body self); pr_parse_bounds = (parse_bounds_body self);
    pr_parse_declare = (parse_declare_body self); pr_parse_const =
    (parse_const_body self); pr_parse_enum_vals =
    (parse_enum_vals_body self); pr_parse_comp_body =
    (parse_comp_body_body self); pr_parse_type = (parse_type_body self);
    pr_parse_if_tail = (parse_if_tail_body pedantic self); pr_parse_if =
    (parse_if_body self); pr_parse_case_clauses =
    (parse_case_clauses_body self); pr_parse_case = (parse_case_body self);
    pr_parse_while = (parse_while_body self); pr_parse_repeat =
    (parse_repeat_body self); pr_parse_for = (parse_for_body self);
    pr_parse_params = (parse_params_body self); pr_parse_paramlist =
    (parse_paramlist_body self); pr_parse_procedure =
    (parse_procedure_body self); pr_parse_function =
    (parse_function_body self); pr_parse_call = (parse_call_body self);
    pr_parse_output_tail = (parse_output_tail_body self);
    pr_parse_statement = (parse_statement_body self); pr_parse_block_loop =
    (parse_block_loop_body self); pr_parse_block = (parse_block_body self) }

(** val prs_at : bool -> nat -> prs **)

let rec prs_at pedantic = function
| O -> prs_zero
| S f -> prs_step pedantic (prs_at pedantic f)

(** val parse_block : bool -> nat -> btype -> node list p **)

let parse_block pedantic fuel =
  (prs_at pedantic fuel).pr_parse_block

(** val parse_fuel : token list -> nat **)

let parse_fuel ts =
  add
    (mul (S (S (S (S (S (S (S (S (S (S (S (S (S (S (S (S (S (S (S (S (S (S (S
      (S (S (S (S (S (S (S (S (S (S (S (S (S (S (S (S (S
      O)))))))))))))))))))))))))))))))))))))))) (length ts)) (S (S (S (S (S
    (S (S (S (S (S (S (S (S (S (S (S (S (S (S (S (S (S (S (S (S (S (S (S (S
    (S (S (S (S (S (S (S (S (S (S (S (S (S (S (S (S (S (S (S (S (S (S (S (S
    (S (S (S (S (S (S (S (S (S (S (S (S (S (S (S (S (S (S (S (S (S (S (S (S
    (S (S (S (S (S (S (S (S (S (S (S (S (S (S (S (S (S (S (S (S (S (S (S
    O))))))))))))))))))))))))))))))))))))))))))))))))))))))))))))))))))))))))))))))))))))))))))))))))))))

(** val parse_program : bool -> token list -> block pres **)

let parse_program pedantic ts =
  pbind (parse_block pedantic (parse_fuel ts) BMain) (fun b s ->
    if is_t s TEXPRESSION_END then POk (b, s) else perr s) { p_toks = ts;
    p_warns = [] }

module PositiveMap =
 struct
  type key = positive

  type 'a tree =
  | Leaf
  | Node of 'a tree * 'a option * 'a tree

  type 'a t = 'a tree

  (** val empty : 'a1 t **)

  let empty =
    Leaf

  (** val find : key -> 'a1 t -> 'a1 option **)

  let rec find i = function
  | Leaf -> None
  | Node (l, o, r) ->
    (match i with
     | XI ii -> find ii r
     | XO ii -> find ii l
     | XH -> o)

  (** val add : key -> 'a1 -> 'a1 t -> 'a1 t **)

  let rec add i v = function
  | Leaf ->
    (match i with
     | XI ii -> Node (Leaf, None, (add ii v Leaf))
     | XO ii -> Node ((add ii v Leaf), None, Leaf)
     | XH -> Node (Leaf, (Some v), Leaf))
  | Node (l, o, r) ->
    (match i with
     | XI ii -> Node (l, o, (add ii v r))
     | XO ii -> Node ((add ii v l), o, r)
     | XH -> Node (l, (Some v), r))
 end

type 'a nmap = 'a PositiveMap.t

(** val nm_empty : 'a1 nmap **)

let nm_empty =
  PositiveMap.empty

(** val nm_get : n -> 'a1 nmap -> 'a1 option **)

let nm_get k m0 =
  PositiveMap.find (N.succ_pos k) m0

(** val nm_put : n -> 'a1 -> 'a1 nmap -> 'a1 nmap **)

let nm_put k v m0 =
  PositiveMap.add (N.succ_pos k) v m0

type dtype = { dk : dkind; dname : str option }

(** val dt_none : dtype **)

let dt_none =
  { dk = KNone; dname = None }

(** val dt_prim : dkind -> dtype **)

let dt_prim k =
  { dk = k; dname = None }

(** val dt_eq : dtype -> dtype -> bool **)

let dt_eq a b =
  match a.dname with
  | Some x ->
    (match b.dname with
     | Some y -> (&&) (dk_eqb a.dk b.dk) (str_eqb x y)
     | None -> dk_eqb a.dk b.dk)
  | None -> dk_eqb a.dk b.dk

(** val dt_is : dtype -> dkind -> bool **)

let dt_is a k =
  dk_eqb a.dk k

type payload =
| PInt of z
| PReal of real
| PBool of bool
| PChar of char
| PStr of str
| PDate of z * z * z
| PEnum of str * z
| PPtr of str * n option * n
| PRec of str * n

(** val payload_kind : payload -> dkind **)

let payload_kind = function
| PInt _ -> KInt
| PReal _ -> KReal
| PBool _ -> KBool
| PChar _ -> KChar
| PStr _ -> KStr
| PDate (_, _, _) -> KDate
| PEnum (_, _) -> KEnum
| PPtr (_, _, _) -> KPtr
| PRec (_, _) -> KRec

(** val is_primitive : payload -> bool **)

let is_primitive = function
| PEnum (_, _) -> false
| PPtr (_, _, _) -> false
| PRec (_, _) -> false
| _ -> true

type result = { r_type : dtype; r_val : payload option }

(** val res_none : result **)

let res_none =
  { r_type = dt_none; r_val = None }

(** val res_of : dkind -> payload -> result **)

let res_of k p0 =
  { r_type = (dt_prim k); r_val = (Some p0) }

type cell = { c_name : str; c_type : dtype; c_const : bool; c_owner : 
              n; c_val : payload }

type arr = { a_name : str; a_type : dtype; a_dims : (z * z) list;
             a_elems : n list }

type ctx = { x_parent : n option; x_name : str; x_vars : (str * n) list;
             x_arrs : (str * n) list; x_enums : (str * str list) list;
             x_ptrs : (str * dtype) list; x_comps : (str * block) list;
             x_isfun : bool; x_isrec : bool; x_rettype : dtype;
             x_retval : result option; x_switch : (z * z) option;
             x_depth : nat }

type pdef = { pd_params : ((str * dtype) * bool) list; pd_body : block }

type fdef = { fd_params : ((str * dtype) * bool) list; fd_body : block;
              fd_ret : dtype; fd_tok : token }

type ofile = { of_name : str; of_mode : fmode; of_rest : str;
               of_recs : str list; of_ptr : z; of_modified : bool }

type dkindg =
| DSyntax
| DRuntime
| DPedantic

type ecls =
| ENotDefined
| EArrayDirect of n
| EOther
| EBudget

type diag = { d_kind : dkindg; d_line : z; d_col : z; d_cls : ecls;
              d_trace : ((str * z) * z) list }

type st = { s_next : n; s_cells : cell nmap; s_arrs : arr nmap;
            s_ctxs : ctx nmap; s_procs : (str * pdef) list;
            s_funcs : (str * fdef) list; s_out : str list; s_in : str;
            s_fs : (str * str) list; s_files : ofile list; s_steps : 
            z; s_cellcount : z; s_depth : z; s_rand : z list }

type limits = { max_steps : z; max_depth : z; max_cells : z; max_strlen : z }

type fail =
| FErr of diag
| FCrash of char list
| FFuel
| FBreak of token
| FContinue of token
| FReturn
| FUnsupported of char list

type 'a outcome =
| Ok of 'a
| Fail of fail

type 'a m = st -> 'a outcome * st

(** val ret : 'a1 -> 'a1 m **)

let ret a s =
  ((Ok a), s)

(** val bind : 'a1 m -> ('a1 -> 'a2 m) -> 'a2 m **)

let bind m0 k s =
  let (o, s') = m0 s in
  (match o with
   | Ok a -> k a s'
   | Fail f -> ((Fail f), s'))

(** val failm : fail -> 'a1 m **)

let failm f s =
  ((Fail f), s)

(** val crash : char list -> 'a1 m **)

let crash site =
  failm (FCrash site)

(** val unsupported : char list -> 'a1 m **)

let unsupported w =
  failm (FUnsupported w)

(** val gets : (st -> 'a1) -> 'a1 m **)

let gets f s =
  ((Ok (f s)), s)

(** val modify : (st -> st) -> unit m **)

let modify f s =
  ((Ok ()), (f s))

(** val catch : 'a1 m -> (fail -> 'a1 m option) -> 'a1 m **)

let catch m0 h s =
  let (o, s') = m0 s in
  (match o with
   | Ok a -> ((Ok a), s')
   | Fail f -> (match h f with
                | Some m' -> m' s'
                | None -> ((Fail f), s')))

(** val mapM : ('a1 -> 'a2 m) -> 'a1 list -> 'a2 list m **)

let rec mapM f = function
| [] -> ret []
| x :: r -> bind (f x) (fun y -> bind (mapM f r) (fun ys -> ret (y :: ys)))

(** val iterM : ('a1 -> unit m) -> 'a1 list -> unit m **)

let rec iterM f = function
| [] -> ret ()
| x :: r -> bind (f x) (fun _ -> iterM f r)

(** val set_next : n -> st -> st **)

let set_next n0 s =
  { s_next = n0; s_cells = s.s_cells; s_arrs = s.s_arrs; s_ctxs = s.s_ctxs;
    s_procs = s.s_procs; s_funcs = s.s_funcs; s_out = s.s_out; s_in = s.s_in;
    s_fs = s.s_fs; s_files = s.s_files; s_steps = s.s_steps; s_cellcount =
    s.s_cellcount; s_depth = s.s_depth; s_rand = s.s_rand }

(** val set_cells : cell nmap -> st -> st **)

let set_cells v s =
  { s_next = s.s_next; s_cells = v; s_arrs = s.s_arrs; s_ctxs = s.s_ctxs;
    s_procs = s.s_procs; s_funcs = s.s_funcs; s_out = s.s_out; s_in = s.s_in;
    s_fs = s.s_fs; s_files = s.s_files; s_steps = s.s_steps; s_cellcount =
    s.s_cellcount; s_depth = s.s_depth; s_rand = s.s_rand }

(** val set_arrs : arr nmap -> st -> st **)

let set_arrs v s =
  { s_next = s.s_next; s_cells = s.s_cells; s_arrs = v; s_ctxs = s.s_ctxs;
    s_procs = s.s_procs; s_funcs = s.s_funcs; s_out = s.s_out; s_in = s.s_in;
    s_fs = s.s_fs; s_files = s.s_files; s_steps = s.s_steps; s_cellcount =
    s.s_cellcount; s_depth = s.s_depth; s_rand = s.s_rand }

(** val set_ctxs : ctx nmap -> st -> st **)

let set_ctxs v s =
  { s_next = s.s_next; s_cells = s.s_cells; s_arrs = s.s_arrs; s_ctxs = v;
    s_procs = s.s_procs; s_funcs = s.s_funcs; s_out = s.s_out; s_in = s.s_in;
    s_fs = s.s_fs; s_files = s.s_files; s_steps = s.s_steps; s_cellcount =
    s.s_cellcount; s_depth = s.s_depth; s_rand = s.s_rand }

(** val set_procs : (str * pdef) list -> st -> st **)

let set_procs v s =
  { s_next = s.s_next; s_cells = s.s_cells; s_arrs = s.s_arrs; s_ctxs =
    s.s_ctxs; s_procs = v; s_funcs = s.s_funcs; s_out = s.s_out; s_in =
    s.s_in; s_fs = s.s_fs; s_files = s.s_files; s_steps = s.s_steps;
    s_cellcount = s.s_cellcount; s_depth = s.s_depth; s_rand = s.s_rand }

(** val set_funcs : (str * fdef) list -> st -> st **)

let set_funcs v s =
  { s_next = s.s_next; s_cells = s.s_cells; s_arrs = s.s_arrs; s_ctxs =
    s.s_ctxs; s_procs = s.s_procs; s_funcs = v; s_out = s.s_out; s_in =
    s.s_in; s_fs = s.s_fs; s_files = s.s_files; s_steps = s.s_steps;
    s_cellcount = s.s_cellcount; s_depth = s.s_depth; s_rand = s.s_rand }

(** val set_out : str list -> st -> st **)

let set_out v s =
  { s_next = s.s_next; s_cells = s.s_cells; s_arrs = s.s_arrs; s_ctxs =
    s.s_ctxs; s_procs = s.s_procs; s_funcs = s.s_funcs; s_out = v; s_in =
    s.s_in; s_fs = s.s_fs; s_files = s.s_files; s_steps = s.s_steps;
    s_cellcount = s.s_cellcount; s_depth = s.s_depth; s_rand = s.s_rand }

(** val set_in : str -> st -> st **)

let set_in v s =
  { s_next = s.s_next; s_cells = s.s_cells; s_arrs = s.s_arrs; s_ctxs =
    s.s_ctxs; s_procs = s.s_procs; s_funcs = s.s_funcs; s_out = s.s_out;
    s_in = v; s_fs = s.s_fs; s_files = s.s_files; s_steps = s.s_steps;
    s_cellcount = s.s_cellcount; s_depth = s.s_depth; s_rand = s.s_rand }

(** val set_fs : (str * str) list -> st -> st **)

let set_fs v s =
  { s_next = s.s_next; s_cells = s.s_cells; s_arrs = s.s_arrs; s_ctxs =
    s.s_ctxs; s_procs = s.s_procs; s_funcs = s.s_funcs; s_out = s.s_out;
    s_in = s.s_in; s_fs = v; s_files = s.s_files; s_steps = s.s_steps;
    s_cellcount = s.s_cellcount; s_depth = s.s_depth; s_rand = s.s_rand }

(** val set_files : ofile list -> st -> st **)

let set_files v s =
  { s_next = s.s_next; s_cells = s.s_cells; s_arrs = s.s_arrs; s_ctxs =
    s.s_ctxs; s_procs = s.s_procs; s_funcs = s.s_funcs; s_out = s.s_out;
    s_in = s.s_in; s_fs = s.s_fs; s_files = v; s_steps = s.s_steps;
    s_cellcount = s.s_cellcount; s_depth = s.s_depth; s_rand = s.s_rand }

(** val set_steps : z -> st -> st **)

let set_steps v s =
  { s_next = s.s_next; s_cells = s.s_cells; s_arrs = s.s_arrs; s_ctxs =
    s.s_ctxs; s_procs = s.s_procs; s_funcs = s.s_funcs; s_out = s.s_out;
    s_in = s.s_in; s_fs = s.s_fs; s_files = s.s_files; s_steps = v;
    s_cellcount = s.s_cellcount; s_depth = s.s_depth; s_rand = s.s_rand }

(** val set_cellcount : z -> st -> st **)

let set_cellcount v s =
  { s_next = s.s_next; s_cells = s.s_cells; s_arrs = s.s_arrs; s_ctxs =
    s.s_ctxs; s_procs = s.s_procs; s_funcs = s.s_funcs; s_out = s.s_out;
    s_in = s.s_in; s_fs = s.s_fs; s_files = s.s_files; s_steps = s.s_steps;
    s_cellcount = v; s_depth = s.s_depth; s_rand = s.s_rand }

(** val set_depth : z -> st -> st **)

let set_depth v s =
  { s_next = s.s_next; s_cells = s.s_cells; s_arrs = s.s_arrs; s_ctxs =
    s.s_ctxs; s_procs = s.s_procs; s_funcs = s.s_funcs; s_out = s.s_out;
    s_in = s.s_in; s_fs = s.s_fs; s_files = s.s_files; s_steps = s.s_steps;
    s_cellcount = s.s_cellcount; s_depth = v; s_rand = s.s_rand }

(** val set_rand : z list -> st -> st **)

let set_rand v s =
  { s_next = s.s_next; s_cells = s.s_cells; s_arrs = s.s_arrs; s_ctxs =
    s.s_ctxs; s_procs = s.s_procs; s_funcs = s.s_funcs; s_out = s.s_out;
    s_in = s.s_in; s_fs = s.s_fs; s_files = s.s_files; s_steps = s.s_steps;
    s_cellcount = s.s_cellcount; s_depth = s.s_depth; s_rand = v }

(** val fresh : n m **)

let fresh s =
  ((Ok s.s_next), (set_next (N.succ s.s_next) s))

(** val get_cell : n -> cell m **)

let get_cell id s =
  match nm_get id s.s_cells with
  | Some c -> ((Ok c), s)
  | None ->
    ((Fail (FCrash
      ('d'::('a'::('n'::('g'::('l'::('i'::('n'::('g'::(' '::('c'::('e'::('l'::('l'::[]))))))))))))))),
      s)

(** val put_cell : n -> cell -> unit m **)

let put_cell id c =
  modify (fun s -> set_cells (nm_put id c s.s_cells) s)

(** val get_arr : n -> arr m **)

let get_arr id s =
  match nm_get id s.s_arrs with
  | Some a -> ((Ok a), s)
  | None ->
    ((Fail (FCrash
      ('d'::('a'::('n'::('g'::('l'::('i'::('n'::('g'::(' '::('a'::('r'::('r'::('a'::('y'::[])))))))))))))))),
      s)

(** val put_arr : n -> arr -> unit m **)

let put_arr id a =
  modify (fun s -> set_arrs (nm_put id a s.s_arrs) s)

(** val get_ctx : n -> ctx m **)

let get_ctx id s =
  match nm_get id s.s_ctxs with
  | Some c -> ((Ok c), s)
  | None ->
    ((Fail (FCrash
      ('d'::('a'::('n'::('g'::('l'::('i'::('n'::('g'::(' '::('c'::('o'::('n'::('t'::('e'::('x'::('t'::[])))))))))))))))))),
      s)

(** val put_ctx : n -> ctx -> unit m **)

let put_ctx id c =
  modify (fun s -> set_ctxs (nm_put id c s.s_ctxs) s)

(** val upd_ctx : n -> (ctx -> ctx) -> unit m **)

let upd_ctx id f =
  bind (get_ctx id) (fun c -> put_ctx id (f c))

(** val set_cell_val : n -> payload -> unit m **)

let set_cell_val id v =
  bind (get_cell id) (fun c ->
    put_cell id { c_name = c.c_name; c_type = c.c_type; c_const = c.c_const;
      c_owner = c.c_owner; c_val = v })

(** val ctx_with_vars : (str * n) list -> ctx -> ctx **)

let ctx_with_vars v c =
  { x_parent = c.x_parent; x_name = c.x_name; x_vars = v; x_arrs = c.x_arrs;
    x_enums = c.x_enums; x_ptrs = c.x_ptrs; x_comps = c.x_comps; x_isfun =
    c.x_isfun; x_isrec = c.x_isrec; x_rettype = c.x_rettype; x_retval =
    c.x_retval; x_switch = c.x_switch; x_depth = c.x_depth }

(** val ctx_with_arrs : (str * n) list -> ctx -> ctx **)

let ctx_with_arrs v c =
  { x_parent = c.x_parent; x_name = c.x_name; x_vars = c.x_vars; x_arrs = v;
    x_enums = c.x_enums; x_ptrs = c.x_ptrs; x_comps = c.x_comps; x_isfun =
    c.x_isfun; x_isrec = c.x_isrec; x_rettype = c.x_rettype; x_retval =
    c.x_retval; x_switch = c.x_switch; x_depth = c.x_depth }

(** val ctx_with_enums : (str * str list) list -> ctx -> ctx **)

let ctx_with_enums v c =
  { x_parent = c.x_parent; x_name = c.x_name; x_vars = c.x_vars; x_arrs =
    c.x_arrs; x_enums = v; x_ptrs = c.x_ptrs; x_comps = c.x_comps; x_isfun =
    c.x_isfun; x_isrec = c.x_isrec; x_rettype = c.x_rettype; x_retval =
    c.x_retval; x_switch = c.x_switch; x_depth = c.x_depth }

(** val ctx_with_ptrs : (str * dtype) list -> ctx -> ctx **)

let ctx_with_ptrs v c =
  { x_parent = c.x_parent; x_name = c.x_name; x_vars = c.x_vars; x_arrs =
    c.x_arrs; x_enums = c.x_enums; x_ptrs = v; x_comps = c.x_comps; x_isfun =
    c.x_isfun; x_isrec = c.x_isrec; x_rettype = c.x_rettype; x_retval =
    c.x_retval; x_switch = c.x_switch; x_depth = c.x_depth }

(** val ctx_with_comps : (str * block) list -> ctx -> ctx **)

let ctx_with_comps v c =
  { x_parent = c.x_parent; x_name = c.x_name; x_vars = c.x_vars; x_arrs =
    c.x_arrs; x_enums = c.x_enums; x_ptrs = c.x_ptrs; x_comps = v; x_isfun =
    c.x_isfun; x_isrec = c.x_isrec; x_rettype = c.x_rettype; x_retval =
    c.x_retval; x_switch = c.x_switch; x_depth = c.x_depth }

(** val ctx_with_retval : result option -> ctx -> ctx **)

let ctx_with_retval v c =
  { x_parent = c.x_parent; x_name = c.x_name; x_vars = c.x_vars; x_arrs =
    c.x_arrs; x_enums = c.x_enums; x_ptrs = c.x_ptrs; x_comps = c.x_comps;
    x_isfun = c.x_isfun; x_isrec = c.x_isrec; x_rettype = c.x_rettype;
    x_retval = v; x_switch = c.x_switch; x_depth = c.x_depth }

(** val ctx_with_switch : (z * z) option -> ctx -> ctx **)

let ctx_with_switch v c =
  { x_parent = c.x_parent; x_name = c.x_name; x_vars = c.x_vars; x_arrs =
    c.x_arrs; x_enums = c.x_enums; x_ptrs = c.x_ptrs; x_comps = c.x_comps;
    x_isfun = c.x_isfun; x_isrec = c.x_isrec; x_rettype = c.x_rettype;
    x_retval = c.x_retval; x_switch = v; x_depth = c.x_depth }

(** val new_ctx : n option -> str -> bool -> bool -> dtype -> n m **)

let new_ctx parent name isfun isrec rett =
  bind
    (match parent with
     | Some p0 -> bind (get_ctx p0) (fun pc -> ret (S pc.x_depth))
     | None -> ret O) (fun d ->
    bind fresh (fun id ->
      bind
        (put_ctx id { x_parent = parent; x_name = name; x_vars = []; x_arrs =
          []; x_enums = []; x_ptrs = []; x_comps = []; x_isfun = isfun;
          x_isrec = isrec; x_rettype = rett; x_retval = None; x_switch =
          None; x_depth = d }) (fun _ -> ret id)))

(** val emit : str -> unit m **)

let emit s =
  modify (fun st0 -> set_out (s :: st0.s_out) st0)

(** val out_string : st -> str **)

let out_string s =
  concat (rev s.s_out)

(** val root_of_aux : nat -> n -> n m **)

let rec root_of_aux fuel id =
  match fuel with
  | O ->
    crash
      ('c'::('o'::('n'::('t'::('e'::('x'::('t'::(' '::('c'::('h'::('a'::('i'::('n'::(' '::('t'::('o'::('o'::(' '::('l'::('o'::('n'::('g'::[]))))))))))))))))))))))
  | S f ->
    bind (get_ctx id) (fun c ->
      match c.x_parent with
      | Some p0 -> root_of_aux f p0
      | None -> ret id)

(** val root_of : n -> n m **)

let root_of id =
  bind (get_ctx id) (fun c -> root_of_aux (S c.x_depth) id)

(** val nonrec_ancestor_aux : nat -> n -> n m **)

let rec nonrec_ancestor_aux fuel id =
  match fuel with
  | O ->
    crash
      ('c'::('o'::('n'::('t'::('e'::('x'::('t'::(' '::('c'::('h'::('a'::('i'::('n'::(' '::('t'::('o'::('o'::(' '::('l'::('o'::('n'::('g'::[]))))))))))))))))))))))
  | S f ->
    bind (get_ctx id) (fun c ->
      if c.x_isrec
      then (match c.x_parent with
            | Some p0 -> nonrec_ancestor_aux f p0
            | None ->
              crash
                ('r'::('e'::('c'::('o'::('r'::('d'::(' '::('c'::('o'::('n'::('t'::('e'::('x'::('t'::(' '::('w'::('i'::('t'::('h'::('o'::('u'::('t'::(' '::('p'::('a'::('r'::('e'::('n'::('t'::[]))))))))))))))))))))))))))))))
      else ret id)

(** val nonrec_ancestor : n -> n m **)

let nonrec_ancestor id =
  bind (get_ctx id) (fun c -> nonrec_ancestor_aux (S c.x_depth) id)

(** val on_chain_aux : nat -> n -> n -> bool m **)

let rec on_chain_aux fuel id target =
  match fuel with
  | O ->
    crash
      ('c'::('o'::('n'::('t'::('e'::('x'::('t'::(' '::('c'::('h'::('a'::('i'::('n'::(' '::('t'::('o'::('o'::(' '::('l'::('o'::('n'::('g'::[]))))))))))))))))))))))
  | S f ->
    if N.eqb id target
    then ret true
    else bind (get_ctx id) (fun c ->
           match c.x_parent with
           | Some p0 -> on_chain_aux f p0 target
           | None -> ret false)

(** val on_chain : n -> n -> bool m **)

let on_chain id target =
  bind (get_ctx id) (fun c -> on_chain_aux (S c.x_depth) id target)

(** val trace_aux : nat -> n option -> ((str * z) * z) list m **)

let rec trace_aux fuel id =
  match fuel with
  | O -> ret []
  | S f ->
    (match id with
     | Some i ->
       bind (get_ctx i) (fun c ->
         bind (trace_aux f c.x_parent) (fun rest0 ->
           ret
             (match c.x_switch with
              | Some p0 -> let (l, k) = p0 in ((c.x_name, l), k) :: rest0
              | None -> rest0)))
     | None -> ret [])

(** val runtime_error_cls : ecls -> token -> n -> 'a1 m **)

let runtime_error_cls cls t0 c s =
  let (o, s') =
    bind (get_ctx c) (fun cx ->
      bind (trace_aux (S cx.x_depth) cx.x_parent) (fun rest0 ->
        ret { d_kind = DRuntime; d_line = t0.tline; d_col = t0.tcol; d_cls =
          cls; d_trace = (((cx.x_name, t0.tline), t0.tcol) :: rest0) })) s
  in
  (match o with
   | Ok d -> ((Fail (FErr d)), s')
   | Fail f -> ((Fail f), s'))

(** val rt_error : token -> n -> 'a1 m **)

let rt_error t0 c =
  runtime_error_cls EOther t0 c

(** val not_defined_error : token -> n -> 'a1 m **)

let not_defined_error t0 c =
  runtime_error_cls ENotDefined t0 c

(** val array_direct_error : token -> n -> 'a1 m **)

let array_direct_error t0 c =
  runtime_error_cls (EArrayDirect c) t0 c

(** val pedantic_error : token -> 'a1 m **)

let pedantic_error t0 =
  failm (FErr { d_kind = DPedantic; d_line = t0.tline; d_col = t0.tcol;
    d_cls = EOther; d_trace = [] })

(** val err_token : token **)

let err_token =
  { tt = TFUNCTION; tline = Z0; tcol = Z0; tval = [] }

(** val lookup_var : n -> str -> bool -> n option m **)

let lookup_var c name global =
  bind (get_ctx c) (fun cx ->
    match assoc_str name cx.x_vars with
    | Some id -> ret (Some id)
    | None ->
      if global
      then (match cx.x_parent with
            | Some _ ->
              bind (root_of c) (fun r ->
                bind (get_ctx r) (fun rc -> ret (assoc_str name rc.x_vars)))
            | None -> ret None)
      else ret None)

(** val lookup_arr : n -> str -> bool -> n option m **)

let lookup_arr c name global =
  bind (get_ctx c) (fun cx ->
    match assoc_str name cx.x_arrs with
    | Some id -> ret (Some id)
    | None ->
      if global
      then (match cx.x_parent with
            | Some _ ->
              bind (root_of c) (fun r ->
                bind (get_ctx r) (fun rc -> ret (assoc_str name rc.x_arrs)))
            | None -> ret None)
      else ret None)

(** val lookup_def_aux :
    (ctx -> (str * 'a1) list) -> nat -> n -> str -> bool -> 'a1 option m **)

let rec lookup_def_aux table fuel c name global =
  match fuel with
  | O ->
    crash
      ('c'::('o'::('n'::('t'::('e'::('x'::('t'::(' '::('c'::('h'::('a'::('i'::('n'::(' '::('t'::('o'::('o'::(' '::('l'::('o'::('n'::('g'::[]))))))))))))))))))))))
  | S f ->
    bind (get_ctx c) (fun cx ->
      match assoc_str name (table cx) with
      | Some d -> ret (Some d)
      | None ->
        if cx.x_isrec
        then (match cx.x_parent with
              | Some p0 -> lookup_def_aux table f p0 name global
              | None -> ret None)
        else (match cx.x_parent with
              | Some _ ->
                if global
                then bind (root_of c) (fun r ->
                       bind (get_ctx r) (fun rc ->
                         ret (assoc_str name (table rc))))
                else ret None
              | None -> ret None))

(** val lookup_def :
    (ctx -> (str * 'a1) list) -> n -> str -> bool -> 'a1 option m **)

let lookup_def table c name global =
  bind (get_ctx c) (fun cx ->
    lookup_def_aux table (S cx.x_depth) c name global)

(** val lookup_enum_def : n -> str -> bool -> str list option m **)

let lookup_enum_def =
  lookup_def (fun c -> c.x_enums)

(** val lookup_ptr_def : n -> str -> bool -> dtype option m **)

let lookup_ptr_def =
  lookup_def (fun c -> c.x_ptrs)

(** val lookup_comp_def : n -> str -> bool -> block option m **)

let lookup_comp_def =
  lookup_def (fun c -> c.x_comps)

(** val get_type : n -> token -> bool -> dtype m **)

let get_type c t0 global =
  match t0.tt with
  | TIDENTIFIER ->
    bind (lookup_enum_def c t0.tval global) (fun e ->
      match e with
      | Some _ -> ret { dk = KEnum; dname = (Some t0.tval) }
      | None ->
        bind (lookup_ptr_def c t0.tval global) (fun p0 ->
          match p0 with
          | Some _ -> ret { dk = KPtr; dname = (Some t0.tval) }
          | None ->
            bind (lookup_comp_def c t0.tval global) (fun r ->
              match r with
              | Some _ -> ret { dk = KRec; dname = (Some t0.tval) }
              | None -> ret dt_none)))
  | TDATA_TYPE ->
    (match psc_type_of_word t0.tval with
     | Some k -> ret (dt_prim k)
     | None ->
       crash
         ('c'::('o'::('n'::('t'::('e'::('x'::('t'::('.'::('c'::('p'::('p'::(' '::('g'::('e'::('t'::('T'::('y'::('p'::('e'::(' '::('a'::('b'::('o'::('r'::('t'::[]))))))))))))))))))))))))))
  | _ ->
    crash
      ('c'::('o'::('n'::('t'::('e'::('x'::('t'::('.'::('c'::('p'::('p'::(' '::('g'::('e'::('t'::('T'::('y'::('p'::('e'::(' '::('a'::('b'::('o'::('r'::('t'::[])))))))))))))))))))))))))

(** val find_index : str -> str list -> z -> z option **)

let rec find_index v l i =
  match l with
  | [] -> None
  | x :: r ->
    if str_eqb v x then Some i else find_index v r (Z.add i (Zpos XH))

(** val enum_element_in : str -> (str * str list) list -> (str * z) option **)

let rec enum_element_in v = function
| [] -> None
| p0 :: r ->
  let (n0, vals) = p0 in
  (match find_index v vals Z0 with
   | Some i -> Some (n0, i)
   | None -> enum_element_in v r)

(** val get_enum_element : n -> str -> bool -> (str * z) option m **)

let get_enum_element c v global =
  bind (get_ctx c) (fun cx ->
    match enum_element_in v cx.x_enums with
    | Some e -> ret (Some e)
    | None ->
      if global
      then (match cx.x_parent with
            | Some _ ->
              bind (root_of c) (fun r ->
                bind (get_ctx r) (fun rc ->
                  ret (enum_element_in v rc.x_enums)))
            | None -> ret None)
      else ret None)

(** val is_identifier_type : n -> token -> bool -> bool m **)

let is_identifier_type c t0 global =
  bind (get_type c t0 global) (fun ty ->
    if negb (dt_is ty KNone)
    then ret true
    else bind (get_enum_element c t0.tval global) (fun e ->
           ret (match e with
                | Some _ -> true
                | None -> false)))

(** val as_int : result -> z m **)

let as_int r =
  match r.r_val with
  | Some p0 ->
    (match p0 with
     | PInt z0 -> ret z0
     | _ ->
       crash
         ('g'::('e'::('t'::('<'::('I'::('n'::('t'::('e'::('g'::('e'::('r'::('>'::(' '::('o'::('n'::(' '::('o'::('t'::('h'::('e'::('r'::(' '::('p'::('a'::('y'::('l'::('o'::('a'::('d'::[]))))))))))))))))))))))))))))))
  | None ->
    crash
      ('g'::('e'::('t'::('<'::('I'::('n'::('t'::('e'::('g'::('e'::('r'::('>'::(' '::('o'::('n'::(' '::('o'::('t'::('h'::('e'::('r'::(' '::('p'::('a'::('y'::('l'::('o'::('a'::('d'::[])))))))))))))))))))))))))))))

(** val as_real : result -> real m **)

let as_real r =
  match r.r_val with
  | Some p0 ->
    (match p0 with
     | PReal z0 -> ret z0
     | _ ->
       crash
         ('g'::('e'::('t'::('<'::('R'::('e'::('a'::('l'::('>'::(' '::('o'::('n'::(' '::('o'::('t'::('h'::('e'::('r'::(' '::('p'::('a'::('y'::('l'::('o'::('a'::('d'::[])))))))))))))))))))))))))))
  | None ->
    crash
      ('g'::('e'::('t'::('<'::('R'::('e'::('a'::('l'::('>'::(' '::('o'::('n'::(' '::('o'::('t'::('h'::('e'::('r'::(' '::('p'::('a'::('y'::('l'::('o'::('a'::('d'::[]))))))))))))))))))))))))))

(** val as_bool : result -> bool m **)

let as_bool r =
  match r.r_val with
  | Some p0 ->
    (match p0 with
     | PBool z0 -> ret z0
     | _ ->
       crash
         ('g'::('e'::('t'::('<'::('B'::('o'::('o'::('l'::('e'::('a'::('n'::('>'::(' '::('o'::('n'::(' '::('o'::('t'::('h'::('e'::('r'::(' '::('p'::('a'::('y'::('l'::('o'::('a'::('d'::[]))))))))))))))))))))))))))))))
  | None ->
    crash
      ('g'::('e'::('t'::('<'::('B'::('o'::('o'::('l'::('e'::('a'::('n'::('>'::(' '::('o'::('n'::(' '::('o'::('t'::('h'::('e'::('r'::(' '::('p'::('a'::('y'::('l'::('o'::('a'::('d'::[])))))))))))))))))))))))))))))

(** val as_char : result -> char m **)

let as_char r =
  match r.r_val with
  | Some p0 ->
    (match p0 with
     | PChar z0 -> ret z0
     | _ ->
       crash
         ('g'::('e'::('t'::('<'::('C'::('h'::('a'::('r'::('>'::(' '::('o'::('n'::(' '::('o'::('t'::('h'::('e'::('r'::(' '::('p'::('a'::('y'::('l'::('o'::('a'::('d'::[])))))))))))))))))))))))))))
  | None ->
    crash
      ('g'::('e'::('t'::('<'::('C'::('h'::('a'::('r'::('>'::(' '::('o'::('n'::(' '::('o'::('t'::('h'::('e'::('r'::(' '::('p'::('a'::('y'::('l'::('o'::('a'::('d'::[]))))))))))))))))))))))))))

(** val as_str : result -> str m **)

let as_str r =
  match r.r_val with
  | Some p0 ->
    (match p0 with
     | PStr z0 -> ret z0
     | _ ->
       crash
         ('g'::('e'::('t'::('<'::('S'::('t'::('r'::('i'::('n'::('g'::('>'::(' '::('o'::('n'::(' '::('o'::('t'::('h'::('e'::('r'::(' '::('p'::('a'::('y'::('l'::('o'::('a'::('d'::[])))))))))))))))))))))))))))))
  | None ->
    crash
      ('g'::('e'::('t'::('<'::('S'::('t'::('r'::('i'::('n'::('g'::('>'::(' '::('o'::('n'::(' '::('o'::('t'::('h'::('e'::('r'::(' '::('p'::('a'::('y'::('l'::('o'::('a'::('d'::[]))))))))))))))))))))))))))))

(** val as_payload : result -> payload m **)

let as_payload r =
  match r.r_val with
  | Some p0 -> ret p0
  | None ->
    crash
      ('n'::('u'::('l'::('l'::(' '::('p'::('a'::('y'::('l'::('o'::('a'::('d'::(' '::('d'::('e'::('r'::('e'::('f'::('e'::('r'::('e'::('n'::('c'::('e'::('d'::[])))))))))))))))))))))))))

type vtree =
| VInt of z
| VReal of real
| VBool of bool
| VChar of char
| VStr of str
| VDate of z * z * z
| VEnum of str * z * z
| VPtr
| VRec of str * vtree list * vtree list list

(** val sp : str **)

let sp =
  ch_space :: []

(** val join_sp : str list -> str **)

let rec join_sp = function
| [] -> []
| x :: r -> (match r with
             | [] -> x
             | _ :: _ -> app x (app sp (join_sp r)))

(** val mark_newlines : str -> str **)

let rec mark_newlines = function
| [] -> []
| c :: r ->
  if aeqb c ch_nl
  then c :: (ch_hash :: (mark_newlines r))
  else c :: (mark_newlines r)

(** val slen' : str -> z **)

let slen' s =
  Z.of_nat (length s)

(** val dump : vtree -> str option **)

let rec dump = function
| VInt z0 ->
  Some
    (app
      (str_of_string
        ('I'::('N'::('T'::('E'::('G'::('E'::('R'::(' '::[])))))))))
      (z_to_str z0))
| VReal r ->
  (match fmt_g (Zpos (XI (XO (XO (XO XH))))) r with
   | Some t0 ->
     Some (app (str_of_string ('R'::('E'::('A'::('L'::(' '::[])))))) t0)
   | None -> None)
| VBool b ->
  Some
    (str_of_string
      (if b
       then 'B'::('O'::('O'::('L'::('E'::('A'::('N'::(' '::('T'::('R'::('U'::('E'::[])))))))))))
       else 'B'::('O'::('O'::('L'::('E'::('A'::('N'::(' '::('F'::('A'::('L'::('S'::('E'::[]))))))))))))))
| VChar c ->
  Some
    (app (str_of_string ('C'::('H'::('A'::('R'::(' '::[]))))))
      (app (c :: []) (if aeqb c ch_nl then ch_hash :: [] else [])))
| VStr s ->
  let m0 = mark_newlines s in
  Some
  (app (str_of_string ('S'::('T'::('R'::('I'::('N'::('G'::(' '::[]))))))))
    (app (z_to_str (slen' m0)) (app sp m0)))
| VDate (d, m0, y) ->
  Some
    (app (str_of_string ('D'::('A'::('T'::('E'::(' '::[]))))))
      (app (z_to_str d) (app sp (app (z_to_str m0) (app sp (z_to_str y))))))
| VEnum (tn, _, idx) ->
  Some
    (app (str_of_string ('E'::('N'::('U'::('M'::(' '::[]))))))
      (app tn (app sp (z_to_str idx))))
| VPtr -> Some []
| VRec (tn, fields, arrays) ->
  let dump_list0 =
    let rec dump_list0 = function
    | [] -> Some []
    | x :: r ->
      (match dump x with
       | Some a ->
         (match dump_list0 r with
          | Some b -> Some (a :: b)
          | None -> None)
       | None -> None)
    in dump_list0
  in
  let dump_array0 = fun l ->
    match dump_list0 l with
    | Some ds ->
      Some
        (app (str_of_string ('A'::('R'::('R'::('A'::('Y'::(' '::[])))))))
          (app (z_to_str (slen' (map (fun _ -> ch_nul) l)))
            (app sp (join_sp ds))))
    | None -> None
  in
  let dump_arrays =
    let rec dump_arrays = function
    | [] -> Some []
    | x :: r ->
      (match dump_array0 x with
       | Some a ->
         (match dump_arrays r with
          | Some b -> Some (a :: b)
          | None -> None)
       | None -> None)
    in dump_arrays
  in
  (match dump_list0 fields with
   | Some fs ->
     (match dump_arrays arrays with
      | Some ars ->
        Some
          (app
            (str_of_string
              ('C'::('O'::('M'::('P'::('O'::('S'::('I'::('T'::('E'::(' '::[])))))))))))
            (app tn
              (app sp
                (app (join_sp fs)
                  (app (match ars with
                        | [] -> []
                        | _ :: _ -> sp) (join_sp ars))))))
      | None -> None)
   | None -> None)

(** val dump_list : vtree list -> str list option **)

let rec dump_list = function
| [] -> Some []
| x :: r ->
  (match dump x with
   | Some a -> (match dump_list r with
                | Some b -> Some (a :: b)
                | None -> None)
   | None -> None)

(** val dump_array : vtree list -> str option **)

let dump_array l =
  match dump_list l with
  | Some ds ->
    Some
      (app (str_of_string ('A'::('R'::('R'::('A'::('Y'::(' '::[])))))))
        (app (z_to_str (Z.of_nat (length l))) (app sp (join_sp ds))))
  | None -> None

(** val take_word : str -> str -> str * str **)

let rec take_word s acc =
  match s with
  | [] -> ((rev acc), [])
  | c :: r -> if is_cspace c then ((rev acc), s) else take_word r (c :: acc)

(** val rd_word : str -> (str * str) option **)

let rd_word s =
  let (w, r) = take_word (skip_space s) [] in
  (match w with
   | [] -> None
   | _ :: _ -> Some (w, r))

(** val rd_integer : z -> z -> str -> (z * str) option **)

let rd_integer lo hi s =
  let s1 = skip_space s in
  (match s1 with
   | [] ->
     let neg = false in
     let s2 = [] in
     let (ds, r) = take_digits s2 [] in
     (match ds with
      | [] -> None
      | _ :: _ ->
        let v = digits_to_z ds in
        let v0 = if neg then Z.opp v else v in
        if (&&) (Z.leb lo v0) (Z.leb v0 hi) then Some (v0, r) else None)
   | c :: r ->
     if aeqb c '-'
     then let neg = true in
          let (ds, r0) = take_digits r [] in
          (match ds with
           | [] -> None
           | _ :: _ ->
             let v = digits_to_z ds in
             let v0 = if neg then Z.opp v else v in
             if (&&) (Z.leb lo v0) (Z.leb v0 hi) then Some (v0, r0) else None)
     else if aeqb c '+'
          then let neg = false in
               let (ds, r0) = take_digits r [] in
               (match ds with
                | [] -> None
                | _ :: _ ->
                  let v = digits_to_z ds in
                  let v0 = if neg then Z.opp v else v in
                  if (&&) (Z.leb lo v0) (Z.leb v0 hi)
                  then Some (v0, r0)
                  else None)
          else let neg = false in
               let (ds, r0) = take_digits s1 [] in
               (match ds with
                | [] -> None
                | _ :: _ ->
                  let v = digits_to_z ds in
                  let v0 = if neg then Z.opp v else v in
                  if (&&) (Z.leb lo v0) (Z.leb v0 hi)
                  then Some (v0, r0)
                  else None))

(** val rd_long : str -> (z * str) option **)

let rd_long =
  rd_integer int64_min int64_max

(** val rd_size : str -> (z * str) option **)

let rd_size =
  rd_integer Z0 (Z.sub two64 (Zpos XH))

(** val rd_uint : str -> (z * str) option **)

let rd_uint =
  rd_integer Z0 (Zpos (XI (XI (XI (XI (XI (XI (XI (XI (XI (XI (XI (XI (XI (XI
    (XI (XI (XI (XI (XI (XI (XI (XI (XI (XI (XI (XI (XI (XI (XI (XI (XI
    XH))))))))))))))))))))))))))))))))

(** val rd_int : str -> (z * str) option **)

let rd_int =
  rd_integer (Zneg (XO (XO (XO (XO (XO (XO (XO (XO (XO (XO (XO (XO (XO (XO
    (XO (XO (XO (XO (XO (XO (XO (XO (XO (XO (XO (XO (XO (XO (XO (XO (XO
    XH)))))))))))))))))))))))))))))))) (Zpos (XI (XI (XI (XI (XI (XI (XI (XI
    (XI (XI (XI (XI (XI (XI (XI (XI (XI (XI (XI (XI (XI (XI (XI (XI (XI (XI
    (XI (XI (XI (XI XH)))))))))))))))))))))))))))))))

(** val rd_double : str -> (real * str) option **)

let rd_double s =
  let s1 = skip_space s in
  (match s1 with
   | [] ->
     let sg = [] in
     let s2 = [] in
     let (ip, s3) = take_digits s2 [] in
     (match s3 with
      | [] ->
        let p0 = ([], s3) in
        let pt = [] in
        let (fp, s4) = p0 in
        (match app ip fp with
         | [] -> None
         | _ :: _ ->
           let (ex, s5) =
             match s4 with
             | [] -> ([], s4)
             | c :: r ->
               if aeqb (to_lower c) 'e'
               then (match r with
                     | [] ->
                       let esg = [] in
                       let r1 = [] in
                       let (ed, r2) = take_digits r1 [] in
                       ((c :: (app esg ed)), r2)
                     | x :: t0 ->
                       if (||) (aeqb x '-') (aeqb x '+')
                       then let esg = x :: [] in
                            let (ed, r2) = take_digits t0 [] in
                            ((c :: (app esg ed)), r2)
                       else let esg = [] in
                            let (ed, r2) = take_digits r [] in
                            ((c :: (app esg ed)), r2))
               else ([], s4)
           in
           let txt = app sg (app ip (app pt (app fp ex))) in
           let sr = strtod_pfx txt in
           (match sr.sr_rest with
            | [] -> if is_inf sr.sr_val then None else Some (sr.sr_val, s5)
            | _ :: _ -> None))
      | c :: r ->
        if aeqb c '.'
        then let p0 = take_digits r [] in
             let pt = c :: [] in
             let (fp, s4) = p0 in
             (match app ip fp with
              | [] -> None
              | _ :: _ ->
                let (ex, s5) =
                  match s4 with
                  | [] -> ([], s4)
                  | c0 :: r0 ->
                    if aeqb (to_lower c0) 'e'
                    then (match r0 with
                          | [] ->
                            let esg = [] in
                            let r1 = [] in
                            let (ed, r2) = take_digits r1 [] in
                            ((c0 :: (app esg ed)), r2)
                          | x :: t0 ->
                            if (||) (aeqb x '-') (aeqb x '+')
                            then let esg = x :: [] in
                                 let (ed, r2) = take_digits t0 [] in
                                 ((c0 :: (app esg ed)), r2)
                            else let esg = [] in
                                 let (ed, r2) = take_digits r0 [] in
                                 ((c0 :: (app esg ed)), r2))
                    else ([], s4)
                in
                let txt = app sg (app ip (app pt (app fp ex))) in
                let sr = strtod_pfx txt in
                (match sr.sr_rest with
                 | [] ->
                   if is_inf sr.sr_val then None else Some (sr.sr_val, s5)
                 | _ :: _ -> None))
        else let p0 = ([], s3) in
             let pt = [] in
             let (fp, s4) = p0 in
             (match app ip fp with
              | [] -> None
              | _ :: _ ->
                let (ex, s5) =
                  match s4 with
                  | [] -> ([], s4)
                  | c0 :: r0 ->
                    if aeqb (to_lower c0) 'e'
                    then (match r0 with
                          | [] ->
                            let esg = [] in
                            let r1 = [] in
                            let (ed, r2) = take_digits r1 [] in
                            ((c0 :: (app esg ed)), r2)
                          | x :: t0 ->
                            if (||) (aeqb x '-') (aeqb x '+')
                            then let esg = x :: [] in
                                 let (ed, r2) = take_digits t0 [] in
                                 ((c0 :: (app esg ed)), r2)
                            else let esg = [] in
                                 let (ed, r2) = take_digits r0 [] in
                                 ((c0 :: (app esg ed)), r2))
                    else ([], s4)
                in
                let txt = app sg (app ip (app pt (app fp ex))) in
                let sr = strtod_pfx txt in
                (match sr.sr_rest with
                 | [] ->
                   if is_inf sr.sr_val then None else Some (sr.sr_val, s5)
                 | _ :: _ -> None)))
   | c :: r ->
     if (||) (aeqb c '-') (aeqb c '+')
     then let sg = c :: [] in
          let (ip, s3) = take_digits r [] in
          (match s3 with
           | [] ->
             let p0 = ([], s3) in
             let pt = [] in
             let (fp, s4) = p0 in
             (match app ip fp with
              | [] -> None
              | _ :: _ ->
                let (ex, s5) =
                  match s4 with
                  | [] -> ([], s4)
                  | c0 :: r0 ->
                    if aeqb (to_lower c0) 'e'
                    then (match r0 with
                          | [] ->
                            let esg = [] in
                            let r1 = [] in
                            let (ed, r2) = take_digits r1 [] in
                            ((c0 :: (app esg ed)), r2)
                          | x :: t0 ->
                            if (||) (aeqb x '-') (aeqb x '+')
                            then let esg = x :: [] in
                                 let (ed, r2) = take_digits t0 [] in
                                 ((c0 :: (app esg ed)), r2)
                            else let esg = [] in
                                 let (ed, r2) = take_digits r0 [] in
                                 ((c0 :: (app esg ed)), r2))
                    else ([], s4)
                in
                let txt = app sg (app ip (app pt (app fp ex))) in
                let sr = strtod_pfx txt in
                (match sr.sr_rest with
                 | [] ->
                   if is_inf sr.sr_val then None else Some (sr.sr_val, s5)
                 | _ :: _ -> None))
           | c0 :: r0 ->
             if aeqb c0 '.'
             then let p0 = take_digits r0 [] in
                  let pt = c0 :: [] in
                  let (fp, s4) = p0 in
                  (match app ip fp with
                   | [] -> None
                   | _ :: _ ->
                     let (ex, s5) =
                       match s4 with
                       | [] -> ([], s4)
                       | c1 :: r1 ->
                         if aeqb (to_lower c1) 'e'
                         then (match r1 with
                               | [] ->
                                 let esg = [] in
                                 let r2 = [] in
                                 let (ed, r3) = take_digits r2 [] in
                                 ((c1 :: (app esg ed)), r3)
                               | x :: t0 ->
                                 if (||) (aeqb x '-') (aeqb x '+')
                                 then let esg = x :: [] in
                                      let (ed, r2) = take_digits t0 [] in
                                      ((c1 :: (app esg ed)), r2)
                                 else let esg = [] in
                                      let (ed, r2) = take_digits r1 [] in
                                      ((c1 :: (app esg ed)), r2))
                         else ([], s4)
                     in
                     let txt = app sg (app ip (app pt (app fp ex))) in
                     let sr = strtod_pfx txt in
                     (match sr.sr_rest with
                      | [] ->
                        if is_inf sr.sr_val
                        then None
                        else Some (sr.sr_val, s5)
                      | _ :: _ -> None))
             else let p0 = ([], s3) in
                  let pt = [] in
                  let (fp, s4) = p0 in
                  (match app ip fp with
                   | [] -> None
                   | _ :: _ ->
                     let (ex, s5) =
                       match s4 with
                       | [] -> ([], s4)
                       | c1 :: r1 ->
                         if aeqb (to_lower c1) 'e'
                         then (match r1 with
                               | [] ->
                                 let esg = [] in
                                 let r2 = [] in
                                 let (ed, r3) = take_digits r2 [] in
                                 ((c1 :: (app esg ed)), r3)
                               | x :: t0 ->
                                 if (||) (aeqb x '-') (aeqb x '+')
                                 then let esg = x :: [] in
                                      let (ed, r2) = take_digits t0 [] in
                                      ((c1 :: (app esg ed)), r2)
                                 else let esg = [] in
                                      let (ed, r2) = take_digits r1 [] in
                                      ((c1 :: (app esg ed)), r2))
                         else ([], s4)
                     in
                     let txt = app sg (app ip (app pt (app fp ex))) in
                     let sr = strtod_pfx txt in
                     (match sr.sr_rest with
                      | [] ->
                        if is_inf sr.sr_val
                        then None
                        else Some (sr.sr_val, s5)
                      | _ :: _ -> None)))
     else let sg = [] in
          let (ip, s3) = take_digits s1 [] in
          (match s3 with
           | [] ->
             let p0 = ([], s3) in
             let pt = [] in
             let (fp, s4) = p0 in
             (match app ip fp with
              | [] -> None
              | _ :: _ ->
                let (ex, s5) =
                  match s4 with
                  | [] -> ([], s4)
                  | c0 :: r0 ->
                    if aeqb (to_lower c0) 'e'
                    then (match r0 with
                          | [] ->
                            let esg = [] in
                            let r1 = [] in
                            let (ed, r2) = take_digits r1 [] in
                            ((c0 :: (app esg ed)), r2)
                          | x :: t0 ->
                            if (||) (aeqb x '-') (aeqb x '+')
                            then let esg = x :: [] in
                                 let (ed, r2) = take_digits t0 [] in
                                 ((c0 :: (app esg ed)), r2)
                            else let esg = [] in
                                 let (ed, r2) = take_digits r0 [] in
                                 ((c0 :: (app esg ed)), r2))
                    else ([], s4)
                in
                let txt = app sg (app ip (app pt (app fp ex))) in
                let sr = strtod_pfx txt in
                (match sr.sr_rest with
                 | [] ->
                   if is_inf sr.sr_val then None else Some (sr.sr_val, s5)
                 | _ :: _ -> None))
           | c0 :: r0 ->
             if aeqb c0 '.'
             then let p0 = take_digits r0 [] in
                  let pt = c0 :: [] in
                  let (fp, s4) = p0 in
                  (match app ip fp with
                   | [] -> None
                   | _ :: _ ->
                     let (ex, s5) =
                       match s4 with
                       | [] -> ([], s4)
                       | c1 :: r1 ->
                         if aeqb (to_lower c1) 'e'
                         then (match r1 with
                               | [] ->
                                 let esg = [] in
                                 let r2 = [] in
                                 let (ed, r3) = take_digits r2 [] in
                                 ((c1 :: (app esg ed)), r3)
                               | x :: t0 ->
                                 if (||) (aeqb x '-') (aeqb x '+')
                                 then let esg = x :: [] in
                                      let (ed, r2) = take_digits t0 [] in
                                      ((c1 :: (app esg ed)), r2)
                                 else let esg = [] in
                                      let (ed, r2) = take_digits r1 [] in
                                      ((c1 :: (app esg ed)), r2))
                         else ([], s4)
                     in
                     let txt = app sg (app ip (app pt (app fp ex))) in
                     let sr = strtod_pfx txt in
                     (match sr.sr_rest with
                      | [] ->
                        if is_inf sr.sr_val
                        then None
                        else Some (sr.sr_val, s5)
                      | _ :: _ -> None))
             else let p0 = ([], s3) in
                  let pt = [] in
                  let (fp, s4) = p0 in
                  (match app ip fp with
                   | [] -> None
                   | _ :: _ ->
                     let (ex, s5) =
                       match s4 with
                       | [] -> ([], s4)
                       | c1 :: r1 ->
                         if aeqb (to_lower c1) 'e'
                         then (match r1 with
                               | [] ->
                                 let esg = [] in
                                 let r2 = [] in
                                 let (ed, r3) = take_digits r2 [] in
                                 ((c1 :: (app esg ed)), r3)
                               | x :: t0 ->
                                 if (||) (aeqb x '-') (aeqb x '+')
                                 then let esg = x :: [] in
                                      let (ed, r2) = take_digits t0 [] in
                                      ((c1 :: (app esg ed)), r2)
                                 else let esg = [] in
                                      let (ed, r2) = take_digits r1 [] in
                                      ((c1 :: (app esg ed)), r2))
                         else ([], s4)
                     in
                     let txt = app sg (app ip (app pt (app fp ex))) in
                     let sr = strtod_pfx txt in
                     (match sr.sr_rest with
                      | [] ->
                        if is_inf sr.sr_val
                        then None
                        else Some (sr.sr_val, s5)
                      | _ :: _ -> None))))

(** val expect_tag : char list -> str -> str option **)

let expect_tag tag s =
  match rd_word s with
  | Some p0 ->
    let (w, r) = p0 in if str_eqb w (str_of_string tag) then Some r else None
  | None -> None

(** val read_marked :
    nat -> bool -> char -> str -> str -> (str * str) option **)

let rec read_marked n0 first prev s acc =
  match n0 with
  | O -> Some ((rev acc), s)
  | S k ->
    (match s with
     | [] -> None
     | c :: r ->
       if (&&) ((&&) (negb first) (aeqb c ch_hash)) (aeqb prev ch_nl)
       then read_marked k false c r acc
       else read_marked k false c r (c :: acc))

(** val narrow_u8 : z -> z **)

let narrow_u8 z0 =
  Z.modulo z0 (Zpos (XO (XO (XO (XO (XO (XO (XO (XO XH)))))))))

(** val narrow_i16 : z -> z **)

let narrow_i16 z0 =
  Z.sub
    (Z.modulo
      (Z.add z0 (Zpos (XO (XO (XO (XO (XO (XO (XO (XO (XO (XO (XO (XO (XO (XO
        (XO XH))))))))))))))))) (Zpos (XO (XO (XO (XO (XO (XO (XO (XO (XO (XO
      (XO (XO (XO (XO (XO (XO XH)))))))))))))))))) (Zpos (XO (XO (XO (XO (XO
    (XO (XO (XO (XO (XO (XO (XO (XO (XO (XO XH))))))))))))))))

(** val load : vtree -> str -> (vtree * str) * bool **)

let rec load old s =
  match old with
  | VInt _ ->
    (match expect_tag ('I'::('N'::('T'::('E'::('G'::('E'::('R'::[]))))))) s with
     | Some r ->
       (match rd_long r with
        | Some p0 -> let (v, r') = p0 in (((VInt v), r'), true)
        | None -> (((VInt Z0), r), false))
     | None -> ((old, s), false))
  | VReal _ ->
    (match expect_tag ('R'::('E'::('A'::('L'::[])))) s with
     | Some r ->
       (match rd_double r with
        | Some p0 -> let (v, r') = p0 in (((VReal v), r'), true)
        | None -> (((VReal rzero), r), false))
     | None -> ((old, s), false))
  | VBool _ ->
    (match expect_tag ('B'::('O'::('O'::('L'::('E'::('A'::('N'::[]))))))) s with
     | Some r ->
       (match rd_word r with
        | Some p0 ->
          let (w, r') = p0 in
          if str_eqb w (str_of_string ('T'::('R'::('U'::('E'::[])))))
          then (((VBool true), r'), true)
          else if str_eqb w
                    (str_of_string ('F'::('A'::('L'::('S'::('E'::[]))))))
               then (((VBool false), r'), true)
               else ((old, r'), false)
        | None -> ((old, r), false))
     | None -> ((old, s), false))
  | VChar _ ->
    (match expect_tag ('C'::('H'::('A'::('R'::[])))) s with
     | Some r ->
       (match r with
        | [] ->
          (((VChar
            (ascii_of_z (Zpos (XI (XI (XI (XI (XI (XI (XI XH)))))))))), []),
            false)
        | _ :: l ->
          (match l with
           | [] ->
             (((VChar
               (ascii_of_z (Zpos (XI (XI (XI (XI (XI (XI (XI XH)))))))))),
               []), false)
           | c :: r' ->
             (((VChar c),
               (if aeqb c ch_nl
                then (match r' with
                      | [] -> r'
                      | h :: t0 -> if aeqb h ch_hash then t0 else r')
                else r')), true)))
     | None -> ((old, s), false))
  | VStr _ ->
    (match expect_tag ('S'::('T'::('R'::('I'::('N'::('G'::[])))))) s with
     | Some r ->
       (match rd_word r with
        | Some p0 ->
          let (w, r1) = p0 in
          if (&&) (forallb is_digit w) (Z.ltb (digits_to_z w) two64)
          then (match r1 with
                | [] -> (((VStr []), []), (Z.eqb (digits_to_z w) Z0))
                | _ :: r2 ->
                  (match if Z.leb (digits_to_z w) (slen' r2)
                         then read_marked (Z.to_nat (digits_to_z w)) true
                                ch_nul r2 []
                         else None with
                   | Some p1 -> let (v, r3) = p1 in (((VStr v), r3), true)
                   | None -> (((VStr []), []), false)))
          else ((old, r1), false)
        | None -> ((old, r), false))
     | None -> ((old, s), false))
  | VDate (_, _, _) ->
    (match expect_tag ('D'::('A'::('T'::('E'::[])))) s with
     | Some r ->
       (match rd_uint r with
        | Some p0 ->
          let (d, r1) = p0 in
          (match rd_uint r1 with
           | Some p1 ->
             let (m0, r2) = p1 in
             (match rd_int r2 with
              | Some p2 ->
                let (y, r3) = p2 in
                (((VDate ((narrow_u8 d), (narrow_u8 m0), (narrow_i16 y))),
                r3), true)
              | None -> ((old, r2), false))
           | None -> ((old, r1), false))
        | None -> ((old, r), false))
     | None -> ((old, s), false))
  | VEnum (tn, size0, _) ->
    (match expect_tag ('E'::('N'::('U'::('M'::[])))) s with
     | Some r ->
       (match rd_word r with
        | Some p0 ->
          let (w, r1) = p0 in
          if str_eqb w tn
          then (match rd_size r1 with
                | Some p1 ->
                  let (i, r2) = p1 in
                  if Z.ltb i size0
                  then (((VEnum (tn, size0, i)), r2), true)
                  else ((old, r2), false)
                | None -> ((old, r1), false))
          else ((old, r1), false)
        | None -> ((old, r), false))
     | None -> ((old, s), false))
  | VPtr -> ((old, s), false)
  | VRec (tn, fields, arrays) ->
    (match expect_tag
             ('C'::('O'::('M'::('P'::('O'::('S'::('I'::('T'::('E'::[])))))))))
             s with
     | Some r ->
       (match rd_word r with
        | Some p0 ->
          let (w, r1) = p0 in
          if str_eqb w tn
          then let load_list0 =
                 let rec load_list0 l s0 =
                   match l with
                   | [] -> (([], s0), true)
                   | x :: t0 ->
                     let (p1, ok) = load x s0 in
                     let (x', s') = p1 in
                     if ok
                     then let (p2, ok') = load_list0 t0 s' in
                          let (t', s'') = p2 in (((x' :: t'), s''), ok')
                     else (((x' :: t0), s'), false)
                 in load_list0
               in
               let load_arr = fun l s0 ->
                 match expect_tag ('A'::('R'::('R'::('A'::('Y'::[]))))) s0 with
                 | Some r0 ->
                   (match rd_size r0 with
                    | Some p1 ->
                      let (n0, r') = p1 in
                      if Z.eqb n0 (slen' (map (fun _ -> ch_nul) l))
                      then load_list0 l r'
                      else ((l, r'), false)
                    | None -> ((l, r0), false))
                 | None -> ((l, s0), false)
               in
               let load_arrs =
                 let rec load_arrs l s0 =
                   match l with
                   | [] -> (([], s0), true)
                   | x :: t0 ->
                     let (p1, ok) = load_arr x s0 in
                     let (x', s') = p1 in
                     if ok
                     then let (p2, ok') = load_arrs t0 s' in
                          let (t', s'') = p2 in (((x' :: t'), s''), ok')
                     else (((x' :: t0), s'), false)
                 in load_arrs
               in
               let (p1, ok1) = load_list0 fields r1 in
               let (fs, s1) = p1 in
               if ok1
               then let (p2, ok2) = load_arrs arrays s1 in
                    let (ars, s2) = p2 in (((VRec (tn, fs, ars)), s2), ok2)
               else (((VRec (tn, fs, arrays)), s1), false)
          else ((old, r1), false)
        | None -> ((old, r), false))
     | None -> ((old, s), false))

(** val load_list : vtree list -> str -> (vtree list * str) * bool **)

let rec load_list l s =
  match l with
  | [] -> (([], s), true)
  | x :: t0 ->
    let (p0, ok) = load x s in
    let (x', s') = p0 in
    if ok
    then let (p1, ok') = load_list t0 s' in
         let (t', s'') = p1 in (((x' :: t'), s''), ok')
    else (((x' :: t0), s'), false)

(** val load_array : vtree list -> str -> (vtree list * str) * bool **)

let load_array l s =
  match expect_tag ('A'::('R'::('R'::('A'::('Y'::[]))))) s with
  | Some r ->
    (match rd_size r with
     | Some p0 ->
       let (n0, r') = p0 in
       if Z.eqb n0 (Z.of_nat (length l))
       then load_list l r'
       else ((l, r'), false)
     | None -> ((l, r), false))
  | None -> ((l, s), false)

(** val split_lines_aux : str -> str -> str list **)

let rec split_lines_aux s cur0 =
  match s with
  | [] -> (rev cur0) :: []
  | c :: r ->
    if aeqb c ch_nl
    then (rev cur0) :: (split_lines_aux r [])
    else split_lines_aux r (c :: cur0)

(** val split_lines : str -> str list **)

let split_lines s =
  split_lines_aux s []

(** val merge_records : str list -> str list -> str list **)

let rec merge_records lines acc =
  match lines with
  | [] -> acc
  | l :: r ->
    (match l with
     | [] -> merge_records r (l :: acc)
     | c :: _ ->
       (match acc with
        | [] -> merge_records r (l :: acc)
        | last :: acc' ->
          if aeqb c ch_hash
          then merge_records r ((app last (ch_nl :: l)) :: acc')
          else merge_records r (l :: acc)))

(** val drop_empty_front : str list -> str list **)

let rec drop_empty_front l = match l with
| [] -> l
| s :: r -> (match s with
             | [] -> drop_empty_front r
             | _ :: _ -> l)

(** val load_records : str -> str list **)

let load_records content = match content with
| [] -> []
| _ :: _ -> rev (drop_empty_front (merge_records (split_lines content) []))

(** val store_records : str list -> str **)

let store_records recs =
  concat (map (fun r -> app r (ch_nl :: [])) recs)

type dim = z * z

(** val dim_size : dim -> z **)

let dim_size d =
  Z.add (Z.sub (snd d) (fst d)) (Zpos XH)

(** val valid_index : dim -> z -> bool **)

let valid_index d i =
  (&&) (Z.leb (fst d) i) (Z.leb i (snd d))

(** val total_size : dim list -> z **)

let rec total_size = function
| [] -> Zpos XH
| d :: r -> Z.mul (dim_size d) (total_size r)

(** val linear_aux : z list -> dim list -> z -> z -> z **)

let rec linear_aux idxs ds prev acc =
  match idxs with
  | [] -> acc
  | i :: is' ->
    (match ds with
     | [] -> acc
     | d :: ds' ->
       linear_aux is' ds' (Z.mul prev (dim_size d))
         (Z.add acc (Z.mul (Z.sub i (fst d)) prev)))

(** val linear : z list -> dim list -> z **)

let linear idxs ds =
  linear_aux idxs ds (Zpos XH) Z0

(** val dims_eqb : dim list -> dim list -> bool **)

let rec dims_eqb a b =
  match a with
  | [] -> (match b with
           | [] -> true
           | _ :: _ -> false)
  | x :: a' ->
    (match b with
     | [] -> false
     | y :: b' ->
       (&&) ((&&) (Z.eqb (fst x) (fst y)) (Z.eqb (snd x) (snd y)))
         (dims_eqb a' b'))

(** val max_elements : z **)

let max_elements =
  Z.sub (Z.pow (Zpos (XO XH)) (Zpos (XO (XO (XI (XI (XI XH))))))) (Zpos XH)

type holder =
| HVar of n
| HArr of n

(** val blank_ctx_like : ctx -> ctx **)

let blank_ctx_like cx =
  { x_parent = cx.x_parent; x_name = cx.x_name; x_vars = []; x_arrs = [];
    x_enums = []; x_ptrs = []; x_comps = []; x_isfun = cx.x_isfun; x_isrec =
    cx.x_isrec; x_rettype = cx.x_rettype; x_retval = None; x_switch = None;
    x_depth = cx.x_depth }

(** val zipM : ('a1 -> 'a2 -> unit m) -> 'a1 list -> 'a2 list -> unit m **)

let rec zipM f l1 l2 =
  match l1 with
  | [] -> ret ()
  | a :: r1 ->
    (match l2 with
     | [] ->
       crash
         ('v'::('e'::('c'::('t'::('o'::('r'::(' '::('i'::('n'::('d'::('e'::('x'::(' '::('o'::('u'::('t'::(' '::('o'::('f'::(' '::('r'::('a'::('n'::('g'::('e'::[])))))))))))))))))))))))))
     | b :: r2 -> bind (f a b) (fun _ -> zipM f r1 r2))

(** val copy_val : nat -> payload -> payload m **)

let rec copy_val fuel p0 = match p0 with
| PRec (tn, c) ->
  (match fuel with
   | O -> failm FFuel
   | S f -> bind (copy_ctx f c) (fun c' -> ret (PRec (tn, c'))))
| _ -> ret p0

(** val copy_ctx : nat -> n -> n m **)

and copy_ctx fuel c =
  match fuel with
  | O -> failm FFuel
  | S f ->
    bind (get_ctx c) (fun cx ->
      bind fresh (fun id ->
        bind (put_ctx id (blank_ctx_like cx)) (fun _ ->
          bind
            (mapM (fun nv ->
              bind (get_cell (snd nv)) (fun cl ->
                bind (copy_val f cl.c_val) (fun v' ->
                  bind fresh (fun nid ->
                    bind
                      (put_cell nid { c_name = cl.c_name; c_type = cl.c_type;
                        c_const = cl.c_const; c_owner = id; c_val = v' })
                      (fun _ -> ret ((fst nv), nid)))))) cx.x_vars)
            (fun vars' ->
            bind
              (mapM (fun na ->
                bind (get_arr (snd na)) (fun a ->
                  bind
                    (mapM (fun eid ->
                      bind (get_cell eid) (fun cl ->
                        bind (copy_val f cl.c_val) (fun v' ->
                          bind fresh (fun nid ->
                            bind
                              (put_cell nid { c_name = cl.c_name; c_type =
                                cl.c_type; c_const = false; c_owner = id;
                                c_val = v' }) (fun _ -> ret nid)))))
                      a.a_elems) (fun elems' ->
                    bind fresh (fun naid ->
                      bind
                        (put_arr naid { a_name = a.a_name; a_type = a.a_type;
                          a_dims = a.a_dims; a_elems = elems' }) (fun _ ->
                        ret ((fst na), naid)))))) cx.x_arrs) (fun arrs' ->
              bind
                (upd_ctx id (fun k ->
                  ctx_with_arrs arrs' (ctx_with_vars vars' k))) (fun _ ->
                ret id))))))

(** val all2M : ('a1 -> 'a2 -> bool m) -> 'a1 list -> 'a2 list -> bool m **)

let rec all2M f l1 l2 =
  match l1 with
  | [] -> ret true
  | a :: r1 ->
    (match l2 with
     | [] -> ret true
     | b :: r2 ->
       bind (f a b) (fun ok -> if ok then all2M f r1 r2 else ret false))

(** val rec_pair_layout : (n -> n -> bool m) -> n -> n -> bool m **)

let rec_pair_layout sl e1 e2 =
  bind (get_cell e1) (fun c1 ->
    bind (get_cell e2) (fun c2 ->
      match c1.c_val with
      | PRec (_, x) ->
        (match c2.c_val with
         | PRec (_, y) -> sl x y
         | _ ->
           crash
             ('g'::('e'::('t'::('<'::('C'::('o'::('m'::('p'::('o'::('s'::('i'::('t'::('e'::('>'::(' '::('o'::('n'::(' '::('o'::('t'::('h'::('e'::('r'::(' '::('p'::('a'::('y'::('l'::('o'::('a'::('d'::[]))))))))))))))))))))))))))))))))
      | _ ->
        crash
          ('g'::('e'::('t'::('<'::('C'::('o'::('m'::('p'::('o'::('s'::('i'::('t'::('e'::('>'::(' '::('o'::('n'::(' '::('o'::('t'::('h'::('e'::('r'::(' '::('p'::('a'::('y'::('l'::('o'::('a'::('d'::[])))))))))))))))))))))))))))))))))

(** val arr_layout : (n -> n -> bool m) -> arr -> arr -> bool m **)

let arr_layout sl a1 a2 =
  if negb (dt_eq a1.a_type a2.a_type)
  then ret false
  else if negb (dt_is a1.a_type KRec)
       then ret true
       else all2M (rec_pair_layout sl) a1.a_elems a2.a_elems

(** val same_layout : nat -> n -> n -> bool m **)

let rec same_layout fuel dc sc =
  match fuel with
  | O -> failm FFuel
  | S f ->
    bind (get_ctx dc) (fun dx ->
      bind (get_ctx sc) (fun sx ->
        if (||) (negb (Nat.eqb (length dx.x_vars) (length sx.x_vars)))
             (negb (Nat.eqb (length dx.x_arrs) (length sx.x_arrs)))
        then ret false
        else bind
               (all2M (fun dv sv ->
                 bind (get_cell (snd dv)) (fun d ->
                   bind (get_cell (snd sv)) (fun s ->
                     if negb (dt_eq d.c_type s.c_type)
                     then ret false
                     else if dt_is d.c_type KRec
                          then (match d.c_val with
                                | PRec (_, x) ->
                                  (match s.c_val with
                                   | PRec (_, y) -> same_layout f x y
                                   | _ ->
                                     crash
                                       ('g'::('e'::('t'::('<'::('C'::('o'::('m'::('p'::('o'::('s'::('i'::('t'::('e'::('>'::(' '::('o'::('n'::(' '::('o'::('t'::('h'::('e'::('r'::(' '::('p'::('a'::('y'::('l'::('o'::('a'::('d'::[]))))))))))))))))))))))))))))))))
                                | _ ->
                                  crash
                                    ('g'::('e'::('t'::('<'::('C'::('o'::('m'::('p'::('o'::('s'::('i'::('t'::('e'::('>'::(' '::('o'::('n'::(' '::('o'::('t'::('h'::('e'::('r'::(' '::('p'::('a'::('y'::('l'::('o'::('a'::('d'::[]))))))))))))))))))))))))))))))))
                          else ret true))) dx.x_vars sx.x_vars) (fun ok ->
               if negb ok
               then ret false
               else all2M (fun da sa ->
                      bind (get_arr (snd da)) (fun a1 ->
                        bind (get_arr (snd sa)) (fun a2 ->
                          arr_layout (same_layout f) a1 a2))) dx.x_arrs
                      sx.x_arrs)))

(** val composite_assign :
    (n -> n -> unit m) -> nat -> str -> n -> str -> n -> unit m **)

let composite_assign cvd fuel tn0 dc tn sc =
  if str_eqb tn0 tn
  then bind (same_layout fuel dc sc) (fun ok ->
         if ok then cvd dc sc else rt_error err_token dc)
  else crash
         ('u'::('s'::('e'::('r'::('T'::('y'::('p'::('e'::('.'::('c'::('p'::('p'::(' '::('C'::('o'::('m'::('p'::('o'::('s'::('i'::('t'::('e'::(':'::(':'::('o'::('p'::('e'::('r'::('a'::('t'::('o'::('r'::('='::(' '::('a'::('b'::('o'::('r'::('t'::[])))))))))))))))))))))))))))))))))))))))

(** val set_copy : nat -> n -> payload -> unit m **)

let rec set_copy fuel dst src =
  match fuel with
  | O -> failm FFuel
  | S f ->
    bind (get_cell dst) (fun d ->
      match d.c_val with
      | PRec (tn, dc) ->
        (match src with
         | PRec (tn', sc) -> composite_assign (copy_var_data f) f tn dc tn' sc
         | _ ->
           if dk_eqb d.c_type.dk (payload_kind src)
           then bind (copy_val f src) (fun v' -> set_cell_val dst v')
           else crash
                  ('V'::('a'::('r'::('i'::('a'::('b'::('l'::('e'::(':'::(':'::('s'::('e'::('t'::(':'::(' '::('p'::('a'::('y'::('l'::('o'::('a'::('d'::(' '::('r'::('e'::('i'::('n'::('t'::('e'::('r'::('p'::('r'::('e'::('t'::('e'::('d'::(' '::('a'::('s'::(' '::('a'::('n'::('o'::('t'::('h'::('e'::('r'::(' '::('t'::('y'::('p'::('e'::[])))))))))))))))))))))))))))))))))))))))))))))))))))))
      | _ ->
        if dk_eqb d.c_type.dk (payload_kind src)
        then bind (copy_val f src) (fun v' -> set_cell_val dst v')
        else crash
               ('V'::('a'::('r'::('i'::('a'::('b'::('l'::('e'::(':'::(':'::('s'::('e'::('t'::(':'::(' '::('p'::('a'::('y'::('l'::('o'::('a'::('d'::(' '::('r'::('e'::('i'::('n'::('t'::('e'::('r'::('p'::('r'::('e'::('t'::('e'::('d'::(' '::('a'::('s'::(' '::('a'::('n'::('o'::('t'::('h'::('e'::('r'::(' '::('t'::('y'::('p'::('e'::[])))))))))))))))))))))))))))))))))))))))))))))))))))))

(** val copy_var_data : nat -> n -> n -> unit m **)

and copy_var_data fuel dc sc =
  match fuel with
  | O -> failm FFuel
  | S f ->
    bind (get_ctx dc) (fun dx ->
      bind (get_ctx sc) (fun sx ->
        bind
          (zipM (fun dv sv ->
            bind (get_cell (snd sv)) (fun s -> set_copy f (snd dv) s.c_val))
            dx.x_vars sx.x_vars) (fun _ ->
          zipM (fun da sa ->
            bind (get_arr (snd da)) (fun a1 ->
              bind (get_arr (snd sa)) (fun a2 ->
                let rec go l1 l2 =
                  match l1 with
                  | [] -> ret ()
                  | e1 :: r1 ->
                    (match l2 with
                     | [] -> ret ()
                     | e2 :: r2 ->
                       bind (get_cell e2) (fun s ->
                         bind (set_copy f e1 s.c_val) (fun _ -> go r1 r2)))
                in go a1.a_elems a2.a_elems))) dx.x_arrs sx.x_arrs)))

(** val copy_array_data : nat -> n -> n -> unit m **)

let copy_array_data fuel dst src =
  if N.eqb dst src
  then ret ()
  else bind (get_arr dst) (fun a1 ->
         bind (get_arr src) (fun a2 ->
           let rec go l1 l2 =
             match l1 with
             | [] -> ret ()
             | e1 :: r1 ->
               (match l2 with
                | [] -> ret ()
                | e2 :: r2 ->
                  bind (get_cell e2) (fun s ->
                    bind (set_copy fuel e1 s.c_val) (fun _ -> go r1 r2)))
           in go a1.a_elems a2.a_elems))

(** val assign_val : nat -> n -> result -> unit m **)

let assign_val fuel dst v =
  bind (get_cell dst) (fun d ->
    match d.c_type.dk with
    | KNone ->
      crash
        ('a'::('s'::('s'::('i'::('g'::('n'::('m'::('e'::('n'::('t'::(' '::('s'::('w'::('i'::('t'::('c'::('h'::(':'::(' '::('N'::('O'::('N'::('E'::(' '::('a'::('b'::('o'::('r'::('t'::[])))))))))))))))))))))))))))))
    | KInt ->
      (match v.r_val with
       | Some p0 ->
         (match p0 with
          | PInt _ ->
            (match v.r_val with
             | Some p1 -> set_cell_val dst p1
             | None -> ret ())
          | _ ->
            crash
              ('g'::('e'::('t'::('<'::('T'::('>'::(' '::('o'::('n'::(' '::('o'::('t'::('h'::('e'::('r'::(' '::('p'::('a'::('y'::('l'::('o'::('a'::('d'::[]))))))))))))))))))))))))
       | None ->
         crash
           ('n'::('u'::('l'::('l'::(' '::('p'::('a'::('y'::('l'::('o'::('a'::('d'::(' '::('d'::('e'::('r'::('e'::('f'::('e'::('r'::('e'::('n'::('c'::('e'::('d'::[]))))))))))))))))))))))))))
    | KReal ->
      (match v.r_val with
       | Some p0 ->
         (match p0 with
          | PReal _ ->
            (match v.r_val with
             | Some p1 -> set_cell_val dst p1
             | None -> ret ())
          | _ ->
            crash
              ('g'::('e'::('t'::('<'::('T'::('>'::(' '::('o'::('n'::(' '::('o'::('t'::('h'::('e'::('r'::(' '::('p'::('a'::('y'::('l'::('o'::('a'::('d'::[]))))))))))))))))))))))))
       | None ->
         crash
           ('n'::('u'::('l'::('l'::(' '::('p'::('a'::('y'::('l'::('o'::('a'::('d'::(' '::('d'::('e'::('r'::('e'::('f'::('e'::('r'::('e'::('n'::('c'::('e'::('d'::[]))))))))))))))))))))))))))
    | KBool ->
      (match v.r_val with
       | Some p0 ->
         (match p0 with
          | PBool _ ->
            (match v.r_val with
             | Some p1 -> set_cell_val dst p1
             | None -> ret ())
          | _ ->
            crash
              ('g'::('e'::('t'::('<'::('T'::('>'::(' '::('o'::('n'::(' '::('o'::('t'::('h'::('e'::('r'::(' '::('p'::('a'::('y'::('l'::('o'::('a'::('d'::[]))))))))))))))))))))))))
       | None ->
         crash
           ('n'::('u'::('l'::('l'::(' '::('p'::('a'::('y'::('l'::('o'::('a'::('d'::(' '::('d'::('e'::('r'::('e'::('f'::('e'::('r'::('e'::('n'::('c'::('e'::('d'::[]))))))))))))))))))))))))))
    | KChar ->
      (match v.r_val with
       | Some p0 ->
         (match p0 with
          | PChar _ ->
            (match v.r_val with
             | Some p1 -> set_cell_val dst p1
             | None -> ret ())
          | _ ->
            crash
              ('g'::('e'::('t'::('<'::('T'::('>'::(' '::('o'::('n'::(' '::('o'::('t'::('h'::('e'::('r'::(' '::('p'::('a'::('y'::('l'::('o'::('a'::('d'::[]))))))))))))))))))))))))
       | None ->
         crash
           ('n'::('u'::('l'::('l'::(' '::('p'::('a'::('y'::('l'::('o'::('a'::('d'::(' '::('d'::('e'::('r'::('e'::('f'::('e'::('r'::('e'::('n'::('c'::('e'::('d'::[]))))))))))))))))))))))))))
    | KStr ->
      (match v.r_val with
       | Some p0 ->
         (match p0 with
          | PStr _ ->
            (match v.r_val with
             | Some p1 -> set_cell_val dst p1
             | None -> ret ())
          | _ ->
            crash
              ('g'::('e'::('t'::('<'::('T'::('>'::(' '::('o'::('n'::(' '::('o'::('t'::('h'::('e'::('r'::(' '::('p'::('a'::('y'::('l'::('o'::('a'::('d'::[]))))))))))))))))))))))))
       | None ->
         crash
           ('n'::('u'::('l'::('l'::(' '::('p'::('a'::('y'::('l'::('o'::('a'::('d'::(' '::('d'::('e'::('r'::('e'::('f'::('e'::('r'::('e'::('n'::('c'::('e'::('d'::[]))))))))))))))))))))))))))
    | KDate ->
      (match v.r_val with
       | Some p0 ->
         (match p0 with
          | PDate (_, _, _) ->
            (match v.r_val with
             | Some p1 -> set_cell_val dst p1
             | None -> ret ())
          | _ ->
            crash
              ('g'::('e'::('t'::('<'::('T'::('>'::(' '::('o'::('n'::(' '::('o'::('t'::('h'::('e'::('r'::(' '::('p'::('a'::('y'::('l'::('o'::('a'::('d'::[]))))))))))))))))))))))))
       | None ->
         crash
           ('n'::('u'::('l'::('l'::(' '::('p'::('a'::('y'::('l'::('o'::('a'::('d'::(' '::('d'::('e'::('r'::('e'::('f'::('e'::('r'::('e'::('n'::('c'::('e'::('d'::[]))))))))))))))))))))))))))
    | KEnum ->
      (match v.r_val with
       | Some p0 ->
         (match p0 with
          | PEnum (tn, i) ->
            (match d.c_val with
             | PEnum (tn0, _) ->
               if str_eqb tn0 tn
               then set_cell_val dst (PEnum (tn0, i))
               else crash
                      ('u'::('s'::('e'::('r'::('T'::('y'::('p'::('e'::('.'::('c'::('p'::('p'::(' '::('E'::('n'::('u'::('m'::(':'::(':'::('o'::('p'::('e'::('r'::('a'::('t'::('o'::('r'::('='::(' '::('a'::('b'::('o'::('r'::('t'::[]))))))))))))))))))))))))))))))))))
             | _ ->
               crash
                 ('c'::('e'::('l'::('l'::(' '::('p'::('a'::('y'::('l'::('o'::('a'::('d'::(' '::('d'::('i'::('s'::('a'::('g'::('r'::('e'::('e'::('s'::(' '::('w'::('i'::('t'::('h'::(' '::('i'::('t'::('s'::(' '::('t'::('y'::('p'::('e'::[])))))))))))))))))))))))))))))))))))))
          | _ ->
            crash
              ('g'::('e'::('t'::('<'::('T'::('>'::(' '::('o'::('n'::(' '::('o'::('t'::('h'::('e'::('r'::(' '::('p'::('a'::('y'::('l'::('o'::('a'::('d'::[]))))))))))))))))))))))))
       | None ->
         crash
           ('n'::('u'::('l'::('l'::(' '::('p'::('a'::('y'::('l'::('o'::('a'::('d'::(' '::('d'::('e'::('r'::('e'::('f'::('e'::('r'::('e'::('n'::('c'::('e'::('d'::[]))))))))))))))))))))))))))
    | KPtr ->
      (match v.r_val with
       | Some p0 ->
         (match p0 with
          | PPtr (tn, t0, o) ->
            (match d.c_val with
             | PPtr (tn0, _, _) ->
               if str_eqb tn0 tn
               then set_cell_val dst (PPtr (tn0, t0, o))
               else crash
                      ('u'::('s'::('e'::('r'::('T'::('y'::('p'::('e'::('.'::('c'::('p'::('p'::(' '::('P'::('o'::('i'::('n'::('t'::('e'::('r'::(':'::(':'::('o'::('p'::('e'::('r'::('a'::('t'::('o'::('r'::('='::(' '::('a'::('b'::('o'::('r'::('t'::[])))))))))))))))))))))))))))))))))))))
             | _ ->
               crash
                 ('c'::('e'::('l'::('l'::(' '::('p'::('a'::('y'::('l'::('o'::('a'::('d'::(' '::('d'::('i'::('s'::('a'::('g'::('r'::('e'::('e'::('s'::(' '::('w'::('i'::('t'::('h'::(' '::('i'::('t'::('s'::(' '::('t'::('y'::('p'::('e'::[])))))))))))))))))))))))))))))))))))))
          | _ ->
            crash
              ('g'::('e'::('t'::('<'::('T'::('>'::(' '::('o'::('n'::(' '::('o'::('t'::('h'::('e'::('r'::(' '::('p'::('a'::('y'::('l'::('o'::('a'::('d'::[]))))))))))))))))))))))))
       | None ->
         crash
           ('n'::('u'::('l'::('l'::(' '::('p'::('a'::('y'::('l'::('o'::('a'::('d'::(' '::('d'::('e'::('r'::('e'::('f'::('e'::('r'::('e'::('n'::('c'::('e'::('d'::[]))))))))))))))))))))))))))
    | KRec ->
      (match v.r_val with
       | Some p0 ->
         (match p0 with
          | PRec (tn, sc) ->
            (match d.c_val with
             | PRec (tn0, dc) ->
               composite_assign (copy_var_data fuel) fuel tn0 dc tn sc
             | _ ->
               crash
                 ('c'::('e'::('l'::('l'::(' '::('p'::('a'::('y'::('l'::('o'::('a'::('d'::(' '::('d'::('i'::('s'::('a'::('g'::('r'::('e'::('e'::('s'::(' '::('w'::('i'::('t'::('h'::(' '::('i'::('t'::('s'::(' '::('t'::('y'::('p'::('e'::[])))))))))))))))))))))))))))))))))))))
          | _ ->
            crash
              ('g'::('e'::('t'::('<'::('T'::('>'::(' '::('o'::('n'::(' '::('o'::('t'::('h'::('e'::('r'::(' '::('p'::('a'::('y'::('l'::('o'::('a'::('d'::[]))))))))))))))))))))))))
       | None ->
         crash
           ('n'::('u'::('l'::('l'::(' '::('p'::('a'::('y'::('l'::('o'::('a'::('d'::(' '::('d'::('e'::('r'::('e'::('f'::('e'::('r'::('e'::('n'::('c'::('e'::('d'::[])))))))))))))))))))))))))))

(** val abs_val : nat -> n -> payload -> vtree m **)

let rec abs_val fuel c = function
| PInt z0 -> ret (VInt z0)
| PReal r -> ret (VReal r)
| PBool b -> ret (VBool b)
| PChar ch -> ret (VChar ch)
| PStr s -> ret (VStr s)
| PDate (d, m0, y) -> ret (VDate (d, m0, y))
| PEnum (tn, i) ->
  bind (lookup_enum_def c tn true) (fun d ->
    ret (VEnum (tn,
      (match d with
       | Some vals -> Z.of_nat (length vals)
       | None -> Z0), i)))
| PPtr (_, _, _) -> ret VPtr
| PRec (tn, rc) ->
  (match fuel with
   | O -> failm FFuel
   | S f ->
     bind (get_ctx rc) (fun cx ->
       bind
         (mapM (fun nv ->
           bind (get_cell (snd nv)) (fun cl -> abs_val f c cl.c_val))
           cx.x_vars) (fun fs ->
         bind
           (mapM (fun na ->
             bind (get_arr (snd na)) (fun a ->
               mapM (fun e ->
                 bind (get_cell e) (fun cl -> abs_val f c cl.c_val)) a.a_elems))
             cx.x_arrs) (fun ars -> ret (VRec (tn, fs, ars))))))

(** val store_tree : nat -> n -> vtree -> unit m **)

let rec store_tree fuel id t0 =
  match fuel with
  | O -> failm FFuel
  | S f ->
    bind (get_cell id) (fun cl ->
      match t0 with
      | VInt z0 ->
        (match cl.c_val with
         | PInt _ -> set_cell_val id (PInt z0)
         | _ ->
           crash
             ('l'::('o'::('a'::('d'::('e'::('d'::(' '::('v'::('a'::('l'::('u'::('e'::(' '::('o'::('f'::(' '::('a'::('n'::('o'::('t'::('h'::('e'::('r'::(' '::('c'::('l'::('a'::('s'::('s'::(' '::('t'::('h'::('a'::('n'::(' '::('t'::('h'::('e'::(' '::('o'::('b'::('j'::('e'::('c'::('t'::(' '::('r'::('e'::('a'::('d'::(' '::('i'::('n'::('t'::('o'::[]))))))))))))))))))))))))))))))))))))))))))))))))))))))))
      | VReal r ->
        (match cl.c_val with
         | PReal _ -> set_cell_val id (PReal r)
         | _ ->
           crash
             ('l'::('o'::('a'::('d'::('e'::('d'::(' '::('v'::('a'::('l'::('u'::('e'::(' '::('o'::('f'::(' '::('a'::('n'::('o'::('t'::('h'::('e'::('r'::(' '::('c'::('l'::('a'::('s'::('s'::(' '::('t'::('h'::('a'::('n'::(' '::('t'::('h'::('e'::(' '::('o'::('b'::('j'::('e'::('c'::('t'::(' '::('r'::('e'::('a'::('d'::(' '::('i'::('n'::('t'::('o'::[]))))))))))))))))))))))))))))))))))))))))))))))))))))))))
      | VBool b ->
        (match cl.c_val with
         | PBool _ -> set_cell_val id (PBool b)
         | _ ->
           crash
             ('l'::('o'::('a'::('d'::('e'::('d'::(' '::('v'::('a'::('l'::('u'::('e'::(' '::('o'::('f'::(' '::('a'::('n'::('o'::('t'::('h'::('e'::('r'::(' '::('c'::('l'::('a'::('s'::('s'::(' '::('t'::('h'::('a'::('n'::(' '::('t'::('h'::('e'::(' '::('o'::('b'::('j'::('e'::('c'::('t'::(' '::('r'::('e'::('a'::('d'::(' '::('i'::('n'::('t'::('o'::[]))))))))))))))))))))))))))))))))))))))))))))))))))))))))
      | VChar ch ->
        (match cl.c_val with
         | PChar _ -> set_cell_val id (PChar ch)
         | _ ->
           crash
             ('l'::('o'::('a'::('d'::('e'::('d'::(' '::('v'::('a'::('l'::('u'::('e'::(' '::('o'::('f'::(' '::('a'::('n'::('o'::('t'::('h'::('e'::('r'::(' '::('c'::('l'::('a'::('s'::('s'::(' '::('t'::('h'::('a'::('n'::(' '::('t'::('h'::('e'::(' '::('o'::('b'::('j'::('e'::('c'::('t'::(' '::('r'::('e'::('a'::('d'::(' '::('i'::('n'::('t'::('o'::[]))))))))))))))))))))))))))))))))))))))))))))))))))))))))
      | VStr s ->
        (match cl.c_val with
         | PStr _ -> set_cell_val id (PStr s)
         | _ ->
           crash
             ('l'::('o'::('a'::('d'::('e'::('d'::(' '::('v'::('a'::('l'::('u'::('e'::(' '::('o'::('f'::(' '::('a'::('n'::('o'::('t'::('h'::('e'::('r'::(' '::('c'::('l'::('a'::('s'::('s'::(' '::('t'::('h'::('a'::('n'::(' '::('t'::('h'::('e'::(' '::('o'::('b'::('j'::('e'::('c'::('t'::(' '::('r'::('e'::('a'::('d'::(' '::('i'::('n'::('t'::('o'::[]))))))))))))))))))))))))))))))))))))))))))))))))))))))))
      | VDate (d, m0, y) ->
        (match cl.c_val with
         | PDate (_, _, _) -> set_cell_val id (PDate (d, m0, y))
         | _ ->
           crash
             ('l'::('o'::('a'::('d'::('e'::('d'::(' '::('v'::('a'::('l'::('u'::('e'::(' '::('o'::('f'::(' '::('a'::('n'::('o'::('t'::('h'::('e'::('r'::(' '::('c'::('l'::('a'::('s'::('s'::(' '::('t'::('h'::('a'::('n'::(' '::('t'::('h'::('e'::(' '::('o'::('b'::('j'::('e'::('c'::('t'::(' '::('r'::('e'::('a'::('d'::(' '::('i'::('n'::('t'::('o'::[]))))))))))))))))))))))))))))))))))))))))))))))))))))))))
      | VEnum (tn, _, i) ->
        (match cl.c_val with
         | PEnum (tn0, _) ->
           if str_eqb tn tn0
           then set_cell_val id (PEnum (tn0, i))
           else crash
                  ('l'::('o'::('a'::('d'::('e'::('d'::(' '::('v'::('a'::('l'::('u'::('e'::(' '::('o'::('f'::(' '::('a'::('n'::('o'::('t'::('h'::('e'::('r'::(' '::('c'::('l'::('a'::('s'::('s'::(' '::('t'::('h'::('a'::('n'::(' '::('t'::('h'::('e'::(' '::('o'::('b'::('j'::('e'::('c'::('t'::(' '::('r'::('e'::('a'::('d'::(' '::('i'::('n'::('t'::('o'::[])))))))))))))))))))))))))))))))))))))))))))))))))))))))
         | _ ->
           crash
             ('l'::('o'::('a'::('d'::('e'::('d'::(' '::('v'::('a'::('l'::('u'::('e'::(' '::('o'::('f'::(' '::('a'::('n'::('o'::('t'::('h'::('e'::('r'::(' '::('c'::('l'::('a'::('s'::('s'::(' '::('t'::('h'::('a'::('n'::(' '::('t'::('h'::('e'::(' '::('o'::('b'::('j'::('e'::('c'::('t'::(' '::('r'::('e'::('a'::('d'::(' '::('i'::('n'::('t'::('o'::[]))))))))))))))))))))))))))))))))))))))))))))))))))))))))
      | VPtr -> ret ()
      | VRec (_, fs, ars) ->
        (match cl.c_val with
         | PRec (_, rc) ->
           bind (get_ctx rc) (fun cx ->
             bind (zipM (fun nv t' -> store_tree f (snd nv) t') cx.x_vars fs)
               (fun _ ->
               zipM (fun na ts ->
                 bind (get_arr (snd na)) (fun a ->
                   zipM (fun e t' -> store_tree f e t') a.a_elems ts))
                 cx.x_arrs ars))
         | _ ->
           crash
             ('l'::('o'::('a'::('d'::('e'::('d'::(' '::('v'::('a'::('l'::('u'::('e'::(' '::('o'::('f'::(' '::('a'::('n'::('o'::('t'::('h'::('e'::('r'::(' '::('c'::('l'::('a'::('s'::('s'::(' '::('t'::('h'::('a'::('n'::(' '::('t'::('h'::('e'::(' '::('o'::('b'::('j'::('e'::('c'::('t'::(' '::('r'::('e'::('a'::('d'::(' '::('i'::('n'::('t'::('o'::[])))))))))))))))))))))))))))))))))))))))))))))))))))))))))

(** val budget_error : token -> n -> 'a1 m **)

let budget_error t0 c =
  runtime_error_cls EBudget t0 c

(** val for_continues : z -> z -> z -> bool **)

let for_continues stepv i stop =
  if Z.ltb stepv Z0 then Z.leb stop i else Z.leb i stop

(** val run_body : unit m -> bool m **)

let run_body br =
  catch (bind br (fun _ -> ret true)) (fun fl ->
    match fl with
    | FBreak _ -> Some (ret false)
    | FContinue _ -> Some (ret true)
    | _ -> None)

(** val call_body : z -> n -> bool -> unit m -> unit m **)

let call_body d cc absorb_return m0 s =
  let (o, s') = m0 s in
  (match o with
   | Ok _ -> ((Ok ()), (set_depth d s'))
   | Fail fl ->
     (match fl with
      | FBreak bt -> rt_error bt cc (set_depth d s')
      | FContinue ct -> rt_error ct cc (set_depth d s')
      | FReturn ->
        if absorb_return
        then ((Ok ()), (set_depth d s'))
        else ((Fail FReturn), (set_depth d s'))
      | _ -> ((Fail fl), (set_depth d s'))))

(** val is_not_defined : ecls -> bool **)

let is_not_defined = function
| ENotDefined -> true
| _ -> false

(** val is_array_direct : n -> ecls -> bool **)

let is_array_direct c = function
| EArrayDirect c' -> N.eqb c' c
| _ -> false

(** val catch_cls : 'a1 m -> (ecls -> bool) -> (fail -> 'a1 m) -> 'a1 m **)

let catch_cls m0 want h =
  catch m0 (fun fl ->
    match fl with
    | FErr d -> if want d.d_cls then Some (h fl) else None
    | _ -> None)

(** val ped_guard : bool -> token -> unit m **)

let ped_guard pedantic t0 =
  if pedantic then pedantic_error t0 else ret ()

(** val eval_bounds :
    (node -> result m) -> n -> node list -> z -> dim list m **)

let rec eval_bounds ev c bs total =
  match bs with
  | [] -> ret []
  | lo :: l ->
    (match l with
     | [] -> ret []
     | hi :: rest0 ->
       bind (ev lo) (fun lr ->
         if negb (dk_eqb lr.r_type.dk KInt)
         then rt_error (node_token lo) c
         else bind (ev hi) (fun hr ->
                if negb (dk_eqb hr.r_type.dk KInt)
                then rt_error (node_token hi) c
                else bind (as_int lr) (fun l0 ->
                       bind (as_int hr) (fun h ->
                         if Z.ltb h l0
                         then rt_error (node_token hi) c
                         else let n0 =
                                Z.modulo (Z.add (Z.sub h l0) (Zpos XH)) two64
                              in
                              if (||) (Z.eqb n0 Z0)
                                   (Z.ltb (Z.div max_elements total) n0)
                              then rt_error (node_token hi) c
                              else bind
                                     (eval_bounds ev c rest0 (Z.mul total n0))
                                     (fun ds -> ret ((l0, h) :: ds)))))))

(** val eval_indices :
    (node -> result m) -> n -> node list -> dim list -> z list m **)

let rec eval_indices ev c es ds =
  match es with
  | [] -> ret []
  | e :: er ->
    (match ds with
     | [] -> ret []
     | d :: dr ->
       bind (ev e) (fun ir ->
         if negb (dk_eqb ir.r_type.dk KInt)
         then rt_error (node_token e) c
         else bind (as_int ir) (fun i ->
                if negb (valid_index d i)
                then rt_error (node_token e) c
                else bind (eval_indices ev c er dr) (fun rest0 ->
                       ret (i :: rest0)))))

(** val repeatM : nat -> 'a1 m -> 'a1 list m **)

let rec repeatM k m0 =
  match k with
  | O -> ret []
  | S k' ->
    bind m0 (fun x -> bind (repeatM k' m0) (fun rest0 -> ret (x :: rest0)))

(** val if_comp :
    (node -> result m) -> (node list -> unit m) -> (node option * node list)
    -> result m option * unit m **)

let if_comp ev rb p0 =
  ((match fst p0 with
    | Some e -> Some (ev e)
    | None -> None), (rb (snd p0)))

(** val tick : limits -> token -> n -> unit m **)

let tick lim t0 c =
  bind (gets (fun s -> s.s_steps)) (fun s ->
    if (&&) (Z.ltb Z0 lim.max_steps) (Z.ltb lim.max_steps (Z.add s (Zpos XH)))
    then budget_error t0 c
    else modify (set_steps (Z.add s (Zpos XH))))

(** val cond_bool : token -> n -> result m -> bool m **)

let cond_bool t0 c ce =
  bind ce (fun cr ->
    if negb (dk_eqb cr.r_type.dk KBool) then rt_error t0 c else as_bool cr)

(** val if_chain :
    token -> n -> (result m option * unit m) list -> result m **)

let rec if_chain t0 c = function
| [] -> ret res_none
| p0 :: rest0 ->
  let (o, b) = p0 in
  (match o with
   | Some ce ->
     bind (cond_bool t0 c ce) (fun v ->
       if v then bind b (fun _ -> ret res_none) else if_chain t0 c rest0)
   | None -> bind b (fun _ -> ret res_none))

(** val case_chain : (bool m * unit m) list -> result m **)

let rec case_chain = function
| [] -> ret res_none
| p0 :: rest0 ->
  let (m0, b) = p0 in
  bind m0 (fun v ->
    if v then bind b (fun _ -> ret res_none) else case_chain rest0)

(** val while_loop :
    limits -> nat -> token -> n -> result m -> unit m -> result m **)

let rec while_loop lim k t0 c ce br =
  match k with
  | O -> failm FFuel
  | S k' ->
    bind (tick lim t0 c) (fun _ ->
      bind (cond_bool t0 c ce) (fun v ->
        if negb v
        then ret res_none
        else bind (run_body br) (fun go_on ->
               if go_on then while_loop lim k' t0 c ce br else ret res_none)))

(** val repeat_loop :
    limits -> nat -> token -> n -> result m -> unit m -> result m **)

let rec repeat_loop lim k t0 c ce br =
  match k with
  | O -> failm FFuel
  | S k' ->
    bind (tick lim t0 c) (fun _ ->
      bind (run_body br) (fun go_on ->
        if negb go_on
        then ret res_none
        else bind (cond_bool t0 c ce) (fun v ->
               if v then ret res_none else repeat_loop lim k' t0 c ce br)))

(** val for_loop :
    limits -> nat -> token -> n -> n -> z -> z -> unit m -> result m **)

let rec for_loop lim k t0 c it stepv stop br =
  match k with
  | O -> failm FFuel
  | S k' ->
    bind (get_cell it) (fun cl ->
      match cl.c_val with
      | PInt i ->
        if for_continues stepv i stop
        then bind (tick lim t0 c) (fun _ ->
               bind (run_body br) (fun go_on ->
                 if negb go_on
                 then ret res_none
                 else bind (get_cell it) (fun cl' ->
                        match cl'.c_val with
                        | PInt j ->
                          bind
                            (set_cell_val it (PInt (wrap64 (Z.add j stepv))))
                            (fun _ -> for_loop lim k' t0 c it stepv stop br)
                        | _ ->
                          crash
                            ('c'::('e'::('l'::('l'::(' '::('p'::('a'::('y'::('l'::('o'::('a'::('d'::(' '::('d'::('i'::('s'::('a'::('g'::('r'::('e'::('e'::('s'::(' '::('w'::('i'::('t'::('h'::(' '::('i'::('t'::('s'::(' '::('t'::('y'::('p'::('e'::[])))))))))))))))))))))))))))))))))))))))
        else ret res_none
      | _ ->
        crash
          ('c'::('e'::('l'::('l'::(' '::('p'::('a'::('y'::('l'::('o'::('a'::('d'::(' '::('d'::('i'::('s'::('a'::('g'::('r'::('e'::('e'::('s'::(' '::('w'::('i'::('t'::('h'::(' '::('i'::('t'::('s'::(' '::('t'::('y'::('p'::('e'::[])))))))))))))))))))))))))))))))))))))

(** val os_name_ok : str -> bool **)

let os_name_ok n0 = match n0 with
| [] -> false
| _ :: _ ->
  (&&)
    ((&&)
      ((&&)
        (forallb (fun c -> (&&) (negb (aeqb c '/')) (negb (aeqb c ch_nul)))
          n0)
        (Z.leb (Z.of_nat (length n0)) (Zpos (XI (XI (XI (XI (XI (XI (XI
          XH)))))))))) (negb (str_eqb n0 (str_of_string ('.'::[])))))
    (negb (str_eqb n0 (str_of_string ('.'::('.'::[])))))

(** val fs_set : str -> str -> (str * str) list -> (str * str) list **)

let rec fs_set n0 v = function
| [] -> (n0, v) :: []
| p0 :: r ->
  let (k, x) = p0 in
  if str_eqb n0 k then (k, v) :: r else (k, x) :: (fs_set n0 v r)

(** val fs_get : str -> (str * str) list -> str option **)

let fs_get =
  assoc_str

(** val find_file : str -> ofile list -> ofile option **)

let rec find_file n0 = function
| [] -> None
| f :: r -> if str_eqb f.of_name n0 then Some f else find_file n0 r

(** val replace_file : ofile -> ofile list -> ofile list **)

let rec replace_file f = function
| [] -> []
| g :: r ->
  if str_eqb g.of_name f.of_name then f :: r else g :: (replace_file f r)

(** val remove_file : str -> ofile list -> ofile list **)

let rec remove_file n0 = function
| [] -> []
| g :: r -> if str_eqb g.of_name n0 then r else g :: (remove_file n0 r)

(** val close_file_effect : ofile -> unit m **)

let close_file_effect f =
  match f.of_mode with
  | FRandom ->
    if f.of_modified
    then modify (fun s ->
           set_fs (fs_set f.of_name (store_records f.of_recs) s.s_fs) s)
    else ret ()
  | _ -> ret ()

(** val create_file : str -> fmode -> bool m **)

let create_file name mode =
  if negb (os_name_ok name)
  then ret false
  else bind (gets (fun s -> s.s_fs)) (fun fs ->
         match fs_get name fs with
         | Some content ->
           (match mode with
            | FRead ->
              bind
                (modify (fun s ->
                  set_files
                    (app s.s_files ({ of_name = name; of_mode = FRead;
                      of_rest = content; of_recs = []; of_ptr = Z0;
                      of_modified = false } :: [])) s)) (fun _ -> ret true)
            | FWrite ->
              bind
                (modify (fun s ->
                  set_fs (fs_set name [] s.s_fs)
                    (set_files
                      (app s.s_files ({ of_name = name; of_mode = FWrite;
                        of_rest = []; of_recs = []; of_ptr = Z0;
                        of_modified = false } :: [])) s))) (fun _ -> 
                ret true)
            | FAppend ->
              bind
                (modify (fun s ->
                  set_files
                    (app s.s_files ({ of_name = name; of_mode = FAppend;
                      of_rest = []; of_recs = []; of_ptr = Z0; of_modified =
                      false } :: [])) s)) (fun _ -> ret true)
            | FRandom ->
              bind
                (modify (fun s ->
                  set_files
                    (app s.s_files ({ of_name = name; of_mode = FRandom;
                      of_rest = []; of_recs = (load_records content);
                      of_ptr = Z0; of_modified = false } :: [])) s))
                (fun _ -> ret true))
         | None ->
           (match mode with
            | FRead -> ret false
            | FAppend -> ret false
            | x ->
              bind
                (modify (fun s ->
                  set_fs (fs_set name [] s.s_fs)
                    (set_files
                      (app s.s_files ({ of_name = name; of_mode = x;
                        of_rest = []; of_recs = []; of_ptr = Z0;
                        of_modified = false } :: [])) s))) (fun _ -> 
                ret true)))

(** val update_file : ofile -> unit m **)

let update_file f =
  modify (fun s -> set_files (replace_file f s.s_files) s)

(** val file_read_line : ofile -> str * ofile **)

let file_read_line f =
  let go =
    let rec go s acc =
      match s with
      | [] -> ((rev acc), [])
      | c :: r -> if aeqb c ch_nl then ((rev acc), r) else go r (c :: acc)
    in go
  in
  let (l, r) = go f.of_rest [] in
  (l, { of_name = f.of_name; of_mode = f.of_mode; of_rest = r; of_recs =
  f.of_recs; of_ptr = f.of_ptr; of_modified = f.of_modified })

(** val set_nth_str : str list -> z -> str -> str list **)

let rec set_nth_str l i v =
  match l with
  | [] -> []
  | x :: r ->
    if Z.eqb i Z0 then v :: r else x :: (set_nth_str r (Z.sub i (Zpos XH)) v)

(** val rf_seek : ofile -> z -> ofile option **)

let rf_seek f addr =
  if (||) (Z.ltb addr (Zpos XH))
       (Z.ltb (Z.add (Z.of_nat (length f.of_recs)) (Zpos XH)) addr)
  then None
  else Some { of_name = f.of_name; of_mode = f.of_mode; of_rest = f.of_rest;
         of_recs = f.of_recs; of_ptr = (Z.sub addr (Zpos XH)); of_modified =
         f.of_modified }

(** val rf_put : ofile -> str -> ofile **)

let rf_put f txt =
  let n0 = Z.of_nat (length f.of_recs) in
  let recs' =
    if Z.eqb f.of_ptr n0
    then app f.of_recs (txt :: [])
    else set_nth_str f.of_recs f.of_ptr txt
  in
  { of_name = f.of_name; of_mode = f.of_mode; of_rest = f.of_rest; of_recs =
  recs'; of_ptr = f.of_ptr; of_modified = true }

(** val rf_get : ofile -> str option **)

let rf_get f =
  nth_z f.of_recs f.of_ptr

(** val is_leap : z -> bool **)

let is_leap y =
  (||)
    ((&&) (Z.eqb (Z.modulo y (Zpos (XO (XO XH)))) Z0)
      (negb (Z.eqb (Z.modulo y (Zpos (XO (XO (XI (XO (XO (XI XH)))))))) Z0)))
    (Z.eqb (Z.modulo y (Zpos (XO (XO (XO (XO (XI (XO (XO (XI XH)))))))))) Z0)

(** val days_in_month : z -> z -> z **)

let days_in_month y m0 =
  if Z.eqb m0 (Zpos (XO XH))
  then if is_leap y
       then Zpos (XI (XO (XI (XI XH))))
       else Zpos (XO (XO (XI (XI XH))))
  else if (||)
            ((||)
              ((||) (Z.eqb m0 (Zpos (XO (XO XH))))
                (Z.eqb m0 (Zpos (XO (XI XH)))))
              (Z.eqb m0 (Zpos (XI (XO (XO XH))))))
            (Z.eqb m0 (Zpos (XI (XI (XO XH)))))
       then Zpos (XO (XI (XI (XI XH))))
       else Zpos (XI (XI (XI (XI XH))))

(** val ymd_ok : z -> z -> z -> bool **)

let ymd_ok d m0 y =
  (&&)
    ((&&)
      ((&&)
        ((&&)
          ((&&)
            (Z.leb (Zneg (XI (XI (XI (XI (XI (XI (XI (XI (XI (XI (XI (XI (XI
              (XI XH))))))))))))))) y)
            (Z.leb y (Zpos (XI (XI (XI (XI (XI (XI (XI (XI (XI (XI (XI (XI
              (XI (XI XH))))))))))))))))) (Z.leb (Zpos XH) m0))
        (Z.leb m0 (Zpos (XO (XO (XI XH)))))) (Z.leb (Zpos XH) d))
    (Z.leb d (days_in_month y m0))

(** val date_literal_components : z -> z -> z -> (z * z) * z **)

let date_literal_components d m0 y =
  if (||)
       ((||) (Z.ltb (Zpos (XI (XI (XI (XI XH))))) d)
         (Z.ltb (Zpos (XO (XO (XI XH)))) m0))
       (Z.ltb (Zpos (XI (XI (XI (XI (XI (XI (XI (XI (XI (XI (XI (XI (XI (XI
         XH))))))))))))))) y)
  then ((Z0, Z0), Z0)
  else ((d, m0), y)

(** val setdate_in_range : z -> z -> z -> bool **)

let setdate_in_range d m0 y =
  (&&)
    ((&&)
      ((&&)
        ((&&)
          ((&&) (Z.leb (Zpos XH) d) (Z.leb d (Zpos (XI (XI (XI (XI XH)))))))
          (Z.leb (Zpos XH) m0)) (Z.leb m0 (Zpos (XO (XO (XI XH))))))
      (Z.leb (Zneg (XI (XI (XI (XI (XI (XI (XI (XI (XI (XI (XI (XI (XI (XI
        XH))))))))))))))) y))
    (Z.leb y (Zpos (XI (XI (XI (XI (XI (XI (XI (XI (XI (XI (XI (XI (XI (XI
      XH))))))))))))))))

(** val setdate : z -> z -> z -> ((z * z) * z) option **)

let setdate d m0 y =
  if (&&) (setdate_in_range d m0 y) (ymd_ok d m0 y)
  then Some ((d, m0), y)
  else None

(** val date_key : z -> z -> z -> z **)

let date_key d m0 y =
  Z.add
    (Z.add (Z.mul y (Zpos (XO (XO (XI (XO (XI (XI (XI (XO XH))))))))))
      (Z.mul m0 (Zpos (XI (XI (XI (XI XH))))))) d

(** val days_from_civil : z -> z -> z -> z **)

let days_from_civil d m0 y =
  let y' = if Z.leb m0 (Zpos (XO XH)) then Z.sub y (Zpos XH) else y in
  let era = Z.div y' (Zpos (XO (XO (XO (XO (XI (XO (XO (XI XH))))))))) in
  let yoe =
    Z.sub y' (Z.mul era (Zpos (XO (XO (XO (XO (XI (XO (XO (XI XH))))))))))
  in
  let mp =
    if Z.ltb (Zpos (XO XH)) m0
    then Z.sub m0 (Zpos (XI XH))
    else Z.add m0 (Zpos (XI (XO (XO XH))))
  in
  let doy =
    Z.sub
      (Z.add
        (Z.div
          (Z.add (Z.mul (Zpos (XI (XO (XO (XI (XI (XO (XO XH)))))))) mp)
            (Zpos (XO XH))) (Zpos (XI (XO XH)))) d) (Zpos XH)
  in
  let doe =
    Z.add
      (Z.sub
        (Z.add (Z.mul yoe (Zpos (XI (XO (XI (XI (XO (XI (XI (XO XH))))))))))
          (Z.div yoe (Zpos (XO (XO XH)))))
        (Z.div yoe (Zpos (XO (XO (XI (XO (XO (XI XH))))))))) doy
  in
  Z.sub
    (Z.add
      (Z.mul era (Zpos (XI (XO (XO (XO (XI (XI (XO (XI (XO (XI (XO (XI (XI
        (XI (XO (XO (XO XH))))))))))))))))))) doe) (Zpos (XO (XO (XI (XI (XO
    (XI (XI (XO (XO (XI (XO (XI (XI (XI (XI (XI (XO (XI (XO
    XH))))))))))))))))))))

(** val day_index : z -> z -> z -> z **)

let day_index d m0 y =
  Z.add
    (Z.modulo (Z.add (days_from_civil d m0 y) (Zpos (XO (XO XH)))) (Zpos (XI
      (XI XH)))) (Zpos XH)

(** val enum_arith : bool -> z -> z -> z -> z **)

let enum_arith plus left right n0 =
  let l = Z.rem left n0 in
  let r = Z.rem right n0 in
  let res = Z.rem (if plus then Z.add l r else Z.sub l r) n0 in
  if Z.ltb res Z0 then Z.add res n0 else res

(** val slen : str -> z **)

let slen s =
  Z.of_nat (length s)

(** val bi_left : str -> z -> str option **)

let bi_left s n0 =
  if Z.ltb n0 Z0
  then None
  else if Z.ltb (slen s) n0 then None else Some (firstn (Z.to_nat n0) s)

(** val bi_right : str -> z -> str option **)

let bi_right s n0 =
  if Z.ltb n0 Z0
  then None
  else if Z.ltb (slen s) n0
       then None
       else Some (skipn (Z.to_nat (Z.sub (slen s) n0)) s)

(** val bi_mid : str -> z -> z -> str option **)

let bi_mid s x y =
  let x0 = Z.sub x (Zpos XH) in
  if Z.ltb x0 Z0
  then None
  else if Z.leb (slen s) x0
       then None
       else if Z.ltb y Z0
            then None
            else if Z.ltb (slen s) (Z.add y x0)
                 then None
                 else Some (firstn (Z.to_nat y) (skipn (Z.to_nat x0) s))

(** val bi_to_upper : str -> str **)

let bi_to_upper s =
  map to_upper s

(** val bi_to_lower : str -> str **)

let bi_to_lower s =
  map to_lower s

(** val bi_asc : char -> z **)

let bi_asc =
  schar_of_ascii

(** val bi_chr : z -> char **)

let bi_chr =
  ascii_of_z

(** val is_num_aux : str -> bool -> bool **)

let rec is_num_aux s decimal =
  match s with
  | [] -> true
  | c :: r ->
    if aeqb c '.'
    then if decimal then false else is_num_aux r true
    else if is_digit c then is_num_aux r decimal else false

(** val bi_is_num : str -> bool **)

let bi_is_num s =
  is_num_aux s false

(** val bi_int : real -> z **)

let bi_int x =
  real_to_int64 (rfloor x)

(** val rand_max : z **)

let rand_max =
  Zpos (XI (XI (XI (XI (XI (XI (XI (XI (XI (XI (XI (XI (XI (XI (XI (XI (XI
    (XI (XI (XI (XI (XI (XI (XI (XI (XI (XI (XI (XI (XI
    XH))))))))))))))))))))))))))))))

(** val bi_rand : z -> z -> z -> real **)

let bi_rand x r1 r2 =
  if Z.ltb Z0 x
  then radd (real_of_z (Z.rem r1 x))
         (rdiv (real_of_z r2) (real_of_z rand_max))
  else rzero

(** val alloc_cells : limits -> z -> n -> unit m **)

let alloc_cells lim n0 c =
  bind (gets (fun s -> s.s_cellcount)) (fun k ->
    if (&&) (Z.ltb Z0 lim.max_cells)
         ((||) (Z.ltb lim.max_cells n0) (Z.ltb lim.max_cells (Z.add k n0)))
    then budget_error err_token c
    else if Z.ltb Z0 lim.max_cells
         then modify (set_cellcount (Z.add k n0))
         else ret ())

(** val check_strlen : limits -> z -> token -> n -> unit m **)

let check_strlen lim n0 t0 c =
  if (&&) (Z.ltb Z0 lim.max_strlen) (Z.ltb lim.max_strlen n0)
  then budget_error t0 c
  else ret ()

(** val is_numeric : dtype -> bool **)

let is_numeric t0 =
  (||) (dt_is t0 KInt) (dt_is t0 KReal)

(** val implicit_cast : dtype -> result -> result m **)

let implicit_cast target r =
  if (&&) (dt_is target KReal) (dt_is r.r_type KInt)
  then bind (as_int r) (fun z0 -> ret (res_of KReal (PReal (real_of_z z0))))
  else if (&&) (dt_is target KChar) (dt_is r.r_type KStr)
       then bind (as_str r) (fun s ->
              match s with
              | [] -> ret r
              | c :: l ->
                (match l with
                 | [] -> ret (res_of KChar (PChar c))
                 | _ :: _ -> ret r))
       else if (&&) (dt_is target KStr) (dt_is r.r_type KChar)
            then bind (as_char r) (fun c ->
                   ret (res_of KStr (PStr (c :: []))))
            else ret r

(** val num_as_real : result -> real m **)

let num_as_real r =
  if dt_is r.r_type KReal
  then as_real r
  else bind (as_int r) (fun z0 -> ret (real_of_z z0))

(** val date_to_str : z -> z -> z -> str **)

let date_to_str d m0 y =
  app (z_to_str d) ('/' :: (app (z_to_str m0) ('/' :: (z_to_str y))))

(** val prim_to_string : payload -> str m **)

let prim_to_string = function
| PInt z0 -> ret (z_to_str z0)
| PReal r ->
  (match real_to_string r with
   | Some s -> ret s
   | None ->
     unsupported ('N'::('a'::('N'::(' '::('t'::('e'::('x'::('t'::[])))))))))
| PBool b ->
  ret
    (str_of_string
      (if b
       then 'T'::('R'::('U'::('E'::[])))
       else 'F'::('A'::('L'::('S'::('E'::[]))))))
| PChar c -> ret (c :: [])
| PStr s -> ret s
| PDate (d, m0, y) -> ret (date_to_str d m0 y)
| _ ->
  crash
    ('s'::('t'::('a'::('t'::('i'::('c'::('_'::('c'::('a'::('s'::('t'::('<'::('P'::('r'::('i'::('m'::('i'::('t'::('i'::('v'::('e'::('*'::('>'::(' '::('o'::('n'::(' '::('a'::(' '::('c'::('u'::('s'::('t'::('o'::('m'::(' '::('v'::('a'::('l'::('u'::('e'::[])))))))))))))))))))))))))))))))))))))))))

(** val real_to_char : real -> char **)

let real_to_char r = match r with
| S754_finite (_, _, _) ->
  let v = real_to_int64 r in
  if (&&)
       (Z.leb (Zneg (XO (XO (XO (XO (XO (XO (XO (XO (XO (XO (XO (XO (XO (XO
         (XO (XO (XO (XO (XO (XO (XO (XO (XO (XO (XO (XO (XO (XO (XO (XO (XO
         XH)))))))))))))))))))))))))))))))) v)
       (Z.leb v (Zpos (XI (XI (XI (XI (XI (XI (XI (XI (XI (XI (XI (XI (XI (XI
         (XI (XI (XI (XI (XI (XI (XI (XI (XI (XI (XI (XI (XI (XI (XI (XI
         XH))))))))))))))))))))))))))))))))
  then ascii_of_z v
  else ch_nul
| _ -> ch_nul

(** val cast_prim : token -> n -> payload -> dkind -> payload m **)

let cast_prim t0 c p0 = function
| KNone ->
  crash
    ('c'::('a'::('s'::('t'::('.'::('c'::('p'::('p'::(' '::('N'::('O'::('N'::('E'::(' '::('a'::('b'::('o'::('r'::('t'::[])))))))))))))))))))
| KInt ->
  (match p0 with
   | PInt z0 -> ret (PInt z0)
   | PReal r -> ret (PInt (real_to_int64 r))
   | PBool b -> ret (PInt (if b then Zpos XH else Z0))
   | PChar ch -> ret (PInt (schar_of_ascii ch))
   | PStr s -> ret (PInt (string_to_int s))
   | PDate (d, m0, y) -> ret (PInt (date_key d m0 y))
   | _ ->
     crash
       ('s'::('t'::('a'::('t'::('i'::('c'::('_'::('c'::('a'::('s'::('t'::('<'::('P'::('r'::('i'::('m'::('i'::('t'::('i'::('v'::('e'::('*'::('>'::(' '::('o'::('n'::(' '::('a'::(' '::('c'::('u'::('s'::('t'::('o'::('m'::(' '::('v'::('a'::('l'::('u'::('e'::[]))))))))))))))))))))))))))))))))))))))))))
| KReal ->
  (match p0 with
   | PInt z0 -> ret (PReal (real_of_z z0))
   | PReal r -> ret (PReal r)
   | PBool b -> ret (PReal (real_of_z (if b then Zpos XH else Z0)))
   | PChar ch -> ret (PReal (real_of_z (schar_of_ascii ch)))
   | PStr s -> ret (PReal (string_to_real s))
   | PDate (_, _, _) ->
     crash
       ('d'::('a'::('t'::('e'::('.'::('c'::('p'::('p'::(' '::('D'::('a'::('t'::('e'::(':'::(':'::('t'::('o'::('R'::('e'::('a'::('l'::('/'::('t'::('o'::('B'::('o'::('o'::('l'::('e'::('a'::('n'::('/'::('t'::('o'::('C'::('h'::('a'::('r'::(' '::('a'::('b'::('o'::('r'::('t'::[]))))))))))))))))))))))))))))))))))))))))))))
   | _ ->
     crash
       ('s'::('t'::('a'::('t'::('i'::('c'::('_'::('c'::('a'::('s'::('t'::('<'::('P'::('r'::('i'::('m'::('i'::('t'::('i'::('v'::('e'::('*'::('>'::(' '::('o'::('n'::(' '::('a'::(' '::('c'::('u'::('s'::('t'::('o'::('m'::(' '::('v'::('a'::('l'::('u'::('e'::[]))))))))))))))))))))))))))))))))))))))))))
| KBool ->
  (match p0 with
   | PInt z0 -> ret (PBool (negb (Z.eqb z0 Z0)))
   | PReal r -> ret (PBool (negb (is_rzero r)))
   | PBool b -> ret (PBool b)
   | PChar ch -> ret (PBool (negb (aeqb ch ch_nul)))
   | PStr s -> ret (PBool (match s with
                           | [] -> false
                           | _ :: _ -> true))
   | PDate (_, _, _) ->
     crash
       ('d'::('a'::('t'::('e'::('.'::('c'::('p'::('p'::(' '::('D'::('a'::('t'::('e'::(':'::(':'::('t'::('o'::('R'::('e'::('a'::('l'::('/'::('t'::('o'::('B'::('o'::('o'::('l'::('e'::('a'::('n'::('/'::('t'::('o'::('C'::('h'::('a'::('r'::(' '::('a'::('b'::('o'::('r'::('t'::[]))))))))))))))))))))))))))))))))))))))))))))
   | _ ->
     crash
       ('s'::('t'::('a'::('t'::('i'::('c'::('_'::('c'::('a'::('s'::('t'::('<'::('P'::('r'::('i'::('m'::('i'::('t'::('i'::('v'::('e'::('*'::('>'::(' '::('o'::('n'::(' '::('a'::(' '::('c'::('u'::('s'::('t'::('o'::('m'::(' '::('v'::('a'::('l'::('u'::('e'::[]))))))))))))))))))))))))))))))))))))))))))
| KChar ->
  (match p0 with
   | PInt z0 -> ret (PChar (ascii_of_z z0))
   | PReal r -> ret (PChar (real_to_char r))
   | PBool b -> ret (PChar (ascii_of_z (if b then Zpos XH else Z0)))
   | PChar ch -> ret (PChar ch)
   | PStr _ -> ret (PChar ch_nul)
   | PDate (_, _, _) ->
     crash
       ('d'::('a'::('t'::('e'::('.'::('c'::('p'::('p'::(' '::('D'::('a'::('t'::('e'::(':'::(':'::('t'::('o'::('R'::('e'::('a'::('l'::('/'::('t'::('o'::('B'::('o'::('o'::('l'::('e'::('a'::('n'::('/'::('t'::('o'::('C'::('h'::('a'::('r'::(' '::('a'::('b'::('o'::('r'::('t'::[]))))))))))))))))))))))))))))))))))))))))))))
   | _ ->
     crash
       ('s'::('t'::('a'::('t'::('i'::('c'::('_'::('c'::('a'::('s'::('t'::('<'::('P'::('r'::('i'::('m'::('i'::('t'::('i'::('v'::('e'::('*'::('>'::(' '::('o'::('n'::(' '::('a'::(' '::('c'::('u'::('s'::('t'::('o'::('m'::(' '::('v'::('a'::('l'::('u'::('e'::[]))))))))))))))))))))))))))))))))))))))))))
| KStr -> bind (prim_to_string p0) (fun s -> ret (PStr s))
| _ -> rt_error t0 c

(** val arith_int : ttype -> z -> z -> z **)

let arith_int op a b =
  match op with
  | TPLUS -> wrap64 (Z.add a b)
  | TMINUS -> wrap64 (Z.sub a b)
  | TSTAR -> wrap64 (Z.mul a b)
  | TDIV -> if Z.eqb b (Zneg XH) then wrap64 (Z.opp a) else Z.quot a b
  | TMOD -> if Z.eqb b (Zneg XH) then Z0 else Z.rem a b
  | _ -> Z0

(** val mod_real : real -> real -> real **)

let mod_real x y =
  let z0 = rdiv x y in rmul (rsub z0 (rfloor z0)) y

(** val eval_arith : token -> n -> result -> result -> result m **)

let eval_arith t0 c lr0 rr0 =
  let swap = (&&) (dt_is lr0.r_type KInt) (dt_is rr0.r_type KEnum) in
  let lr = if swap then rr0 else lr0 in
  let rr = if swap then lr0 else rr0 in
  if (&&) ((&&) (dt_is lr.r_type KEnum) (dt_is rr.r_type KInt))
       ((||) (tt_eqb t0.tt TPLUS) (tt_eqb t0.tt TMINUS))
  then bind (as_payload lr) (fun p0 ->
         bind (as_int rr) (fun k ->
           match p0 with
           | PEnum (tn, idx) ->
             bind (lookup_enum_def c tn true) (fun d ->
               match d with
               | Some vals ->
                 let n0 = Z.of_nat (length vals) in
                 if Z.eqb n0 Z0
                 then crash
                        ('e'::('n'::('u'::('m'::(' '::('a'::('r'::('i'::('t'::('h'::('m'::('e'::('t'::('i'::('c'::(':'::(' '::('r'::('e'::('m'::('a'::('i'::('n'::('d'::('e'::('r'::(' '::('b'::('y'::(' '::('z'::('e'::('r'::('o'::[]))))))))))))))))))))))))))))))))))
                 else if swap
                      then ret { r_type = { dk = KEnum; dname = (Some tn) };
                             r_val = (Some (PEnum (tn,
                             (enum_arith (tt_eqb t0.tt TPLUS) k idx n0)))) }
                      else ret { r_type = { dk = KEnum; dname = (Some tn) };
                             r_val = (Some (PEnum (tn,
                             (enum_arith (tt_eqb t0.tt TPLUS) idx k n0)))) }
               | None ->
                 crash
                   ('u'::('s'::('e'::('r'::('T'::('y'::('p'::('e'::('.'::('c'::('p'::('p'::(' '::('E'::('n'::('u'::('m'::(':'::(':'::('g'::('e'::('t'::('D'::('e'::('f'::('i'::('n'::('i'::('t'::('i'::('o'::('n'::(' '::('n'::('u'::('l'::('l'::[]))))))))))))))))))))))))))))))))))))))
           | _ ->
             crash
               ('g'::('e'::('t'::('<'::('E'::('n'::('u'::('m'::('>'::(' '::('o'::('n'::(' '::('o'::('t'::('h'::('e'::('r'::(' '::('p'::('a'::('y'::('l'::('o'::('a'::('d'::[]))))))))))))))))))))))))))))
  else if (||) (negb (is_numeric lr.r_type)) (negb (is_numeric rr.r_type))
       then rt_error t0 c
       else if (&&) (dt_is lr.r_type KInt) (dt_is rr.r_type KInt)
            then bind (as_int lr) (fun a ->
                   bind (as_int rr) (fun b ->
                     match t0.tt with
                     | TPLUS -> ret (res_of KInt (PInt (arith_int t0.tt a b)))
                     | TMINUS ->
                       ret (res_of KInt (PInt (arith_int t0.tt a b)))
                     | TSTAR -> ret (res_of KInt (PInt (arith_int t0.tt a b)))
                     | TSLASH ->
                       if Z.eqb b Z0
                       then rt_error t0 c
                       else ret
                              (res_of KReal (PReal
                                (rdiv (real_of_z a) (real_of_z b))))
                     | TDIV ->
                       if Z.eqb b Z0
                       then rt_error t0 c
                       else ret (res_of KInt (PInt (arith_int t0.tt a b)))
                     | TMOD ->
                       if Z.eqb b Z0
                       then rt_error t0 c
                       else ret (res_of KInt (PInt (arith_int t0.tt a b)))
                     | _ ->
                       crash
                         ('a'::('r'::('i'::('t'::('h'::('m'::('e'::('t'::('i'::('c'::('.'::('c'::('p'::('p'::(' '::('o'::('p'::('e'::('r'::('a'::('t'::('o'::('r'::(' '::('a'::('b'::('o'::('r'::('t'::[])))))))))))))))))))))))))))))))
            else bind (num_as_real lr) (fun a ->
                   bind (num_as_real rr) (fun b ->
                     match t0.tt with
                     | TPLUS -> ret (res_of KReal (PReal (radd a b)))
                     | TMINUS -> ret (res_of KReal (PReal (rsub a b)))
                     | TSTAR -> ret (res_of KReal (PReal (rmul a b)))
                     | TSLASH ->
                       if is_rzero b
                       then rt_error t0 c
                       else ret (res_of KReal (PReal (rdiv a b)))
                     | TDIV ->
                       if is_rzero b
                       then rt_error t0 c
                       else ret
                              (res_of KInt (PInt
                                (real_to_int64 (rfloor (rdiv a b)))))
                     | TMOD ->
                       if is_rzero b
                       then rt_error t0 c
                       else ret (res_of KReal (PReal (mod_real a b)))
                     | _ ->
                       crash
                         ('a'::('r'::('i'::('t'::('h'::('m'::('e'::('t'::('i'::('c'::('.'::('c'::('p'::('p'::(' '::('o'::('p'::('e'::('r'::('a'::('t'::('o'::('r'::(' '::('a'::('b'::('o'::('r'::('t'::[])))))))))))))))))))))))))))))))

(** val eval_cmp : token -> n -> result -> result -> result m **)

let eval_cmp t0 c lr0 rr0 =
  bind
    (if (&&) (dt_is lr0.r_type KChar) (dt_is rr0.r_type KChar)
     then bind (as_char lr0) (fun a ->
            bind (as_char rr0) (fun b ->
              ret ((res_of KInt (PInt (schar_of_ascii a))),
                (res_of KInt (PInt (schar_of_ascii b))))))
     else if (&&) (dt_is lr0.r_type KDate) (dt_is rr0.r_type KDate)
          then bind (as_payload lr0) (fun a ->
                 bind (as_payload rr0) (fun b ->
                   match a with
                   | PDate (d1, m1, y1) ->
                     (match b with
                      | PDate (d2, m2, y2) ->
                        ret ((res_of KInt (PInt (date_key d1 m1 y1))),
                          (res_of KInt (PInt (date_key d2 m2 y2))))
                      | _ ->
                        crash
                          ('g'::('e'::('t'::('<'::('D'::('a'::('t'::('e'::('>'::(' '::('o'::('n'::(' '::('o'::('t'::('h'::('e'::('r'::(' '::('p'::('a'::('y'::('l'::('o'::('a'::('d'::[])))))))))))))))))))))))))))
                   | _ ->
                     crash
                       ('g'::('e'::('t'::('<'::('D'::('a'::('t'::('e'::('>'::(' '::('o'::('n'::(' '::('o'::('t'::('h'::('e'::('r'::(' '::('p'::('a'::('y'::('l'::('o'::('a'::('d'::[]))))))))))))))))))))))))))))
          else ret (lr0, rr0)) (fun x ->
    let (lr, rr) = x in
    if (||) (negb (is_numeric lr.r_type)) (negb (is_numeric rr.r_type))
    then let eq = tt_eqb t0.tt TEQUALS in
         if (&&) (negb eq) (negb (tt_eqb t0.tt TNOT_EQUALS))
         then rt_error t0 c
         else if negb (dt_eq lr.r_type rr.r_type)
              then ret (res_of KBool (PBool (negb eq)))
              else let fin = fun ceq ->
                     ret (res_of KBool (PBool (if eq then ceq else negb ceq)))
                   in
                   (match lr.r_type.dk with
                    | KBool ->
                      bind (as_bool lr) (fun a ->
                        bind (as_bool rr) (fun b -> fin (eqb a b)))
                    | KStr ->
                      bind (as_str lr) (fun a ->
                        bind (as_str rr) (fun b -> fin (str_eqb a b)))
                    | KEnum ->
                      bind (as_payload lr) (fun a ->
                        bind (as_payload rr) (fun b ->
                          match a with
                          | PEnum (_, i) ->
                            (match b with
                             | PEnum (_, j) -> fin (Z.eqb i j)
                             | _ ->
                               crash
                                 ('g'::('e'::('t'::('<'::('E'::('n'::('u'::('m'::('>'::(' '::('o'::('n'::(' '::('o'::('t'::('h'::('e'::('r'::(' '::('p'::('a'::('y'::('l'::('o'::('a'::('d'::[])))))))))))))))))))))))))))
                          | _ ->
                            crash
                              ('g'::('e'::('t'::('<'::('E'::('n'::('u'::('m'::('>'::(' '::('o'::('n'::(' '::('o'::('t'::('h'::('e'::('r'::(' '::('p'::('a'::('y'::('l'::('o'::('a'::('d'::[]))))))))))))))))))))))))))))
                    | _ -> rt_error t0 c)
    else if (&&) (dt_is lr.r_type KInt) (dt_is rr.r_type KInt)
         then bind (as_int lr) (fun a ->
                bind (as_int rr) (fun b ->
                  match t0.tt with
                  | TEQUALS -> ret (res_of KBool (PBool (Z.eqb a b)))
                  | TNOT_EQUALS ->
                    ret (res_of KBool (PBool (negb (Z.eqb a b))))
                  | TGREATER -> ret (res_of KBool (PBool (Z.ltb b a)))
                  | TLESSER -> ret (res_of KBool (PBool (Z.ltb a b)))
                  | TGREATER_EQUAL -> ret (res_of KBool (PBool (Z.leb b a)))
                  | TLESSER_EQUAL -> ret (res_of KBool (PBool (Z.leb a b)))
                  | _ ->
                    crash
                      ('c'::('o'::('m'::('p'::('a'::('r'::('i'::('s'::('o'::('n'::('.'::('c'::('p'::('p'::(' '::('o'::('p'::('e'::('r'::('a'::('t'::('o'::('r'::(' '::('a'::('b'::('o'::('r'::('t'::[])))))))))))))))))))))))))))))))
         else bind (num_as_real lr) (fun a ->
                bind (num_as_real rr) (fun b ->
                  match t0.tt with
                  | TEQUALS -> ret (res_of KBool (PBool (req a b)))
                  | TNOT_EQUALS -> ret (res_of KBool (PBool (rne a b)))
                  | TGREATER -> ret (res_of KBool (PBool (rgt a b)))
                  | TLESSER -> ret (res_of KBool (PBool (rlt a b)))
                  | TGREATER_EQUAL -> ret (res_of KBool (PBool (rge a b)))
                  | TLESSER_EQUAL -> ret (res_of KBool (PBool (rle a b)))
                  | _ ->
                    crash
                      ('c'::('o'::('m'::('p'::('a'::('r'::('i'::('s'::('o'::('n'::('.'::('c'::('p'::('p'::(' '::('o'::('p'::('e'::('r'::('a'::('t'::('o'::('r'::(' '::('a'::('b'::('o'::('r'::('t'::[]))))))))))))))))))))))))))))))))

(** val read_line : (str * bool) m **)

let read_line =
  bind (gets (fun s -> s.s_in)) (fun inp ->
    let go =
      let rec go s acc =
        match s with
        | [] -> (((rev acc), []), true)
        | c :: r ->
          if aeqb c ch_nl then (((rev acc), r), false) else go r (c :: acc)
      in go
    in
    let (p0, eof) = go inp [] in
    let (l, r) = p0 in bind (modify (set_in r)) (fun _ -> ret (l, eof)))

(** val enum_name : n -> str -> z -> str m **)

let enum_name c tn idx =
  bind (lookup_enum_def c tn true) (fun d ->
    match d with
    | Some vals ->
      (match nth_z vals idx with
       | Some v -> ret v
       | None ->
         crash
           ('e'::('n'::('u'::('m'::(' '::('v'::('a'::('l'::('u'::('e'::(' '::('i'::('n'::('d'::('e'::('x'::(' '::('o'::('u'::('t'::(' '::('o'::('f'::(' '::('r'::('a'::('n'::('g'::('e'::[]))))))))))))))))))))))))))))))
    | None ->
      crash
        ('u'::('s'::('e'::('r'::('T'::('y'::('p'::('e'::('.'::('c'::('p'::('p'::(' '::('E'::('n'::('u'::('m'::(':'::(':'::('g'::('e'::('t'::('D'::('e'::('f'::('i'::('n'::('i'::('t'::('i'::('o'::('n'::(' '::('n'::('u'::('l'::('l'::[]))))))))))))))))))))))))))))))))))))))

(** val output_item : n -> token -> result -> unit m **)

let output_item c t0 r =
  match r.r_type.dk with
  | KNone -> rt_error t0 c
  | KInt -> bind (as_int r) (fun z0 -> emit (z_to_str z0))
  | KReal ->
    bind (as_real r) (fun x ->
      match real_output x with
      | Some s -> emit s
      | None ->
        unsupported ('N'::('a'::('N'::(' '::('t'::('e'::('x'::('t'::[])))))))))
  | KBool ->
    bind (as_bool r) (fun b ->
      emit
        (str_of_string
          (if b
           then 'T'::('R'::('U'::('E'::[])))
           else 'F'::('A'::('L'::('S'::('E'::[])))))))
  | KChar -> bind (as_char r) (fun ch -> emit (ch :: []))
  | KStr -> bind (as_str r) emit
  | KDate ->
    bind (as_payload r) (fun p0 ->
      match p0 with
      | PDate (d, m0, y) -> emit (date_to_str d m0 y)
      | _ ->
        crash
          ('g'::('e'::('t'::('<'::('D'::('a'::('t'::('e'::('>'::(' '::('o'::('n'::(' '::('o'::('t'::('h'::('e'::('r'::(' '::('p'::('a'::('y'::('l'::('o'::('a'::('d'::[])))))))))))))))))))))))))))
  | KEnum ->
    bind (as_payload r) (fun p0 ->
      match p0 with
      | PEnum (tn, i) -> bind (enum_name c tn i) emit
      | _ ->
        crash
          ('g'::('e'::('t'::('<'::('E'::('n'::('u'::('m'::('>'::(' '::('o'::('n'::(' '::('o'::('t'::('h'::('e'::('r'::(' '::('p'::('a'::('y'::('l'::('o'::('a'::('d'::[])))))))))))))))))))))))))))
  | KPtr ->
    bind (as_payload r) (fun p0 ->
      match p0 with
      | PPtr (tn, _, _) ->
        emit
          (app tn
            (str_of_string
              (' '::('o'::('b'::('j'::('e'::('c'::('t'::[])))))))))
      | _ ->
        crash
          ('g'::('e'::('t'::('<'::('P'::('o'::('i'::('n'::('t'::('e'::('r'::('>'::(' '::('o'::('n'::(' '::('o'::('t'::('h'::('e'::('r'::(' '::('p'::('a'::('y'::('l'::('o'::('a'::('d'::[]))))))))))))))))))))))))))))))
  | KRec ->
    bind (as_payload r) (fun p0 ->
      match p0 with
      | PRec (tn, _) ->
        emit
          (app tn
            (str_of_string
              (' '::('o'::('b'::('j'::('e'::('c'::('t'::[])))))))))
      | _ ->
        crash
          ('g'::('e'::('t'::('<'::('C'::('o'::('m'::('p'::('o'::('s'::('i'::('t'::('e'::('>'::(' '::('o'::('n'::(' '::('o'::('t'::('h'::('e'::('r'::(' '::('p'::('a'::('y'::('l'::('o'::('a'::('d'::[]))))))))))))))))))))))))))))))))

(** val echo_result : n -> result -> unit m **)

let echo_result c r =
  match r.r_type.dk with
  | KNone -> ret ()
  | KInt -> bind (as_int r) (fun z0 -> emit (app (z_to_str z0) (ch_nl :: [])))
  | KReal ->
    bind (as_real r) (fun x ->
      match real_output x with
      | Some s -> emit (app s (ch_nl :: []))
      | None ->
        unsupported ('N'::('a'::('N'::(' '::('t'::('e'::('x'::('t'::[])))))))))
  | KBool ->
    bind (as_bool r) (fun b ->
      emit
        (app
          (str_of_string
            (if b
             then 'T'::('R'::('U'::('E'::[])))
             else 'F'::('A'::('L'::('S'::('E'::[])))))) (ch_nl :: [])))
  | KChar ->
    bind (as_char r) (fun ch ->
      emit (ch_quote :: (ch :: (ch_quote :: (ch_nl :: [])))))
  | KStr ->
    bind (as_str r) (fun s ->
      emit (ch_dquote :: (app s (ch_dquote :: (ch_nl :: [])))))
  | KDate ->
    bind (as_payload r) (fun p0 ->
      match p0 with
      | PDate (d, m0, y) -> emit (app (date_to_str d m0 y) (ch_nl :: []))
      | _ ->
        crash
          ('g'::('e'::('t'::('<'::('D'::('a'::('t'::('e'::('>'::(' '::('o'::('n'::(' '::('o'::('t'::('h'::('e'::('r'::(' '::('p'::('a'::('y'::('l'::('o'::('a'::('d'::[])))))))))))))))))))))))))))
  | KEnum ->
    bind (as_payload r) (fun p0 ->
      match p0 with
      | PEnum (tn, i) ->
        bind (enum_name c tn i) (fun s ->
          emit
            (app tn
              (app (str_of_string (':'::(' '::[]))) (app s (ch_nl :: [])))))
      | _ ->
        crash
          ('g'::('e'::('t'::('<'::('E'::('n'::('u'::('m'::('>'::(' '::('o'::('n'::(' '::('o'::('t'::('h'::('e'::('r'::(' '::('p'::('a'::('y'::('l'::('o'::('a'::('d'::[])))))))))))))))))))))))))))
  | KPtr ->
    bind (as_payload r) (fun p0 ->
      match p0 with
      | PPtr (tn, tgt, owner) ->
        bind (on_chain c owner) (fun valid ->
          if valid
          then (match tgt with
                | Some id ->
                  bind (get_cell id) (fun cl ->
                    emit
                      (app tn
                        (app (str_of_string (':'::(' '::[])))
                          (app cl.c_name (ch_nl :: [])))))
                | None ->
                  emit
                    (app tn
                      (app
                        (str_of_string
                          (':'::(' '::('n'::('u'::('l'::('l'::[])))))))
                        (ch_nl :: []))))
          else emit
                 (app tn
                   (app
                     (str_of_string
                       (':'::(' '::('{'::('D'::('E'::('L'::('E'::('T'::('E'::('D'::('}'::[]))))))))))))
                     (ch_nl :: []))))
      | _ ->
        crash
          ('g'::('e'::('t'::('<'::('P'::('o'::('i'::('n'::('t'::('e'::('r'::('>'::(' '::('o'::('n'::(' '::('o'::('t'::('h'::('e'::('r'::(' '::('p'::('a'::('y'::('l'::('o'::('a'::('d'::[]))))))))))))))))))))))))))))))
  | KRec ->
    bind (as_payload r) (fun p0 ->
      match p0 with
      | PRec (tn, _) ->
        emit
          (app tn
            (app
              (str_of_string
                (' '::('o'::('b'::('j'::('e'::('c'::('t'::[]))))))))
              (ch_nl :: [])))
      | _ ->
        crash
          ('g'::('e'::('t'::('<'::('C'::('o'::('m'::('p'::('o'::('s'::('i'::('t'::('e'::('>'::(' '::('o'::('n'::(' '::('o'::('t'::('h'::('e'::('r'::(' '::('p'::('a'::('y'::('l'::('o'::('a'::('d'::[]))))))))))))))))))))))))))))))))

(** val default_prim : dtype -> payload option **)

let default_prim ty =
  match ty.dk with
  | KInt -> Some (PInt Z0)
  | KReal -> Some (PReal rzero)
  | KBool -> Some (PBool false)
  | KChar -> Some (PChar ch_nul)
  | KStr -> Some (PStr [])
  | KDate -> Some (PDate (Z0, Z0, Z0))
  | KEnum ->
    (match ty.dname with
     | Some n0 -> Some (PEnum (n0, Z0))
     | None -> None)
  | KPtr ->
    (match ty.dname with
     | Some n0 -> Some (PPtr (n0, None, N0))
     | None -> None)
  | _ -> None

(** val add_var : n -> str -> n -> unit m **)

let add_var c name id =
  upd_ctx c (fun k -> ctx_with_vars (app k.x_vars ((name, id) :: [])) k)

(** val add_arr : n -> str -> n -> unit m **)

let add_arr c name id =
  upd_ctx c (fun k -> ctx_with_arrs (app k.x_arrs ((name, id) :: [])) k)

(** val name_is : str -> char list -> bool **)

let name_is n0 s =
  str_eqb n0 (str_of_string s)

(** val builtin_sig : str -> (dkind list * dkind) option **)

let builtin_sig n0 =
  if name_is n0 ('L'::('E'::('N'::('G'::('T'::('H'::[]))))))
  then Some ((KStr :: []), KInt)
  else if (||) (name_is n0 ('R'::('I'::('G'::('H'::('T'::[]))))))
            (name_is n0 ('L'::('E'::('F'::('T'::[])))))
       then Some ((KStr :: (KInt :: [])), KStr)
       else if name_is n0 ('M'::('I'::('D'::[])))
            then Some ((KStr :: (KInt :: (KInt :: []))), KStr)
            else if (||)
                      (name_is n0
                        ('T'::('O'::('_'::('U'::('P'::('P'::('E'::('R'::[])))))))))
                      (name_is n0
                        ('T'::('O'::('_'::('L'::('O'::('W'::('E'::('R'::[])))))))))
                 then Some ((KStr :: []), KStr)
                 else if name_is n0
                           ('N'::('U'::('M'::('_'::('T'::('O'::('_'::('S'::('T'::('R'::[]))))))))))
                      then Some ((KReal :: []), KStr)
                      else if name_is n0
                                ('S'::('T'::('R'::('_'::('T'::('O'::('_'::('N'::('U'::('M'::[]))))))))))
                           then Some ((KStr :: []), KReal)
                           else if (||)
                                     (name_is n0
                                       ('I'::('S'::('_'::('N'::('U'::('M'::[])))))))
                                     (name_is n0 ('E'::('O'::('F'::[]))))
                                then Some ((KStr :: []), KBool)
                                else if (||)
                                          (name_is n0
                                            ('L'::('C'::('A'::('S'::('E'::[]))))))
                                          (name_is n0
                                            ('U'::('C'::('A'::('S'::('E'::[]))))))
                                     then Some ((KChar :: []), KChar)
                                     else if name_is n0
                                               ('A'::('S'::('C'::[])))
                                          then Some ((KChar :: []), KInt)
                                          else if name_is n0
                                                    ('C'::('H'::('R'::[])))
                                               then Some ((KInt :: []), KChar)
                                               else if (||)
                                                         ((||)
                                                           ((||)
                                                             (name_is n0
                                                               ('D'::('A'::('Y'::[]))))
                                                             (name_is n0
                                                               ('M'::('O'::('N'::('T'::('H'::[])))))))
                                                           (name_is n0
                                                             ('Y'::('E'::('A'::('R'::[]))))))
                                                         (name_is n0
                                                           ('D'::('A'::('Y'::('I'::('N'::('D'::('E'::('X'::[])))))))))
                                                    then Some ((KDate :: []),
                                                           KInt)
                                                    else if name_is n0
                                                              ('S'::('E'::('T'::('D'::('A'::('T'::('E'::[])))))))
                                                         then Some
                                                                ((KInt :: (KInt :: (KInt :: []))),
                                                                KDate)
                                                         else if name_is n0
                                                                   ('T'::('O'::('D'::('A'::('Y'::[])))))
                                                              then Some ([],
                                                                    KDate)
                                                              else if 
                                                                    (||)
                                                                    ((||)
                                                                    ((||)
                                                                    (name_is
                                                                    n0
                                                                    ('T'::('I'::('M'::('E'::[])))))
                                                                    (name_is
                                                                    n0
                                                                    ('H'::('O'::('U'::('R'::('S'::[])))))))
                                                                    (name_is
                                                                    n0
                                                                    ('M'::('I'::('N'::('U'::('T'::('E'::('S'::[])))))))))
                                                                    (name_is
                                                                    n0
                                                                    ('S'::('E'::('C'::('O'::('N'::('D'::('S'::[]))))))))
                                                                   then 
                                                                    Some ([],
                                                                    KInt)
                                                                   else 
                                                                    if 
                                                                    name_is
                                                                    n0
                                                                    ('R'::('A'::('N'::('D'::[]))))
                                                                    then 
                                                                    Some
                                                                    ((KInt :: []),
                                                                    KReal)
                                                                    else 
                                                                    if 
                                                                    name_is
                                                                    n0
                                                                    ('I'::('N'::('T'::[])))
                                                                    then 
                                                                    Some
                                                                    ((KReal :: []),
                                                                    KInt)
                                                                    else 
                                                                    if 
                                                                    (||)
                                                                    (name_is
                                                                    n0
                                                                    ('P'::('O'::('W'::[]))))
                                                                    (name_is
                                                                    n0
                                                                    ('A'::('T'::('A'::('N'::('2'::[]))))))
                                                                    then 
                                                                    Some
                                                                    ((KReal :: (KReal :: [])),
                                                                    KReal)
                                                                    else 
                                                                    if 
                                                                    (||)
                                                                    ((||)
                                                                    ((||)
                                                                    ((||)
                                                                    ((||)
                                                                    ((||)
                                                                    ((||)
                                                                    ((||)
                                                                    ((||)
                                                                    (name_is
                                                                    n0
                                                                    ('E'::('X'::('P'::[]))))
                                                                    (name_is
                                                                    n0
                                                                    ('S'::('I'::('N'::[])))))
                                                                    (name_is
                                                                    n0
                                                                    ('C'::('O'::('S'::[])))))
                                                                    (name_is
                                                                    n0
                                                                    ('T'::('A'::('N'::[])))))
                                                                    (name_is
                                                                    n0
                                                                    ('A'::('S'::('I'::('N'::[]))))))
                                                                    (name_is
                                                                    n0
                                                                    ('A'::('C'::('O'::('S'::[]))))))
                                                                    (name_is
                                                                    n0
                                                                    ('A'::('T'::('A'::('N'::[]))))))
                                                                    (name_is
                                                                    n0
                                                                    ('S'::('Q'::('R'::('T'::[]))))))
                                                                    (name_is
                                                                    n0
                                                                    ('L'::('O'::('G'::[])))))
                                                                    (name_is
                                                                    n0
                                                                    ('L'::('N'::[])))
                                                                    then 
                                                                    Some
                                                                    ((KReal :: []),
                                                                    KReal)
                                                                    else None

(** val next_rand : z m **)

let next_rand =
  bind (gets (fun s -> s.s_rand)) (fun r ->
    match r with
    | [] -> ret Z0
    | x :: t0 -> bind (modify (set_rand t0)) (fun _ -> ret x))

(** val run_builtin : str -> n -> payload list -> result m **)

let run_builtin n0 fc args =
  let err = fun _ -> rt_error err_token fc in
  (match args with
   | [] -> unsupported ('c'::('l'::('o'::('c'::('k'::[])))))
   | p0 :: l ->
     (match p0 with
      | PInt d ->
        (match l with
         | [] ->
           if name_is n0 ('C'::('H'::('R'::[])))
           then ret (res_of KChar (PChar (bi_chr d)))
           else if name_is n0 ('R'::('A'::('N'::('D'::[]))))
                then bind next_rand (fun r1 ->
                       bind next_rand (fun r2 ->
                         ret (res_of KReal (PReal (bi_rand d r1 r2)))))
                else crash
                       ('b'::('u'::('i'::('l'::('t'::('i'::('n'::(':'::(' '::('a'::('r'::('g'::('u'::('m'::('e'::('n'::('t'::(' '::('m'::('i'::('s'::('m'::('a'::('t'::('c'::('h'::[]))))))))))))))))))))))))))
         | p1 :: l0 ->
           (match p1 with
            | PInt m0 ->
              (match l0 with
               | [] ->
                 crash
                   ('b'::('u'::('i'::('l'::('t'::('i'::('n'::(':'::(' '::('a'::('r'::('g'::('u'::('m'::('e'::('n'::('t'::(' '::('m'::('i'::('s'::('m'::('a'::('t'::('c'::('h'::[]))))))))))))))))))))))))))
               | p2 :: l1 ->
                 (match p2 with
                  | PInt y ->
                    (match l1 with
                     | [] ->
                       if name_is n0
                            ('S'::('E'::('T'::('D'::('A'::('T'::('E'::[])))))))
                       then (match setdate d m0 y with
                             | Some _ -> ret (res_of KDate (PDate (d, m0, y)))
                             | None -> err __)
                       else crash
                              ('b'::('u'::('i'::('l'::('t'::('i'::('n'::(':'::(' '::('a'::('r'::('g'::('u'::('m'::('e'::('n'::('t'::(' '::('m'::('i'::('s'::('m'::('a'::('t'::('c'::('h'::[]))))))))))))))))))))))))))
                     | _ :: _ ->
                       crash
                         ('b'::('u'::('i'::('l'::('t'::('i'::('n'::(':'::(' '::('a'::('r'::('g'::('u'::('m'::('e'::('n'::('t'::(' '::('m'::('i'::('s'::('m'::('a'::('t'::('c'::('h'::[])))))))))))))))))))))))))))
                  | _ ->
                    crash
                      ('b'::('u'::('i'::('l'::('t'::('i'::('n'::(':'::(' '::('a'::('r'::('g'::('u'::('m'::('e'::('n'::('t'::(' '::('m'::('i'::('s'::('m'::('a'::('t'::('c'::('h'::[]))))))))))))))))))))))))))))
            | _ ->
              crash
                ('b'::('u'::('i'::('l'::('t'::('i'::('n'::(':'::(' '::('a'::('r'::('g'::('u'::('m'::('e'::('n'::('t'::(' '::('m'::('i'::('s'::('m'::('a'::('t'::('c'::('h'::[]))))))))))))))))))))))))))))
      | PReal x ->
        (match l with
         | [] ->
           if name_is n0
                ('N'::('U'::('M'::('_'::('T'::('O'::('_'::('S'::('T'::('R'::[]))))))))))
           then (match real_to_string x with
                 | Some s -> ret (res_of KStr (PStr s))
                 | None ->
                   unsupported
                     ('N'::('a'::('N'::(' '::('t'::('e'::('x'::('t'::[])))))))))
           else if name_is n0 ('I'::('N'::('T'::[])))
                then ret (res_of KInt (PInt (bi_int x)))
                else if name_is n0 ('S'::('Q'::('R'::('T'::[]))))
                     then ret (res_of KReal (PReal (rsqrt x)))
                     else unsupported
                            ('l'::('i'::('b'::('m'::(' '::('f'::('u'::('n'::('c'::('t'::('i'::('o'::('n'::[])))))))))))))
         | p1 :: l0 ->
           (match p1 with
            | PReal _ ->
              (match l0 with
               | [] ->
                 unsupported
                   ('l'::('i'::('b'::('m'::(' '::('f'::('u'::('n'::('c'::('t'::('i'::('o'::('n'::[])))))))))))))
               | _ :: _ ->
                 crash
                   ('b'::('u'::('i'::('l'::('t'::('i'::('n'::(':'::(' '::('a'::('r'::('g'::('u'::('m'::('e'::('n'::('t'::(' '::('m'::('i'::('s'::('m'::('a'::('t'::('c'::('h'::[])))))))))))))))))))))))))))
            | _ ->
              crash
                ('b'::('u'::('i'::('l'::('t'::('i'::('n'::(':'::(' '::('a'::('r'::('g'::('u'::('m'::('e'::('n'::('t'::(' '::('m'::('i'::('s'::('m'::('a'::('t'::('c'::('h'::[]))))))))))))))))))))))))))))
      | PChar ch ->
        (match l with
         | [] ->
           if name_is n0 ('L'::('C'::('A'::('S'::('E'::[])))))
           then ret (res_of KChar (PChar (to_lower ch)))
           else if name_is n0 ('U'::('C'::('A'::('S'::('E'::[])))))
                then ret (res_of KChar (PChar (to_upper ch)))
                else if name_is n0 ('A'::('S'::('C'::[])))
                     then ret (res_of KInt (PInt (bi_asc ch)))
                     else crash
                            ('b'::('u'::('i'::('l'::('t'::('i'::('n'::(':'::(' '::('a'::('r'::('g'::('u'::('m'::('e'::('n'::('t'::(' '::('m'::('i'::('s'::('m'::('a'::('t'::('c'::('h'::[]))))))))))))))))))))))))))
         | _ :: _ ->
           crash
             ('b'::('u'::('i'::('l'::('t'::('i'::('n'::(':'::(' '::('a'::('r'::('g'::('u'::('m'::('e'::('n'::('t'::(' '::('m'::('i'::('s'::('m'::('a'::('t'::('c'::('h'::[])))))))))))))))))))))))))))
      | PStr s ->
        (match l with
         | [] ->
           if name_is n0 ('L'::('E'::('N'::('G'::('T'::('H'::[]))))))
           then ret (res_of KInt (PInt (slen s)))
           else if name_is n0
                     ('T'::('O'::('_'::('U'::('P'::('P'::('E'::('R'::[]))))))))
                then ret (res_of KStr (PStr (bi_to_upper s)))
                else if name_is n0
                          ('T'::('O'::('_'::('L'::('O'::('W'::('E'::('R'::[]))))))))
                     then ret (res_of KStr (PStr (bi_to_lower s)))
                     else if name_is n0
                               ('S'::('T'::('R'::('_'::('T'::('O'::('_'::('N'::('U'::('M'::[]))))))))))
                          then ret (res_of KReal (PReal (string_to_real s)))
                          else if name_is n0
                                    ('I'::('S'::('_'::('N'::('U'::('M'::[]))))))
                               then ret (res_of KBool (PBool (bi_is_num s)))
                               else if name_is n0 ('E'::('O'::('F'::[])))
                                    then bind (gets (fun s0 -> s0.s_files))
                                           (fun fl ->
                                           match find_file s fl with
                                           | Some f ->
                                             (match f.of_mode with
                                              | FRead ->
                                                ret
                                                  (res_of KBool (PBool
                                                    (match f.of_rest with
                                                     | [] -> true
                                                     | _ :: _ -> false)))
                                              | _ -> err __)
                                           | None -> err __)
                                    else crash
                                           ('b'::('u'::('i'::('l'::('t'::('i'::('n'::(':'::(' '::('a'::('r'::('g'::('u'::('m'::('e'::('n'::('t'::(' '::('m'::('i'::('s'::('m'::('a'::('t'::('c'::('h'::[]))))))))))))))))))))))))))
         | p1 :: l0 ->
           (match p1 with
            | PInt x ->
              (match l0 with
               | [] ->
                 if name_is n0 ('R'::('I'::('G'::('H'::('T'::[])))))
                 then (match bi_right s x with
                       | Some v -> ret (res_of KStr (PStr v))
                       | None -> err __)
                 else if name_is n0 ('L'::('E'::('F'::('T'::[]))))
                      then (match bi_left s x with
                            | Some v -> ret (res_of KStr (PStr v))
                            | None -> err __)
                      else crash
                             ('b'::('u'::('i'::('l'::('t'::('i'::('n'::(':'::(' '::('a'::('r'::('g'::('u'::('m'::('e'::('n'::('t'::(' '::('m'::('i'::('s'::('m'::('a'::('t'::('c'::('h'::[]))))))))))))))))))))))))))
               | p2 :: l1 ->
                 (match p2 with
                  | PInt y ->
                    (match l1 with
                     | [] ->
                       if name_is n0 ('M'::('I'::('D'::[])))
                       then (match bi_mid s x y with
                             | Some v -> ret (res_of KStr (PStr v))
                             | None -> err __)
                       else crash
                              ('b'::('u'::('i'::('l'::('t'::('i'::('n'::(':'::(' '::('a'::('r'::('g'::('u'::('m'::('e'::('n'::('t'::(' '::('m'::('i'::('s'::('m'::('a'::('t'::('c'::('h'::[]))))))))))))))))))))))))))
                     | _ :: _ ->
                       crash
                         ('b'::('u'::('i'::('l'::('t'::('i'::('n'::(':'::(' '::('a'::('r'::('g'::('u'::('m'::('e'::('n'::('t'::(' '::('m'::('i'::('s'::('m'::('a'::('t'::('c'::('h'::[])))))))))))))))))))))))))))
                  | _ ->
                    crash
                      ('b'::('u'::('i'::('l'::('t'::('i'::('n'::(':'::(' '::('a'::('r'::('g'::('u'::('m'::('e'::('n'::('t'::(' '::('m'::('i'::('s'::('m'::('a'::('t'::('c'::('h'::[]))))))))))))))))))))))))))))
            | _ ->
              crash
                ('b'::('u'::('i'::('l'::('t'::('i'::('n'::(':'::(' '::('a'::('r'::('g'::('u'::('m'::('e'::('n'::('t'::(' '::('m'::('i'::('s'::('m'::('a'::('t'::('c'::('h'::[]))))))))))))))))))))))))))))
      | PDate (d, m0, y) ->
        (match l with
         | [] ->
           if name_is n0 ('D'::('A'::('Y'::[])))
           then ret (res_of KInt (PInt d))
           else if name_is n0 ('M'::('O'::('N'::('T'::('H'::[])))))
                then ret (res_of KInt (PInt m0))
                else if name_is n0 ('Y'::('E'::('A'::('R'::[]))))
                     then ret (res_of KInt (PInt y))
                     else if name_is n0
                               ('D'::('A'::('Y'::('I'::('N'::('D'::('E'::('X'::[]))))))))
                          then if ymd_ok d m0 y
                               then ret
                                      (res_of KInt (PInt (day_index d m0 y)))
                               else unsupported
                                      ('w'::('e'::('e'::('k'::('d'::('a'::('y'::(' '::('o'::('f'::(' '::('a'::('n'::(' '::('i'::('n'::('v'::('a'::('l'::('i'::('d'::(' '::('d'::('a'::('t'::('e'::[]))))))))))))))))))))))))))
                          else crash
                                 ('b'::('u'::('i'::('l'::('t'::('i'::('n'::(':'::(' '::('a'::('r'::('g'::('u'::('m'::('e'::('n'::('t'::(' '::('m'::('i'::('s'::('m'::('a'::('t'::('c'::('h'::[]))))))))))))))))))))))))))
         | _ :: _ ->
           crash
             ('b'::('u'::('i'::('l'::('t'::('i'::('n'::(':'::(' '::('a'::('r'::('g'::('u'::('m'::('e'::('n'::('t'::(' '::('m'::('i'::('s'::('m'::('a'::('t'::('c'::('h'::[])))))))))))))))))))))))))))
      | _ ->
        crash
          ('b'::('u'::('i'::('l'::('t'::('i'::('n'::(':'::(' '::('a'::('r'::('g'::('u'::('m'::('e'::('n'::('t'::(' '::('m'::('i'::('s'::('m'::('a'::('t'::('c'::('h'::[]))))))))))))))))))))))))))))

(** val builtin_args :
    token -> n -> dkind list -> result list -> payload list m **)

let rec builtin_args t0 c ks vs =
  match ks with
  | [] -> ret []
  | k :: kr ->
    (match vs with
     | [] -> ret []
     | v :: vr ->
       bind (implicit_cast (dt_prim k) v) (fun v' ->
         if negb (dt_is v'.r_type k)
         then rt_error t0 c
         else bind (as_payload v') (fun p0 ->
                bind (builtin_args t0 c kr vr) (fun rest0 ->
                  ret (p0 :: rest0)))))

(** val hfuel : nat **)

let hfuel =
  S (S (S (S (S (S (S (S (S (S (S (S (S (S (S (S (S (S (S (S (S (S (S (S (S
    (S (S (S (S (S (S (S (S (S (S (S (S (S (S (S (S (S (S (S (S (S (S (S (S
    (S (S (S (S (S (S (S (S (S (S (S (S (S (S (S
    O)))))))))))))))))))))))))))))))))))))))))))))))))))))))))))))))

(** val store_value : token -> n -> n -> result -> result m **)

let store_value t0 c id v =
  bind (get_cell id) (fun cl ->
    if cl.c_const
    then rt_error t0 c
    else bind (implicit_cast cl.c_type v) (fun v' ->
           if negb (dt_eq cl.c_type v'.r_type)
           then rt_error t0 c
           else bind
                  (match cl.c_val with
                   | PRec (_, dc) ->
                     (match v'.r_val with
                      | Some p0 ->
                        (match p0 with
                         | PRec (_, sc) ->
                           if dt_is cl.c_type KRec
                           then same_layout hfuel dc sc
                           else ret true
                         | _ -> ret true)
                      | None -> ret true)
                   | _ -> ret true) (fun ok ->
                  if negb ok
                  then rt_error t0 c
                  else bind (assign_val hfuel id v') (fun _ -> ret res_none))))

(** val expect_holder_var : token -> n -> holder -> n m **)

let expect_holder_var t0 c = function
| HVar id -> ret id
| HArr _ -> array_direct_error t0 c

type evs = { ev_fuel : nat; ev_eval : (node -> n -> result m);
             ev_resolve : (resolver -> n -> holder m);
             ev_case_equals : (result -> node -> n -> bool m);
             ev_case_range : (result -> node -> node -> n -> bool m);
             ev_run_block : (block -> n -> unit m);
             ev_new_var : (str -> dtype -> bool -> n -> n m);
             ev_new_array : (str -> dtype -> dim list -> n -> n m);
             ev_bind_args : (token -> ((str * dtype) * bool) list -> node
                            list -> result list -> n -> n -> unit m);
             ev_call_procedure : (token -> str -> node list -> n -> result m);
             ev_call_function : (token -> node list -> n -> result m) }

(** val eval_body : bool -> limits -> evs -> node -> n -> result m **)

let eval_body pedantic lim self n0 c =
  match n0 with
  | NInt t0 -> ret (res_of KInt (PInt (digits_to_z t0.tval)))
  | NReal t0 ->
    (match stod_literal t0.tval with
     | Some r -> ret (res_of KReal (PReal r))
     | None ->
       crash
         ('R'::('e'::('a'::('l'::('N'::('o'::('d'::('e'::(':'::(' '::('s'::('t'::('o'::('d'::(' '::('o'::('u'::('t'::('_'::('o'::('f'::('_'::('r'::('a'::('n'::('g'::('e'::[]))))))))))))))))))))))))))))
  | NBool t0 ->
    (match t0.tt with
     | TTRUE -> ret (res_of KBool (PBool true))
     | TFALSE -> ret (res_of KBool (PBool false))
     | _ ->
       crash
         ('c'::('o'::('m'::('p'::('a'::('r'::('i'::('s'::('o'::('n'::('.'::('c'::('p'::('p'::(' '::('B'::('o'::('o'::('l'::('e'::('a'::('n'::('N'::('o'::('d'::('e'::(' '::('a'::('b'::('o'::('r'::('t'::[])))))))))))))))))))))))))))))))))
  | NChar t0 ->
    (match t0.tval with
     | [] -> ret (res_of KChar (PChar ch_nul))
     | ch :: _ -> ret (res_of KChar (PChar ch)))
  | NStr t0 -> ret (res_of KStr (PStr t0.tval))
  | NDate t0 ->
    let parts =
      let rec split s cur0 acc =
        match s with
        | [] -> rev ((rev cur0) :: acc)
        | ch :: r ->
          if aeqb ch '/'
          then split r [] ((rev cur0) :: acc)
          else split r (ch :: cur0) acc
      in split t0.tval [] []
    in
    (match parts with
     | [] ->
       crash
         ('a'::('r'::('i'::('t'::('h'::('m'::('e'::('t'::('i'::('c'::('.'::('c'::('p'::('p'::(' '::('m'::('a'::('k'::('e'::('D'::('a'::('t'::('e'::(':'::(' '::('s'::('t'::('o'::('u'::('l'::(' '::('i'::('n'::('v'::('a'::('l'::('i'::('d'::('_'::('a'::('r'::('g'::('u'::('m'::('e'::('n'::('t'::[])))))))))))))))))))))))))))))))))))))))))))))))
     | ds :: l ->
       (match l with
        | [] ->
          crash
            ('a'::('r'::('i'::('t'::('h'::('m'::('e'::('t'::('i'::('c'::('.'::('c'::('p'::('p'::(' '::('m'::('a'::('k'::('e'::('D'::('a'::('t'::('e'::(':'::(' '::('s'::('t'::('o'::('u'::('l'::(' '::('i'::('n'::('v'::('a'::('l'::('i'::('d'::('_'::('a'::('r'::('g'::('u'::('m'::('e'::('n'::('t'::[])))))))))))))))))))))))))))))))))))))))))))))))
        | ms :: l0 ->
          (match l0 with
           | [] ->
             crash
               ('a'::('r'::('i'::('t'::('h'::('m'::('e'::('t'::('i'::('c'::('.'::('c'::('p'::('p'::(' '::('m'::('a'::('k'::('e'::('D'::('a'::('t'::('e'::(':'::(' '::('s'::('t'::('o'::('u'::('l'::(' '::('i'::('n'::('v'::('a'::('l'::('i'::('d'::('_'::('a'::('r'::('g'::('u'::('m'::('e'::('n'::('t'::[])))))))))))))))))))))))))))))))))))))))))))))))
           | ys :: l1 ->
             (match l1 with
              | [] ->
                if (&&)
                     ((&&)
                       ((&&) (forallb is_digit (app ds (app ms ys)))
                         (negb (match ds with
                                | [] -> true
                                | _ :: _ -> false)))
                       (negb (match ms with
                              | [] -> true
                              | _ :: _ -> false)))
                     (negb (match ys with
                            | [] -> true
                            | _ :: _ -> false))
                then let (p0, y) =
                       let d = digits_to_z ds in
                       let m0 = digits_to_z ms in
                       let y = digits_to_z ys in
                       if (||) ((||) (Z.leb two64 d) (Z.leb two64 m0))
                            (Z.leb two64 y)
                       then ((Z0, Z0), Z0)
                       else date_literal_components d m0 y
                     in
                     let (d, m0) = p0 in
                     if ymd_ok d m0 y
                     then ret (res_of KDate (PDate (d, m0, y)))
                     else rt_error t0 c
                else crash
                       ('a'::('r'::('i'::('t'::('h'::('m'::('e'::('t'::('i'::('c'::('.'::('c'::('p'::('p'::(' '::('m'::('a'::('k'::('e'::('D'::('a'::('t'::('e'::(':'::(' '::('s'::('t'::('o'::('u'::('l'::(' '::('i'::('n'::('v'::('a'::('l'::('i'::('d'::('_'::('a'::('r'::('g'::('u'::('m'::('e'::('n'::('t'::[])))))))))))))))))))))))))))))))))))))))))))))))
              | _ :: _ ->
                crash
                  ('a'::('r'::('i'::('t'::('h'::('m'::('e'::('t'::('i'::('c'::('.'::('c'::('p'::('p'::(' '::('m'::('a'::('k'::('e'::('D'::('a'::('t'::('e'::(':'::(' '::('s'::('t'::('o'::('u'::('l'::(' '::('i'::('n'::('v'::('a'::('l'::('i'::('d'::('_'::('a'::('r'::('g'::('u'::('m'::('e'::('n'::('t'::[])))))))))))))))))))))))))))))))))))))))))))))))))))
  | NNeg (t0, e) ->
    bind (self.ev_eval e c) (fun r ->
      if dt_is r.r_type KInt
      then bind (as_int r) (fun z0 ->
             ret (res_of KInt (PInt (wrap64 (Z.mul z0 (Zneg XH))))))
      else if dt_is r.r_type KReal
           then bind (as_real r) (fun x ->
                  ret (res_of KReal (PReal (rmul x (real_of_z (Zneg XH))))))
           else rt_error t0 c)
  | NArith (t0, l, r) ->
    bind (self.ev_eval l c) (fun lr0 ->
      bind (self.ev_eval r c) (fun rr0 -> eval_arith t0 c lr0 rr0))
  | NCmp (t0, l, r) ->
    bind (self.ev_eval l c) (fun lr0 ->
      bind (self.ev_eval r c) (fun rr0 -> eval_cmp t0 c lr0 rr0))
  | NLogic (t0, l, r) ->
    bind (self.ev_eval l c) (fun lr ->
      let is_and = tt_eqb t0.tt TAND in
      bind
        (if (&&) is_and (dt_is lr.r_type KBool)
         then bind (as_bool lr) (fun b -> ret (negb b))
         else ret false) (fun lfalse ->
        if lfalse
        then ret (res_of KBool (PBool false))
        else bind (self.ev_eval r c) (fun rr ->
               if (||) (negb (dt_is lr.r_type KBool))
                    (negb (dt_is rr.r_type KBool))
               then rt_error t0 c
               else bind (as_bool lr) (fun a ->
                      bind (as_bool rr) (fun b ->
                        match t0.tt with
                        | TAND -> ret (res_of KBool (PBool ((&&) a b)))
                        | TOR -> ret (res_of KBool (PBool ((||) a b)))
                        | _ ->
                          crash
                            ('l'::('o'::('g'::('i'::('c'::('.'::('c'::('p'::('p'::(' '::('o'::('p'::('e'::('r'::('a'::('t'::('o'::('r'::(' '::('a'::('b'::('o'::('r'::('t'::[])))))))))))))))))))))))))))))
  | NNot (t0, e) ->
    bind (self.ev_eval e c) (fun r ->
      if negb (dt_is r.r_type KBool)
      then rt_error t0 c
      else bind (as_bool r) (fun b -> ret (res_of KBool (PBool (negb b)))))
  | NCat (t0, l, r) ->
    bind (self.ev_eval l c) (fun lr ->
      bind (self.ev_eval r c) (fun rr ->
        if (||) (dt_is lr.r_type KNone) (dt_is rr.r_type KNone)
        then rt_error t0 c
        else bind (as_payload lr) (fun a ->
               bind (as_payload rr) (fun b ->
                 if (||) (negb (is_primitive a)) (negb (is_primitive b))
                 then rt_error t0 c
                 else bind (prim_to_string a) (fun sa ->
                        bind (prim_to_string b) (fun sb ->
                          bind
                            (check_strlen lim (Z.add (slen sa) (slen sb)) t0
                              c) (fun _ ->
                            ret (res_of KStr (PStr (app sa sb))))))))))
  | NCast (t0, e, target) ->
    bind (self.ev_eval e c) (fun v ->
      if dt_is v.r_type KNone
      then rt_error t0 c
      else bind (as_payload v) (fun p0 ->
             if negb (is_primitive p0)
             then rt_error t0 c
             else if dt_is v.r_type target
                  then ret v
                  else if (&&)
                            ((&&) (dt_is v.r_type KDate)
                              (negb (dk_eqb target KInt)))
                            (negb (dk_eqb target KStr))
                       then rt_error t0 c
                       else bind (cast_prim t0 c p0 target) (fun p' ->
                              ret (res_of target p'))))
  | NAccess (t0, r) ->
    bind
      (catch_cls (bind (self.ev_resolve r c) (fun x -> ret (Inl x)))
        is_not_defined (fun fl ->
        bind (get_enum_element c t0.tval true) (fun en ->
          match en with
          | Some ti -> ret (Inr ti)
          | None -> failm fl))) (fun h ->
      match h with
      | Inl h0 ->
        (match h0 with
         | HVar id ->
           bind (get_cell id) (fun cl ->
             if dt_is cl.c_type KNone
             then crash
                    ('v'::('a'::('r'::('i'::('a'::('b'::('l'::('e'::('.'::('c'::('p'::('p'::(' '::('A'::('c'::('c'::('e'::('s'::('s'::('N'::('o'::('d'::('e'::(' '::('N'::('O'::('N'::('E'::(' '::('a'::('b'::('o'::('r'::('t'::[]))))))))))))))))))))))))))))))))))
             else bind (copy_val hfuel cl.c_val) (fun v ->
                    ret { r_type = cl.c_type; r_val = (Some v) }))
         | HArr _ -> array_direct_error t0 c)
      | Inr p0 ->
        let (tn, i) = p0 in
        ret { r_type = { dk = KEnum; dname = (Some tn) }; r_val = (Some
          (PEnum (tn, i))) })
  | NAssign (t0, e, r) ->
    bind
      (match e with
       | NAccess (_, _) ->
         catch_cls (bind (self.ev_eval e c) (fun x -> ret (Some x)))
           (is_array_direct c) (fun _ -> ret None)
       | _ -> bind (self.ev_eval e c) (fun x -> ret (Some x))) (fun vr ->
      match vr with
      | Some v ->
        if dt_is v.r_type KNone
        then rt_error t0 c
        else bind
               (match r with
                | RSimple tk ->
                  catch_cls
                    (bind (self.ev_resolve r c) (fun h ->
                      expect_holder_var t0 c h)) is_not_defined (fun fl ->
                    bind (is_identifier_type c tk true) (fun ist ->
                      if ist
                      then failm fl
                      else bind (ped_guard pedantic t0) (fun _ ->
                             bind (self.ev_new_var tk.tval v.r_type false c)
                               (fun nid ->
                               bind (add_var c tk.tval nid) (fun _ -> ret nid)))))
                | _ ->
                  bind (self.ev_resolve r c) (fun h ->
                    expect_holder_var t0 c h)) (fun id ->
               store_value t0 c id v)
      | None ->
        (match e with
         | NAccess (ta, ra) ->
           bind (self.ev_resolve ra c) (fun src ->
             match src with
             | HVar _ ->
               crash
                 ('s'::('t'::('a'::('t'::('i'::('c'::('_'::('c'::('a'::('s'::('t'::('<'::('A'::('r'::('r'::('a'::('y'::('*'::('>'::(' '::('o'::('n'::(' '::('a'::(' '::('v'::('a'::('r'::('i'::('a'::('b'::('l'::('e'::[])))))))))))))))))))))))))))))))))
             | HArr sid ->
               bind (self.ev_resolve r c) (fun dst ->
                 match dst with
                 | HVar _ -> array_direct_error ta c
                 | HArr did ->
                   bind (get_arr did) (fun a1 ->
                     bind (get_arr sid) (fun a2 ->
                       if negb (dt_eq a1.a_type a2.a_type)
                       then rt_error t0 c
                       else if negb (dims_eqb a1.a_dims a2.a_dims)
                            then rt_error t0 c
                            else bind (arr_layout (same_layout hfuel) a1 a2)
                                   (fun ok ->
                                   if negb ok
                                   then rt_error t0 c
                                   else bind (copy_array_data hfuel did sid)
                                          (fun _ -> ret res_none))))))
         | _ ->
           crash
             ('u'::('n'::('r'::('e'::('a'::('c'::('h'::('a'::('b'::('l'::('e'::(':'::(' '::('h'::('a'::('n'::('d'::('l'::('e'::('r'::(' '::('o'::('n'::('l'::('y'::(' '::('f'::('i'::('r'::('e'::('s'::(' '::('f'::('o'::('r'::(' '::('a'::('n'::(' '::('A'::('c'::('c'::('e'::('s'::('s'::('N'::('o'::('d'::('e'::[])))))))))))))))))))))))))))))))))))))))))))))))))))
  | NPtrAssign (t0, pr, vr) ->
    bind (self.ev_resolve pr c) (fun ph ->
      bind (expect_holder_var t0 c ph) (fun pid ->
        bind (self.ev_resolve vr c) (fun vh ->
          match vh with
          | HVar vid ->
            bind (get_cell pid) (fun pc ->
              bind (get_cell vid) (fun vc ->
                if negb (dt_is pc.c_type KPtr)
                then rt_error t0 c
                else (match pc.c_val with
                      | PPtr (tn, _, _) ->
                        bind (lookup_ptr_def c tn true) (fun d ->
                          match d with
                          | Some target_ty ->
                            if negb (dt_eq target_ty vc.c_type)
                            then rt_error t0 c
                            else bind (nonrec_ancestor vc.c_owner)
                                   (fun owner ->
                                   bind
                                     (set_cell_val pid (PPtr (tn, (Some vid),
                                       owner))) (fun _ -> ret res_none))
                          | None ->
                            crash
                              ('u'::('s'::('e'::('r'::('T'::('y'::('p'::('e'::('.'::('c'::('p'::('p'::(' '::('P'::('o'::('i'::('n'::('t'::('e'::('r'::(':'::(':'::('g'::('e'::('t'::('D'::('e'::('f'::('i'::('n'::('i'::('t'::('i'::('o'::('n'::(' '::('n'::('u'::('l'::('l'::[])))))))))))))))))))))))))))))))))))))))))
                      | _ ->
                        crash
                          ('c'::('e'::('l'::('l'::(' '::('p'::('a'::('y'::('l'::('o'::('a'::('d'::(' '::('d'::('i'::('s'::('a'::('g'::('r'::('e'::('e'::('s'::(' '::('w'::('i'::('t'::('h'::(' '::('i'::('t'::('s'::(' '::('t'::('y'::('p'::('e'::[])))))))))))))))))))))))))))))))))))))))
          | HArr _ -> rt_error t0 c)))
  | NFnCall (t0, args) -> self.ev_call_function t0 args c
  | NDeclare (t0, ids, ty) ->
    bind
      (iterM (fun id ->
        bind (lookup_var c id.tval false) (fun ex ->
          match ex with
          | Some _ -> rt_error t0 c
          | None ->
            bind (is_identifier_type c id true) (fun ist ->
              if ist
              then rt_error t0 c
              else bind (get_type c ty true) (fun dty ->
                     if dt_is dty KNone
                     then not_defined_error t0 c
                     else bind (self.ev_new_var id.tval dty false c)
                            (fun nid -> add_var c id.tval nid))))) ids)
      (fun _ -> ret res_none)
  | NConst (t0, v, id) ->
    bind (self.ev_eval v c) (fun r ->
      bind (lookup_var c id.tval false) (fun ex ->
        match ex with
        | Some _ -> rt_error t0 c
        | None ->
          if dt_is r.r_type KNone
          then crash
                 ('v'::('a'::('r'::('i'::('a'::('b'::('l'::('e'::('.'::('c'::('p'::('p'::(' '::('V'::('a'::('r'::('i'::('a'::('b'::('l'::('e'::(' '::('N'::('O'::('N'::('E'::(' '::('a'::('b'::('o'::('r'::('t'::[]))))))))))))))))))))))))))))))))
          else bind (as_payload r) (fun p0 ->
                 bind fresh (fun nid ->
                   bind
                     (put_cell nid { c_name = id.tval; c_type = r.r_type;
                       c_const = true; c_owner = c; c_val = p0 }) (fun _ ->
                     bind (add_var c id.tval nid) (fun _ -> ret res_none))))))
  | NArrDeclare (t0, ids, ty, bounds) ->
    if (||) (Nat.eqb (length bounds) O) (negb (Nat.even (length bounds)))
    then crash
           ('a'::('r'::('r'::('a'::('y'::('.'::('c'::('p'::('p'::(' '::('A'::('r'::('r'::('a'::('y'::('D'::('e'::('c'::('l'::('a'::('r'::('e'::('N'::('o'::('d'::('e'::(' '::('a'::('b'::('o'::('r'::('t'::[]))))))))))))))))))))))))))))))))
    else bind
           (iterM (fun id ->
             bind (lookup_arr c id.tval false) (fun ex ->
               match ex with
               | Some _ -> rt_error t0 c
               | None -> ret ())) ids) (fun _ ->
           bind (eval_bounds (fun x -> self.ev_eval x c) c bounds (Zpos XH))
             (fun dims ->
             bind
               (iterM (fun id ->
                 bind (get_type c ty true) (fun dty ->
                   if dt_is dty KNone
                   then not_defined_error t0 c
                   else bind (self.ev_new_array id.tval dty dims c)
                          (fun aid -> add_arr c id.tval aid))) ids) (fun _ ->
               ret res_none)))
  | NEnumDef (t0, name, vals) ->
    bind (is_identifier_type c name true) (fun ist ->
      if ist
      then rt_error t0 c
      else bind
             (upd_ctx c (fun k ->
               ctx_with_enums (app k.x_enums ((name.tval, vals) :: [])) k))
             (fun _ -> ret res_none))
  | NPtrDef (t0, name, ty) ->
    bind (get_type c ty true) (fun pty ->
      if dt_is pty KNone
      then not_defined_error t0 c
      else bind (is_identifier_type c name true) (fun ist ->
             if ist
             then rt_error t0 c
             else bind
                    (upd_ctx c (fun k ->
                      ctx_with_ptrs (app k.x_ptrs ((name.tval, pty) :: [])) k))
                    (fun _ -> ret res_none)))
  | NCompDef (t0, name, body) ->
    bind (is_identifier_type c name true) (fun ist ->
      if ist
      then rt_error t0 c
      else bind
             (upd_ctx c (fun k ->
               ctx_with_comps (app k.x_comps ((name.tval, body) :: [])) k))
             (fun _ -> ret res_none))
  | NIf (t0, comps) ->
    if_chain t0 c
      (map
        (if_comp (fun x -> self.ev_eval x c) (fun b -> self.ev_run_block b c))
        comps)
  | NCase (_, sel, cases) ->
    bind (self.ev_eval sel c) (fun v ->
      case_chain
        (map (fun cc ->
          match cc with
          | CEq (b, e) ->
            ((self.ev_case_equals v e c), (self.ev_run_block b c))
          | CRange (b, lo, hi) ->
            ((self.ev_case_range v lo hi c), (self.ev_run_block b c))
          | COther b -> ((ret true), (self.ev_run_block b c))) cases))
  | NWhile (t0, cond, body) ->
    while_loop lim self.ev_fuel t0 c (self.ev_eval cond c)
      (self.ev_run_block body c)
  | NRepeat (t0, cond, body) ->
    repeat_loop lim self.ev_fuel t0 c (self.ev_eval cond c)
      (self.ev_run_block body c)
  | NFor (t0, id, start, stop, step, body) ->
    bind (lookup_var c id.tval true) (fun ex ->
      bind
        (match ex with
         | Some i -> ret i
         | None ->
           bind (self.ev_new_var id.tval (dt_prim KInt) false c) (fun nid ->
             bind (add_var c id.tval nid) (fun _ -> ret nid))) (fun it ->
        bind (get_cell it) (fun icell ->
          if icell.c_const
          then rt_error t0 c
          else if negb (dt_is icell.c_type KInt)
               then rt_error t0 c
               else bind (self.ev_eval start c) (fun sr ->
                      if negb (dt_is sr.r_type KInt)
                      then rt_error t0 c
                      else bind (self.ev_eval stop c) (fun er ->
                             if negb (dt_is er.r_type KInt)
                             then rt_error t0 c
                             else bind
                                    (match step with
                                     | Some se ->
                                       bind (self.ev_eval se c) (fun r ->
                                         if negb (dt_is r.r_type KInt)
                                         then rt_error t0 c
                                         else as_int r)
                                     | None -> ret (Zpos XH)) (fun stepv ->
                                    bind (as_int sr) (fun sv ->
                                      bind (as_int er) (fun ev ->
                                        bind (set_cell_val it (PInt sv))
                                          (fun _ ->
                                          for_loop lim self.ev_fuel t0 c it
                                            stepv ev
                                            (self.ev_run_block body c))))))))))
  | NBreak t0 -> failm (FBreak t0)
  | NContinue t0 -> failm (FContinue t0)
  | NProc (t0, name, params, body) ->
    bind (gets (fun s -> s.s_procs)) (fun ps ->
      match assoc_str name ps with
      | Some _ -> rt_error t0 c
      | None ->
        bind
          (mapM (fun p0 ->
            let (p1, br) = p0 in
            let (nm, tyt) = p1 in
            bind (get_type c tyt true) (fun ty ->
              if dt_is ty KNone
              then not_defined_error tyt c
              else ret ((nm, ty), br))) params) (fun pl ->
          bind
            (modify (fun s ->
              set_procs
                (app s.s_procs ((name, { pd_params = pl; pd_body =
                  body }) :: [])) s)) (fun _ -> ret res_none)))
  | NFunc (t0, name, params, body, rett) ->
    bind (gets (fun s -> s.s_funcs)) (fun fs ->
      match builtin_sig name with
      | Some _ -> rt_error t0 c
      | None ->
        (match assoc_str name fs with
         | Some _ -> rt_error t0 c
         | None ->
           bind (get_type c rett true) (fun rty ->
             if dt_is rty KNone
             then not_defined_error rett c
             else bind
                    (mapM (fun p0 ->
                      let (p1, br) = p0 in
                      let (nm, tyt) = p1 in
                      bind (get_type c tyt true) (fun ty ->
                        if dt_is ty KNone
                        then not_defined_error tyt c
                        else ret ((nm, ty), br))) params) (fun pl ->
                    bind
                      (modify (fun s ->
                        set_funcs
                          (app s.s_funcs ((name, { fd_params = pl; fd_body =
                            body; fd_ret = rty; fd_tok = t0 }) :: [])) s))
                      (fun _ -> ret res_none)))))
  | NCall (t0, name, args) -> self.ev_call_procedure t0 name args c
  | NReturn (t0, e) ->
    bind (get_ctx c) (fun cx ->
      if negb cx.x_isfun
      then rt_error t0 c
      else bind (self.ev_eval e c) (fun r ->
             bind (upd_ctx c (ctx_with_retval (Some r))) (fun _ ->
               bind (implicit_cast cx.x_rettype r) (fun r' ->
                 bind (upd_ctx c (ctx_with_retval (Some r'))) (fun _ ->
                   if negb (dt_eq r'.r_type cx.x_rettype)
                   then rt_error t0 c
                   else failm FReturn)))))
  | NOutput (_, es) ->
    bind
      (iterM (fun e ->
        bind (self.ev_eval e c) (fun r -> output_item c (node_token e) r)) es)
      (fun _ -> bind (emit (ch_nl :: [])) (fun _ -> ret res_none))
  | NInput (t0, r) ->
    bind
      (match r with
       | RSimple tk ->
         catch_cls
           (bind (self.ev_resolve r c) (fun h -> expect_holder_var t0 c h))
           is_not_defined (fun fl ->
           bind (is_identifier_type c tk true) (fun ist ->
             if ist
             then failm fl
             else bind (ped_guard pedantic tk) (fun _ ->
                    bind (self.ev_new_var tk.tval (dt_prim KStr) false c)
                      (fun nid ->
                      bind (add_var c tk.tval nid) (fun _ -> ret nid)))))
       | _ -> bind (self.ev_resolve r c) (fun h -> expect_holder_var t0 c h))
      (fun id ->
      bind (get_cell id) (fun cl ->
        if cl.c_const
        then rt_error t0 c
        else bind read_line (fun x ->
               let (line0, _) = x in
               (match cl.c_type.dk with
                | KNone ->
                  crash
                    ('i'::('o'::('.'::('c'::('p'::('p'::(' '::('I'::('n'::('p'::('u'::('t'::('N'::('o'::('d'::('e'::(' '::('N'::('O'::('N'::('E'::(' '::('a'::('b'::('o'::('r'::('t'::[])))))))))))))))))))))))))))
                | KInt ->
                  bind (set_cell_val id (PInt (string_to_int line0)))
                    (fun _ -> ret res_none)
                | KReal ->
                  bind (set_cell_val id (PReal (string_to_real line0)))
                    (fun _ -> ret res_none)
                | KBool ->
                  bind
                    (set_cell_val id (PBool
                      (str_eqb line0
                        (str_of_string ('T'::('R'::('U'::('E'::[]))))))))
                    (fun _ -> ret res_none)
                | KChar ->
                  bind
                    (set_cell_val id (PChar
                      (match line0 with
                       | [] -> ch_nul
                       | ch :: _ -> ch))) (fun _ -> ret res_none)
                | KStr ->
                  bind (set_cell_val id (PStr line0)) (fun _ -> ret res_none)
                | _ -> rt_error t0 c))))
  | NOpenFile (t0, fn, mode) ->
    bind (self.ev_eval fn c) (fun fr ->
      if negb (dt_is fr.r_type KStr)
      then rt_error t0 c
      else bind (as_str fr) (fun name ->
             bind (gets (fun s -> s.s_files)) (fun fl ->
               match find_file name fl with
               | Some _ -> rt_error t0 c
               | None ->
                 bind (create_file name mode) (fun ok ->
                   if ok then ret res_none else rt_error t0 c))))
  | NReadFile (t0, fn, id) ->
    bind (self.ev_eval fn c) (fun fr ->
      if negb (dt_is fr.r_type KStr)
      then rt_error t0 c
      else bind (as_str fr) (fun name ->
             bind (gets (fun s -> s.s_files)) (fun fl ->
               match find_file name fl with
               | Some fh ->
                 (match fh.of_mode with
                  | FRead ->
                    bind (lookup_var c id.tval true) (fun ex ->
                      bind
                        (match ex with
                         | Some i ->
                           bind (get_cell i) (fun cl ->
                             if negb (dt_is cl.c_type KStr)
                             then rt_error t0 c
                             else if cl.c_const then rt_error t0 c else ret i)
                         | None ->
                           bind
                             (self.ev_new_var id.tval (dt_prim KStr) false c)
                             (fun nid ->
                             bind (add_var c id.tval nid) (fun _ -> ret nid)))
                        (fun vid ->
                        let (line0, fh') = file_read_line fh in
                        bind (update_file fh') (fun _ ->
                          bind (set_cell_val vid (PStr line0)) (fun _ ->
                            ret res_none))))
                  | _ -> rt_error t0 c)
               | None -> rt_error t0 c)))
  | NWriteFile (t0, fn, d) ->
    bind (self.ev_eval fn c) (fun fr ->
      if negb (dt_is fr.r_type KStr)
      then rt_error t0 c
      else bind (as_str fr) (fun name ->
             bind (gets (fun s -> s.s_files)) (fun fl ->
               match find_file name fl with
               | Some fh ->
                 (match fh.of_mode with
                  | FRead -> rt_error t0 c
                  | FRandom -> rt_error t0 c
                  | _ ->
                    bind (self.ev_eval d c) (fun dr ->
                      match dr.r_type.dk with
                      | KNone -> rt_error t0 c
                      | KEnum -> rt_error t0 c
                      | KPtr -> rt_error t0 c
                      | KRec -> rt_error t0 c
                      | _ ->
                        bind (as_payload dr) (fun p0 ->
                          bind (prim_to_string p0) (fun s ->
                            bind (gets (fun s0 -> s0.s_files)) (fun fl2 ->
                              match find_file name fl2 with
                              | Some fh2 ->
                                (match fh2.of_mode with
                                 | FRead -> rt_error t0 c
                                 | FRandom -> rt_error t0 c
                                 | _ ->
                                   bind
                                     (modify (fun st0 ->
                                       set_fs
                                         (fs_set name
                                           (app
                                             (match fs_get name st0.s_fs with
                                              | Some old -> old
                                              | None -> [])
                                             (app s (ch_nl :: []))) st0.s_fs)
                                         st0)) (fun _ -> ret res_none))
                              | None -> rt_error t0 c)))))
               | None -> rt_error t0 c)))
  | NCloseFile (t0, fn) ->
    bind (self.ev_eval fn c) (fun fr ->
      if negb (dt_is fr.r_type KStr)
      then rt_error t0 c
      else bind (as_str fr) (fun name ->
             bind (gets (fun s -> s.s_files)) (fun fl ->
               match find_file name fl with
               | Some fh ->
                 bind (close_file_effect fh) (fun _ ->
                   bind
                     (modify (fun s ->
                       set_files (remove_file name s.s_files) s)) (fun _ ->
                     ret res_none))
               | None -> rt_error t0 c)))
  | NSeek (t0, fn, a) ->
    bind (self.ev_eval a c) (fun ar ->
      if negb (dt_is ar.r_type KInt)
      then rt_error t0 c
      else bind (as_int ar) (fun addr ->
             if Z.ltb addr (Zpos XH)
             then rt_error t0 c
             else bind (self.ev_eval fn c) (fun fr ->
                    if negb (dt_is fr.r_type KStr)
                    then rt_error t0 c
                    else bind (as_str fr) (fun name ->
                           bind (gets (fun s -> s.s_files)) (fun fl ->
                             match find_file name fl with
                             | Some fh ->
                               (match fh.of_mode with
                                | FRandom ->
                                  (match rf_seek fh addr with
                                   | Some fh' ->
                                     bind (update_file fh') (fun _ ->
                                       ret res_none)
                                   | None -> rt_error t0 c)
                                | _ -> rt_error t0 c)
                             | None -> rt_error t0 c)))))
  | NGetRecord (t0, fn, id) ->
    bind (self.ev_eval fn c) (fun fr ->
      if negb (dt_is fr.r_type KStr)
      then rt_error t0 c
      else bind (as_str fr) (fun name ->
             bind (gets (fun s -> s.s_files)) (fun fl ->
               match find_file name fl with
               | Some fh ->
                 (match fh.of_mode with
                  | FRandom ->
                    bind (lookup_var c id.tval true) (fun vo ->
                      bind (lookup_arr c id.tval true) (fun ao ->
                        match vo with
                        | Some vid ->
                          bind (get_cell vid) (fun cl ->
                            if dt_is cl.c_type KPtr
                            then rt_error t0 c
                            else bind
                                   (match ao with
                                    | Some aid ->
                                      bind (get_arr aid) (fun a ->
                                        if dt_is a.a_type KPtr
                                        then rt_error t0 c
                                        else ret ())
                                    | None -> ret ()) (fun _ ->
                                   if cl.c_const
                                   then rt_error t0 c
                                   else (match rf_get fh with
                                         | Some rec0 ->
                                           bind (abs_val hfuel c cl.c_val)
                                             (fun old ->
                                             let (p0, ok) = load old rec0 in
                                             let (new0, _) = p0 in
                                             bind (store_tree hfuel vid new0)
                                               (fun _ ->
                                               if ok
                                               then ret res_none
                                               else rt_error t0 c))
                                         | None -> rt_error t0 c)))
                        | None ->
                          (match ao with
                           | Some aid ->
                             bind (get_arr aid) (fun a ->
                               if dt_is a.a_type KPtr
                               then rt_error t0 c
                               else (match rf_get fh with
                                     | Some rec0 ->
                                       bind
                                         (mapM (fun e ->
                                           bind (get_cell e) (fun cl ->
                                             abs_val hfuel c cl.c_val))
                                           a.a_elems) (fun olds ->
                                         let (p0, ok) = load_array olds rec0
                                         in
                                         let (news, _) = p0 in
                                         bind
                                           (zipM (fun e tr ->
                                             store_tree hfuel e tr) a.a_elems
                                             news) (fun _ ->
                                           if ok
                                           then ret res_none
                                           else rt_error t0 c))
                                     | None -> rt_error t0 c))
                           | None -> not_defined_error id c)))
                  | _ -> rt_error t0 c)
               | None -> rt_error t0 c)))
  | NPutRecord (t0, fn, id) ->
    bind (self.ev_eval fn c) (fun fr ->
      if negb (dt_is fr.r_type KStr)
      then rt_error t0 c
      else bind (as_str fr) (fun name ->
             bind (gets (fun s -> s.s_files)) (fun fl ->
               match find_file name fl with
               | Some fh ->
                 (match fh.of_mode with
                  | FRandom ->
                    bind (lookup_var c id.tval true) (fun vo ->
                      bind (lookup_arr c id.tval true) (fun ao ->
                        bind
                          (match vo with
                           | Some vid ->
                             bind (get_cell vid) (fun cl ->
                               if dt_is cl.c_type KPtr
                               then rt_error t0 c
                               else bind
                                      (match ao with
                                       | Some aid ->
                                         bind (get_arr aid) (fun a ->
                                           if dt_is a.a_type KPtr
                                           then rt_error t0 c
                                           else ret ())
                                       | None -> ret ()) (fun _ ->
                                      bind (abs_val hfuel c cl.c_val)
                                        (fun tr ->
                                        match dump tr with
                                        | Some s -> ret s
                                        | None ->
                                          unsupported
                                            ('N'::('a'::('N'::(' '::('t'::('e'::('x'::('t'::[])))))))))))
                           | None ->
                             (match ao with
                              | Some aid ->
                                bind (get_arr aid) (fun a ->
                                  if dt_is a.a_type KPtr
                                  then rt_error t0 c
                                  else bind
                                         (mapM (fun e ->
                                           bind (get_cell e) (fun cl ->
                                             abs_val hfuel c cl.c_val))
                                           a.a_elems) (fun trs ->
                                         match dump_array trs with
                                         | Some s -> ret s
                                         | None ->
                                           unsupported
                                             ('N'::('a'::('N'::(' '::('t'::('e'::('x'::('t'::[]))))))))))
                              | None -> not_defined_error id c)) (fun txt ->
                          bind (update_file (rf_put fh txt)) (fun _ ->
                            ret res_none))))
                  | _ -> rt_error t0 c)
               | None -> rt_error t0 c)))

(** val resolve_body : evs -> resolver -> n -> holder m **)

let resolve_body self r c =
  match r with
  | RSimple t0 ->
    bind (lookup_var c t0.tval true) (fun v ->
      match v with
      | Some id -> ret (HVar id)
      | None ->
        bind (lookup_arr c t0.tval true) (fun a ->
          match a with
          | Some id -> ret (HArr id)
          | None -> not_defined_error t0 c))
  | RField (t0, r', m0) ->
    bind (self.ev_resolve r' c) (fun h ->
      match h with
      | HVar id ->
        bind (get_cell id) (fun cl ->
          if negb (dt_is cl.c_type KRec)
          then rt_error t0 c
          else (match cl.c_val with
                | PRec (_, rc) ->
                  bind (lookup_var rc m0.tval false) (fun v ->
                    match v with
                    | Some fid -> ret (HVar fid)
                    | None ->
                      bind (lookup_arr rc m0.tval false) (fun a ->
                        match a with
                        | Some aid -> ret (HArr aid)
                        | None -> rt_error t0 c))
                | _ ->
                  crash
                    ('c'::('e'::('l'::('l'::(' '::('p'::('a'::('y'::('l'::('o'::('a'::('d'::(' '::('d'::('i'::('s'::('a'::('g'::('r'::('e'::('e'::('s'::(' '::('w'::('i'::('t'::('h'::(' '::('i'::('t'::('s'::(' '::('t'::('y'::('p'::('e'::[]))))))))))))))))))))))))))))))))))))))
      | HArr _ -> rt_error t0 c)
  | RDeref (t0, r') ->
    bind (self.ev_resolve r' c) (fun h ->
      match h with
      | HVar id ->
        bind (get_cell id) (fun cl ->
          if negb (dt_is cl.c_type KPtr)
          then rt_error t0 c
          else (match cl.c_val with
                | PPtr (_, tgt, owner) ->
                  bind (on_chain c owner) (fun live ->
                    if negb live
                    then rt_error t0 c
                    else (match tgt with
                          | Some tid -> ret (HVar tid)
                          | None -> rt_error t0 c))
                | _ ->
                  crash
                    ('c'::('e'::('l'::('l'::(' '::('p'::('a'::('y'::('l'::('o'::('a'::('d'::(' '::('d'::('i'::('s'::('a'::('g'::('r'::('e'::('e'::('s'::(' '::('w'::('i'::('t'::('h'::(' '::('i'::('t'::('s'::(' '::('t'::('y'::('p'::('e'::[]))))))))))))))))))))))))))))))))))))))
      | HArr _ -> rt_error t0 c)
  | RIndex (t0, r', idx) ->
    bind (self.ev_resolve r' c) (fun h ->
      match h with
      | HVar _ -> rt_error t0 c
      | HArr aid ->
        bind (get_arr aid) (fun a ->
          if negb (Nat.eqb (length idx) (length a.a_dims))
          then rt_error t0 c
          else bind (eval_indices (fun x -> self.ev_eval x c) c idx a.a_dims)
                 (fun is ->
                 match nth_z a.a_elems (linear is a.a_dims) with
                 | Some eid -> ret (HVar eid)
                 | None ->
                   crash
                     ('a'::('r'::('r'::('a'::('y'::('.'::('c'::('p'::('p'::(' '::('g'::('e'::('t'::('E'::('l'::('e'::('m'::('e'::('n'::('t'::(':'::(' '::('i'::('n'::('d'::('e'::('x'::(' '::('o'::('u'::('t'::('s'::('i'::('d'::('e'::(' '::('t'::('h'::('e'::(' '::('e'::('l'::('e'::('m'::('e'::('n'::('t'::(' '::('v'::('e'::('c'::('t'::('o'::('r'::[])))))))))))))))))))))))))))))))))))))))))))))))))))))))))

(** val case_equals_body : evs -> result -> node -> n -> bool m **)

let case_equals_body self v e c =
  bind (self.ev_eval e c) (fun r ->
    if (&&) (dt_is v.r_type KReal) (dt_is r.r_type KInt)
    then bind (as_real v) (fun a ->
           bind (as_int r) (fun b -> ret (req a (real_of_z b))))
    else if (&&) (dt_is v.r_type KInt) (dt_is r.r_type KReal)
         then bind (as_int v) (fun a ->
                bind (as_real r) (fun b -> ret (req (real_of_z a) b)))
         else if negb (dt_eq v.r_type r.r_type)
              then ret false
              else (match v.r_type.dk with
                    | KNone ->
                      crash
                        ('c'::('a'::('s'::('e'::('.'::('c'::('p'::('p'::(' '::('E'::('q'::('u'::('a'::('l'::('s'::('C'::('a'::('s'::('e'::('C'::('o'::('m'::('p'::('o'::('n'::('e'::('n'::('t'::(' '::('a'::('b'::('o'::('r'::('t'::[]))))))))))))))))))))))))))))))))))
                    | KInt ->
                      bind (as_int v) (fun a ->
                        bind (as_int r) (fun b -> ret (Z.eqb a b)))
                    | KReal ->
                      bind (as_real v) (fun a ->
                        bind (as_real r) (fun b -> ret (req a b)))
                    | KBool ->
                      bind (as_bool v) (fun a ->
                        bind (as_bool r) (fun b -> ret (eqb a b)))
                    | KChar ->
                      bind (as_char v) (fun a ->
                        bind (as_char r) (fun b -> ret (aeqb a b)))
                    | KStr ->
                      bind (as_str v) (fun a ->
                        bind (as_str r) (fun b -> ret (str_eqb a b)))
                    | KDate ->
                      bind (as_payload v) (fun a ->
                        bind (as_payload r) (fun b ->
                          match a with
                          | PDate (d1, m1, y1) ->
                            (match b with
                             | PDate (d2, m2, y2) ->
                               ret
                                 ((&&) ((&&) (Z.eqb d1 d2) (Z.eqb m1 m2))
                                   (Z.eqb y1 y2))
                             | _ ->
                               crash
                                 ('g'::('e'::('t'::('<'::('D'::('a'::('t'::('e'::('>'::(' '::('o'::('n'::(' '::('o'::('t'::('h'::('e'::('r'::(' '::('p'::('a'::('y'::('l'::('o'::('a'::('d'::[])))))))))))))))))))))))))))
                          | _ ->
                            crash
                              ('g'::('e'::('t'::('<'::('D'::('a'::('t'::('e'::('>'::(' '::('o'::('n'::(' '::('o'::('t'::('h'::('e'::('r'::(' '::('p'::('a'::('y'::('l'::('o'::('a'::('d'::[]))))))))))))))))))))))))))))
                    | KEnum ->
                      bind (as_payload v) (fun a ->
                        bind (as_payload r) (fun b ->
                          match a with
                          | PEnum (_, i) ->
                            (match b with
                             | PEnum (_, j) -> ret (Z.eqb i j)
                             | _ ->
                               crash
                                 ('g'::('e'::('t'::('<'::('E'::('n'::('u'::('m'::('>'::(' '::('o'::('n'::(' '::('o'::('t'::('h'::('e'::('r'::(' '::('p'::('a'::('y'::('l'::('o'::('a'::('d'::[])))))))))))))))))))))))))))
                          | _ ->
                            crash
                              ('g'::('e'::('t'::('<'::('E'::('n'::('u'::('m'::('>'::(' '::('o'::('n'::(' '::('o'::('t'::('h'::('e'::('r'::(' '::('p'::('a'::('y'::('l'::('o'::('a'::('d'::[]))))))))))))))))))))))))))))
                    | KPtr ->
                      bind (as_payload v) (fun a ->
                        bind (as_payload r) (fun b ->
                          match a with
                          | PPtr (_, t1, _) ->
                            (match b with
                             | PPtr (_, t2, _) ->
                               ret
                                 (match t1 with
                                  | Some x ->
                                    (match t2 with
                                     | Some y -> N.eqb x y
                                     | None -> false)
                                  | None ->
                                    (match t2 with
                                     | Some _ -> false
                                     | None -> true))
                             | _ ->
                               crash
                                 ('g'::('e'::('t'::('<'::('P'::('o'::('i'::('n'::('t'::('e'::('r'::('>'::(' '::('o'::('n'::(' '::('o'::('t'::('h'::('e'::('r'::(' '::('p'::('a'::('y'::('l'::('o'::('a'::('d'::[]))))))))))))))))))))))))))))))
                          | _ ->
                            crash
                              ('g'::('e'::('t'::('<'::('P'::('o'::('i'::('n'::('t'::('e'::('r'::('>'::(' '::('o'::('n'::(' '::('o'::('t'::('h'::('e'::('r'::(' '::('p'::('a'::('y'::('l'::('o'::('a'::('d'::[])))))))))))))))))))))))))))))))
                    | KRec -> ret false))

(** val case_range_body : evs -> result -> node -> node -> n -> bool m **)

let case_range_body self v lo hi c =
  if negb (is_numeric v.r_type)
  then ret false
  else bind (num_as_real v) (fun tv ->
         bind (self.ev_eval lo c) (fun lr ->
           if negb (is_numeric lr.r_type)
           then rt_error (node_token lo) c
           else bind (num_as_real lr) (fun lv ->
                  bind (self.ev_eval hi c) (fun hr ->
                    if negb (is_numeric hr.r_type)
                    then rt_error (node_token hi) c
                    else bind (num_as_real hr) (fun hv ->
                           ret ((&&) (rle lv tv) (rle tv hv)))))))

(** val run_block_body : bool -> limits -> evs -> block -> n -> unit m **)

let run_block_body repl lim self b c =
  iterM (fun n0 ->
    bind (tick lim (node_token n0) c) (fun _ ->
      bind (self.ev_eval n0 c) (fun r ->
        if repl then echo_result c r else ret ()))) b

(** val new_var_body : evs -> str -> dtype -> bool -> n -> n m **)

let new_var_body self name ty cst owner =
  match default_prim ty with
  | Some p0 ->
    bind fresh (fun id ->
      bind
        (put_cell id { c_name = name; c_type = ty; c_const = cst; c_owner =
          owner; c_val = p0 }) (fun _ -> ret id))
  | None ->
    (match ty.dk with
     | KNone ->
       crash
         ('v'::('a'::('r'::('i'::('a'::('b'::('l'::('e'::('.'::('c'::('p'::('p'::(' '::('V'::('a'::('r'::('i'::('a'::('b'::('l'::('e'::(' '::('N'::('O'::('N'::('E'::(' '::('a'::('b'::('o'::('r'::('t'::[]))))))))))))))))))))))))))))))))
     | KRec ->
       (match ty.dname with
        | Some tn ->
          bind (new_ctx (Some owner) tn false true dt_none) (fun rc ->
            bind (lookup_comp_def rc tn true) (fun d ->
              match d with
              | Some body ->
                bind (self.ev_run_block body rc) (fun _ ->
                  bind fresh (fun id ->
                    bind
                      (put_cell id { c_name = name; c_type = ty; c_const =
                        cst; c_owner = owner; c_val = (PRec (tn, rc)) })
                      (fun _ -> ret id)))
              | None ->
                crash
                  ('u'::('s'::('e'::('r'::('T'::('y'::('p'::('e'::('.'::('c'::('p'::('p'::(' '::('C'::('o'::('m'::('p'::('o'::('s'::('i'::('t'::('e'::(':'::(':'::('g'::('e'::('t'::('D'::('e'::('f'::('i'::('n'::('i'::('t'::('i'::('o'::('n'::(' '::('n'::('u'::('l'::('l'::[]))))))))))))))))))))))))))))))))))))))))))))
        | None ->
          crash
            ('v'::('a'::('r'::('i'::('a'::('b'::('l'::('e'::('.'::('c'::('p'::('p'::(':'::(' '::('u'::('s'::('e'::('r'::(' '::('t'::('y'::('p'::('e'::(' '::('w'::('i'::('t'::('h'::('o'::('u'::('t'::(' '::('a'::(' '::('n'::('a'::('m'::('e'::[])))))))))))))))))))))))))))))))))))))))
     | _ ->
       crash
         ('v'::('a'::('r'::('i'::('a'::('b'::('l'::('e'::('.'::('c'::('p'::('p'::(':'::(' '::('u'::('s'::('e'::('r'::(' '::('t'::('y'::('p'::('e'::(' '::('w'::('i'::('t'::('h'::('o'::('u'::('t'::(' '::('a'::(' '::('n'::('a'::('m'::('e'::[])))))))))))))))))))))))))))))))))))))))

(** val new_array_body :
    limits -> evs -> str -> dtype -> dim list -> n -> n m **)

let new_array_body lim self name ty dims owner =
  let n0 = total_size dims in
  bind (alloc_cells lim n0 owner) (fun _ ->
    bind (repeatM (Z.to_nat n0) (self.ev_new_var name ty false owner))
      (fun elems ->
      bind fresh (fun aid ->
        bind
          (put_arr aid { a_name = name; a_type = ty; a_dims = dims; a_elems =
            elems }) (fun _ -> ret aid))))

(** val bind_args_body :
    evs -> token -> ((str * dtype) * bool) list -> node list -> result list
    -> n -> n -> unit m **)

let bind_args_body self t0 params args vals c fc =
  match params with
  | [] -> ret ()
  | p0 :: pr ->
    let (p1, byref) = p0 in
    let (pn, pty) = p1 in
    (match args with
     | [] ->
       crash
         ('c'::('a'::('l'::('l'::(':'::(' '::('a'::('r'::('g'::('u'::('m'::('e'::('n'::('t'::(' '::('v'::('e'::('c'::('t'::('o'::('r'::('s'::(' '::('o'::('f'::(' '::('d'::('i'::('f'::('f'::('e'::('r'::('e'::('n'::('t'::(' '::('l'::('e'::('n'::('g'::('t'::('h'::[]))))))))))))))))))))))))))))))))))))))))))
     | a :: ar ->
       (match vals with
        | [] ->
          crash
            ('c'::('a'::('l'::('l'::(':'::(' '::('a'::('r'::('g'::('u'::('m'::('e'::('n'::('t'::(' '::('v'::('e'::('c'::('t'::('o'::('r'::('s'::(' '::('o'::('f'::(' '::('d'::('i'::('f'::('f'::('e'::('r'::('e'::('n'::('t'::(' '::('l'::('e'::('n'::('g'::('t'::('h'::[]))))))))))))))))))))))))))))))))))))))))))
        | v :: vr ->
          bind (if byref then ret v else implicit_cast pty v) (fun v' ->
            if negb (dt_eq pty v'.r_type)
            then rt_error t0 c
            else bind
                   (if byref
                    then (match a with
                          | NAccess (_, rs) ->
                            bind (self.ev_resolve rs c) (fun h ->
                              bind (expect_holder_var t0 c h) (fun id ->
                                add_var fc pn id))
                          | _ -> rt_error t0 c)
                    else bind (self.ev_new_var pn v'.r_type false fc)
                           (fun id ->
                           bind (get_cell id) (fun ncl ->
                             bind
                               (match ncl.c_val with
                                | PRec (_, dc) ->
                                  (match v'.r_val with
                                   | Some p2 ->
                                     (match p2 with
                                      | PRec (_, sc) ->
                                        if dt_is ncl.c_type KRec
                                        then same_layout hfuel dc sc
                                        else ret true
                                      | _ -> ret true)
                                   | None -> ret true)
                                | _ -> ret true) (fun ok ->
                               if negb ok
                               then rt_error t0 c
                               else bind (assign_val hfuel id v') (fun _ ->
                                      add_var fc pn id))))) (fun _ ->
                   self.ev_bind_args t0 pr ar vr c fc))))

(** val call_procedure_body :
    limits -> evs -> token -> str -> node list -> n -> result m **)

let call_procedure_body lim self t0 name args c =
  bind (gets (fun s -> s.s_procs)) (fun ps ->
    match assoc_str name ps with
    | Some pd ->
      bind (mapM (fun a -> self.ev_eval a c) args) (fun vals ->
        if negb (Nat.eqb (length args) (length pd.pd_params))
        then rt_error t0 c
        else bind (new_ctx (Some c) name false false dt_none) (fun pc ->
               bind (self.ev_bind_args t0 pd.pd_params args vals c pc)
                 (fun _ ->
                 bind
                   (upd_ctx c (ctx_with_switch (Some (t0.tline, t0.tcol))))
                   (fun _ ->
                   bind (gets (fun s -> s.s_depth)) (fun d ->
                     bind
                       (if (&&) (Z.ltb Z0 lim.max_depth)
                             (Z.ltb lim.max_depth (Z.add d (Zpos XH)))
                        then budget_error t0 c
                        else ret ()) (fun _ ->
                       bind (modify (set_depth (Z.add d (Zpos XH))))
                         (fun _ ->
                         bind
                           (call_body d pc false
                             (self.ev_run_block pd.pd_body pc)) (fun _ ->
                           bind (upd_ctx c (ctx_with_switch None)) (fun _ ->
                             ret res_none)))))))))
    | None -> not_defined_error t0 c)

(** val call_function_body :
    limits -> evs -> token -> node list -> n -> result m **)

let call_function_body lim self t0 args c =
  let name = t0.tval in
  bind (gets (fun s -> s.s_funcs)) (fun fs ->
    match builtin_sig name with
    | Some p0 ->
      let (pkinds, rk) = p0 in
      bind (mapM (fun a -> self.ev_eval a c) args) (fun vals ->
        if negb (Nat.eqb (length args) (length pkinds))
        then rt_error t0 c
        else bind (new_ctx (Some c) name true false (dt_prim rk)) (fun fc ->
               bind (builtin_args t0 c pkinds vals) (fun ps ->
                 bind
                   (upd_ctx c (ctx_with_switch (Some (t0.tline, t0.tcol))))
                   (fun _ ->
                   bind (gets (fun s -> s.s_depth)) (fun d ->
                     bind
                       (if (&&) (Z.ltb Z0 lim.max_depth)
                             (Z.ltb lim.max_depth (Z.add d (Zpos XH)))
                        then budget_error t0 c
                        else ret ()) (fun _ ->
                       bind (run_builtin name fc ps) (fun r ->
                         bind (upd_ctx c (ctx_with_switch None)) (fun _ ->
                           ret r))))))))
    | None ->
      (match assoc_str name fs with
       | Some fd ->
         bind (mapM (fun a -> self.ev_eval a c) args) (fun vals ->
           if negb (Nat.eqb (length args) (length fd.fd_params))
           then rt_error t0 c
           else bind (new_ctx (Some c) name true false fd.fd_ret) (fun fc ->
                  bind (self.ev_bind_args t0 fd.fd_params args vals c fc)
                    (fun _ ->
                    bind
                      (upd_ctx c (ctx_with_switch (Some (t0.tline, t0.tcol))))
                      (fun _ ->
                      bind (gets (fun s -> s.s_depth)) (fun d ->
                        bind
                          (if (&&) (Z.ltb Z0 lim.max_depth)
                                (Z.ltb lim.max_depth (Z.add d (Zpos XH)))
                           then budget_error t0 c
                           else ret ()) (fun _ ->
                          bind (modify (set_depth (Z.add d (Zpos XH))))
                            (fun _ ->
                            bind
                              (call_body d fc true
                                (self.ev_run_block fd.fd_body fc)) (fun _ ->
                              bind (get_ctx fc) (fun fx ->
                                match fx.x_retval with
                                | Some r ->
                                  bind (upd_ctx c (ctx_with_switch None))
                                    (fun _ -> ret r)
                                | None -> rt_error fd.fd_tok fc)))))))))
       | None -> not_defined_error t0 c))

(** val evs_zero : evs **)

let evs_zero =
  { ev_fuel = O; ev_eval = (fun _ _ -> failm FFuel); ev_resolve = (fun _ _ ->
    failm FFuel); ev_case_equals = (fun _ _ _ -> failm FFuel);
    ev_case_range = (fun _ _ _ _ -> failm FFuel); ev_run_block = (fun _ _ ->
    failm FFuel); ev_new_var = (fun _ _ _ _ -> failm FFuel); ev_new_array =
    (fun _ _ _ _ -> failm FFuel); ev_bind_args = (fun _ _ _ _ _ _ ->
    failm FFuel); ev_call_procedure = (fun _ _ _ _ -> failm FFuel);
    ev_call_function = (fun _ _ _ -> failm FFuel) }

(** val evs_step : bool -> bool -> limits -> evs -> evs **)

let evs_step pedantic repl lim self =
  { ev_fuel = (S self.ev_fuel); ev_eval = (eval_body pedantic lim self);
    ev_resolve = (resolve_body self); ev_case_equals =
    (case_equals_body self); ev_case_range = (case_range_body self);
    ev_run_block = (run_block_body repl lim self); ev_new_var =
    (new_var_body self); ev_new_array = (new_array_body lim self);
    ev_bind_args = (bind_args_body self); ev_call_procedure =
    (call_procedure_body lim self); ev_call_function =
    (call_function_body lim self) }

(** val evs_at : bool -> bool -> limits -> nat -> evs **)

let rec evs_at pedantic repl lim = function
| O -> evs_zero
| S f -> evs_step pedantic repl lim (evs_at pedantic repl lim f)

(** val run_block : bool -> bool -> limits -> nat -> block -> n -> unit m **)

let run_block pedantic repl lim fuel =
  (evs_at pedantic repl lim fuel).ev_run_block

type status =
| SDone
| SCrash of char list
| SFuel
| SUnsupported of char list

type observation = { ob_out : str; ob_diags : diag list; ob_exit : z;
                     ob_fs : (str * str) list; ob_status : status;
                     ob_misc : str list }

(** val root_id : n **)

let root_id =
  Npos XH

(** val global_ctx : ctx **)

let global_ctx =
  { x_parent = None; x_name =
    (str_of_string ('P'::('r'::('o'::('g'::('r'::('a'::('m'::[]))))))));
    x_vars = []; x_arrs = []; x_enums = []; x_ptrs = []; x_comps = [];
    x_isfun = false; x_isrec = false; x_rettype = dt_none; x_retval = None;
    x_switch = None; x_depth = O }

(** val init_state : str -> (str * str) list -> z list -> st **)

let init_state stdin fs rnd =
  { s_next = (Npos (XO XH)); s_cells = nm_empty; s_arrs = nm_empty; s_ctxs =
    (nm_put root_id global_ctx nm_empty); s_procs = []; s_funcs = []; s_out =
    []; s_in = stdin; s_fs = fs; s_files = []; s_steps = Z0; s_cellcount =
    Z0; s_depth = Z0; s_rand = rnd }

(** val warning_text : (z * z) -> str **)

let warning_text w =
  app
    (str_of_string
      ('W'::('a'::('r'::('n'::('i'::('n'::('g'::(' '::('o'::('n'::(' '::('l'::('i'::('n'::('e'::(' '::[])))))))))))))))))
    (app (z_to_str (fst w))
      (app
        (str_of_string
          (' '::('c'::('o'::('l'::('u'::('m'::('n'::(' '::[])))))))))
        (app (z_to_str (snd w))
          (app
            (str_of_string
              (':'::(' '::('C'::('o'::('m'::('p'::('a'::('r'::('i'::('s'::('o'::('n'::(' '::('r'::('e'::('s'::('u'::('l'::('t'::(' '::('i'::('s'::(' '::('i'::('g'::('n'::('o'::('r'::('e'::('d'::('.'::(' '::('U'::('s'::('e'::(' '::('\''::('<'::('-'::('\''::(' '::('i'::('n'::('s'::('t'::('e'::('a'::('d'::(' '::('o'::('f'::(' '::('\''::('='::('\''::(' '::('i'::('f'::(' '::('y'::('o'::('u'::(' '::('w'::('a'::('n'::('t'::('e'::('d'::(' '::('t'::('o'::(' '::('a'::('s'::('s'::('i'::('g'::('n'::('.'::[])))))))))))))))))))))))))))))))))))))))))))))))))))))))))))))))))))))))))))))))))
            (ch_nl :: [])))))

(** val emit_warnings : (z * z) list -> st -> st **)

let emit_warnings ws s =
  fold_left (fun s0 w -> set_out ((warning_text w) :: s0.s_out) s0) (rev ws) s

(** val diag_of_lex : lexerr -> diag **)

let diag_of_lex e =
  { d_kind =
    (match e.le_kind with
     | LexSyntax -> DSyntax
     | LexPedantic -> DPedantic); d_line = e.le_line; d_col = e.le_col;
    d_cls = EOther; d_trace = [] }

(** val diag_of_parse : lexkind -> token -> diag **)

let diag_of_parse k t0 =
  { d_kind = (match k with
              | LexSyntax -> DSyntax
              | LexPedantic -> DPedantic); d_line = t0.tline; d_col =
    t0.tcol; d_cls = EOther; d_trace = [] }

(** val close_all_files : unit m **)

let close_all_files =
  bind (gets (fun s -> s.s_files)) (fun fl ->
    bind (iterM close_file_effect fl) (fun _ -> modify (set_files [])))

type entry_res =
| EOk
| EDiag of diag
| EAbort of status

(** val run_main :
    bool -> limits -> nat -> bool -> block -> n -> st -> entry_res * st **)

let run_main pedantic lim fuel repl b root s =
  let (o, s') = run_block pedantic repl lim fuel b root s in
  (match o with
   | Ok _ -> (EOk, s')
   | Fail f ->
     (match f with
      | FErr d -> ((EDiag d), s')
      | FCrash site -> ((EAbort (SCrash site)), s')
      | FFuel -> ((EAbort SFuel), s')
      | FBreak t0 ->
        let (o0, s'') = rt_error t0 root s' in
        (match o0 with
         | Ok _ ->
           ((EAbort (SCrash
             ('t'::('r'::('a'::('c'::('e'::('b'::('a'::('c'::('k'::[]))))))))))),
             s'')
         | Fail f0 ->
           (match f0 with
            | FErr d -> ((EDiag d), s'')
            | _ ->
              ((EAbort (SCrash
                ('t'::('r'::('a'::('c'::('e'::('b'::('a'::('c'::('k'::[]))))))))))),
                s'')))
      | FContinue t0 ->
        let (o0, s'') = rt_error t0 root s' in
        (match o0 with
         | Ok _ ->
           ((EAbort (SCrash
             ('t'::('r'::('a'::('c'::('e'::('b'::('a'::('c'::('k'::[]))))))))))),
             s'')
         | Fail f0 ->
           (match f0 with
            | FErr d -> ((EDiag d), s'')
            | _ ->
              ((EAbort (SCrash
                ('t'::('r'::('a'::('c'::('e'::('b'::('a'::('c'::('k'::[]))))))))))),
                s'')))
      | FReturn ->
        ((EAbort (SCrash
          ('u'::('n'::('c'::('a'::('u'::('g'::('h'::('t'::(' '::('R'::('e'::('t'::('u'::('r'::('n'::('E'::('r'::('r'::('S'::('i'::('g'::('n'::('a'::('l'::[])))))))))))))))))))))))))),
          s')
      | FUnsupported w -> ((EAbort (SUnsupported w)), s')))

(** val run_source :
    bool -> limits -> nat -> bool -> str -> n -> st -> entry_res * st **)

let run_source pedantic lim fuel repl src root s =
  match lex pedantic src with
  | Inl toks ->
    (match parse_program pedantic toks with
     | POk (b, ps) ->
       let s1 = emit_warnings ps.p_warns s in
       let (e, s2) = run_main pedantic lim fuel repl b root s1 in
       (match e with
        | EDiag d -> ((EDiag d), (set_out ((ch_nl :: []) :: s2.s_out) s2))
        | x -> (x, s2))
     | PFail (k, t0, ps) ->
       let s1 = emit_warnings ps.p_warns s in
       ((EDiag (diag_of_parse k t0)),
       (set_out ((ch_nl :: []) :: s1.s_out) s1))
     | PFuel -> ((EAbort SFuel), s))
  | Inr e -> ((EDiag (diag_of_lex e)), (set_out ((ch_nl :: []) :: s.s_out) s))

(** val run_file_text :
    bool -> limits -> nat -> str -> st -> entry_res * st **)

let run_file_text pedantic lim fuel content s =
  let src = app content (ch_nl :: []) in
  let saved_procs = s.s_procs in
  let saved_funcs = s.s_funcs in
  let saved_files = s.s_files in
  let (o, s0) =
    new_ctx None
      (str_of_string ('P'::('r'::('o'::('g'::('r'::('a'::('m'::[]))))))))
      false false dt_none (set_files [] (set_funcs [] (set_procs [] s)))
  in
  (match o with
   | Ok root ->
     let (r, s1) = run_source pedantic lim fuel false src root s0 in
     let s2 = let (_, x) = close_all_files s1 in x in
     (r,
     (set_files saved_files
       (set_funcs saved_funcs (set_procs saved_procs s2))))
   | Fail _ ->
     ((EAbort (SCrash ('c'::('o'::('n'::('t'::('e'::('x'::('t'::[]))))))))),
       s0))

(** val finish : entry_res -> st -> diag list -> str list -> observation **)

let finish r s0 diags misc =
  let s = let (_, x) = close_all_files s0 in x in
  (match r with
   | EOk ->
     { ob_out = (out_string s); ob_diags = (rev diags); ob_exit = Z0; ob_fs =
       s.s_fs; ob_status = SDone; ob_misc = (rev misc) }
   | EDiag d ->
     { ob_out = (out_string s); ob_diags = (rev (d :: diags)); ob_exit =
       (Zpos XH); ob_fs = s.s_fs; ob_status = SDone; ob_misc = (rev misc) }
   | EAbort st0 ->
     { ob_out = (out_string s); ob_diags = (rev diags); ob_exit = (Zneg XH);
       ob_fs = s.s_fs; ob_status = st0; ob_misc = (rev misc) })

(** val run_file :
    bool -> limits -> nat -> str -> str -> (str * str) list -> z list ->
    observation **)

let run_file pedantic lim fuel content stdin fs rnd =
  let s = init_state stdin fs rnd in
  let (r, s1) =
    run_source pedantic lim fuel false (app content (ch_nl :: [])) root_id s
  in
  let s2 = let (_, x) = close_all_files s1 in x in finish r s2 [] []

(** val repl_header : str **)

let repl_header =
  app
    (str_of_string
      ('P'::('s'::('e'::('u'::('d'::('o'::('E'::('n'::('g'::('i'::('n'::('e'::('2'::(' '::('v'::('1'::('.'::('0'::('.'::('1'::(' '::('R'::('E'::('P'::('L'::[]))))))))))))))))))))))))))
    (app (ch_nl :: [])
      (app
        (str_of_string
          ('E'::('n'::('t'::('e'::('r'::(' '::('\''::('?'::('\''::(' '::('f'::('o'::('r'::(' '::('h'::('e'::('l'::('p'::(','::(' '::('\''::('E'::('X'::('I'::('T'::('\''::(' '::('t'::('o'::(' '::('q'::('u'::('i'::('t'::[])))))))))))))))))))))))))))))))))))
        (ch_nl :: [])))

(** val repl_help : str **)

let repl_help =
  app
    (str_of_string
      ('V'::('i'::('s'::('i'::('t'::(' '::('h'::('t'::('t'::('p'::('s'::(':'::('/'::('/'::('g'::('i'::('t'::('h'::('u'::('b'::('.'::('c'::('o'::('m'::('/'::('S'::('i'::('n'::('g'::('u'::('l'::('a'::('r'::('i'::('t'::('y'::('T'::('3'::('/'::('P'::('s'::('e'::('u'::('d'::('o'::('E'::('n'::('g'::('i'::('n'::('e'::('2'::(' '::('f'::('o'::('r'::(' '::('s'::('y'::('n'::('t'::('a'::('x'::(','::(' '::('e'::('x'::('a'::('m'::('p'::('l'::('e'::('s'::(' '::('a'::('n'::('d'::(' '::('m'::('o'::('r'::('e'::(' '::('i'::('n'::('f'::('o'::[]))))))))))))))))))))))))))))))))))))))))))))))))))))))))))))))))))))))))))))))))))))))))
    (app (ch_nl :: [])
      (app
        (str_of_string
          ('U'::('s'::('e'::(' '::('`'::('R'::('U'::('N'::('F'::('I'::('L'::('E'::(' '::('<'::('f'::('i'::('l'::('e'::('n'::('a'::('m'::('e'::('>'::('`'::(' '::('t'::('o'::(' '::('r'::('u'::('n'::(' '::('p'::('r'::('o'::('g'::('r'::('a'::('m'::('s'::(' '::('s'::('t'::('o'::('r'::('e'::('d'::(' '::('i'::('n'::(' '::('f'::('i'::('l'::('e'::('s'::[])))))))))))))))))))))))))))))))))))))))))))))))))))))))))
        (ch_nl :: [])))

(** val multiline_keywords : char list list **)

let multiline_keywords =
  ('I'::('F'::[])) :: (('C'::('A'::('S'::('E'::[])))) :: (('W'::('H'::('I'::('L'::('E'::[]))))) :: (('R'::('E'::('P'::('E'::('A'::('T'::[])))))) :: (('F'::('O'::('R'::[]))) :: (('P'::('R'::('O'::('C'::('E'::('D'::('U'::('R'::('E'::[]))))))))) :: (('F'::('U'::('N'::('C'::('T'::('I'::('O'::('N'::[])))))))) :: (('T'::('Y'::('P'::('E'::[])))) :: [])))))))

(** val first_keyword : str -> char list list -> char list option **)

let rec first_keyword code = function
| [] -> None
| k :: r ->
  if starts_with (str_of_string k) code then Some k else first_keyword code r

(** val put : str -> st -> st **)

let put x s =
  set_out (x :: s.s_out) s

(** val get_line : str -> st -> (str * bool) * st **)

let get_line prompt s =
  let s1 = put prompt s in
  let (o, s2) = read_line s1 in
  (match o with
   | Ok a -> let (l, eof) = a in ((l, (negb eof)), s2)
   | Fail _ -> (([], false), s2))

(** val read_continuation : nat -> str -> st -> str option * st **)

let rec read_continuation n0 code s =
  match n0 with
  | O -> ((Some code), s)
  | S k ->
    let (p0, s1) = get_line (str_of_string ('.'::(' '::[]))) s in
    let (l, ok) = p0 in
    if negb ok
    then (None, s1)
    else (match l with
          | [] -> ((Some (app code (ch_nl :: []))), s1)
          | _ :: _ -> read_continuation k (app code (app (ch_nl :: []) l)) s1)

(** val strip_trailing_blanks_keep_first : str -> str **)

let rec strip_trailing_blanks_keep_first r = match r with
| [] -> []
| c :: t0 ->
  (match t0 with
   | [] -> c :: []
   | _ :: _ ->
     if (||) (aeqb c ch_space) (aeqb c ch_tab)
     then strip_trailing_blanks_keep_first t0
     else r)

(** val exit_msg : bool -> str **)

let exit_msg ok =
  app (ch_nl :: [])
    (app
      (str_of_string
        ('='::('='::('>'::(' '::('P'::('r'::('o'::('g'::('r'::('a'::('m'::(' '::('e'::('x'::('i'::('t'::('e'::('d'::(' '::[]))))))))))))))))))))
      (app
        (str_of_string
          (if ok
           then 's'::('u'::('c'::('c'::('e'::('s'::('s'::('f'::('u'::('l'::('l'::('y'::[])))))))))))
           else 'w'::('i'::('t'::('h'::(' '::('a'::('n'::(' '::('e'::('r'::('r'::('o'::('r'::[]))))))))))))))
        (ch_nl :: [])))

(** val repl_loop :
    bool -> limits -> nat -> nat -> st -> diag list -> str list -> observation **)

let rec repl_loop pedantic lim fuel n0 s diags misc =
  match n0 with
  | O -> finish (EAbort SFuel) s diags misc
  | S k ->
    let (p0, s1) = get_line (str_of_string ('>'::(' '::[]))) s in
    let (code, ok) = p0 in
    if negb ok
    then finish EOk s1 diags misc
    else (match code with
          | [] -> repl_loop pedantic lim fuel k s1 diags misc
          | _ :: _ ->
            if str_eqb code (str_of_string ('?'::[]))
            then repl_loop pedantic lim fuel k (put repl_help s1) diags misc
            else if str_eqb code
                      (str_of_string ('E'::('X'::('I'::('T'::[])))))
                 then finish EOk s1 diags misc
                 else if starts_with
                           (str_of_string
                             ('R'::('U'::('N'::('F'::('I'::('L'::('E'::[]))))))))
                           code
                      then if Nat.ltb (length code) (S (S (S (S (S (S (S (S
                                (S O)))))))))
                           then repl_loop pedantic lim fuel k s1 diags
                                  ((str_of_string
                                     ('E'::('x'::('p'::('e'::('c'::('t'::('e'::('d'::(' '::('f'::('i'::('l'::('e'::('n'::('a'::('m'::('e'::[])))))))))))))))))) :: misc)
                           else let name =
                                  rev
                                    (strip_trailing_blanks_keep_first
                                      (rev
                                        (skipn (S (S (S (S (S (S (S (S
                                          O)))))))) code)))
                                in
                                let s2 =
                                  put
                                    (app
                                      (str_of_string
                                        ('='::('='::('>'::(' '::('R'::('u'::('n'::('n'::('i'::('n'::('g'::(' '::('f'::('i'::('l'::('e'::(' '::('\''::[])))))))))))))))))))
                                      (app name
                                        (app (str_of_string ('\''::[]))
                                          (ch_nl :: [])))) s1
                                in
                                (match fs_get name s2.s_fs with
                                 | Some content ->
                                   let (e, s3) =
                                     run_file_text pedantic lim fuel content
                                       s2
                                   in
                                   (match e with
                                    | EOk ->
                                      repl_loop pedantic lim fuel k
                                        (put (exit_msg true) s3) diags misc
                                    | EDiag d ->
                                      repl_loop pedantic lim fuel k
                                        (put (exit_msg false) s3)
                                        (d :: diags) misc
                                    | EAbort st0 ->
                                      finish (EAbort st0) s3 diags misc)
                                 | None ->
                                   repl_loop pedantic lim fuel k
                                     (put (exit_msg false) s2) diags
                                     ((str_of_string
                                        ('F'::('i'::('l'::('e'::(' '::('n'::('o'::('t'::(' '::('f'::('o'::('u'::('n'::('d'::[]))))))))))))))) :: misc))
                      else let multi =
                             match first_keyword code multiline_keywords with
                             | Some kw ->
                               if (&&)
                                    (eqb0 kw ('T'::('Y'::('P'::('E'::[])))))
                                    (existsb (fun c -> aeqb c '=') code)
                               then false
                               else true
                             | None -> false
                           in
                           let (full, s2) =
                             if multi
                             then read_continuation (S (length s1.s_in)) code
                                    s1
                             else ((Some code), s1)
                           in
                           (match full with
                            | Some src ->
                              let (e, s3) =
                                run_source pedantic lim fuel true src root_id
                                  s2
                              in
                              (match e with
                               | EOk ->
                                 repl_loop pedantic lim fuel k s3 diags misc
                               | EDiag d ->
                                 repl_loop pedantic lim fuel k s3
                                   (d :: diags) misc
                               | EAbort st0 ->
                                 finish (EAbort st0) s3 diags misc)
                            | None -> finish EOk s2 diags misc))

(** val run_repl :
    bool -> limits -> nat -> str -> (str * str) list -> z list -> observation **)

let run_repl pedantic lim fuel stdin fs rnd =
  let s = put repl_header (init_state stdin fs rnd) in
  repl_loop pedantic lim fuel (S (S (length stdin))) s [] []

(** val lex_tokens : bool -> str -> (token list, lexerr) sum **)

let lex_tokens =
  lex

(** val parse_ok : bool -> str -> z **)

let parse_ok pedantic input =
  match lex pedantic input with
  | Inl toks ->
    (match parse_program pedantic toks with
     | POk (_, _) -> Z0
     | PFail (_, _, _) -> Zpos (XO XH)
     | PFuel -> Zpos (XI XH))
  | Inr _ -> Zpos XH
