(* Lexer.v — model of src/lexer/{lexer,symbolLexer}.cpp: bytes -> tokens with (line, column).
   Written to mirror the C++ control flow (advance(), stale currentChar at end of input,
   token positions taken before or after advance() exactly where the code does). *)
From PE2 Require Export Base.
Local Open Scope Z_scope.

Inductive ttype :=
 | TINTEGER | TREAL | TCHAR | TSTRING | TDATE
 | TRPAREN | TLPAREN
 | TPLUS | TMINUS | TSTAR | TSLASH | TDIV | TMOD
 | TAMPERSAND
 | TASSIGNMENT | TCOLON | TCOMMA
 | TEQUALS | TNOT_EQUALS | TGREATER | TLESSER | TGREATER_EQUAL | TLESSER_EQUAL
 | TAND | TOR | TNOT
 | TTRUE | TFALSE
 | TDECLARE | TCONSTANT | TIDENTIFIER
 | TDATA_TYPE | TARRAY | TLSQRBRACKET | TRSQRBRACKET
 | TTYPE | TENDTYPE | TCARET | TPERIOD
 | TIF | TTHEN | TELSE | TENDIF
 | TCASE | TOF | TOTHERWISE | TENDCASE
 | TWHILE | TDO | TENDWHILE
 | TREPEAT | TUNTIL
 | TFOR | TTO | TSTEP | TNEXT
 | TBREAK | TCONTINUE
 | TPROCEDURE | TBYREF | TBYVAL | TENDPROCEDURE | TCALL
 | TFUNCTION | TENDFUNCTION | TRETURNS | TRETURN
 | TOUTPUT | TINPUT
 | TOPENFILE | TREADFILE | TWRITEFILE | TCLOSEFILE
 | TREAD | TWRITE | TAPPEND | TRANDOM
 | TSEEK | TGETRECORD | TPUTRECORD
 | TLINE_END | TEXPRESSION_END.

Definition ttype_eq_dec : forall a b : ttype, {a = b} + {a <> b}.
Proof. decide equality. Defined.
Definition tt_eqb (a b : ttype) : bool := if ttype_eq_dec a b then true else false.
Lemma tt_eqb_eq a b : tt_eqb a b = true <-> a = b.
Proof. unfold tt_eqb; destruct (ttype_eq_dec a b); split; congruence. Qed.

Record token := mkTok { tt : ttype; tline : Z; tcol : Z; tval : str }.

Inductive lexkind := LexSyntax | LexPedantic.
Record lexerr := mkLexErr { le_kind : lexkind; le_line : Z; le_col : Z }.

(* lexer state: [rest] starts at the current character (idx); when [rest] is empty the code's
   currentChar keeps the last character read ([stale]). [prevc] is the character at idx-1. *)
Record lst := mkLst { rest : str; stale : ascii; line : Z; col : Z; prevc : option ascii }.

Definition curc (s : lst) : ascii := match rest s with c :: _ => c | [] => stale s end.
Definition at_end (s : lst) : bool := match rest s with [] => true | _ => false end.

Definition advance (s : lst) : lst :=
  let cc := curc s in
  let l := if aeqb cc ch_nl then line s + 1 else line s in
  let c := if aeqb cc ch_nl then 0 else col s in
  match rest s with
  | [] => mkLst [] cc l c (prevc s)
  | x :: [] => mkLst [] x l c (Some x)
  | x :: r => mkLst r x l (c + 1) (Some x)
  end.

Fixpoint advance_n (n : nat) (s : lst) : lst :=
  match n with O => s | S k => advance_n k (advance s) end.

Definition remove_cr (s : str) : str := filter (fun c => negb (aeqb c ch_cr)) s.

Definition init_lst (input : str) : lst :=
  match input with
  | [] => mkLst [] ch_nul 1 0 None
  | c :: _ => mkLst input c 1 1 None
  end.

Definition get_next_char (s : lst) (n : nat) : ascii := nth n (rest s) ch_nul.

Definition keywords : list (string * ttype) :=
  [("DIV", TDIV); ("MOD", TMOD); ("AND", TAND); ("OR", TOR); ("NOT", TNOT);
   ("TRUE", TTRUE); ("FALSE", TFALSE); ("DECLARE", TDECLARE); ("CONSTANT", TCONSTANT);
   ("ARRAY", TARRAY); ("TYPE", TTYPE); ("ENDTYPE", TENDTYPE);
   ("IF", TIF); ("THEN", TTHEN); ("ELSE", TELSE); ("ENDIF", TENDIF);
   ("CASE", TCASE); ("OF", TOF); ("OTHERWISE", TOTHERWISE); ("ENDCASE", TENDCASE);
   ("WHILE", TWHILE); ("DO", TDO); ("ENDWHILE", TENDWHILE);
   ("REPEAT", TREPEAT); ("UNTIL", TUNTIL);
   ("FOR", TFOR); ("TO", TTO); ("STEP", TSTEP); ("NEXT", TNEXT);
   ("BREAK", TBREAK); ("CONTINUE", TCONTINUE);
   ("PROCEDURE", TPROCEDURE); ("BYREF", TBYREF); ("BYVAL", TBYVAL); ("ENDPROCEDURE", TENDPROCEDURE);
   ("CALL", TCALL); ("FUNCTION", TFUNCTION); ("ENDFUNCTION", TENDFUNCTION);
   ("RETURNS", TRETURNS); ("RETURN", TRETURN);
   ("OUTPUT", TOUTPUT); ("PRINT", TOUTPUT); ("INPUT", TINPUT);
   ("OPENFILE", TOPENFILE); ("READFILE", TREADFILE); ("WRITEFILE", TWRITEFILE); ("CLOSEFILE", TCLOSEFILE);
   ("READ", TREAD); ("WRITE", TWRITE); ("APPEND", TAPPEND); ("RANDOM", TRANDOM);
   ("SEEK", TSEEK); ("GETRECORD", TGETRECORD); ("PUTRECORD", TPUTRECORD)]%string.

Definition data_type_words : list string :=
  ["INTEGER"; "REAL"; "BOOLEAN"; "CHAR"; "STRING"; "DATE"]%string.

Fixpoint lookup_kw (w : str) (l : list (string * ttype)) : option ttype :=
  match l with
  | [] => None
  | (k, t) :: r => if str_eqb w (str_of_string k) then Some t else lookup_kw w r
  end.

Definition is_data_type_word (w : str) : bool :=
  existsb (fun k => str_eqb w (str_of_string k)) data_type_words.

(* result of a sub-lexer: new state and tokens (most recent first), or an error *)
Inductive lres := LOk (s : lst) (toks : list token) | LErr (e : lexerr).

(* ---- makeWord ---- *)
Fixpoint word_loop (fuel : nat) (s : lst) (acc : str) : lst * str :=
  match fuel with
  | O => (s, rev acc)
  | S f =>
    if at_end s then (s, rev acc)
    else let c := curc s in
         if is_alnum c || aeqb c "_"%char then word_loop f (advance s) (c :: acc)
         else (s, rev acc)
  end.

Definition make_word (pedantic : bool) (s : lst) (toks : list token) : lres :=
  let startcol := col s in
  let '(s', w) := word_loop (S (List.length (rest s))) s [] in
  let mk t v := mkTok t (line s') startcol v in
  match lookup_kw w keywords with
  | Some TBREAK => if pedantic then LErr (mkLexErr LexPedantic (line s') startcol)
                   else LOk s' (mk TBREAK [] :: toks)
  | Some TCONTINUE => if pedantic then LErr (mkLexErr LexPedantic (line s') startcol)
                      else LOk s' (mk TCONTINUE [] :: toks)
  | Some t => LOk s' (mk t [] :: toks)
  | None => if is_data_type_word w then LOk s' (mk TDATA_TYPE w :: toks)
            else LOk s' (mk TIDENTIFIER w :: toks)
  end.

(* ---- makeNumber ---- *)
Fixpoint number_loop (fuel : nat) (s : lst) (decimal : bool) (acc : str) : lst * bool * str :=
  match fuel with
  | O => (s, decimal, rev acc)
  | S f =>
    if at_end s then (s, decimal, rev acc)
    else let c := curc s in
         if aeqb c "."%char && negb decimal then number_loop f (advance s) true (c :: acc)
         else if is_digit c then number_loop f (advance s) decimal (c :: acc)
         else (s, decimal, rev acc)
  end.

Fixpoint count_digits_from (l : str) : nat :=
  match l with c :: r => if is_digit c then S (count_digits_from r) else O | [] => O end.

Fixpoint digits_loop (fuel : nat) (s : lst) (acc : str) : lst * str :=
  match fuel with
  | O => (s, acc)
  | S f => if negb (at_end s) && is_digit (curc s) then digits_loop f (advance s) (curc s :: acc)
           else (s, acc)
  end.

Definition make_number (s : lst) (toks : list token) : lres :=
  let startcol := col s in
  let '(s1, decimal, txt) := number_loop (S (List.length (rest s))) s false [] in
  let numtok := mkTok (if decimal then TREAL else TINTEGER) (line s1) startcol txt in
  if negb (aeqb (curc s1) "/"%char) || decimal then LOk s1 (numtok :: toks)
  else
    (* currentChar = '/' : in the code currentChar may be stale here only if it is a digit or '.',
       so rest s1 is non-empty and starts with '/' *)
    let k := count_digits_from (tl (rest s1)) in       (* month digits *)
    let i := S k in                                       (* index of the char after the month *)
    if (Nat.ltb i 2) || negb (aeqb (get_next_char s1 i) "/"%char)
       || negb (is_digit (get_next_char s1 (S i)))
    then LOk s1 (numtok :: toks)
    else
      let mid := firstn (S i) (rest s1) in                (* "/mm/" *)
      let s2 := advance_n (S i) s1 in
      let '(s3, yrev) := digits_loop (S (List.length (rest s2))) s2 [] in
      LOk s3 (mkTok TDATE (line s3) startcol (txt ++ mid ++ rev yrev) :: toks).

(* ---- escape sequences ---- *)
Definition esc_seq (c : ascii) : option ascii :=
  if aeqb c "n"%char then Some ch_nl
  else if aeqb c "t"%char then Some ch_tab
  else if aeqb c ch_quote then Some ch_quote
  else if aeqb c ch_dquote then Some ch_dquote
  else if aeqb c ch_bslash then Some ch_bslash
  else None.

(* ---- makeChar ---- *)
Definition make_char (s : lst) (toks : list token) : lres :=
  if Nat.ltb (List.length (rest s)) 3 then LErr (mkLexErr LexSyntax (line s) (col s))
  else
    let startcol := col s in
    let s1 := advance s in
    let body :=
      if aeqb (curc s1) ch_bslash then
        let s2 := advance s1 in
        match esc_seq (curc s2) with
        | Some c => inl (s2, c)
        | None => inr (mkLexErr LexSyntax (line s2) (col s2))
        end
      else if aeqb (curc s1) ch_quote then inr (mkLexErr LexSyntax (line s1) (col s1))
      else inl (s1, curc s1) in
    match body with
    | inr e => LErr e
    | inl (s2, c) =>
      match rest s2 with
      | _ :: q :: _ =>
        if aeqb q ch_quote then
          let s3 := advance (advance s2) in
          LOk s3 (mkTok TCHAR (line s3) startcol [c] :: toks)
        else LErr (mkLexErr LexSyntax (line s2) (col s2))
      | _ => LErr (mkLexErr LexSyntax (line s2) (col s2))
      end
    end.

(* ---- makeString ---- *)
Fixpoint string_loop (fuel : nat) (s : lst) (acc : str) : (lst * str) + lexerr :=
  match fuel with
  | O => inl (s, acc)
  | S f =>
    if aeqb (curc s) ch_dquote || at_end s then inl (s, acc)
    else if aeqb (curc s) ch_bslash then
      let s1 := advance s in
      match esc_seq (curc s1) with
      | Some c => string_loop f (advance s1) (c :: acc)
      | None => inr (mkLexErr LexSyntax (line s1) (col s1))
      end
    else string_loop f (advance s) (curc s :: acc)
  end.

Definition make_string (s : lst) (toks : list token) : lres :=
  let startcol := col s in
  let s1 := advance s in
  match string_loop (S (List.length (rest s1))) s1 [] with
  | inr e => LErr e
  | inl (s2, acc) =>
    if at_end s2 || negb (aeqb (curc s2) ch_dquote) then LErr (mkLexErr LexSyntax (line s2) (col s2))
    else let s3 := advance s2 in
         LOk s3 (mkTok TSTRING (line s3) startcol (rev acc) :: toks)
  end.

(* ---- main loop ---- *)
Definition io_keyword (t : ttype) : bool :=
  match t with TINPUT | TOUTPUT | TOPENFILE | TREADFILE | TWRITEFILE | TCLOSEFILE => true | _ => false end.

Fixpoint skip_comment (fuel : nat) (s : lst) : lst :=
  match fuel with
  | O => s
  | S f => if negb (at_end s) && negb (aeqb (curc s) ch_nl) then skip_comment f (advance s) else s
  end.

Definition simple_tok (c : ascii) : option ttype :=
  if aeqb c "+"%char then Some TPLUS else if aeqb c "-"%char then Some TMINUS
  else if aeqb c "*"%char then Some TSTAR else if aeqb c ")"%char then Some TRPAREN
  else if aeqb c "["%char then Some TLSQRBRACKET else if aeqb c "]"%char then Some TRSQRBRACKET
  else if aeqb c ":"%char then Some TCOLON else if aeqb c ","%char then Some TCOMMA
  else if aeqb c "&"%char then Some TAMPERSAND else if aeqb c "^"%char then Some TCARET
  else if aeqb c "."%char then Some TPERIOD else if aeqb c ch_nl then Some TLINE_END
  else None.

(* one iteration of the while loop of makeTokens; precondition: not at_end *)
Definition lex_step (pedantic : bool) (s : lst) (toks : list token) : lres :=
  let c := curc s in
  let here t := mkTok t (line s) (col s) [] in
  match simple_tok c with
  | Some t => LOk (advance s) (here t :: toks)
  | None =>
    if aeqb c "/"%char then
      let s1 := advance s in
      if at_end s1 || negb (aeqb (curc s1) "/"%char)
      then LOk s1 (mkTok TSLASH (line s1) (col s1) [] :: toks)
      else LOk (skip_comment (S (List.length (rest s1))) s1) toks
    else if aeqb c "("%char then
      let blocked :=
        match prevc s, toks with
        | Some p, t :: _ => negb (aeqb p ch_space) && negb (aeqb p ch_tab) && io_keyword (tt t)
        | _, _ => false
        end in
      if blocked then LErr (mkLexErr LexSyntax (line s) (col s))
      else LOk (advance s) (here TLPAREN :: toks)
    else if aeqb c "="%char then
      let s1 := advance s in
      if at_end s1 || negb (aeqb (curc s1) "="%char)
      then LOk s1 (mkTok TEQUALS (line s1) (col s1 - 1) [] :: toks)
      else LErr (mkLexErr LexSyntax (line s1) (col s1 - 1))
    else if aeqb c ch_quote then make_char s toks
    else if aeqb c ch_dquote then make_string s toks
    else if aeqb c ">"%char then
      let s1 := advance s in
      if at_end s1 || negb (aeqb (curc s1) "="%char)
      then LOk s1 (mkTok TGREATER (line s1) (col s1) [] :: toks)
      else LOk (advance s1) (mkTok TGREATER_EQUAL (line s1) (col s1) [] :: toks)
    else if aeqb c "<"%char then
      let s1 := advance s in
      let c1 := curc s1 in
      if at_end s1 || (negb (aeqb c1 "="%char) && negb (aeqb c1 ">"%char) && negb (aeqb c1 "-"%char))
      then LOk s1 (mkTok TLESSER (line s1) (col s1) [] :: toks)
      else if aeqb c1 "="%char then LOk (advance s1) (mkTok TLESSER_EQUAL (line s1) (col s1) [] :: toks)
      else if aeqb c1 ">"%char then LOk (advance s1) (mkTok TNOT_EQUALS (line s1) (col s1) [] :: toks)
      else LOk (advance s1) (mkTok TASSIGNMENT (line s1) (col s1) [] :: toks)
    else if is_alpha c then make_word pedantic s toks
    else if is_digit c then make_number s toks
    else if aeqb c ch_space || aeqb c ch_tab then LOk (advance s) toks
    else LErr (mkLexErr LexSyntax (line s) (col s))
  end.

Fixpoint lex_loop (fuel : nat) (pedantic : bool) (s : lst) (toks : list token) : lres :=
  match fuel with
  | O => LOk s toks
  | S f =>
    if at_end s then LOk s toks
    else match lex_step pedantic s toks with
         | LOk s' toks' => lex_loop f pedantic s' toks'
         | LErr e => LErr e
         end
  end.

(* makeTokens; the result is in source order and ends with EXPRESSION_END *)
Definition lex (pedantic : bool) (input : str) : list token + lexerr :=
  let src := remove_cr input in
  match lex_loop (S (List.length src)) pedantic (init_lst src) [] with
  | LErr e => inr e
  | LOk s toks => inl (rev (mkTok TEXPRESSION_END (line s) (col s) [] :: toks))
  end.

Definition kinds (ts : list token) : list (ttype * str) := map (fun t => (tt t, tval t)) ts.
