(* Lemmas_ForStates.v -- the FOR header, in every state: a counter that is a constant, and a counter that is not of type INTEGER, are
   runtime errors raised before any bound is evaluated; the whole state is as it was. *)
From PE2 Require Import Eval Run Lemmas_Copy Lemmas_Out Lemmas_Scope Lemmas_ConstLogic Lemmas_FileStates.
Local Open Scope N_scope.

Section ForHeader.
Variables (ped repl : bool) (lim : limits) (fuel : nat).
Notation ev := (ev_eval (evs_at ped repl lim (S fuel))).

Theorem for_over_a_constant_is_an_error t id start stop step body c s i cl :
  lookup_var c (tval id) true s = (Ok (Some i), s) -> nm_get i (s_cells s) = Some cl -> c_const cl = true ->
  exists f, ev (NFor t id start stop step body) c s = (Fail f, s).
Proof.
  intros Hl Ec Hc. cbn [evs_at evs_step ev_eval]. unfold eval_body. unfold bind at 1. rewrite Hl. cbn [fst snd].
  unfold bind at 1. cbn [ret fst snd]. unfold bind at 1, get_cell at 1. rewrite Ec. cbn [fst snd]. rewrite Hc. apply rt_error_pure.
Qed.

Theorem for_counter_must_be_an_integer_variable t id start stop step body c s i cl :
  lookup_var c (tval id) true s = (Ok (Some i), s) -> nm_get i (s_cells s) = Some cl -> c_const cl = false -> dk (c_type cl) <> KInt ->
  exists f, ev (NFor t id start stop step body) c s = (Fail f, s).
Proof.
  intros Hl Ec Hc Hk. cbn [evs_at evs_step ev_eval]. unfold eval_body. unfold bind at 1. rewrite Hl. cbn [fst snd].
  unfold bind at 1. cbn [ret fst snd]. unfold bind at 1, get_cell at 1. rewrite Ec. cbn [fst snd]. rewrite Hc.
  unfold dt_is. destruct (dk_eqb (dk (c_type cl)) KInt) eqn:E; [apply dk_eqb_eq in E; contradiction|]. cbn [negb]. apply rt_error_pure.
Qed.
End ForHeader.
