(* Lemmas_RecLines.v — the records of a random file and the physical lines of the file on disk
   (File::close writes one record after the other, each followed by a line break; File::File reads the lines
   back and glues every line that starts with '#' to the record before it).  For every list of records in
   which each record is line safe (every line break in it is followed by '#'), is not empty and does not
   itself start with '#', reading the file back gives exactly the list that was written; and every value the
   codec can write (Lemmas_CodecTree.wf) is such a record.  Together: CLOSEFILE followed by OPENFILE, or a
   later run of the interpreter, sees the sequence of records unchanged. *)
From PE2 Require Import Codec Lemmas_Codec Lemmas_Numerals Lemmas_CodecTree.
Require Import ZifyBool Lia.
Local Open Scope Z_scope.

Definition starts_hash (l : str) : bool := match l with c :: _ => aeqb c ch_hash | [] => false end.
Definition glue (conts : list str) : str := List.concat (map (fun c => ch_nl :: c) conts).
Definition rec_ok (r : str) : Prop := line_safe r = true /\ r <> [] /\ starts_hash r = false.

Lemma aeqb_refl c : aeqb c c = true.
Proof. unfold aeqb. apply Ascii.eqb_refl. Qed.
Lemma aeqb_eq a b : aeqb a b = true -> a = b.
Proof. unfold aeqb. apply Ascii.eqb_eq. Qed.

Lemma split_lines_aux_app a : forall cur rest,
  split_lines_aux (a ++ ch_nl :: rest) cur = split_lines_aux a cur ++ split_lines_aux rest [].
Proof.
  induction a as [|c a IH]; intros cur rest; cbn [app split_lines_aux].
  - rewrite aeqb_refl. reflexivity.
  - destruct (aeqb c ch_nl); [rewrite IH; reflexivity|apply IH].
Qed.

(* the lines of a line-safe record: a first line, then continuation lines that all start with '#' *)
Lemma lines_of_record : forall r cur, line_safe r = true ->
  exists l0 conts, split_lines_aux r cur = l0 :: conts /\ Forall (fun c => starts_hash c = true) conts /\
                   rev cur ++ r = l0 ++ glue conts.
Proof.
  induction r as [|c r IH]; intros cur Hs.
  - exists (rev cur), []. cbn. split; [reflexivity|]. split; [constructor|reflexivity].
  - cbn [split_lines_aux]. cbn [line_safe] in Hs. destruct (aeqb c ch_nl) eqn:E.
    + apply aeqb_eq in E. subst c. destruct r as [|h r']; [discriminate|].
      apply andb_true_iff in Hs. destruct Hs as [Hh Hs]. apply aeqb_eq in Hh. subst h.
      destruct (IH [] Hs) as [l0 [conts [E1 [F1 E2]]]]. cbn [rev app] in E2.
      exists (rev cur), (l0 :: conts). rewrite E1. split; [reflexivity|]. split.
      * constructor; [|exact F1]. destruct l0 as [|x l0'].
        -- destruct conts as [|k conts']; cbn in E2; [discriminate|]. inversion E2.
        -- cbn in E2. inversion E2. subst x. cbn. reflexivity.
      * unfold glue. cbn [map List.concat]. fold (glue conts). rewrite E2. reflexivity.
    + destruct (IH (c :: cur) Hs) as [l0 [conts [E1 [F1 E2]]]]. exists l0, conts. rewrite E1.
      split; [reflexivity|]. split; [exact F1|]. rewrite <- E2. cbn [rev]. rewrite <- app_assoc. reflexivity.
Qed.

Lemma merge_continuations : forall conts more last acc, Forall (fun c => starts_hash c = true) conts ->
  merge_records (conts ++ more) (last :: acc) = merge_records more ((last ++ glue conts) :: acc).
Proof.
  induction conts as [|c r IH]; intros more last acc F.
  - cbn. rewrite app_nil_r. reflexivity.
  - inversion F as [|? ? Hc Hr]; subst. destruct c as [|h t]; [discriminate|]. cbn in Hc.
    cbn [app merge_records]. rewrite Hc. rewrite IH by exact Hr.
    unfold glue. cbn [map List.concat]. rewrite <- app_assoc. reflexivity.
Qed.

Lemma merge_one_record r more acc : line_safe r = true -> starts_hash r = false ->
  merge_records (split_lines_aux r [] ++ more) acc = merge_records more (r :: acc).
Proof.
  intros Hs Hh. destruct (lines_of_record r [] Hs) as [l0 [conts [E1 [F1 E2]]]]. cbn [rev app] in E2.
  rewrite E1. cbn [app].
  assert (H0 : starts_hash l0 = false).
  { destruct l0 as [|x l0']; [reflexivity|]. rewrite E2 in Hh. exact Hh. }
  assert (Step : merge_records (l0 :: conts ++ more) acc = merge_records (conts ++ more) (l0 :: acc)).
  { cbn [merge_records]. destruct l0 as [|x l0']; [reflexivity|]. destruct acc as [|last acc']; [reflexivity|].
    cbn in H0. rewrite H0. reflexivity. }
  rewrite Step, merge_continuations by exact F1. rewrite <- E2. reflexivity.
Qed.

Lemma store_records_cons r rs : store_records (r :: rs) = r ++ ch_nl :: store_records rs.
Proof. unfold store_records. cbn [map List.concat]. rewrite <- app_assoc. reflexivity. Qed.

Lemma merge_stored : forall rs acc, Forall rec_ok rs ->
  merge_records (split_lines_aux (store_records rs) []) acc = [] :: rev rs ++ acc.
Proof.
  induction rs as [|r rs IH]; intros acc F; [reflexivity|].
  inversion F as [|? ? [Hs [Hn Hh]] Hr]; subst.
  rewrite store_records_cons, split_lines_aux_app, merge_one_record by assumption.
  rewrite IH by exact Hr. cbn [rev]. rewrite <- app_assoc. reflexivity.
Qed.

Lemma drop_empty_front_rev rs : Forall rec_ok rs -> drop_empty_front (rev rs) = rev rs.
Proof.
  intros F. destruct (rev rs) as [|x t] eqn:E; [reflexivity|].
  assert (Hin : In x rs) by (apply in_rev; rewrite E; left; reflexivity).
  rewrite Forall_forall in F. destruct (F x Hin) as [_ [Hn _]]. destruct x; [contradiction|reflexivity].
Qed.

(* what File::close wrote is what File::File reads *)
Theorem load_store_records rs : Forall rec_ok rs -> load_records (store_records rs) = rs.
Proof.
  intros F. destruct rs as [|r rs]; [reflexivity|].
  unfold load_records. rewrite store_records_cons.
  destruct (r ++ ch_nl :: store_records rs) eqn:E; [destruct r; discriminate|]. rewrite <- E. clear E.
  rewrite <- store_records_cons. unfold split_lines. rewrite merge_stored by exact F.
  cbn [drop_empty_front]. rewrite app_nil_r, drop_empty_front_rev by exact F. apply rev_involutive.
Qed.

(* ---- every record the codec writes is such a record ---- *)
Definition nonl (s : str) : bool := forallb (fun c => negb (aeqb c ch_nl)) s.

Lemma line_safe_app a : forall b, line_safe a = true -> line_safe b = true -> line_safe (a ++ b) = true.
Proof.
  induction a as [|c r IH]; intros b Ha Hb; [exact Hb|]. cbn [app line_safe] in *.
  destruct (aeqb c ch_nl).
  - destruct r as [|h r']; [discriminate|]. apply andb_true_iff in Ha. destruct Ha as [Hh Hr].
    cbn [app]. rewrite Hh. cbn [andb]. apply (IH b Hr Hb).
  - apply IH; assumption.
Qed.
Lemma nonl_line_safe s : nonl s = true -> line_safe s = true.
Proof.
  unfold nonl. induction s as [|c r IH]; intros H; [reflexivity|]. cbn [forallb] in H. apply andb_true_iff in H. destruct H as [Hc Hr].
  cbn [line_safe]. destruct (aeqb c ch_nl); [discriminate|]. apply IH. exact Hr.
Qed.
Lemma digits_nonl s : forallb is_digit s = true -> nonl s = true.
Proof.
  unfold nonl. induction s as [|c r IH]; intros H; [reflexivity|]. cbn [forallb] in *. apply andb_true_iff in H. destruct H as [Hc Hr].
  rewrite (IH Hr), andb_true_r.
  destruct (aeqb c ch_nl) eqn:E; [|reflexivity]. apply aeqb_eq in E. subst c. discriminate.
Qed.
Lemma z_to_str_line_safe z : line_safe (z_to_str z) = true.
Proof.
  apply nonl_line_safe. unfold z_to_str. destruct (z <? 0) eqn:E.
  - destruct (nat_digits_spec (- z) ltac:(lia)) as [_ [Hd _]]. apply digits_nonl in Hd. unfold nonl in *. cbn [forallb]. rewrite Hd. reflexivity.
  - destruct (nat_digits_spec z ltac:(lia)) as [_ [Hd _]]. apply digits_nonl. exact Hd.
Qed.
Lemma no_space_line_safe w : no_space w = true -> line_safe w = true.
Proof.
  intros H. apply nonl_line_safe. unfold no_space in H. unfold nonl.
  induction w as [|c r IH]; [reflexivity|]. cbn [forallb] in *. apply andb_true_iff in H. destruct H as [Hc Hr].
  rewrite (IH Hr), andb_true_r. destruct (aeqb c ch_nl) eqn:E; [|reflexivity]. apply aeqb_eq in E. subst c. discriminate.
Qed.

Ltac ls := repeat first [ apply line_safe_app | apply z_to_str_line_safe | apply mark_newlines_line_safe
                        | (apply no_space_line_safe; assumption) | reflexivity | assumption ].

Lemma join_sp_line_safe ds : Forall (fun d => line_safe d = true) ds -> line_safe (join_sp ds) = true.
Proof.
  induction ds as [|d r IH]; intros F; [reflexivity|]. inversion F as [|? ? Hd Hr]; subst.
  cbn [join_sp]. destruct r as [|d2 r2]; [exact Hd|]. specialize (IH Hr). ls.
Qed.

Theorem dump_line_safe : forall n v dx, (depth v <= n)%nat -> wf v -> dump v = Some dx -> line_safe dx = true.
Proof.
  induction n as [n IH] using lt_wf_ind. intros v dx Hdep Hwf Hd.
  destruct v as [z|r|b|c|s|d m y|tn size idx| |tn fs ars]; try contradiction; [cbn [dump] in Hd..|].
  - inversion Hd; subst. ls.
  - inversion Hd; subst. destruct b; reflexivity.
  - inversion Hd; subst. cbn [app]. destruct (aeqb c ch_nl) eqn:E; cbn [line_safe app]; rewrite ?E; reflexivity.
  - inversion Hd; subst. ls.
  - inversion Hd; subst. ls.
  - destruct Hwf as [_ [Hns _]]. inversion Hd; subst. ls.
  - rewrite wf_rec in Hwf. destruct Hwf as [_ [Hns [_ [Hwf1 Hwf2]]]].
    assert (L : forall l ds, (forall x, In x l -> (depth x < depth (VRec tn fs ars))%nat) -> wf_all l -> dump_list l = Some ds ->
                             Forall (fun d => line_safe d = true) ds).
    { induction l as [|x t IHl]; intros ds Hdp Hw Hdl; [inversion Hdl; constructor|]. destruct Hw as [Hx Ht].
      destruct (dump_list_cons x t ds Hdl) as [dxx [dt [Ex [Et ->]]]]. constructor.
      - apply (IH (depth x) ltac:(pose proof (Hdp x (or_introl eq_refl)); lia) x dxx (le_n _) Hx Ex).
      - apply (IHl dt (fun y Hy => Hdp y (or_intror Hy)) Ht Et). }
    assert (LA : forall l ds, (forall a x, In a l -> In x a -> (depth x < depth (VRec tn fs ars))%nat) -> wf_arrs l -> dump_arrs' l = Some ds ->
                              Forall (fun d => line_safe d = true) ds).
    { induction l as [|a t IHl]; intros ds Hdp Hw Hdl; [inversion Hdl; constructor|]. destruct Hw as [[_ [_ Ha]] Ht].
      destruct (dump_arrs_cons a t ds Hdl) as [da [dt [Ea [Et ->]]]]. constructor.
      - unfold dump_arr' in Ea. destruct (dump_list a) as [das|] eqn:Eda; [|discriminate]. inversion Ea; subst.
        pose proof (join_sp_line_safe das (L a das (fun x Hx => Hdp a x (or_introl eq_refl) Hx) Ha Eda)). ls.
      - apply (IHl dt (fun b y Hb Hy => Hdp b y (or_intror Hb) Hy) Ht Et). }
    rewrite dump_rec_unfold in Hd.
    destruct (dump_list fs) as [dfs|] eqn:Efs; [|discriminate]. destruct (dump_arrs' ars) as [dars|] eqn:Ears; [|discriminate].
    inversion Hd; subst.
    pose proof (join_sp_line_safe dfs (L fs dfs (fun x Hx => depth_field tn fs ars x Hx) Hwf1 Efs)).
    pose proof (join_sp_line_safe dars (LA ars dars (fun a x Ha Hx => depth_elem tn fs ars a x Ha Hx) Hwf2 Ears)).
    destruct dars; ls.
Qed.

(* a written value starts with the letter of its tag: never empty, never '#' *)
Lemma dump_head v dx : wf v -> dump v = Some dx -> dx <> [] /\ starts_hash dx = false.
Proof.
  intros Hwf Hd. destruct v as [z|r|b|c|s|d m y|tn size idx| |tn fs ars]; try contradiction; [cbn [dump] in Hd..|].
  1,3-6: inversion Hd; subst; split; [discriminate|reflexivity].
  - inversion Hd; subst. destruct b; split; try discriminate; reflexivity.
  - rewrite dump_rec_unfold in Hd. destruct (dump_list fs); [|discriminate]. destruct (dump_arrs' ars); [|discriminate].
    inversion Hd; subst. split; [discriminate|reflexivity].
Qed.

Theorem dump_is_record v dx : wf v -> dump v = Some dx -> rec_ok dx.
Proof.
  intros Hwf Hd. destruct (dump_head v dx Hwf Hd) as [Hn Hh].
  split; [exact (dump_line_safe (depth v) v dx (le_n _) Hwf Hd)|]. split; assumption.
Qed.

(* the file as a whole: the values written, in order, are the values read after the file was closed and opened again *)
Fixpoint dump_all (vs : list vtree) : option (list str) :=
  match vs with
  | [] => Some []
  | v :: r => match dump v, dump_all r with Some a, Some b => Some (a :: b) | _, _ => None end
  end.
Theorem file_of_values_reopens vs recs : Forall wf vs -> dump_all vs = Some recs ->
  load_records (store_records recs) = recs.
Proof.
  intros F E. apply load_store_records. revert recs E. induction vs as [|v r IH]; intros recs E.
  - inversion E. constructor.
  - inversion F as [|? ? Hv Hr]; subst. cbn [dump_all] in E.
    destruct (dump v) as [a|] eqn:Ea; [|discriminate]. destruct (dump_all r) as [b|] eqn:Eb; [|discriminate].
    inversion E; subst. constructor; [exact (dump_is_record v a Hv Ea)|apply IH; auto].
Qed.

(* ---- at the level of the handle table and the disk (Files.v) ---- *)
From PE2 Require Import Files Lemmas_Handles.

(* CLOSEFILE of a modified random file followed by OPENFILE ... FOR RANDOM of the same name: the new handle holds
   exactly the records the old one held, with the cursor on the first record *)
Theorem close_then_reopen f s : of_mode f = FRandom -> of_modified f = true -> os_name_ok (of_name f) = true ->
  Forall rec_ok (of_recs f) ->
  exists s1 s2, close_file_effect f s = (Ok Datatypes.tt, s1) /\ s_files s1 = s_files s /\
                create_file (of_name f) FRandom s1 = (Ok true, s2) /\ s_fs s2 = s_fs s1 /\
                s_files s2 = s_files s ++ [mkOfile (of_name f) FRandom [] (of_recs f) 0 false].
Proof.
  intros Hm Hd Hn Hr. destruct (close_random_flushes f s Hm Hd) as [s1 [E1 G1]].
  assert (Hf : s_files s1 = s_files s).
  { unfold close_file_effect in E1. rewrite Hm, Hd in E1. unfold modify in E1. inversion E1. reflexivity. }
  exists s1. unfold create_file. rewrite Hn. cbn [negb]. unfold bind, gets, modify. rewrite G1.
  eexists. split; [exact E1|]. split; [exact Hf|]. split; [reflexivity|]. split; [reflexivity|].
  cbn. rewrite Hf, load_store_records by exact Hr. reflexivity.
Qed.
