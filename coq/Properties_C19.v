(* Properties_C19.v — enumerated values keep their type and cycle through their declared order.
   The arithmetic is proved for every INTEGER; "a value of one enumerated type can never be stored in a variable of a different
   enumerated type" is proved over the whole evaluator as a heap invariant (program logic of Lemmas_ConstLogic.v: the payload of every
   cell carries the name of the cell's declared type, through every store channel including record and array copies). *)
From PE2 Require Import Eval Run Enums Lemmas_Enums Lemmas_ConstLogic Lemmas_ConstThm Lemmas_EnumStates.
Local Open Scope Z_scope.

(* position + k modulo the number of names, for every INTEGER k and every intermediate sign;
   covers  e + k,  k + e  (left = k) and  e - k *)
Theorem C19_add_cyclic : forall plus left right n, 0 < n ->
  enum_arith plus left right n = (if plus then left + right else left - right) mod n.
Proof. exact enum_arith_spec. Qed.
Print Assumptions C19_add_cyclic.

Theorem C19_result_is_a_position : forall plus left right n, 0 < n -> 0 <= enum_arith plus left right n < n.
Proof. intros. rewrite enum_arith_spec by assumption. apply Z.mod_pos_bound. assumption. Qed.
Print Assumptions C19_result_is_a_position.

Example C19_wraps_backwards : enum_arith false 0 1 3 = 2 /\ enum_arith false 0 2 3 = 1 /\
                              enum_arith true 2 (-9223372036854775808) 3 = 0.
Proof. vm_compute. repeat split; reflexivity. Qed.

(* whatever a program does, a variable that holds an enumerated value holds one of ITS OWN type: the variable's declared type is
   enumerated and has the name the value carries.  (Inv holds in the initial state of every run and is kept by every block:
   C05_invariant_holds_initially, C05_invariant_is_kept.) *)
Theorem C19_enum_variables_hold_their_own_type : forall ped repl lim fuel bl c s id cl tn i, Inv s ->
  nm_get id (s_cells (snd (run_block ped repl lim fuel bl c s))) = Some cl -> c_val cl = PEnum tn i ->
  dk (c_type cl) = KEnum /\ dname (c_type cl) = Some tn.
Proof. exact enum_variables_hold_their_own_type. Qed.
Print Assumptions C19_enum_variables_hold_their_own_type.

(* and an expression of enumerated type yields a value of the type its result says *)
Theorem C19_enum_results_carry_their_type : forall ped repl lim fuel n c s r s' tn i, Inv s ->
  ev_eval (evs_at ped repl lim fuel) n c s = (Ok r, s') -> r_val r = Some (PEnum tn i) -> dk (r_type r) = KEnum /\ dname (r_type r) = Some tn.
Proof.
  intros ped repl lim fuel n c s r s' tn i HI E Ev. destruct (results_are_of_their_type ped repl lim fuel n c s r s' _ HI E Ev) as [Hk [Hn _]].
  split; [symmetry; exact Hk|apply Hn; reflexivity].
Qed.
Print Assumptions C19_enum_results_carry_their_type.

(* the arithmetic as the evaluator performs it, in every state: for a value of the enumerated type tn (its definition, with at
   least one name, found from the current context) at position i and an INTEGER k, `e + k` and `e - k` yield the value of the SAME
   type at position enum_arith .. i k n = (i +/- k) mod n (C19_add_cyclic), and `k + e` the same with the operands in that order;
   nothing in the state changes *)
Theorem C19_evaluator_enum_plus_or_minus_integer : forall t c s tn i k vals,
  (tt t = TPLUS \/ tt t = TMINUS) -> lookup_enum_def c tn true s = (Ok (Some vals), s) -> vals <> [] ->
  eval_arith t c (mkRes (mkDT KEnum (Some tn)) (Some (PEnum tn i))) (res_of KInt (PInt k)) s =
    (Ok (mkRes (mkDT KEnum (Some tn)) (Some (PEnum tn (enum_arith (tt_eqb (tt t) TPLUS) i k (Z.of_nat (List.length vals)))))), s).
Proof. exact enum_plus_or_minus_integer. Qed.
Print Assumptions C19_evaluator_enum_plus_or_minus_integer.

Theorem C19_evaluator_integer_plus_enum : forall t c s tn i k vals,
  tt t = TPLUS -> lookup_enum_def c tn true s = (Ok (Some vals), s) -> vals <> [] ->
  eval_arith t c (res_of KInt (PInt k)) (mkRes (mkDT KEnum (Some tn)) (Some (PEnum tn i))) s =
    (Ok (mkRes (mkDT KEnum (Some tn)) (Some (PEnum tn (enum_arith true k i (Z.of_nat (List.length vals)))))), s).
Proof. exact integer_plus_enum. Qed.
Print Assumptions C19_evaluator_integer_plus_enum.
