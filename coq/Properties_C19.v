(* Properties_C19.v — enumerated values cycle through their declared order. *)
From PE2 Require Import Enums Lemmas_Enums.
Local Open Scope Z_scope.

(* position + k modulo the number of names, for every INTEGER k and every intermediate sign;
   covers  e + k,  k + e  (left = k) and  e - k *)
Theorem C19_add_cyclic : forall plus left right n, 0 < n ->
  enum_arith plus left right n = (if plus then left + right else left - right) mod n.
Proof. exact enum_arith_spec. Qed.
Print Assumptions C19_add_cyclic.

Theorem C19_result_is_a_position : forall plus left right n, 0 < n -> 0 <= enum_arith plus left right n < n.
Proof. intros. rewrite enum_arith_spec by assumption. apply Z.mod_pos_bound. assumption. Qed.
Print Assumptions C19_result_is_a_position.

Example C19_wraps_backwards : enum_arith false 0 1 3 = 2 /\ enum_arith false 0 2 3 = 1 /\
                              enum_arith true 2 (-9223372036854775808) 3 = 0.
Proof. vm_compute. repeat split; reflexivity. Qed.
