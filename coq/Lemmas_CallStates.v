(* Lemmas_CallStates.v -- RETURN, statement by statement, in every state: outside a function it is a runtime error that leaves the
   whole state as it was; inside a function it records the value converted to the declared return type in the function's own
   context (nothing else changes) and ends the body with the return signal; a value that is not convertible is a runtime error.
   The returned expression is any that evaluates without touching the state. *)
From PE2 Require Import Eval Run Lemmas_Copy Lemmas_Out Lemmas_Scope Lemmas_ConstLogic Lemmas_FileStates.
Local Open Scope N_scope.

Section Return.
Variables (ped repl : bool) (lim : limits) (fuel : nat).
Notation ev := (ev_eval (evs_at ped repl lim (S fuel))).

Theorem return_outside_a_function_is_an_error t e c s cx :
  nm_get c (s_ctxs s) = Some cx -> x_isfun cx = false -> exists f, ev (NReturn t e) c s = (Fail f, s).
Proof.
  intros Ec Hf. cbn [evs_at evs_step ev_eval]. unfold eval_body. unfold bind at 1, get_ctx at 1. rewrite Ec. cbn [fst snd]. rewrite Hf. cbn [negb]. apply rt_error_pure.
Qed.

Theorem return_records_the_converted_value t e c s cx r r' :
  nm_get c (s_ctxs s) = Some cx -> x_isfun cx = true ->
  ev_eval (evs_at ped repl lim fuel) e c s = (Ok r, s) ->
  (forall s0, implicit_cast (x_rettype cx) r s0 = (Ok r', s0)) -> dt_eq (r_type r') (x_rettype cx) = true ->
  let s1 := set_ctxs (nm_put c (ctx_with_retval (Some r) cx) (s_ctxs s)) s in
  let s2 := set_ctxs (nm_put c (ctx_with_retval (Some r') (ctx_with_retval (Some r) cx)) (s_ctxs s1)) s1 in
  ev (NReturn t e) c s = (Fail FReturn, s2).
Proof.
  intros Ec Hf He Hc Ht s1 s2. cbn [evs_at evs_step ev_eval]. unfold eval_body. unfold bind at 1, get_ctx at 1. rewrite Ec. cbn [fst snd]. rewrite Hf. cbn [negb].
  unfold bind at 1. rewrite He. cbn [fst snd].
  unfold bind at 1. unfold upd_ctx at 1, bind at 1, get_ctx at 1. rewrite Ec. cbn [fst snd put_ctx modify].
  fold s1. unfold bind at 1. rewrite (Hc s1). cbn [fst snd].
  unfold bind at 1. unfold upd_ctx at 1, bind at 1, get_ctx at 1.
  assert (E1 : nm_get c (s_ctxs s1) = Some (ctx_with_retval (Some r) cx)) by (unfold s1; cbn [s_ctxs set_ctxs]; apply nm_get_put_same).
  rewrite E1. cbn [fst snd put_ctx modify]. fold s2. rewrite Ht. cbn [negb]. reflexivity.
Qed.

Theorem return_of_a_value_of_another_type_is_an_error t e c s cx r r' :
  nm_get c (s_ctxs s) = Some cx -> x_isfun cx = true ->
  ev_eval (evs_at ped repl lim fuel) e c s = (Ok r, s) ->
  (forall s0, implicit_cast (x_rettype cx) r s0 = (Ok r', s0)) -> dt_eq (r_type r') (x_rettype cx) = false ->
  let s1 := set_ctxs (nm_put c (ctx_with_retval (Some r) cx) (s_ctxs s)) s in
  let s2 := set_ctxs (nm_put c (ctx_with_retval (Some r') (ctx_with_retval (Some r) cx)) (s_ctxs s1)) s1 in
  ev (NReturn t e) c s = rt_error t c s2.
Proof.
  intros Ec Hf He Hc Ht s1 s2. cbn [evs_at evs_step ev_eval]. unfold eval_body. unfold bind at 1, get_ctx at 1. rewrite Ec. cbn [fst snd]. rewrite Hf. cbn [negb].
  unfold bind at 1. rewrite He. cbn [fst snd].
  unfold bind at 1. unfold upd_ctx at 1, bind at 1, get_ctx at 1. rewrite Ec. cbn [fst snd put_ctx modify].
  fold s1. unfold bind at 1. rewrite (Hc s1). cbn [fst snd].
  unfold bind at 1. unfold upd_ctx at 1, bind at 1, get_ctx at 1.
  assert (E1 : nm_get c (s_ctxs s1) = Some (ctx_with_retval (Some r) cx)) by (unfold s1; cbn [s_ctxs set_ctxs]; apply nm_get_put_same).
  rewrite E1. cbn [fst snd put_ctx modify]. fold s2. rewrite Ht. cbn [negb]. reflexivity.
Qed.
End Return.
