(* Lemmas_Handles.v — OPENFILE against the disk and the handle table (FileManager::createFile). *)
From PE2 Require Import Files.
Local Open Scope Z_scope.

Lemma open_bad_name_fails name mode s : os_name_ok name = false -> create_file name mode s = (Ok false, s).
Proof. intros H. unfold create_file. rewrite H. reflexivity. Qed.

Lemma open_missing_for_read_or_append_fails name mode s :
  os_name_ok name = true -> fs_get name (s_fs s) = None -> (mode = FRead \/ mode = FAppend) ->
  create_file name mode s = (Ok false, s).
Proof.
  intros Hn Hf Hm. unfold create_file. rewrite Hn. cbn [negb]. unfold bind, gets. rewrite Hf.
  destruct Hm as [->| ->]; reflexivity.
Qed.

Lemma fs_get_set_same n v fs : fs_get n (fs_set n v fs) = Some v.
Proof.
  unfold fs_get. induction fs as [|[k x] r IH]; cbn; [rewrite str_eqb_refl; reflexivity|].
  destruct (str_eqb n k) eqn:E; cbn; rewrite ?E; [reflexivity|exact IH].
Qed.
Lemma fs_get_set_other n m v fs : str_eqb m n = false -> fs_get m (fs_set n v fs) = fs_get m fs.
Proof.
  intros H. unfold fs_get. induction fs as [|[k x] r IH]; cbn; [rewrite H; reflexivity|].
  destruct (str_eqb n k) eqn:E; cbn.
  - apply str_eqb_eq in E. subst k. rewrite H. reflexivity.
  - destruct (str_eqb m k); [reflexivity|exact IH].
Qed.

(* FOR WRITE: the file starts empty, every other file is untouched, and the handle is in the table *)
Lemma open_for_write name s : os_name_ok name = true ->
  exists s', create_file name FWrite s = (Ok true, s') /\ fs_get name (s_fs s') = Some [] /\
             (forall m, str_eqb m name = false -> fs_get m (s_fs s') = fs_get m (s_fs s)) /\
             s_files s' = s_files s ++ [mkOfile name FWrite [] [] 0 false].
Proof.
  intros Hn. unfold create_file. rewrite Hn. cbn [negb]. unfold bind, gets, modify.
  destruct (fs_get name (s_fs s)); eexists; (split; [reflexivity|]); cbn; repeat split; try apply fs_get_set_same; intros; apply fs_get_set_other; assumption.
Qed.

(* FOR APPEND keeps the existing content *)
Lemma open_for_append name content s : os_name_ok name = true -> fs_get name (s_fs s) = Some content ->
  exists s', create_file name FAppend s = (Ok true, s') /\ s_fs s' = s_fs s.
Proof. intros Hn Hf. unfold create_file. rewrite Hn. cbn [negb]. unfold bind, gets, modify. rewrite Hf. eexists. split; reflexivity. Qed.

(* closing a modified random file writes all its records; any other handle writes nothing at close *)
Lemma close_random_flushes f s : of_mode f = FRandom -> of_modified f = true ->
  exists s', close_file_effect f s = (Ok Datatypes.tt, s') /\ fs_get (of_name f) (s_fs s') = Some (store_records (of_recs f)).
Proof. intros Hm Hd. unfold close_file_effect. rewrite Hm, Hd. unfold modify. eexists. split; [reflexivity|]. cbn. apply fs_get_set_same. Qed.

Lemma close_unmodified_keeps_disk f s : (of_mode f <> FRandom \/ of_modified f = false) -> close_file_effect f s = (Ok Datatypes.tt, s).
Proof. intros H. unfold close_file_effect. destruct (of_mode f); try reflexivity. destruct H as [H|H]; [contradiction|]. rewrite H. reflexivity. Qed.
