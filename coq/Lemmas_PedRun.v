(* Lemmas_PedRun.v — --pedantic only rejects, whole launcher: run_file with the option either produces
   exactly the observation it produces without it, or stops with one pedantic Error and exit status 1. *)
From PE2 Require Import Run Lemmas_Lexer Lemmas_PedParser Lemmas_Ped Lemmas_Out.
Local Open Scope Z_scope.

Definition obs_ped_reject (o : observation) : Prop :=
  ob_exit o = 1 /\ ob_status o = SDone /\ exists d, ob_diags o = [d] /\ d_kind d = DPedantic.

Lemma finish_diag d s : d_kind d = DPedantic -> obs_ped_reject (finish (EDiag d) s [] []).
Proof. intros H. unfold finish, obs_ped_reject. cbn. repeat split. exists d. split; [reflexivity|exact H]. Qed.


(* ---- each construct is rejected where it stands, with the state it found ---- *)
Lemma break_continue_rejected s toks s1 w :
  word_loop (S (List.length (rest s))) s [] = (s1, w) ->
  lookup_kw w keywords = Some TBREAK \/ lookup_kw w keywords = Some TCONTINUE ->
  make_word true s toks = LErr (mkLexErr LexPedantic (line s1) (col s)).
Proof. intros Hw [H|H]; unfold make_word; rewrite Hw, H; reflexivity. Qed.

Lemma cast_rejected self s : parse_cast_body true self s = PFail LexPedantic (cur s) s.
Proof. reflexivity. Qed.

Lemma else_if_rejected self acc s :
  is_t s TELSE = true -> is_t (adv s) TIF = true ->
  parse_if_tail_body true self acc s = PFail LexPedantic (cur (adv s)) (adv s).
Proof. intros H1 H2. unfold parse_if_tail_body. rewrite H1, H2. reflexivity. Qed.

(* the run-time guard of assignment / INPUT to an undeclared name fails without touching the state *)
Lemma undeclared_rejected t s :
  ped_guard true t s = (Fail (FErr (mkDiag DPedantic (tline t) (tcol t) EOther [])), s).
Proof. reflexivity. Qed.
Lemma undeclared_accepted t s : ped_guard false t s = (Ok Datatypes.tt, s).
Proof. reflexivity. Qed.

Section Main.
Variable lim : limits.
Variable fuel : nat.

Definition src_rel (x y : entry_res * st) : Prop := x = y \/ exists d s, x = (EDiag d, s) /\ d_kind d = DPedantic.

Lemma run_main_rel b root s : src_rel (run_main true lim fuel false b root s) (run_main false lim fuel false b root s).
Proof.
  unfold run_main. destruct (run_block_ped_only_rejects false lim fuel b root s) as [E|[d [s' [E [Hk Hc]]]]].
  - rewrite E. left. reflexivity.
  - rewrite E. right. exists d, s'. split; [reflexivity|exact Hk].
Qed.

Lemma run_source_rel src root s : src_rel (run_source true lim fuel false src root s) (run_source false lim fuel false src root s).
Proof.
  unfold run_source. destruct (lex_rel src) as [E|[e [E Hk]]].
  - rewrite E. destruct (lex false src) as [toks|e]; [|left; reflexivity].
    destruct (parse_program_ped_only_rejects toks) as [E2|[t [ps E2]]].
    + rewrite E2. destruct (parse_program false toks) as [b ps|k t ps|]; [|left; reflexivity|left; reflexivity].
      cbv zeta. destruct (run_main_rel b root (emit_warnings (p_warns ps) s)) as [E3|[d [s' [E3 Hd]]]].
      * rewrite E3. left. reflexivity.
      * rewrite E3. right. eexists. eexists. split; [reflexivity|exact Hd].
    + rewrite E2. right. eexists. eexists. split; [reflexivity|reflexivity].
  - rewrite E. right. eexists. eexists. split; [reflexivity|]. unfold diag_of_lex. rewrite Hk. reflexivity.
Qed.

Theorem run_file_ped_only_rejects content stdin fs rnd :
  run_file true lim fuel content stdin fs rnd = run_file false lim fuel content stdin fs rnd
  \/ obs_ped_reject (run_file true lim fuel content stdin fs rnd).
Proof.
  unfold run_file. cbv zeta.
  destruct (run_source_rel (content ++ [ch_nl]) root_id (init_state stdin fs rnd)) as [E|[d [s' [E Hd]]]].
  - rewrite E. left. reflexivity.
  - rewrite E. right. apply finish_diag. exact Hd.
Qed.

(* a construct the lexer or the parser recognises is rejected before anything executes: the observation is
   the parser warnings printed so far, a blank line, the diagnostic; the file system is untouched *)
Lemma emit_fold_fs l s :
  let s' := fold_left (fun s0 w => set_out (warning_text w :: s_out s0) s0) l s in
  s_fs s' = s_fs s /\ s_files s' = s_files s /\ s_out s' = rev (map warning_text l) ++ s_out s.
Proof.
  revert s. induction l as [|w r IH]; intros s; cbn [fold_left map rev]; [repeat split; reflexivity|].
  destruct (IH (set_out (warning_text w :: s_out s) s)) as [H1 [H2 H3]]. cbv zeta in *. rewrite H1, H2, H3.
  repeat split. cbn [s_out set_out]. rewrite <- app_assoc. reflexivity.
Qed.

Theorem lex_time_rejection content stdin fs rnd e :
  lex true (content ++ [ch_nl]) = inr e ->
  run_file true lim fuel content stdin fs rnd = mkObs [ch_nl] [diag_of_lex e] 1 fs SDone [].
Proof. intros H. unfold run_file, run_source. rewrite H. reflexivity. Qed.

Theorem parse_time_rejection content stdin fs rnd toks k t ps :
  lex true (content ++ [ch_nl]) = inl toks -> parse_program true toks = PFail k t ps ->
  run_file true lim fuel content stdin fs rnd =
  mkObs (List.concat (map warning_text (rev (p_warns ps))) ++ [ch_nl]) [diag_of_parse k t] 1 fs SDone [].
Proof.
  intros H1 H2. unfold run_file, run_source. rewrite H1, H2. cbv zeta.
  unfold emit_warnings. destruct (emit_fold_fs (rev (p_warns ps)) (init_state stdin fs rnd)) as [Hf [Hh Ho]].
  cbv zeta in *. set (s1 := fold_left _ _ _) in *.
  unfold finish, close_all_files, bind, gets, modify. cbn [s_files set_out]. rewrite Hh. cbn [init_state s_files iterM ret].
  cbn [set_files s_files iterM ret]. unfold out_string. cbn [s_out set_files set_out s_fs rev app]. rewrite Hf, Ho.
  cbn [init_state s_out s_fs]. rewrite app_nil_r, rev_involutive.
  rewrite concat_app. cbn [List.concat]. rewrite app_nil_r. reflexivity.
Qed.

(* ---- a run-time rejection: everything printed before the construct, a blank line, the Error; and that text
        without the blank line is a prefix of what the program prints without the option ---- *)
Lemma close_file_effect_out f s0 : exists s1, close_file_effect f s0 = (Ok Datatypes.tt, s1) /\ s_out s1 = s_out s0.
Proof.
  unfold close_file_effect. destruct (of_mode f); try (eexists; split; reflexivity).
  destruct (of_modified f); eexists; split; reflexivity.
Qed.
Lemma close_all_files_out s : s_out (snd (close_all_files s)) = s_out s.
Proof.
  unfold close_all_files, bind, gets. cbn [fst snd].
  assert (G : forall l s0, exists s1, iterM close_file_effect l s0 = (Ok Datatypes.tt, s1) /\ s_out s1 = s_out s0).
  { induction l as [|f r IH]; intros s0; cbn [iterM]; [eexists; split; reflexivity|].
    unfold bind. destruct (close_file_effect_out f s0) as [s1 [E1 H1]]. rewrite E1.
    destruct (IH s1) as [s2 [E2 H2]]. exists s2. split; [exact E2|congruence]. }
  destruct (G (s_files s) s) as [s1 [E H]]. rewrite E. cbn. exact H.
Qed.

Lemma run_main_prefix b root s :
  run_main true lim fuel false b root s = run_main false lim fuel false b root s \/
  exists d s1, run_main true lim fuel false b root s = (EDiag d, s1) /\ d_kind d = DPedantic /\
               out_ext s1 (snd (run_main false lim fuel false b root s)).
Proof.
  unfold run_main. destruct (run_block_ped_output_prefix false lim fuel b root s) as [E|[[d [s' [E [Hk Hc]]]] HI]].
  - rewrite E. left. reflexivity.
  - rewrite E in *. cbn [snd] in HI. right. exists d, s'. split; [reflexivity|]. split; [exact Hk|].
    destruct (run_block false false lim fuel b root s) as [[u|f] s2]; cbn [snd] in *; [exact HI|].
    destruct f; cbn [snd]; try exact HI.
    + pose proof (@rt_error_out_ext unit t root s2) as G. destruct (@rt_error unit t root s2) as [[u|f] s3]; cbn [snd] in *;
        [eapply out_ext_trans; eassumption|]. destruct f; cbn [snd]; eapply out_ext_trans; eassumption.
    + pose proof (@rt_error_out_ext unit t root s2) as G. destruct (@rt_error unit t root s2) as [[u|f] s3]; cbn [snd] in *;
        [eapply out_ext_trans; eassumption|]. destruct f; cbn [snd]; eapply out_ext_trans; eassumption.
Qed.

Theorem run_time_rejection_output_prefix content stdin fs rnd toks b ps :
  lex true (content ++ [ch_nl]) = inl toks -> parse_program true toks = POk b ps ->
  run_file true lim fuel content stdin fs rnd = run_file false lim fuel content stdin fs rnd \/
  (obs_ped_reject (run_file true lim fuel content stdin fs rnd) /\
   exists pre more, ob_out (run_file true lim fuel content stdin fs rnd) = pre ++ [ch_nl] /\
                    ob_out (run_file false lim fuel content stdin fs rnd) = pre ++ more).
Proof.
  intros Hl Hp.
  assert (Hl0 : lex false (content ++ [ch_nl]) = inl toks) by (apply lex_ped_only_rejects; exact Hl).
  assert (Hp0 : parse_program false toks = POk b ps).
  { destruct (parse_program_ped_only_rejects toks) as [E|[t [s0 E]]]; [rewrite <- E; exact Hp|rewrite Hp in E; discriminate]. }
  unfold run_file, run_source. rewrite Hl, Hl0, Hp, Hp0. cbv zeta.
  set (s1 := emit_warnings (p_warns ps) (init_state stdin fs rnd)).
  destruct (run_main_prefix b root_id s1) as [E|[d [sp [E [Hk HI]]]]].
  - rewrite E. left. reflexivity.
  - right. rewrite E. split; [apply finish_diag; exact Hk|].
    exists (out_string sp).
    destruct (run_main false lim fuel false b root_id s1) as [r2 s2]. cbn [snd] in HI.
    assert (Hfin : forall r x, ob_out (finish r (snd (close_all_files x)) [] []) = out_string x).
    { intros r x. unfold finish.
      replace (let (_, x0) := close_all_files (snd (close_all_files x)) in x0) with (snd (close_all_files (snd (close_all_files x)))) by (destruct (close_all_files (snd (close_all_files x))); reflexivity).
      destruct r; cbn [ob_out]; unfold out_string; rewrite !close_all_files_out; reflexivity. }
    destruct (out_ext_prefix _ _ HI) as [m Hm].
    destruct r2 as [|d2|st2].
    + exists m. split.
      * replace (match close_all_files (set_out ([ch_nl] :: s_out sp) sp) with (_, x) => x end) with (snd (close_all_files (set_out ([ch_nl] :: s_out sp) sp))) by (destruct (close_all_files _); reflexivity).
        rewrite Hfin. unfold out_string. cbn [s_out set_out rev]. rewrite concat_app. cbn [List.concat]. rewrite app_nil_r. reflexivity.
      * replace (match close_all_files s2 with (_, x) => x end) with (snd (close_all_files s2)) by (destruct (close_all_files _); reflexivity).
        rewrite Hfin. exact Hm.
    + exists (m ++ [ch_nl]). split.
      * replace (match close_all_files (set_out ([ch_nl] :: s_out sp) sp) with (_, x) => x end) with (snd (close_all_files (set_out ([ch_nl] :: s_out sp) sp))) by (destruct (close_all_files _); reflexivity).
        rewrite Hfin. unfold out_string. cbn [s_out set_out rev]. rewrite concat_app. cbn [List.concat]. rewrite app_nil_r. reflexivity.
      * replace (match close_all_files (set_out ([ch_nl] :: s_out s2) s2) with (_, x) => x end) with (snd (close_all_files (set_out ([ch_nl] :: s_out s2) s2))) by (destruct (close_all_files _); reflexivity).
        rewrite Hfin. unfold out_string in *. cbn [s_out set_out rev]. rewrite concat_app. cbn [List.concat]. rewrite app_nil_r, Hm, app_assoc. reflexivity.
    + exists m. split.
      * replace (match close_all_files (set_out ([ch_nl] :: s_out sp) sp) with (_, x) => x end) with (snd (close_all_files (set_out ([ch_nl] :: s_out sp) sp))) by (destruct (close_all_files _); reflexivity).
        rewrite Hfin. unfold out_string. cbn [s_out set_out rev]. rewrite concat_app. cbn [List.concat]. rewrite app_nil_r. reflexivity.
      * replace (match close_all_files s2 with (_, x) => x end) with (snd (close_all_files s2)) by (destruct (close_all_files _); reflexivity).
        rewrite Hfin. exact Hm.
Qed.
End Main.
