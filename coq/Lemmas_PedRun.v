(* Lemmas_PedRun.v — --pedantic only rejects, whole launcher: run_file with the option either produces
   exactly the observation it produces without it, or stops with one pedantic Error and exit status 1. *)
From PE2 Require Import Run Lemmas_Lexer Lemmas_PedParser Lemmas_Ped.
Local Open Scope Z_scope.

Definition obs_ped_reject (o : observation) : Prop :=
  ob_exit o = 1 /\ ob_status o = SDone /\ exists d, ob_diags o = [d] /\ d_kind d = DPedantic.

Lemma finish_diag d s : d_kind d = DPedantic -> obs_ped_reject (finish (EDiag d) s [] []).
Proof. intros H. unfold finish, obs_ped_reject. cbn. repeat split. exists d. split; [reflexivity|exact H]. Qed.


(* ---- each construct is rejected where it stands, with the state it found ---- *)
Lemma break_continue_rejected s toks s1 w :
  word_loop (S (List.length (rest s))) s [] = (s1, w) ->
  lookup_kw w keywords = Some TBREAK \/ lookup_kw w keywords = Some TCONTINUE ->
  make_word true s toks = LErr (mkLexErr LexPedantic (line s1) (col s)).
Proof. intros Hw [H|H]; unfold make_word; rewrite Hw, H; reflexivity. Qed.

Lemma cast_rejected self s : parse_cast_body true self s = PFail LexPedantic (cur s) s.
Proof. reflexivity. Qed.

Lemma else_if_rejected self acc s :
  is_t s TELSE = true -> is_t (adv s) TIF = true ->
  parse_if_tail_body true self acc s = PFail LexPedantic (cur (adv s)) (adv s).
Proof. intros H1 H2. unfold parse_if_tail_body. rewrite H1, H2. reflexivity. Qed.

(* the run-time guard of assignment / INPUT to an undeclared name fails without touching the state *)
Lemma undeclared_rejected t s :
  ped_guard true t s = (Fail (FErr (mkDiag DPedantic (tline t) (tcol t) EOther [])), s).
Proof. reflexivity. Qed.
Lemma undeclared_accepted t s : ped_guard false t s = (Ok Datatypes.tt, s).
Proof. reflexivity. Qed.

Section Main.
Variable lim : limits.
Variable fuel : nat.

Definition src_rel (x y : entry_res * st) : Prop := x = y \/ exists d s, x = (EDiag d, s) /\ d_kind d = DPedantic.

Lemma run_main_rel b root s : src_rel (run_main true lim fuel false b root s) (run_main false lim fuel false b root s).
Proof.
  unfold run_main. destruct (run_block_ped_only_rejects false lim fuel b root s) as [E|[d [s' [E [Hk Hc]]]]].
  - rewrite E. left. reflexivity.
  - rewrite E. right. exists d, s'. split; [reflexivity|exact Hk].
Qed.

Lemma run_source_rel src root s : src_rel (run_source true lim fuel false src root s) (run_source false lim fuel false src root s).
Proof.
  unfold run_source. destruct (lex_rel src) as [E|[e [E Hk]]].
  - rewrite E. destruct (lex false src) as [toks|e]; [|left; reflexivity].
    destruct (parse_program_ped_only_rejects toks) as [E2|[t [ps E2]]].
    + rewrite E2. destruct (parse_program false toks) as [b ps|k t ps|]; [|left; reflexivity|left; reflexivity].
      cbv zeta. destruct (run_main_rel b root (emit_warnings (p_warns ps) s)) as [E3|[d [s' [E3 Hd]]]].
      * rewrite E3. left. reflexivity.
      * rewrite E3. right. eexists. eexists. split; [reflexivity|exact Hd].
    + rewrite E2. right. eexists. eexists. split; [reflexivity|reflexivity].
  - rewrite E. right. eexists. eexists. split; [reflexivity|]. unfold diag_of_lex. rewrite Hk. reflexivity.
Qed.

Theorem run_file_ped_only_rejects content stdin fs rnd :
  run_file true lim fuel content stdin fs rnd = run_file false lim fuel content stdin fs rnd
  \/ obs_ped_reject (run_file true lim fuel content stdin fs rnd).
Proof.
  unfold run_file. cbv zeta.
  destruct (run_source_rel (content ++ [ch_nl]) root_id (init_state stdin fs rnd)) as [E|[d [s' [E Hd]]]].
  - rewrite E. left. reflexivity.
  - rewrite E. right. apply finish_diag. exact Hd.
Qed.

(* a construct the lexer or the parser recognises is rejected before anything executes: the observation is
   the parser warnings printed so far, a blank line, the diagnostic; the file system is untouched *)
Lemma emit_fold_fs l s :
  let s' := fold_left (fun s0 w => set_out (warning_text w :: s_out s0) s0) l s in
  s_fs s' = s_fs s /\ s_files s' = s_files s /\ s_out s' = rev (map warning_text l) ++ s_out s.
Proof.
  revert s. induction l as [|w r IH]; intros s; cbn [fold_left map rev]; [repeat split; reflexivity|].
  destruct (IH (set_out (warning_text w :: s_out s) s)) as [H1 [H2 H3]]. cbv zeta in *. rewrite H1, H2, H3.
  repeat split. cbn [s_out set_out]. rewrite <- app_assoc. reflexivity.
Qed.

Theorem lex_time_rejection content stdin fs rnd e :
  lex true (content ++ [ch_nl]) = inr e ->
  run_file true lim fuel content stdin fs rnd = mkObs [ch_nl] [diag_of_lex e] 1 fs SDone [].
Proof. intros H. unfold run_file, run_source. rewrite H. reflexivity. Qed.

Theorem parse_time_rejection content stdin fs rnd toks k t ps :
  lex true (content ++ [ch_nl]) = inl toks -> parse_program true toks = PFail k t ps ->
  run_file true lim fuel content stdin fs rnd =
  mkObs (List.concat (map warning_text (rev (p_warns ps))) ++ [ch_nl]) [diag_of_parse k t] 1 fs SDone [].
Proof.
  intros H1 H2. unfold run_file, run_source. rewrite H1, H2. cbv zeta.
  unfold emit_warnings. destruct (emit_fold_fs (rev (p_warns ps)) (init_state stdin fs rnd)) as [Hf [Hh Ho]].
  cbv zeta in *. set (s1 := fold_left _ _ _) in *.
  unfold finish, close_all_files, bind, gets, modify. cbn [s_files set_out]. rewrite Hh. cbn [init_state s_files iterM ret].
  cbn [set_files s_files iterM ret]. unfold out_string. cbn [s_out set_files set_out s_fs rev app]. rewrite Hf, Ho.
  cbn [init_state s_out s_fs]. rewrite app_nil_r, rev_involutive.
  rewrite concat_app. cbn [List.concat]. rewrite app_nil_r. reflexivity.
Qed.
End Main.
