(* Lemmas_CodecTree.v — the record codec on whole value trees: load (dump v) = v for every well-formed
   value without REAL and pointer parts (records of records, arrays inside records, any nesting depth). *)
From PE2 Require Import Codec Lemmas_Codec Lemmas_Numerals.
Require Import ZifyBool Lia.
Local Open Scope Z_scope.

(* the local fixpoints of dump / load on records, as global definitions (convertible with the local ones) *)
Definition dump_arr' (l : list vtree) : option str :=
  match dump_list l with
  | Some ds => Some (str_of_string "ARRAY " ++ z_to_str (slen' (map (fun _ => ch_nul) l)) ++ sp ++ join_sp ds)
  | None => None end.
Fixpoint dump_arrs' (l : list (list vtree)) : option (list str) :=
  match l with
  | [] => Some []
  | x :: r => match dump_arr' x, dump_arrs' r with Some a, Some b => Some (a :: b) | _, _ => None end
  end.
Lemma dump_rec_unfold tn fields arrays :
  dump (VRec tn fields arrays) =
  match dump_list fields, dump_arrs' arrays with
  | Some fs, Some ars => Some (str_of_string "COMPOSITE " ++ tn ++ sp ++ join_sp fs ++ (match ars with [] => [] | _ => sp end) ++ join_sp ars)
  | _, _ => None
  end.
Proof. reflexivity. Qed.

Definition load_arr' (l : list vtree) (s : str) : list vtree * str * bool :=
  match expect_tag "ARRAY" s with
  | Some r => match rd_size r with
              | Some (n, r') => if n =? slen' (map (fun _ => ch_nul) l) then load_list l r' else (l, r', false)
              | None => (l, r, false) end
  | None => (l, s, false) end.
Fixpoint load_arrs' (l : list (list vtree)) (s : str) : list (list vtree) * str * bool :=
  match l with
  | [] => ([], s, true)
  | x :: t => let '(x', s', ok) := load_arr' x s in
              if ok then let '(t', s'', ok') := load_arrs' t s' in (x' :: t', s'', ok')
              else (x' :: t, s', false)
  end.
Lemma load_rec_unfold tn fields arrays s :
  load (VRec tn fields arrays) s =
  match expect_tag "COMPOSITE" s with
  | Some r => match rd_word r with
              | Some (w, r1) =>
                if str_eqb w tn then
                  let '(fs, s1, ok1) := load_list fields r1 in
                  if ok1 then let '(ars, s2, ok2) := load_arrs' arrays s1 in (VRec tn fs ars, s2, ok2)
                  else (VRec tn fs arrays, s1, false)
                else (VRec tn fields arrays, r1, false)
              | None => (VRec tn fields arrays, r, false) end
  | None => (VRec tn fields arrays, s, false)
  end.
Proof. reflexivity. Qed.

(* what follows a field: nothing, or a blank *)
Definition sep_ok (s : str) : Prop := s = [] \/ exists t, s = ch_space :: t.
Lemma sep_ok_nld s : sep_ok s -> no_leading_digit s.
Proof. intros [->|[t ->]]; [exact I|reflexivity]. Qed.
Lemma sep_ok_we s : sep_ok s -> word_end s.
Proof. intros [->|[t ->]]; [exact I|reflexivity]. Qed.
Lemma sep_ok_sp s : sep_ok (sp ++ s).
Proof. right. exists s. reflexivity. Qed.

Fixpoint depth (v : vtree) : nat :=
  match v with
  | VRec _ fs ars => S (fold_right Nat.max O (map depth fs) + fold_right Nat.max O (map (fun a => fold_right Nat.max O (map depth a)) ars))
  | _ => O
  end.

(* values the codec is exact on *)
Fixpoint wf (v : vtree) : Prop :=
  match v with
  | VInt z => int64_min <= z <= int64_max
  | VReal _ => False
  | VBool _ | VChar _ => True
  | VStr s => slen' (mark_newlines s) < two64
  | VDate d m y => 0 <= d <= 255 /\ 0 <= m <= 255 /\ -32768 <= y <= 32767
  | VEnum tn size idx => tn <> [] /\ no_space tn = true /\ 0 <= idx < size /\ size <= two64
  | VPtr => False
  | VRec tn fs ars =>
    tn <> [] /\ no_space tn = true /\ (fs <> [] \/ ars <> []) /\
    (fix all (l : list vtree) : Prop := match l with [] => True | x :: r => wf x /\ all r end) fs /\
    (fix alla (l : list (list vtree)) : Prop :=
       match l with
       | [] => True
       | a :: r => (a <> [] /\ Z.of_nat (List.length a) < two64 /\
                    (fix all (l : list vtree) : Prop := match l with [] => True | x :: r => wf x /\ all r end) a) /\ alla r
       end) ars
  end.
Fixpoint wf_all (l : list vtree) : Prop := match l with [] => True | x :: r => wf x /\ wf_all r end.
Fixpoint wf_arrs (l : list (list vtree)) : Prop :=
  match l with [] => True | a :: r => (a <> [] /\ Z.of_nat (List.length a) < two64 /\ wf_all a) /\ wf_arrs r end.
Lemma wf_rec tn fs ars : wf (VRec tn fs ars) = (tn <> [] /\ no_space tn = true /\ (fs <> [] \/ ars <> []) /\ wf_all fs /\ wf_arrs ars).
Proof. reflexivity. Qed.

(* the variable being loaded into has the type of the value: same constructors, same type names *)
Fixpoint shape (old v : vtree) : Prop :=
  match old, v with
  | VInt _, VInt _ | VBool _, VBool _ | VChar _, VChar _ | VStr _, VStr _ | VDate _ _ _, VDate _ _ _ => True
  | VEnum tn size _, VEnum tn' size' _ => tn = tn' /\ size = size'
  | VRec tn fs ars, VRec tn' fs' ars' =>
    tn = tn' /\
    (fix all2 (a b : list vtree) : Prop := match a, b with [], [] => True | x :: r, y :: t => shape x y /\ all2 r t | _, _ => False end) fs fs' /\
    (fix alla2 (a b : list (list vtree)) : Prop :=
       match a, b with
       | [], [] => True
       | x :: r, y :: t =>
         (fix all2 (a b : list vtree) : Prop := match a, b with [], [] => True | x :: r, y :: t => shape x y /\ all2 r t | _, _ => False end) x y /\ alla2 r t
       | _, _ => False
       end) ars ars'
  | _, _ => False
  end.
Fixpoint shape_all (a b : list vtree) : Prop :=
  match a, b with [], [] => True | x :: r, y :: t => shape x y /\ shape_all r t | _, _ => False end.
Fixpoint shape_arrs (a b : list (list vtree)) : Prop :=
  match a, b with [], [] => True | x :: r, y :: t => shape_all x y /\ shape_arrs r t | _, _ => False end.
Lemma shape_rec tn fs ars tn' fs' ars' :
  shape (VRec tn fs ars) (VRec tn' fs' ars') = (tn = tn' /\ shape_all fs fs' /\ shape_arrs ars ars').
Proof. reflexivity. Qed.

(* every element preceded by one blank *)
Fixpoint join_blank (l : list str) : str := match l with [] => [] | x :: r => sp ++ x ++ join_blank r end.
Lemma join_sp_blank ds : ds <> [] -> sp ++ join_sp ds = join_blank ds.
Proof.
  induction ds as [|x r IH]; [congruence|]. intros _. destruct r as [|y t].
  - cbn. rewrite app_nil_r. reflexivity.
  - change (join_sp (x :: y :: t)) with (x ++ sp ++ join_sp (y :: t)).
    change (join_blank (x :: y :: t)) with (sp ++ x ++ join_blank (y :: t)). rewrite <- IH by discriminate. reflexivity.
Qed.

Lemma expect_tag_skip_blank tag s : expect_tag tag (sp ++ s) = expect_tag tag s.
Proof. reflexivity. Qed.

Lemma load_skip_blank old s v r : load old s = (v, r, true) -> load old (sp ++ s) = (v, r, true).
Proof.
  destruct old; try rewrite !load_rec_unfold; cbn [load]; rewrite ?expect_tag_skip_blank;
  try (match goal with |- context [expect_tag ?t s] => destruct (expect_tag t s) end; [exact (fun H => H)|discriminate]).
  discriminate.
Qed.

Definition exact_on (v : vtree) : Prop :=
  forall old dx rest, wf v -> shape old v -> dump v = Some dx -> sep_ok rest -> load old (dx ++ rest) = (v, rest, true).

Lemma sep_ok_join_blank dt rest : sep_ok rest -> sep_ok (join_blank dt ++ rest).
Proof. intros H. destruct dt as [|d t]; [exact H|]. cbn [join_blank]. rewrite <- app_assoc. apply sep_ok_sp. Qed.

Lemma dump_list_cons x t ds : dump_list (x :: t) = Some ds -> exists dx dt, dump x = Some dx /\ dump_list t = Some dt /\ ds = dx :: dt.
Proof. cbn [dump_list]. destruct (dump x) as [dx|]; [|discriminate]. destruct (dump_list t) as [dt|]; [|discriminate]. intros H; inversion H; eauto. Qed.

Lemma load_list_rt : forall l olds ds rest, (forall x, In x l -> exact_on x) -> wf_all l -> shape_all olds l -> dump_list l = Some ds -> sep_ok rest ->
  load_list olds (join_blank ds ++ rest) = (l, rest, true).
Proof.
  induction l as [|x t IH]; intros olds ds rest HP Hwf Hsh Hd Hr.
  - destruct olds; [|contradiction]. cbn in Hd. inversion Hd; subst. reflexivity.
  - destruct olds as [|o ot]; [contradiction|]. destruct Hsh as [Hs1 Hs2]. destruct Hwf as [Hw1 Hw2].
    destruct (dump_list_cons _ _ _ Hd) as [dx [dt [E1 [E2 ->]]]].
    cbn [join_blank load_list]. rewrite <- !app_assoc.
    rewrite (load_skip_blank o _ x (join_blank dt ++ rest)).
    + rewrite (IH ot dt rest); auto. intros y Hy. apply HP. right. exact Hy.
    + apply (HP x (or_introl eq_refl)); auto. apply sep_ok_join_blank. exact Hr.
Qed.

Lemma shape_all_length a b : shape_all a b -> List.length a = List.length b.
Proof. revert b. induction a as [|x r IH]; intros [|y t] H; try contradiction; [reflexivity|]. cbn. f_equal. apply IH. apply H. Qed.
Lemma dump_list_length l ds : dump_list l = Some ds -> List.length ds = List.length l.
Proof.
  revert ds. induction l as [|x r IH]; intros ds H; [inversion H; reflexivity|].
  destruct (dump_list_cons _ _ _ H) as [dx [dt [_ [E2 ->]]]]. cbn. f_equal. apply IH. exact E2.
Qed.

Lemma expect_tag_array x : expect_tag "ARRAY" (str_of_string "ARRAY " ++ x) = Some (sp ++ x).
Proof. reflexivity. Qed.
Lemma expect_tag_composite x : expect_tag "COMPOSITE" (str_of_string "COMPOSITE " ++ x) = Some (sp ++ x).
Proof. reflexivity. Qed.

Lemma load_arr_rt a olda da rest : (forall x, In x a -> exact_on x) -> a <> [] -> Z.of_nat (List.length a) < two64 -> wf_all a ->
  shape_all olda a -> dump_arr' a = Some da -> sep_ok rest -> load_arr' olda (da ++ rest) = (a, rest, true).
Proof.
  intros HP Hne Hlen Hwf Hsh Hd Hr. unfold dump_arr' in Hd. destruct (dump_list a) as [ds|] eqn:E; [|discriminate].
  assert (Hda : da = str_of_string "ARRAY " ++ z_to_str (slen' (map (fun _ : vtree => ch_nul) a)) ++ sp ++ join_sp ds) by congruence. clear Hd. subst da.
  unfold load_arr'. rewrite <- !app_assoc. rewrite expect_tag_array. unfold rd_size, slen'. rewrite !map_length.
  rewrite rd_integer_after_blank; [|unfold two64 in *; lia|reflexivity].
  rewrite (shape_all_length _ _ Hsh), Z.eqb_refl.
  assert (Hds : ds <> []) by (intros ->; apply dump_list_length in E; destruct a; [congruence|discriminate]).
  rewrite app_assoc, join_sp_blank by exact Hds. apply load_list_rt; assumption.
Qed.

Lemma load_arr_skip_blank a s x r : load_arr' a s = (x, r, true) -> load_arr' a (sp ++ s) = (x, r, true).
Proof. unfold load_arr'. rewrite expect_tag_skip_blank. destruct (expect_tag "ARRAY" s); [exact (fun H => H)|discriminate]. Qed.

Lemma dump_arrs_cons x t ds : dump_arrs' (x :: t) = Some ds -> exists dx dt, dump_arr' x = Some dx /\ dump_arrs' t = Some dt /\ ds = dx :: dt.
Proof. cbn [dump_arrs']. destruct (dump_arr' x) as [dx|]; [|discriminate]. destruct (dump_arrs' t) as [dt|]; [|discriminate]. intros H; inversion H; eauto. Qed.

Lemma load_arrs_rt : forall l olds ds rest, (forall a x, In a l -> In x a -> exact_on x) -> wf_arrs l -> shape_arrs olds l -> dump_arrs' l = Some ds -> sep_ok rest ->
  load_arrs' olds (join_blank ds ++ rest) = (l, rest, true).
Proof.
  induction l as [|a t IH]; intros olds ds rest HP Hwf Hsh Hd Hr.
  - destruct olds; [|contradiction]. cbn in Hd. inversion Hd; subst. reflexivity.
  - destruct olds as [|o ot]; [contradiction|]. destruct Hsh as [Hs1 Hs2]. destruct Hwf as [[Hne [Hlen Hw1]] Hw2].
    destruct (dump_arrs_cons _ _ _ Hd) as [dx [dt [E1 [E2 ->]]]].
    cbn [join_blank load_arrs']. rewrite <- !app_assoc.
    rewrite (load_arr_skip_blank o _ a (join_blank dt ++ rest)).
    + rewrite (IH ot dt rest); auto. intros b y Hb Hy. apply (HP b y); [right; exact Hb|exact Hy].
    + apply load_arr_rt; auto; [intros y Hy; apply (HP a y); [left; reflexivity|exact Hy]|apply sep_ok_join_blank; exact Hr].
Qed.

Lemma load_arrs_skip_blank l s x r : l <> [] -> load_arrs' l s = (x, r, true) -> load_arrs' l (sp ++ s) = (x, r, true).
Proof.
  destruct l as [|a t]; [congruence|]. intros _. cbn [load_arrs'].
  destruct (load_arr' a s) as [[x' s'] ok] eqn:E. destruct ok.
  - rewrite (load_arr_skip_blank a s x' s' E). exact (fun H => H).
  - destruct (load_arrs' t s') as [[? ?] ?]; discriminate.
Qed.

Lemma max_list_ge (f : vtree -> nat) l x : In x l -> (f x <= fold_right Nat.max O (map f l))%nat.
Proof. induction l as [|y r IH]; [contradiction|]. intros [->|H]; cbn; [lia|]. specialize (IH H). lia. Qed.
Lemma depth_field tn fs ars x : In x fs -> (depth x < depth (VRec tn fs ars))%nat.
Proof. intros H. cbn [depth]. pose proof (max_list_ge depth fs x H). lia. Qed.
Lemma depth_elem tn fs ars a x : In a ars -> In x a -> (depth x < depth (VRec tn fs ars))%nat.
Proof.
  intros Ha Hx. cbn [depth]. pose proof (max_list_ge depth a x Hx) as H1.
  assert (H2 : (fold_right Nat.max O (map depth a) <= fold_right Nat.max O (map (fun a0 => fold_right Nat.max O (map depth a0)) ars))%nat).
  { clear -Ha. induction ars as [|b r IH]; [contradiction|]. destruct Ha as [->|H]; cbn; [lia|]. specialize (IH H). lia. }
  lia.
Qed.

Lemma dump_arrs_nil l : dump_arrs' l = Some [] -> l = [].
Proof. destruct l as [|a t]; [reflexivity|]. intros H. destruct (dump_arrs_cons _ _ _ H) as [? [? [_ [_ E]]]]. discriminate. Qed.
Lemma dump_list_nil l : dump_list l = Some [] -> l = [].
Proof. destruct l as [|a t]; [reflexivity|]. intros H. destruct (dump_list_cons _ _ _ H) as [? [? [_ [_ E]]]]. discriminate. Qed.

Theorem codec_exact : forall n v, (depth v <= n)%nat -> exact_on v.
Proof.
  induction n as [n IH] using lt_wf_ind. intros v Hdep old dx rest Hwf Hsh Hd Hr.
  destruct v as [z|r|b|c|s|d m y|tn size idx| |tn fs ars].
  - destruct old; try contradiction. assert (Hdx : dx = str_of_string "INTEGER " ++ z_to_str z) by (cbn [dump] in Hd; congruence).
    subst dx. rewrite <- app_assoc. apply int_field_roundtrip; [exact Hwf|apply sep_ok_nld; exact Hr].
  - contradiction.
  - destruct old; try contradiction. assert (Hdx : dx = str_of_string (if b then "BOOLEAN TRUE"%string else "BOOLEAN FALSE"%string)) by (cbn in Hd; congruence).
    subst dx. apply bool_field_roundtrip. apply sep_ok_we. exact Hr.
  - destruct old; try contradiction. assert (Hdx : dx = str_of_string "CHAR " ++ [c] ++ (if aeqb c ch_nl then [ch_hash] else [])) by (cbn [dump] in Hd; congruence).
    subst dx. rewrite <- !app_assoc. apply char_field_exact.
  - destruct old; try contradiction.
    assert (Hdx : dx = str_of_string "STRING " ++ z_to_str (slen' (mark_newlines s)) ++ sp ++ mark_newlines s) by (cbn [dump] in Hd; congruence).
    subst dx. rewrite <- !app_assoc. apply string_field_roundtrip. exact Hwf.
  - destruct old as [| | | | |d0 m0 y0| | |]; try contradiction. destruct Hwf as [H1 [H2 H3]].
    assert (Hdx : dx = str_of_string "DATE " ++ z_to_str d ++ sp ++ z_to_str m ++ sp ++ z_to_str y) by (cbn [dump] in Hd; congruence).
    subst dx. rewrite <- !app_assoc. apply (date_field_roundtrip d m y rest (d0, m0, y0)); auto. apply sep_ok_nld. exact Hr.
  - destruct old as [| | | | | |tn0 size0 idx0| |]; try contradiction. destruct Hsh as [-> ->]. destruct Hwf as [H1 [H2 [H3 H4]]].
    assert (Hdx : dx = str_of_string "ENUM " ++ tn ++ sp ++ z_to_str idx) by (cbn [dump] in Hd; congruence).
    subst dx. rewrite <- !app_assoc. apply enum_field_roundtrip; auto. apply sep_ok_nld. exact Hr.
  - contradiction.
  - destruct old as [| | | | | | | |tn0 fs0 ars0]; try contradiction.
    rewrite wf_rec in Hwf. destruct Hwf as [Htn [Hns [Hne [Hwf1 Hwf2]]]].
    rewrite shape_rec in Hsh. destruct Hsh as [-> [Hs1 Hs2]].
    rewrite dump_rec_unfold in Hd. destruct (dump_list fs) as [dfs|] eqn:E1; [|discriminate]. destruct (dump_arrs' ars) as [dars|] eqn:E2; [|discriminate].
    assert (Hdx : dx = str_of_string "COMPOSITE " ++ tn ++ sp ++ join_sp dfs ++ (match dars with [] => [] | _ => sp end) ++ join_sp dars) by congruence.
    clear Hd. subst dx.
    assert (PF : forall x, In x fs -> exact_on x).
    { intros x Hx. apply (IH (depth x)); [pose proof (depth_field tn fs ars x Hx); lia|lia]. }
    assert (PA : forall a x, In a ars -> In x a -> exact_on x).
    { intros a x Ha Hx. apply (IH (depth x)); [pose proof (depth_elem tn fs ars a x Ha Hx); lia|lia]. }
    rewrite load_rec_unfold. rewrite <- !app_assoc. rewrite expect_tag_composite.
    rewrite rd_word_after_blank; [|exact Htn|exact Hns|reflexivity]. rewrite str_eqb_refl.
    (* the rest after the fields *)
    set (tail := (match dars with [] => [] | _ => sp end) ++ join_sp dars ++ rest).
    assert (Htail : sep_ok tail).
    { unfold tail. destruct dars; [cbn; exact Hr|apply sep_ok_sp]. }
    assert (Harrs : load_arrs' ars0 tail = (ars, rest, true)).
    { unfold tail. destruct dars as [|da dt] eqn:Edars.
      - apply dump_arrs_nil in E2. subst ars. destruct ars0; [|contradiction]. reflexivity.
      - rewrite app_assoc, join_sp_blank by discriminate. apply load_arrs_rt; auto. }
    destruct dfs as [|df dt] eqn:Edfs.
    + (* no fields: then there are arrays, and the stream has one more blank in front *)
      apply dump_list_nil in E1. subst fs. destruct fs0; [|contradiction]. cbn [join_sp app load_list].
      assert (Hars : ars <> []) by (destruct Hne as [H|H]; [congruence|exact H]).
      assert (Hars0 : ars0 <> []) by (destruct ars0; [destruct ars; [congruence|contradiction]|discriminate]).
      change (sp ++ match dars with [] => [] | _ :: _ => sp end ++ join_sp dars ++ rest) with (sp ++ tail).
      rewrite (load_arrs_skip_blank ars0 tail ars rest Hars0 Harrs). reflexivity.
    + fold tail. rewrite (app_assoc sp), join_sp_blank by discriminate.
      rewrite (load_list_rt fs fs0 (df :: dt) tail PF Hwf1 Hs1 E1 Htail). rewrite Harrs. reflexivity.
Qed.

(* the statement without the auxiliary depth: a value written as one record line reads back as itself *)
Theorem record_roundtrip v old dx : wf v -> shape old v -> dump v = Some dx -> load old dx = (v, [], true).
Proof.
  intros Hw Hs Hd. rewrite <- (app_nil_r dx). apply (codec_exact (depth v) v (le_n _) old dx []); auto. left. reflexivity.
Qed.

(* and every well-formed value can be written *)
Theorem wf_dumps : forall n v, (depth v <= n)%nat -> wf v -> exists dx, dump v = Some dx.
Proof.
  induction n as [n IH] using lt_wf_ind. intros v Hdep Hwf.
  destruct v as [z|r|b|c|s|d m y|tn size idx| |tn fs ars]; try contradiction; try (eexists; reflexivity).
  rewrite wf_rec in Hwf. destruct Hwf as [_ [_ [_ [Hwf1 Hwf2]]]].
  assert (L : forall l, (forall x, In x l -> (depth x < depth (VRec tn fs ars))%nat) -> wf_all l -> exists ds, dump_list l = Some ds).
  { induction l as [|x t IHl]; intros Hd Hw; [eexists; reflexivity|]. destruct Hw as [Hx Ht].
    destruct (IH (depth x) ltac:(pose proof (Hd x (or_introl eq_refl)); lia) x (le_n _) Hx) as [dx Ex].
    destruct (IHl (fun y Hy => Hd y (or_intror Hy)) Ht) as [dt Et]. exists (dx :: dt). cbn [dump_list]. rewrite Ex, Et. reflexivity. }
  destruct (L fs (fun x Hx => depth_field tn fs ars x Hx) Hwf1) as [dfs Efs].
  assert (LA : forall l, (forall a x, In a l -> In x a -> (depth x < depth (VRec tn fs ars))%nat) -> wf_arrs l -> exists ds, dump_arrs' l = Some ds).
  { induction l as [|a t IHl]; intros Hd Hw; [eexists; reflexivity|]. destruct Hw as [[_ [_ Ha]] Ht].
    destruct (L a (fun x Hx => Hd a x (or_introl eq_refl) Hx) Ha) as [da Ea].
    destruct (IHl (fun b y Hb Hy => Hd b y (or_intror Hb) Hy) Ht) as [dt Et].
    eexists. cbn [dump_arrs']. unfold dump_arr'. rewrite Ea, Et. reflexivity. }
  destruct (LA ars (fun a x Ha Hx => depth_elem tn fs ars a x Ha Hx) Hwf2) as [dars Ears].
  rewrite dump_rec_unfold, Efs, Ears. eexists. reflexivity.
Qed.
