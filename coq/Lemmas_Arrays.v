(* Lemmas_Arrays.v — proofs about index linearisation and the array-as-map view. *)
From PE2 Require Import Arrays.
Local Open Scope Z_scope.

Fixpoint lin (idxs : list Z) (ds : list dim) : Z :=
  match idxs, ds with
  | i :: is', d :: ds' => (i - fst d) + dim_size d * lin is' ds'
  | _, _ => 0
  end.

Lemma linear_aux_lin : forall idxs ds prev acc, linear_aux idxs ds prev acc = acc + prev * lin idxs ds.
Proof.
  induction idxs as [|i is' IH]; intros [|d ds] prev acc; cbn [linear_aux lin]; try lia.
  rewrite IH. ring.
Qed.

Lemma all_valid_cons i is' d ds : all_valid (i :: is') (d :: ds) = true -> (fst d <= i <= snd d) /\ all_valid is' ds = true.
Proof. cbn [all_valid]. unfold valid_index. rewrite !andb_true_iff, !Z.leb_le. tauto. Qed.

Lemma lin_range : forall idxs ds, all_valid idxs ds = true -> 0 <= lin idxs ds < total_size ds.
Proof.
  induction idxs as [|i is' IH]; intros [|d ds] H; cbn [lin total_size]; try (cbn in H; discriminate); [lia|].
  apply all_valid_cons in H. destruct H as [Hi Hr]. specialize (IH _ Hr). unfold dim_size in *. nia.
Qed.

Lemma lin_inj : forall idxs idxs' ds,
  all_valid idxs ds = true -> all_valid idxs' ds = true -> lin idxs ds = lin idxs' ds -> idxs = idxs'.
Proof.
  induction idxs as [|i is' IH]; intros [|i' js] [|d ds] H H' E; try (cbn in H; discriminate); try (cbn in H'; discriminate); [reflexivity|].
  apply all_valid_cons in H. apply all_valid_cons in H'. destruct H as [Hi Hr]. destruct H' as [Hi' Hr'].
  cbn [lin] in E.
  pose proof (lin_range _ _ Hr) as R1. pose proof (lin_range _ _ Hr') as R2.
  unfold dim_size in *.
  destruct (Z.div_mod_unique (snd d - fst d + 1) (lin is' ds) (lin js ds) (i - fst d) (i' - fst d)) as [E1 E2]; try lia.
  assert (i = i') by lia. subst. f_equal. eapply IH; eauto.
Qed.

Lemma linear_in_range idxs ds : all_valid idxs ds = true -> 0 <= linear idxs ds < total_size ds.
Proof. intros H. unfold linear. rewrite linear_aux_lin. pose proof (lin_range _ _ H). lia. Qed.

Lemma linear_injective idxs idxs' ds :
  all_valid idxs ds = true -> all_valid idxs' ds = true -> linear idxs ds = linear idxs' ds -> idxs = idxs'.
Proof. unfold linear. rewrite !linear_aux_lin. intros H H' E. eapply lin_inj; eauto. lia. Qed.

(* every cell is addressed by some in-bounds tuple: the map is onto its element vector *)
Lemma lin_surjective : forall ds k, Forall (fun d => fst d <= snd d) ds -> 0 <= k < total_size ds ->
  exists idxs, all_valid idxs ds = true /\ lin idxs ds = k.
Proof.
  induction ds as [|d ds IH]; intros k Hd Hk; cbn [total_size] in Hk.
  - exists []. cbn. split; [reflexivity|lia].
  - inversion Hd as [|? ? Hd1 Hd2]; subst.
    assert (Hs : 0 < dim_size d) by (unfold dim_size; lia).
    assert (Ht : 0 < total_size ds).
    { clear -Hd2. induction Hd2 as [|x l Hx _ IHl]; cbn [total_size]; [lia|]. unfold dim_size. nia. }
    destruct (IH (k / dim_size d) Hd2) as [is' [Hv Hl]].
    { split; [apply Z.div_pos; lia|]. apply Z.div_lt_upper_bound; lia. }
    exists ((fst d + k mod dim_size d) :: is'). split.
    + cbn [all_valid]. rewrite Hv, andb_true_r. unfold valid_index.
      pose proof (Z.mod_pos_bound k (dim_size d) Hs). unfold dim_size in *.
      rewrite andb_true_iff, !Z.leb_le. lia.
    + cbn [lin]. rewrite Hl. pose proof (Z.div_mod k (dim_size d) ltac:(lia)). lia.
Qed.

(* ---- the element vector as a total map: get/set laws on lists addressed by nth_z ---- *)
Fixpoint set_nth {A} (l : list A) (i : Z) (v : A) : list A :=
  match l with [] => [] | x :: r => if i =? 0 then v :: r else x :: set_nth r (i - 1) v end.

Lemma nth_z_set_same {A} : forall (l : list A) i v, 0 <= i < Z.of_nat (List.length l) -> nth_z (set_nth l i v) i = Some v.
Proof.
  induction l as [|x r IH]; intros i v H; cbn [List.length] in H; [lia|].
  cbn [set_nth]. destruct (i =? 0) eqn:E.
  - cbn [nth_z]. rewrite E. reflexivity.
  - cbn [nth_z]. rewrite E. apply Z.eqb_neq in E. destruct (i <? 0) eqn:E2; [lia|]. apply IH. lia.
Qed.

Lemma nth_z_set_other {A} : forall (l : list A) i j v, i <> j -> nth_z (set_nth l i v) j = nth_z l j.
Proof.
  induction l as [|x r IH]; intros i j v H; [reflexivity|].
  cbn [set_nth]. destruct (i =? 0) eqn:E.
  - cbn [nth_z]. destruct (j =? 0) eqn:E2; [lia|]. reflexivity.
  - cbn [nth_z]. destruct (j =? 0) eqn:E2; [reflexivity|]. destruct (j <? 0); [reflexivity|]. apply IH. lia.
Qed.

Lemma nth_z_in_range {A} : forall (l : list A) i, 0 <= i < Z.of_nat (List.length l) -> exists v, nth_z l i = Some v.
Proof.
  induction l as [|x r IH]; intros i H; cbn [List.length] in H; [lia|].
  cbn [nth_z]. destruct (i =? 0) eqn:E; [eauto|]. destruct (i <? 0) eqn:E2; [lia|]. apply IH. lia.
Qed.

Lemma dims_eqb_eq : forall a b, dims_eqb a b = true <-> a = b.
Proof.
  induction a as [|[l h] a IH]; intros [|[l' h'] b]; cbn [dims_eqb fst snd]; split; try congruence; try discriminate; auto.
  - rewrite !andb_true_iff, !Z.eqb_eq. intros [[H1 H2] H3]. apply IH in H3. congruence.
  - intros H; inversion H; subst. rewrite !Z.eqb_refl. cbn. apply IH. reflexivity.
Qed.
